(* C05 — print/parse round trip, operator core.  Executable model only (no proofs).

   expr   : trees over abstract operators: binary operators (BinaryExpressionNode,
            LogicalExpressionNode and RangeLiteralNode operators), prefix unary operators
            (UnaryExpressionNode), atoms.
   print  : mirrors BinaryExpressionNode.String / LogicalExpressionNode.String /
            RangeLiteralNode.String / UnaryExpressionNode.String: a child is wrapped in
            parentheses by comparing ExpressionPrecedence of parent and child, strictly or
            not depending on the operator's associativity rule.  Output = pieces (tokens and
            the spaces the printers write).
   tokens : the lexer's view of the printed text: spaces dropped.
   parse  : operator-precedence parser driven ONLY by the observed behaviour of the real
            recursive-descent parser on operator pairs (the pm matrices), regenerated from
            /repo on every run (Gen/C05_PrecTables.v). *)
From Coq Require Import NArith List Bool.
Import ListNotations.
Open Scope N_scope.

Inductive rule := RL | RR | RN.           (* effective parenthesisation rule of a binary printer:
                                             RL: left child strict (>), right child (>=)
                                             RR: left (>=), right (>)      RN: both (>=) *)
Inductive action := Shift | Reduce | Error.

Record Tables := mkTables {
  nb : N;                                  (* binary operators are 0 .. nb-1 *)
  nu : N;                                  (* unary operators are 0 .. nu-1 *)
  bprec : N -> N;                          (* ExpressionPrecedence of a node with that operator *)
  brule : N -> rule;                       (* from ExpressionAssociativity / the printer's comparison *)
  spaced : N -> bool;                      (* printer writes " op " (true) or "op" (false, ranges) *)
  uprec : N -> N;                          (* ExpressionPrecedence of the unary node *)
  aprec : N;                               (* ExpressionPrecedence of an atom *)
  pm_bb : N -> N -> action;                (* parser on  a o1 b o2 c : Reduce=(a o1 b) o2 c, Shift=a o1 (b o2 c) *)
  pm_ub : N -> N -> action;                (* parser on  u a o b : Reduce=(u a) o b, Shift=u (a o b) *)
  pm_bu : N -> N -> bool;                  (* parser accepts  a o u b *)
  pm_uu : N -> N -> bool                   (* parser accepts  u1 u2 a *)
}.

Inductive expr :=
| Atom (a : N)
| Un (u : N) (x : expr)
| Bin (o : N) (l r : expr).

Inductive tok := TA (a : N) | TU (u : N) | TB (o : N) | TL | TR.
Inductive piece := PT (t : tok) | PSp.

Definition lookup {A} (l : list A) (d : A) (i : N) : A := nth (N.to_nat i) l d.
Definition lookup2 {A} (l : list (list A)) (d : A) (i j : N) : A := nth (N.to_nat j) (nth (N.to_nat i) l []) d.

Section Model.
Variable T : Tables.

Definition prec_of (e : expr) : N :=
  match e with Atom _ => aprec T | Un u _ => uprec T u | Bin o _ _ => bprec T o end.

(* thresholds on 2*precedence of the child: the child is printed bare iff 2*prec child >= threshold *)
Definition lth (o : N) : N := match brule T o with RL => 2 * bprec T o | _ => 2 * bprec T o + 1 end.
Definition rth (o : N) : N := match brule T o with RR => 2 * bprec T o | _ => 2 * bprec T o + 1 end.

Definition lparen (o : N) (l : expr) : bool := 2 * prec_of l <? lth o.
Definition rparen (o : N) (r : expr) : bool := 2 * prec_of r <? rth o.
Definition uparen (u : N) (x : expr) : bool := prec_of x <? uprec T u.

Definition is_un (e : expr) : bool := match e with Un _ _ => true | _ => false end.

Definition wrap (b : bool) (ps : list piece) : list piece :=
  if b then PT TL :: ps ++ [PT TR] else ps.
Definition sep (o : N) : list piece := if spaced T o then [PSp] else [].

Fixpoint print (e : expr) : list piece :=
  match e with
  | Atom a => [PT (TA a)]
  | Un u x => PT (TU u) :: (if is_un x && negb (uparen u x) then [PSp] else [])
                        ++ wrap (uparen u x) (print x)
  | Bin o l r => wrap (lparen o l) (print l) ++ sep o ++ [PT (TB o)] ++ sep o
                 ++ wrap (rparen o r) (print r)
  end.

Fixpoint tokens (ps : list piece) : list tok :=
  match ps with
  | [] => []
  | PSp :: r => tokens r
  | PT t :: r => t :: tokens r
  end.

(* ---- the parser *)
Inductive ctx := CNone | CBin (o : N) | CUn (u : N).

Definition decide (c : ctx) (o : N) : action :=
  match c with CNone => Shift | CBin o1 => pm_bb T o1 o | CUn u => pm_ub T u o end.
Definition unary_ok (c : ctx) (u : N) : bool :=
  match c with CNone => true | CBin o => pm_bu T o u | CUn u1 => pm_uu T u1 u end.

Fixpoint operand (fuel : nat) (c : ctx) (ts : list tok) {struct fuel} : option (expr * list tok) :=
  match fuel with
  | O => None
  | S f =>
    match ts with
    | TA a :: r => loop f c (Atom a) r
    | TL :: r =>
        match operand f CNone r with
        | Some (e, TR :: r') => loop f c e r'
        | _ => None
        end
    | TU u :: r =>
        if unary_ok c u then
          match operand f (CUn u) r with
          | Some (x, r') => loop f c (Un u x) r'
          | None => None
          end
        else None
    | _ => None
    end
  end
with loop (fuel : nat) (c : ctx) (lhs : expr) (ts : list tok) {struct fuel} : option (expr * list tok) :=
  match fuel with
  | O => None
  | S f =>
    match ts with
    | TB o :: r =>
        match decide c o with
        | Shift =>
            match operand f (CBin o) r with
            | Some (rhs, r') => loop f c (Bin o lhs rhs) r'
            | None => None
            end
        | Reduce => Some (lhs, ts)
        | Error => None
        end
    | _ => Some (lhs, ts)
    end
  end.

Definition parse (ts : list tok) : option expr :=
  match operand (5 * length ts + 2) CNone ts with
  | Some (e, []) => Some e
  | _ => None
  end.

(* ---- well-formedness and the agreement condition between printer tables and parser matrices *)
Fixpoint wf (e : expr) : bool :=
  match e with
  | Atom _ => true
  | Un u x => (u <? nu T) && wf x
  | Bin o l r => (o <? nb T) && wf l && wf r
  end.

Fixpoint range (n : nat) : list N :=
  match n with O => [] | S m => range m ++ [N.of_nat m] end.
Definition bops := range (N.to_nat (nb T)).
Definition uops := range (N.to_nat (nu T)).

Definition is_shift a := match a with Shift => true | _ => false end.
Definition is_reduce a := match a with Reduce => true | _ => false end.

(* one clause per way an operator can sit bare next to another in printed text *)
Definition ok_bb (o1 o2 : N) : bool :=
  (if rth o1 <=? 2 * bprec T o2 then is_shift (pm_bb T o1 o2) else true) &&
  (if lth o2 <=? 2 * bprec T o1 then is_reduce (pm_bb T o1 o2) else true).
Definition ok_bu (o u : N) : bool :=
  (if rth o <=? 2 * uprec T u then pm_bu T o u else true).
Definition ok_ub (u o : N) : bool :=
  (if uprec T u <=? bprec T o then is_shift (pm_ub T u o) else true) &&
  (if lth o <=? 2 * uprec T u then is_reduce (pm_ub T u o) else true).
Definition ok_uu (u1 u2 : N) : bool :=
  (if uprec T u1 <=? uprec T u2 then pm_uu T u1 u2 else true).

Definition compat : bool :=
  forallb (fun o1 => forallb (fun o2 => ok_bb o1 o2) bops && forallb (fun u => ok_bu o1 u) uops) bops &&
  forallb (fun u1 => forallb (fun o => ok_ub u1 o) bops && forallb (fun u2 => ok_uu u1 u2) uops) uops.

(* the first disagreeing pair, for diagnostics: (kind, i, j) kind 0=bb 1=bu 2=ub 3=uu *)
Definition bad_pairs : list (N * N * N) :=
  flat_map (fun o1 => flat_map (fun o2 => if ok_bb o1 o2 then [] else [(0, o1, o2)]) bops
                   ++ flat_map (fun u => if ok_bu o1 u then [] else [(1, o1, u)]) uops) bops ++
  flat_map (fun u1 => flat_map (fun o => if ok_ub u1 o then [] else [(2, u1, o)]) bops
                   ++ flat_map (fun u2 => if ok_uu u1 u2 then [] else [(3, u1, u2)]) uops) uops.

End Model.
