(* C22 — executable model of Elk's DateTime in FIXED-OFFSET time zones (Timezone.from_offset,
   zones parsed from the `%z` / `%:z` directives): civil fields + offset, the instant they
   denote, zone conversion, + Time::Span, + Date::Span, comparison, and Format / ParseDateTime
   for the numeric date directives of Model/C22_Civil.v plus %H %M %S (- and _ variants) %L %N
   %9N %T %R %z %:z.  Definitions only.

   Mirrors /repo/value/datetime.go (MakeDateTime, InZone, AddTimeSpan, AddDateSpan, Cmp, Format,
   ParseDateTime, parseDateTimeTimezoneOffset), value/time.go (parseTimeHour/Minute/Second/
   Millisecond/Nanosecond, constructTimeFromTmp) and value/timezone.go (NewTimezoneFromOffset).
   The code has NO state: every operation is a function of its operands.  The last section
   models the alternative in which parseDateTimeTimezoneOffset memoises the zone it creates in a
   process-wide table (see Props/C22.v: transparent exactly when the key determines the offset). *)
From Coq Require Import ZArith List Bool Lia.
From Elk Require Import Base.GoSem Model.C22_Civil.
Import ListNotations.
Open Scope Z_scope.

(* ------------------------------------------------------------------ values *)

(* civil fields as the accessors Year() .. NanosecondsInSecond() return them, and
   ZoneOffsetSeconds() (seconds east of UTC) *)
Record zdt := mkZ { zy : Z; zm : Z; zd : Z; zH : Z; zM : Z; zS : Z; zns : Z; zoff : Z }.

Definition SECS_DAY : Z := 86400.
Definition NS_SEC : Z := 1000000000.

(* seconds on the zone's own wall clock since 1970-01-01 00:00:00 wall clock *)
Definition local_secs (t : zdt) : Z :=
  days_from_civil (zy t) (zm t) (zd t) * SECS_DAY + zH t * 3600 + zM t * 60 + zS t.

(* UnixSeconds(): instant = civil fields - offset *)
Definition instant (t : zdt) : Z := local_secs t - zoff t.

(* the civil fields of a wall-clock second count in the zone with offset off *)
Definition of_local (secs ns off : Z) : zdt :=
  let r := secs mod SECS_DAY in
  let '(y, m, d) := civil_from_days (secs / SECS_DAY) in
  mkZ y m d (r / 3600) (r mod 3600 / 60) (r mod 60) ns off.

(* MakeDateTime = time.Date(y, m, d, H, M, S, ns, FixedZone(off)): out-of-range fields are
   normalised by carrying (TRUSTED like go_date; validated by stream c22.hist) *)
Definition mk_dt (y m d H M S ns off : Z) : zdt :=
  let '(y1, m1, d1) := go_date y m d in
  of_local (days_from_civil y1 m1 d1 * SECS_DAY + H * 3600 + M * 60 + S + ns / NS_SEC) (ns mod NS_SEC) off.

Definition valid_zdt (t : zdt) : Prop :=
  valid_date (zy t) (zm t) (zd t) /\ 0 <= zH t <= 23 /\ 0 <= zM t <= 59 /\ 0 <= zS t <= 59 /\
  0 <= zns t < NS_SEC.

(* offsets that `%z` / `%:z` can express and Timezone.from_offset accepts: whole minutes,
   strictly less than 24 h in either direction *)
Definition valid_off (off : Z) : Prop := - 86400 < off < 86400 /\ off mod 60 = 0.

(* InZone: the same instant on another zone's wall clock *)
Definition in_zone (t : zdt) (off2 : Z) : zdt := of_local (instant t + off2) (zns t) off2.

(* AddTimeSpan: t.native.Add(ns) *)
Definition add_time (t : zdt) (n : Z) : zdt :=
  let total := zns t + n in
  of_local (local_secs t + total / NS_SEC) (total mod NS_SEC) (zoff t).

(* AddDateSpan: the date moves as Date + Date::Span does, wall-clock time and zone stay *)
Definition add_date (t : zdt) (s : span) : zdt :=
  let '(y, m, d) := add_span_ymd (zy t, zm t, zd t) s in
  mk_dt y m d (zH t) (zM t) (zS t) (zns t) (zoff t).

(* Cmp: time.Time.Compare - instants, then nanoseconds *)
Definition zcmp (a b : zdt) : Z :=
  match instant a ?= instant b with
  | Lt => -1 | Gt => 1
  | Eq => match zns a ?= zns b with Lt => -1 | Eq => 0 | Gt => 1 end
  end.

(* ------------------------------------------------------------------ the offset directive *)

(* Format, TIMEZONE_OFFSET / TIMEZONE_OFFSET_COLON: sign, %02d hours, [:], %02d minutes *)
Definition fmt_off (colon : bool) (off : Z) : str :=
  let a := Z.abs off in
  (if off <? 0 then [45] else [43]) ++ fmt_num PZero 2 (a / 3600) ++
  (if colon then [58] else []) ++ fmt_num PZero 2 (a mod 3600 / 60).

(* parseDateTimeTimezoneOffset up to the creation of the zone: sign, hours, minutes, rest *)
Definition scan_off (colon : bool) (s : str) : option (Z * Z * Z * str) :=
  match s with
  | [] => None
  | c :: s1 =>
    let sg := if c =? 43 then 1 else if c =? 45 then -1 else 0 in
    if sg =? 0 then None else
    match parse_num 2 false s1 with
    | None => None
    | Some (h, s2) =>
      if 24 <=? h then None else
      match (if colon then match_text [58] s2 else Some s2) with
      | None => None
      | Some s3 =>
        match parse_num 2 false s3 with
        | None => None
        | Some (mi, s4) => if 60 <=? mi then None else Some (sg, h, mi, s4)
        end
      end
    end
  end.

(* offset := sign * (hours*Hour + minutes*Minute); NewTimezoneFromOffset(offset) *)
Definition off_of (sg h mi : Z) : Z := sg * (h * 3600 + mi * 60).

Definition parse_off (colon : bool) (s : str) : option (Z * str) :=
  match scan_off colon s with
  | None => None
  | Some (sg, h, mi, r) => Some (off_of sg h mi, r)
  end.

(* ------------------------------------------------------------------ Format *)

Inductive ztok :=
| ZD (t : tok)                 (* a date directive or text of Model/C22_Civil.v *)
| ZHour (p : pad) | ZMin (p : pad) | ZSec (p : pad)
| ZMilli | ZNano               (* %L ; %N = %9N *)
| ZT | ZR                      (* %T = %H:%M:%S ; %R = %H:%M *)
| ZOff (colon : bool).         (* %z ; %:z *)

Definition zformat_tok (t : zdt) (k : ztok) : str :=
  match k with
  | ZD d => format_tok (pack (zy t) (zm t) (zd t)) d
  | ZHour p => fmt_num p 2 (zH t)
  | ZMin p => fmt_num p 2 (zM t)
  | ZSec p => fmt_num p 2 (zS t)
  | ZMilli => fmt_num PZero 3 (zns t / 1000000)
  | ZNano => fmt_num PZero 9 (zns t)
  | ZT => fmt_num PZero 2 (zH t) ++ [58] ++ fmt_num PZero 2 (zM t) ++ [58] ++ fmt_num PZero 2 (zS t)
  | ZR => fmt_num PZero 2 (zH t) ++ [58] ++ fmt_num PZero 2 (zM t)
  | ZOff c => fmt_off c (zoff t)
  end.

Fixpoint zformat (fmt : list ztok) (t : zdt) : str :=
  match fmt with [] => [] | k :: r => zformat_tok t k ++ zformat r t end.

(* ------------------------------------------------------------------ ParseDateTime *)

Record ttmp := mkTT { tt_h : option Z; tt_m : option Z; tt_s : option Z; tt_ns : option Z }.
Definition ttmp0 := mkTT None None None None.

Record zstate := mkZS { zs_date : tmp; zs_time : ttmp; zs_zone : option Z; zs_in : str }.
Definition zstate0 (s : str) := mkZS tmp0 ttmp0 None s.

Definition is_space_pad (p : pad) : bool := match p with PSpace => true | _ => false end.

Definition zp_num (maxc hi : Z) (sp : bool) (st : zstate) (upd : ttmp -> Z -> ttmp) : perr + zstate :=
  match parse_num maxc sp (zs_in st) with
  | None => inl EFormat
  | Some (n, r) => if hi <? n then inl EFormat else inr (mkZS (zs_date st) (upd (zs_time st) n) (zs_zone st) r)
  end.

Definition set_h (t : ttmp) (n : Z) := mkTT (Some n) (tt_m t) (tt_s t) (tt_ns t).
Definition set_m (t : ttmp) (n : Z) := mkTT (tt_h t) (Some n) (tt_s t) (tt_ns t).
Definition set_s (t : ttmp) (n : Z) := mkTT (tt_h t) (tt_m t) (Some n) (tt_ns t).
Definition set_ms (t : ttmp) (n : Z) := mkTT (tt_h t) (tt_m t) (tt_s t) (Some (n * 1000000)).
Definition set_ns (t : ttmp) (n : Z) := mkTT (tt_h t) (tt_m t) (tt_s t) (Some n).

Definition zp_text (x : str) (st : zstate) : perr + zstate :=
  match match_text x (zs_in st) with
  | None => inl EFormat
  | Some r => inr (mkZS (zs_date st) (zs_time st) (zs_zone st) r)
  end.

Definition zthen (a : perr + zstate) (f : zstate -> perr + zstate) : perr + zstate :=
  match a with inl e => inl e | inr st => f st end.

(* what temporalNextTokenIsNotDigit sees: only text tokens can be "not a digit" *)
Definition znext (rest : list ztok) : list tok :=
  match rest with
  | [] => []
  | ZD d :: _ => [d]
  | _ :: _ => [TYear PZero]
  end.

Definition zparse_tok (k : ztok) (rest : list ztok) (st : zstate) : perr + zstate :=
  match k with
  | ZD d =>
    match parse_tok d (znext rest) (zs_date st, zs_in st) with
    | inl e => inl e
    | inr (dt, r) => inr (mkZS dt (zs_time st) (zs_zone st) r)
    end
  | ZHour p => zp_num 2 23 (is_space_pad p) st set_h
  | ZMin p => zp_num 2 59 (is_space_pad p) st set_m
  | ZSec p => zp_num 2 59 (is_space_pad p) st set_s
  | ZMilli => zp_num 3 999 false st set_ms
  | ZNano => zp_num 9 999999999 false st set_ns
  | ZT => zthen (zthen (zthen (zthen (zp_num 2 23 false st set_h) (zp_text [58]))
                              (fun s => zp_num 2 59 false s set_m)) (zp_text [58]))
                (fun s => zp_num 2 59 false s set_s)
  | ZR => zthen (zthen (zp_num 2 23 false st set_h) (zp_text [58])) (fun s => zp_num 2 59 false s set_m)
  | ZOff c =>
    match parse_off c (zs_in st) with
    | None => inl EFormat
    | Some (off, r) => inr (mkZS (zs_date st) (zs_time st) (Some off) r)
    end
  end.

Fixpoint zparse_toks (fmt : list ztok) (st : zstate) : perr + zstate :=
  match fmt with
  | [] => inr st
  | k :: rest => zthen (zparse_tok k rest st) (zparse_toks rest)
  end.

(* constructDateFromTmp, constructTimeFromTmp, MakeDateTimeFromDateAndTime; without a zone
   directive the result is in the process's local zone: outside the model *)
Definition zconstruct (st : zstate) : perr + zdt :=
  match construct (zs_date st) with
  | inl e => inl e
  | inr bits =>
    match zs_zone st with
    | None => inl ENeedsNow
    | Some off =>
      let '(y, m, d) := unpack bits in
      let tt := zs_time st in
      inr (mk_dt y m d (oget (tt_h tt)) (oget (tt_m tt)) (oget (tt_s tt)) (oget (tt_ns tt)) off)
    end
  end.

Definition zparse (fmt : list ztok) (s : str) : perr + zdt :=
  match zparse_toks fmt (zstate0 s) with
  | inl e => inl e
  | inr st => match zs_in st with [] => zconstruct st | _ :: _ => inl EFormat end
  end.

(* DefaultDateTimeFormat = "%Y-%m-%d %H:%M:%S.%9N %:z" (DateTime#to_string, DateTime.parse) *)
Definition zdefault_format : list ztok :=
  [ZD (TYear PZero); ZD (TText [45]); ZD (TMonth PZero); ZD (TText [45]); ZD (TDay PZero); ZD (TText [32]);
   ZHour PZero; ZD (TText [58]); ZMin PZero; ZD (TText [58]); ZSec PZero; ZD (TText [46]); ZNano;
   ZD (TText [32]); ZOff true].

(* ------------------------------------------------------------------ histories *)

(* A process-wide memo table for the zones created by the offset directive: key -> offset.
   `key sg h mi` says under which key the zone for sign sg, hours h, minutes mi is stored. *)
Definition memo := list (Z * Z).

Fixpoint lookup (k : Z) (t : memo) : option Z :=
  match t with
  | [] => None
  | (k', v) :: r => if k =? k' then Some v else lookup k r
  end.

Definition parse_off_memo (key : Z -> Z -> Z -> Z) (t : memo) (colon : bool) (s : str) : memo * option (Z * str) :=
  match scan_off colon s with
  | None => (t, None)
  | Some (sg, h, mi, r) =>
    let k := key sg h mi in
    match lookup k t with
    | Some v => (t, Some (v, r))
    | None => let v := off_of sg h mi in ((k, v) :: t, Some (v, r))
    end
  end.

(* a history: the offset texts parsed one after the other in one process *)
Fixpoint run_memo (key : Z -> Z -> Z -> Z) (t : memo) (h : list (bool * str)) : list (option (Z * str)) :=
  match h with
  | [] => []
  | (c, s) :: rest => let '(t', r) := parse_off_memo key t c s in r :: run_memo key t' rest
  end.

(* every operation on its own *)
Fixpoint run_isolated (h : list (bool * str)) : list (option (Z * str)) :=
  match h with
  | [] => []
  | (c, s) :: rest => parse_off c s :: run_isolated rest
  end.

(* keys: magnitude only (hours, minutes) - and magnitude with the sign *)
Definition key_unsigned (sg h mi : Z) : Z := h * 60 + mi.
Definition key_signed (sg h mi : Z) : Z := sg * (h * 60 + mi).

Open Scope nat_scope.
