(* C07 — Elk floats: Float and Float64 are IEEE-754 binary64, Float32 is binary32 (Flocq's
   formalisation; round to nearest, ties to even).  Values travel as bit patterns.  NaN
   payloads are not part of the property: every NaN is reported as "nan" by the driver.
   Definitions only. *)
From Coq Require Import ZArith.
From Flocq Require Import Core IEEE754.BinarySingleNaN IEEE754.Binary IEEE754.Bits.
Open Scope Z_scope.

Inductive fop := FAdd | FSub | FMul | FDiv.

(* f + o, f - o, f * o, f / o on Go float64 / float32 *)
Definition f64_op (o : fop) (x y : binary64) : binary64 :=
  match o with
  | FAdd => b64_plus mode_NE x y | FSub => b64_minus mode_NE x y
  | FMul => b64_mult mode_NE x y | FDiv => b64_div mode_NE x y
  end.
Definition f32_op (o : fop) (x y : binary32) : binary32 :=
  match o with
  | FAdd => b32_plus mode_NE x y | FSub => b32_minus mode_NE x y
  | FMul => b32_mult mode_NE x y | FDiv => b32_div mode_NE x y
  end.

Definition f64_is_nan (x : binary64) : bool := Binary.is_nan 53 1024 x.
Definition f32_is_nan (x : binary32) : bool := Binary.is_nan 24 128 x.

(* <=> : nil when unordered *)
Definition f64_cmp (x y : binary64) : option comparison := b64_compare x y.
Definition f32_cmp (x y : binary32) : option comparison := b32_compare x y.

Inductive frel := RLt | RLe | RGt | RGe | REq.
Definition rel_of (r : frel) (c : option comparison) : bool :=
  match c, r with
  | None, _ => false
  | Some Lt, (RLt | RLe) => true
  | Some Gt, (RGt | RGe) => true
  | Some Eq, (RLe | RGe | REq) => true
  | _, _ => false
  end.

(* integer -> float: one rounding, to nearest even (Go's float64(i), float32(i),
   big.Int.Float64) *)
Definition f64_of_int (z : Z) : binary64 :=
  Binary.binary_normalize 53 1024 (eq_refl _) (eq_refl _) mode_NE z 0 false.
Definition f32_of_int (z : Z) : binary32 :=
  Binary.binary_normalize 24 128 (eq_refl _) (eq_refl _) mode_NE z 0 false.

Definition nan32 : binary32 := b32_of_bits 2143289344.            (* 0x7FC00000 *)
Definition nan64 : binary64 := b64_of_bits 9221120237041090560.   (* 0x7FF8000000000000 *)

(* Float32(f): one rounding to binary32;  Float64(f32): exact *)
Definition f32_of_f64 (x : binary64) : binary32 :=
  match x with
  | Binary.B754_zero _ _ s => Binary.B754_zero _ _ s
  | Binary.B754_infinity _ _ s => Binary.B754_infinity _ _ s
  | Binary.B754_nan _ _ _ _ _ => nan32
  | Binary.B754_finite _ _ s m e _ =>
      Binary.binary_normalize 24 128 (eq_refl _) (eq_refl _) mode_NE (cond_Zopp s (Zpos m)) e s
  end.
Definition f64_of_f32 (x : binary32) : binary64 :=
  match x with
  | Binary.B754_zero _ _ s => Binary.B754_zero _ _ s
  | Binary.B754_infinity _ _ s => Binary.B754_infinity _ _ s
  | Binary.B754_nan _ _ _ _ _ => nan64
  | Binary.B754_finite _ _ s m e _ =>
      Binary.binary_normalize 53 1024 (eq_refl _) (eq_refl _) mode_NE (cond_Zopp s (Zpos m)) e s
  end.

(* Float.to_int on finite values: truncation toward zero *)
Definition f64_trunc (x : binary64) : Z := Binary.Btrunc 53 1024 x.
Definition f64_is_finite (x : binary64) : bool := Binary.is_finite 53 1024 x.

(* the same on bit patterns, for the driver *)
Definition f64_op_bits (o : fop) (a b : Z) : Z := bits_of_b64 (f64_op o (b64_of_bits a) (b64_of_bits b)).
Definition f32_op_bits (o : fop) (a b : Z) : Z := bits_of_b32 (f32_op o (b32_of_bits a) (b32_of_bits b)).
Definition f64_cmp_bits (a b : Z) := f64_cmp (b64_of_bits a) (b64_of_bits b).
Definition f32_cmp_bits (a b : Z) := f32_cmp (b32_of_bits a) (b32_of_bits b).
Definition f64_nan_bits (a : Z) : bool := f64_is_nan (b64_of_bits a).
Definition f32_nan_bits (a : Z) : bool := f32_is_nan (b32_of_bits a).
Definition f64_of_int_bits (z : Z) : Z := bits_of_b64 (f64_of_int z).
Definition f32_of_int_bits (z : Z) : Z := bits_of_b32 (f32_of_int z).
Definition f32_of_f64_bits (a : Z) : Z := bits_of_b32 (f32_of_f64 (b64_of_bits a)).
Definition f64_of_f32_bits (a : Z) : Z := bits_of_b64 (f64_of_f32 (b32_of_bits a)).
Definition f64_trunc_bits (a : Z) : option Z :=
  let x := b64_of_bits a in if f64_is_finite x then Some (f64_trunc x) else None.
