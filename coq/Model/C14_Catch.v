(* C14 — catch-entry tables and the VM's lookups (vm/thread.go rethrow,
   findFinallyCatchEntry): first entry of the wanted kind with From < ip <= To.
   Definitions only. *)
From Coq Require Import ZArith List Bool.
Import ListNotations.
Open Scope Z_scope.

Record entry := mkEntry { e_from : Z; e_to : Z; e_jump : Z; e_fin : bool }.

Definition covers (e : entry) (ip : Z) : bool := (e_from e <? ip) && (ip <=? e_to e).

(* vm.rethrow uses kind = false, findFinallyCatchEntry uses kind = true *)
Fixpoint lookup (kind : bool) (ip : Z) (tbl : list entry) : option entry :=
  match tbl with
  | [] => None
  | e :: r => if Bool.eqb (e_fin e) kind && covers e ip then Some e else lookup kind ip r
  end.

(* range inclusion of half-open intervals (from, to] *)
Definition incl_b (a b : entry) : bool := (e_from b <=? e_from a) && (e_to a <=? e_to b).
Definition disjoint_b (a b : entry) : bool := (e_to a <=? e_from b) || (e_to b <=? e_from a).
Definition nonempty_b (a : entry) : bool := e_from a <? e_to a.

(* any two ranges are nested or disjoint *)
Definition laminar_pair (a b : entry) : bool := incl_b a b || incl_b b a || disjoint_b a b.
Fixpoint laminar (tbl : list entry) : bool :=
  match tbl with
  | [] => true
  | e :: r => forallb (laminar_pair e) r && laminar r
  end.

(* an entry never precedes an entry strictly nested inside it (children first) *)
Definition po_pair (first later : entry) : bool := implb (incl_b later first) (incl_b first later).
Fixpoint post_order (tbl : list entry) : bool :=
  match tbl with
  | [] => true
  | e :: r => forallb (po_pair e) r && post_order r
  end.

(* entry shape at a finally entry's jump address: NIL; JUMP hi lo; UNDEFINED  — the VM enters
   at jump (return) or jump + 4 (break/continue). Opcodes are passed in by the harness. *)
Definition finally_entry_ok (op_nil op_jump op_undef : Z) (code : list Z) (j : Z) : bool :=
  match j with
  | Zneg _ => false
  | _ =>
      let k := Z.to_nat j in
      (nth k code (-1) =? op_nil) && (nth (k + 1) code (-1) =? op_jump) &&
      (nth (k + 4) code (-1) =? op_undef)
  end.

(* decoding view: at address j the instruction is NIL (1 byte) followed by JUMP (3 bytes);
   the address of the instruction after those two *)
Definition after_nil_jump (op_nil op_jump : Z) (code : list Z) (j : nat) : option nat :=
  if (nth j code (-1) =? op_nil) && (nth (j + 1) code (-1) =? op_jump)
  then Some (j + 1 + 3)%nat else None.

Definition table_ok (tbl : list entry) : bool :=
  laminar tbl && post_order tbl.
