(* C11 — what happens AFTER concurrent.Foreach: post-passes over results the parallel tasks left behind.
   Executable model only.

   checkMethodBodies pushes every method that is called in a constant initialiser to c.methodCache WHEN ITS
   BODY CHECK COMPLETES, so c.methodCache.Slice is in completion order - a permutation of the roots that
   depends on the schedule.  checkMethodsInConstants then walks, for every root in that order, the call graph
   (Method.CalledMethods, written by the body tasks) and reports every reachable method that reads one of the
   constants the root is used in (Method.UsedInConstants):

     func (c *Checker) checkMethodsInConstants() {
       for _, method := range c.methodCache.Slice { c.checkMethodInConstant(method, method.UsedInConstants) } }
     func (c *Checker) checkMethodInConstant(method, usedInConstants) {
       for _, called := range method.CalledMethods { c.checkMethodInConstant(called, usedInConstants) }
       for k := range usedInConstants { if method.UsedConstants.Contains(k) { addFailure(method, k) } } }

   Methods are nat, constants Z, a diagnostic is the pair (method, constant).  [fuel] bounds the depth of the
   walk: the Go code has no guard, so on a cyclic call graph it does not terminate (stack overflow - at every
   schedule); on an acyclic graph any fuel above the longest path gives the Go result. *)
From Coq Require Import ZArith List Bool Arith.
Import ListNotations.

Record cgraph := { calls : nat -> list nat;      (* Method.CalledMethods *)
                   reads : nat -> list Z;        (* Method.UsedConstants *)
                   used_in : nat -> list Z }.    (* Method.UsedInConstants *)

Definition mem_z (c : Z) (l : list Z) : bool := existsb (Z.eqb c) l.
Definition mem_n (m : nat) (l : list nat) : bool := existsb (Nat.eqb m) l.

Definition own_diags (G : cgraph) (m : nat) (cs : list Z) : list (nat * Z) :=
  map (pair m) (filter (fun c => mem_z c (reads G m)) cs).

(* checkMethodInConstant as found *)
Fixpoint walk (G : cgraph) (fuel : nat) (m : nat) (cs : list Z) {struct fuel} : list (nat * Z) :=
  match fuel with
  | O => []
  | S f => flat_map (fun c => walk G f c cs) (calls G m) ++ own_diags G m cs
  end.

(* checkMethodsInConstants as found: every root on its own *)
Definition postpass (G : cgraph) (fuel : nat) (roots : list nat) : list (nat * Z) :=
  flat_map (fun r => walk G fuel r (used_in G r)) roots.

(* the walk with a visited set threaded through it (a guard against revisiting / recursion) *)
Fixpoint walk_v (G : cgraph) (fuel : nat) (cs : list Z) (m : nat) (vis : list nat) {struct fuel}
  : list (nat * Z) * list nat :=
  match fuel with
  | O => ([], vis)
  | S f =>
      if mem_n m vis then ([], vis) else
      let r := fold_left (fun acc c => let x := walk_v G f cs c (snd acc) in (fst acc ++ fst x, snd x))
                         (calls G m) ([], m :: vis) in
      (fst r ++ own_diags G m cs, snd r)
  end.

(* ... with ONE visited set shared by all roots: state that survives from one root to the next *)
Definition postpass_shared (G : cgraph) (fuel : nat) (roots : list nat) : list (nat * Z) :=
  fst (fold_left (fun acc r => let x := walk_v G fuel (used_in G r) r (snd acc) in (fst acc ++ fst x, snd x))
                 roots ([], [])).

(* ... with a FRESH visited set for every root: again every root on its own *)
Definition postpass_perroot (G : cgraph) (fuel : nat) (roots : list nat) : list (nat * Z) :=
  flat_map (fun r => fst (walk_v G fuel (used_in G r) r [])) roots.

(* ---------------------------------------------------------------------------------------------
   A task that READS the shared failure flag.  checkMacroDefinition / checkMethodDefinition compile the body
   they checked only `if c.shouldCompile...()`, i.e. when Errors.IsFailure() is false at that moment: whether
   a body is compiled depends on whether ANY task has appended a failure before.  Coarse model (whole tasks
   atomic, which is enough for the witness): a task appends its diagnostics [d] and is compiled iff the list
   is still empty afterwards. *)
(* a task = the diagnostics it appends *)

Definition grun_step (tasks : list (list Z)) (acc : list Z * list (nat * bool)) (t : nat) : list Z * list (nat * bool) :=
  match nth_error tasks t with
  | None => acc
  | Some d => let ds := fst acc ++ d in
              (ds, snd acc ++ [(t, match ds with [] => true | _ => false end)])
  end.

Definition grun (tasks : list (list Z)) (order : list nat) : list Z * list (nat * bool) :=
  fold_left (grun_step tasks) order ([], []).

(* was task t compiled in that run? *)
Definition compiled (res : list (nat * bool)) (t : nat) : option bool :=
  match find (fun e => Nat.eqb (fst e) t) res with Some e => Some (snd e) | None => None end.
