(* C34 — executable model of the Elk test runner's case selection and exit status
   (ext/std/test/filter.go, test.go describe/it/test/should, suite.go Run, case.go Run,
   suite_report.go / case_report.go UpdateStatus, cmd/elk/main.go runTestFile).
   The filter combination mirrors the code AFTER fixes/C34-filter-combination.patch: every
   suite remembers, per filter, whether that filter matched it (or an ancestor) in full; a
   fully matched filter is not consulted again below that suite, every other filter still is.
   The exit status mirrors the code as it is (an empty run reports SKIPPED and exits 1).
   No proofs here so the model always runs. *)
From Coq Require Import ZArith List Bool.
Import ListNotations.
Open Scope Z_scope.

(* List combinators: verbatim copies of Coq's List.map, flat_map, forallb, existsb, fold_left, concat,
   list_sum, rev, skipn (convertible with them, see Proofs/C34_Filter.v) under other names, so that
   the extracted code has no module called List (ocaml/common/zio.ml uses OCaml's own List). *)
Section ListOps.
  Context {A B : Type}.
  Definition lmap (f : A -> B) : list A -> list B :=
    fix go (l : list A) : list B := match l with [] => [] | x :: r => f x :: go r end.
  Definition lflat_map (f : A -> list B) : list A -> list B :=
    fix go (l : list A) : list B := match l with [] => [] | x :: r => f x ++ go r end.
  Definition lforallb (f : A -> bool) : list A -> bool :=
    fix go (l : list A) : bool := match l with [] => true | x :: r => f x && go r end.
  Definition lexistsb (f : A -> bool) : list A -> bool :=
    fix go (l : list A) : bool := match l with [] => false | x :: r => f x || go r end.
  Definition lfold_left (f : A -> B -> A) : list B -> A -> A :=
    fix go (l : list B) (a : A) : A := match l with [] => a | b :: t => go t (f a b) end.
  Fixpoint lconcat (l : list (list A)) : list A := match l with [] => [] | x :: r => x ++ lconcat r end.
  Fixpoint lrev (l : list A) : list A := match l with [] => [] | x :: r => lrev r ++ [x] end.
  Fixpoint lskipn (n : nat) (l : list A) : list A :=
    match n with O => l | S n' => match l with [] => [] | _ :: r => lskipn n' r end end.
End ListOps.
Fixpoint lsum (l : list nat) : nat := match l with [] => O | x :: r => (x + lsum r)%nat end.

(* Names, file paths and patterns are byte strings: lists of byte values. (Coq's String library is
   avoided so that the extracted code has no module called String.) *)
Definition str : Type := list Z.
Fixpoint str_eqb (a b : str) : bool :=
  match a, b with
  | [], [] => true
  | x :: a', y :: b' => (x =? y) && str_eqb a' b'
  | _, _ => false
  end.
Definition is_empty (a : str) : bool := match a with [] => true | _ => false end.
Definition sp : str := [32].            (* " " *)
Definition sep : str := [32; 62; 32].   (* " > " *)

(* outcome of running a closure: passes, raises an AssertionError (fail), raises anything else (error) *)
Inductive outcome3 : Type := OPass | OFail | OError.
Definition bad (o : outcome3) : bool := match o with OPass => false | _ => true end.
Definition hook_bad (h : option outcome3) : bool := match h with Some o => bad o | None => false end.

(* position.Location restricted to what the filters read *)
Record loc : Type := mkLoc { lfile : str; lfirst : Z; llast : Z }.
Record cinfo : Type := mkCase { cid : Z; cname : str; cloc : loc; cout : outcome3 }.
(* at most one hook of each kind per suite; None = not declared *)
Record sinfo : Type := mkSuite { sid : Z; sname : str; sloc : loc;
                                 h_ba : option outcome3; h_be : option outcome3;
                                 h_ae : option outcome3; h_aa : option outcome3 }.
(* what the test file declares: describe/context blocks and it/test/should cases, in source order *)
Inductive tree : Type := TCase (c : cinfo) | TSuite (s : sinfo) (kids : list tree).

Inductive filter : Type := FPath (pat : str) (line : Z) | FGrep (re : str).
Inductive smatch : Type := MFalse | MTrue | MFull.

(* what registration keeps (Suite.SubSuites / Suite.Cases) *)
Inductive rtree : Type := RCase (c : cinfo) | RSuite (s : sinfo) (kids : list rtree).

Inductive hookkind : Type := HBeforeAll | HBeforeEach | HAfterEach | HAfterAll.
(* what happened during the run: a case body ran / a declared hook ran *)
Inductive event : Type := EvCase (id : Z) (o : outcome3) | EvHook (k : hookkind) (suite : Z) (o : outcome3).
Definition ev_bad (e : event) : bool := match e with EvCase _ o => bad o | EvHook _ _ o => bad o end.
Definition exec_ids (evs : list event) : list Z :=
  lflat_map (fun e => match e with EvCase id _ => [id] | _ => [] end) evs.

(* TestStatus (test.go) *)
Inductive status : Type := SPending | SFailed | SError | SSkipped | SRunning | SSuccess.
Definition is_fail (s : status) : bool := match s with SFailed | SError => true | _ => false end.
(* CaseReport.UpdateStatus / SuiteReport.UpdateStatus *)
Definition update (cur new : status) : status :=
  match new with
  | SError => SError
  | SFailed => match cur with SError => SError | _ => SFailed end
  | SSuccess => match cur with SRunning => SSuccess | _ => cur end
  | _ => cur
  end.
(* status assigned when a closure raises: AssertionError -> FAILED, otherwise ERROR *)
Definition st_of (o : outcome3) (cur : status) : status :=
  match o with OPass => cur | OFail => SFailed | OError => SError end.

Definition in_span (l : Z) (lc : loc) : bool := (lfirst lc <=? l) && (l <=? llast lc).

(* ---- names (suite.go FullName / FullNameWithSeparator, case.go FullNameWithSeparator).
   ranc = chain of enclosing suites, innermost first, the root suite (name "") left implicit. *)
Fixpoint sfull (ranc : list sinfo) : str :=
  match ranc with
  | [] => []
  | s :: up => let pf := sfull up in
               if is_empty pf then sname s else pf ++ sp ++ sname s
  end.
Definition ssep (ranc : list sinfo) : str :=
  match ranc with
  | [] => []
  | s :: up => let pf := sfull up in
               if is_empty pf then sname s else pf ++ sep ++ sname s
  end.
Definition cfull (ranc : list sinfo) (c : cinfo) : str := ssep ranc ++ sep ++ cname c.

Section Oracles.
  (* doublestar.MatchUnvalidated pattern path ; value.Regex.MatchesString *)
  Variable glob : str -> str -> bool.
  Variable rematch : str -> str -> bool.

  (* PathFilter.LocationMatches *)
  Definition location_matches (p : str) (l : Z) (lc : loc) : bool :=
    if negb (glob p (lfile lc)) then false
    else if l <? 0 then true
    else in_span l lc.

  (* Filter.CaseMatches *)
  Definition case_match (f : filter) (ranc : list sinfo) (c : cinfo) : bool :=
    match f with
    | FPath p l => location_matches p l (cloc c)
    | FGrep r => rematch r (cfull ranc c)
    end.

  (* Filter.SuiteMatches (the root suite, the only one without a location, is never filtered) *)
  Definition suite_match (f : filter) (s : sinfo) : smatch :=
    match f with
    | FGrep _ => MTrue
    | FPath p l =>
        if negb (glob p (lfile (sloc s))) then MFalse
        else if l <? 0 then MTrue
        else if l =? lfirst (sloc s) then MFull
        else if in_span l (sloc s) then MTrue
        else MFalse
    end.

  (* SuiteMatchesFilters after the fix. st pairs every registered filter with "already matched in
     full by this suite's parent chain" (inherited in NewSubSuite). None = the suite is discarded. *)
  Fixpoint suite_step (st : list (filter * bool)) (s : sinfo) : option (list (filter * bool)) :=
    match st with
    | [] => Some []
    | (f, b) :: rest =>
        if b then option_map (cons (f, true)) (suite_step rest s)
        else match suite_match f s with
             | MFalse => None
             | MFull => option_map (cons (f, true)) (suite_step rest s)
             | MTrue => option_map (cons (f, false)) (suite_step rest s)
             end
    end.

  (* CaseMatchesFilters after the fix *)
  Definition case_step (st : list (filter * bool)) (ranc : list sinfo) (c : cinfo) : bool :=
    lforallb (fun fb => snd fb || case_match (fst fb) ranc c) st.

  (* describe / it: evaluation of the test file registers suites and cases *)
  Fixpoint register (st : list (filter * bool)) (ranc : list sinfo) (t : tree) : list rtree :=
    match t with
    | TCase c => if case_step st ranc c then [RCase c] else []
    | TSuite s kids =>
        match suite_step st s with
        | None => []
        | Some st' => [RSuite s (lflat_map (register st' (s :: ranc)) kids)]
        end
    end.

  Definition init_state (fs : list filter) : list (filter * bool) := lmap (fun f => (f, false)) fs.

  Definition register_root (fs : list filter) (root : sinfo) (kids : list tree) : rtree :=
    RSuite root (lflat_map (register (init_state fs) []) kids).

  (* ---- specification side *)
  (* a declared case together with its enclosing suites (outermost first, root implicit) *)
  Definition ccase : Type := (list sinfo * cinfo)%type.
  Fixpoint cases_rel (t : tree) : list ccase :=
    match t with
    | TCase c => [([], c)]
    | TSuite s kids => lmap (fun pc => (s :: fst pc, snd pc)) (lflat_map cases_rel kids)
    end.
  Definition cases (kids : list tree) : list ccase := lflat_map cases_rel kids.

  Definition satisfies (f : filter) (cc : ccase) : bool :=
    match f with
    | FPath p l =>
        glob p (lfile (cloc (snd cc))) &&
        ((l <? 0) || in_span l (cloc (snd cc)) || lexistsb (fun s => l =? lfirst (sloc s)) (fst cc))
    | FGrep r => rematch r (cfull (lrev (fst cc)) (snd cc))
    end.
  Definition selected (fs : list filter) (cc : ccase) : bool := lforallb (fun f => satisfies f cc) fs.
End Oracles.

(* a before_all / before_each hook of an enclosing suite (or the root) fails: the body cannot start *)
Definition babe_bad (s : sinfo) : bool := hook_bad (h_ba s) || hook_bad (h_be s).
Definition blocked (root : sinfo) (cc : ccase) : bool := lexistsb babe_bad (root :: fst cc).

(* ---- the run (suite.go Run, case.go Run). hk = enclosing suites innermost first INCLUDING the root
   (Case.Parents()). Declaration order is used; the real runner shuffles the cases of a suite. *)
Fixpoint rcount (r : rtree) : nat :=
  match r with
  | RCase _ => 1%nat
  | RSuite _ kids => lsum (lmap rcount kids)
  end.

(* runBeforeEach: hooks of the parents innermost first, stop at the first failure *)
Fixpoint be_loop (hk : list sinfo) : list event * option outcome3 :=
  match hk with
  | [] => ([], None)
  | s :: up =>
      match h_be s with
      | None => be_loop up
      | Some o =>
          if bad o then ([EvHook HBeforeEach (sid s) o], Some o)
          else let '(ev, r) := be_loop up in (EvHook HBeforeEach (sid s) o :: ev, r)
      end
  end.

(* runAfterEach: every hook runs; each failing one overwrites the status *)
Fixpoint ae_loop (hk : list sinfo) (st : status) : list event * status :=
  match hk with
  | [] => ([], st)
  | s :: up =>
      match h_ae s with
      | None => ae_loop up st
      | Some o => let '(ev, r) := ae_loop up (st_of o st) in (EvHook HAfterEach (sid s) o :: ev, r)
      end
  end.

Definition run_case (hk : list sinfo) (c : cinfo) : list event * status :=
  let '(ev_be, fl) := be_loop hk in
  match fl with
  | Some o =>
      let '(ev_ae, st) := ae_loop hk (st_of o SRunning) in (ev_be ++ ev_ae, st)
  | None =>
      let st1 := st_of (cout c) SRunning in
      let '(ev_ae, st2) := ae_loop hk st1 in
      (ev_be ++ EvCase (cid c) (cout c) :: ev_ae, update st2 SSuccess)
  end.

Fixpoint run (hk : list sinfo) (r : rtree) : list event * status :=
  match r with
  | RCase c => run_case hk c
  | RSuite s kids =>
      if Nat.eqb (lsum (lmap rcount kids)) 0 then ([], SSkipped)
      else
        match h_ba s with
        | Some o =>
            if bad o then ([EvHook HBeforeAll (sid s) o], st_of o SRunning)
            else
              let rs := lmap (run (s :: hk)) kids in
              let st := lfold_left update (lmap snd rs) SRunning in
              let '(ev_aa, st') := match h_aa s with
                                   | Some oa => ([EvHook HAfterAll (sid s) oa], st_of oa st)
                                   | None => ([], st) end in
              (EvHook HBeforeAll (sid s) o :: lconcat (lmap fst rs) ++ ev_aa, update st' SSuccess)
        | None =>
            let rs := lmap (run (s :: hk)) kids in
            let st := lfold_left update (lmap snd rs) SRunning in
            let '(ev_aa, st') := match h_aa s with
                                 | Some oa => ([EvHook HAfterAll (sid s) oa], st_of oa st)
                                 | None => ([], st) end in
            (lconcat (lmap fst rs) ++ ev_aa, update st' SSuccess)
        end
  end.

(* cmd/elk/main.go runTestFile: exit 1 unless the root report's status is TEST_SUCCESS *)
Definition exit_of (st : status) : Z := match st with SSuccess => 0 | _ => 1 end.

Definition run_tests (glob rematch : str -> str -> bool)
           (fs : list filter) (root : sinfo) (kids : list tree) : list event * Z :=
  let '(evs, st) := run [] (register_root glob rematch fs root kids) in (evs, exit_of st).

(* ---- well-formed source locations: a block lies inside its enclosing block, in the same file *)
Fixpoint wf_in (file : str) (lo hi : Z) (t : tree) : bool :=
  match t with
  | TCase c => str_eqb (lfile (cloc c)) file && (lo <=? lfirst (cloc c)) && (llast (cloc c) <=? hi)
  | TSuite s kids =>
      str_eqb (lfile (sloc s)) file && (lo <=? lfirst (sloc s)) && (lfirst (sloc s) <=? llast (sloc s))
      && (llast (sloc s) <=? hi)
      && lforallb (wf_in (lfile (sloc s)) (lfirst (sloc s)) (llast (sloc s))) kids
  end.
Definition wf_top (t : tree) : bool :=
  match t with
  | TCase c => true
  | TSuite s kids => wf_in (lfile (sloc s)) (lfirst (sloc s)) (llast (sloc s)) t
  end.

(* ---- executable instance of the oracles used by the correspondence stream.
   Regex: the stream only uses patterns without metacharacters, for which matching = substring.
   Glob: the stream only uses "**", "**/name" and literal paths. *)
Fixpoint prefixb (p s : str) : bool :=
  match p with
  | [] => true
  | a :: p' => match s with
               | [] => false
               | b :: s' => (a =? b) && prefixb p' s'
               end
  end.
Fixpoint substrb (p s : str) : bool :=
  prefixb p s || match s with [] => false | _ :: s' => substrb p s' end.
(* s = name, or s ends with "/name" *)
Fixpoint basename_is (name s : str) : bool :=
  str_eqb s name ||
  match s with
  | [] => false
  | a :: s' => ((a =? 47) && str_eqb s' name) || basename_is name s'
  end.
Definition glob_simple (p f : str) : bool :=
  if str_eqb p [42; 42] then true                               (* "**" *)
  else if prefixb [42; 42; 47] p then basename_is (lskipn 3 p) f  (* "**/name" *)
  else str_eqb p f.

Definition run_tests_simple := run_tests glob_simple substrb.
Definition selected_simple := selected glob_simple substrb.

(* ---- the filter combination as it was BEFORE the fix (filter.go at da13067), kept only to state
   what was wrong: one FullMatch flag per suite, order-dependent combination, cases of a fully
   matched suite bypass every filter. *)
Section Legacy.
  Variable glob : str -> str -> bool.
  Variable rematch : str -> str -> bool.
  Fixpoint legacy_combine (fs : list filter) (s : sinfo) (result : smatch) : smatch :=
    match fs with
    | [] => match result with MFalse => MTrue | r => r end
    | f :: rest =>
        match suite_match glob f s with
        | MFalse => MFalse
        | MFull => legacy_combine rest s (match result with MFalse => MFull | r => r end)
        | MTrue => legacy_combine rest s MTrue
        end
    end.
  Definition legacy_suite (fs : list filter) (full : bool) (s : sinfo) : smatch :=
    if full then MFull else legacy_combine fs s MFalse.
  Definition legacy_case (fs : list filter) (full : bool) (ranc : list sinfo) (c : cinfo) : bool :=
    full || lforallb (fun f => case_match glob rematch f ranc c) fs.
  Fixpoint legacy_register (fs : list filter) (full : bool) (ranc : list sinfo) (t : tree) : list rtree :=
    match t with
    | TCase c => if legacy_case fs full ranc c then [RCase c] else []
    | TSuite s kids =>
        match legacy_suite fs full s with
        | MFalse => []
        | MFull => [RSuite s (lflat_map (legacy_register fs true (s :: ranc)) kids)]
        | MTrue => [RSuite s (lflat_map (legacy_register fs false (s :: ranc)) kids)]
        end
    end.
  Definition legacy_run_tests (fs : list filter) (root : sinfo) (kids : list tree) : list event * Z :=
    let '(evs, st) := run [] (RSuite root (lflat_map (legacy_register fs false []) kids)) in (evs, exit_of st).
End Legacy.
