(* C02 - self-referential interfaces: the recursion guard of isSubtype in implicitInterfaceSubtypeMode.
   Executable model only (no proofs in this file).

   While isImplicitSubtypeOfInterface compares the methods of K[s] with those of I[t] it stores K[s] in
   c.selfType and I[t] in c.throwType; a nested question `a <: b` whose sides are "identical" to that pair is
   answered true (the co-inductive hypothesis that stops `class Foo; def foo: Foo` / `interface Bar; def foo: Bar`
   from looping).  typesAreIdentical compares two generic types by NAMESPACE ONLY, so the hypothesis
   K[s] <: I[t] also answers K[s0] <: I[t0] for any other arguments.

   The fragment: one class K[T] and one interface I[T] with base-typed methods (Model/C02_Iface.v) plus ONE
   self-referential method without parameters,
       interface I[T]   def rec: I[t0]; end
       class K[T]       def rec: K[s0] then K::[s0](lit)
   rsub false = the rule as found (the nested question is not looked at), rsub true = the nested pair is
   compared once with ITS OWN arguments (its own nested question is the same pair again - a legitimate
   co-inductive hypothesis). *)
From Coq Require Import ZArith List Bool.
From Elk Require Import Model.C02_Iface.
Import ListNotations.
Open Scope Z_scope.

Record rtab : Type := {
  r_cls : Z; r_ifc : Z;
  r_cm : list cmeth; r_im : list imeth;    (* the base-typed methods *)
  r_s0 : bty; r_t0 : bty;                  (* def rec: K[s0] / def rec: I[t0] *)
  r_lit : bval                             (* the item of the object `rec` returns *)
}.

Definition r_ct (R : rtab) : ctab := [(r_cls R, r_cm R)].
Definition r_it (R : rtab) : itab := [(r_ifc R, r_im R)].

Definition rsub (fx : bool) (R : rtab) (s t : bty) : bool :=
  isub (r_ct R) (r_it R) (GC (r_cls R) s) (GI (r_ifc R) t) &&
  (if fx then isub (r_ct R) (r_it R) (GC (r_cls R) (r_s0 R)) (GI (r_ifc R) (r_t0 R)) else true).

(* `s.rec.m(arg)` for an object s of class K: rec returns K(lit) whatever s holds *)
Definition rcall (R : rtab) (m : Z) (arg : option bval) : option bval :=
  gcall (r_ct R) (r_cls R) (r_lit R) m arg.

(* the class definition is well typed: base bodies fit, and the literal `rec` stores fits s0 *)
Definition rtab_ok (R : rtab) : bool := ctab_ok (r_ct R) && bmem [] (r_s0 R) (r_lit R).
