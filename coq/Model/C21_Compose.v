(* C21 - composition TERMS over regex values: what `r1 + r2` and `r * n` (value/regex.go
   ConcatVal / RepeatVal, registered as Regex#+ and Regex#* in vm/regex.go) denote when they are
   nested.

   A term is built from LEAVES (a regex literal: its own flag set and the syntax tree of its
   source) with `+` and `* n`.  Its denotation is defined on the term, from the denotations of
   the leaves only - no source text is glued together and nothing is parsed again here:

     cden (leaf f a) = [[a]] under f          (Model/C21_RegexSem.v, me)
     cden (l + r)    = cden l ; cden r        composition of position-set transformers
     cden (t * n)    = (cden t)^n             n-fold iteration (n a decimal digit string, as in {n})

   This is what the stream c21.compose evaluates (extracted) to obtain the expected verdict of
   `term.matches(subject)`.  That the tree the implementation is SUPPOSED to build by wrapping
   sources ("(?f1:src1)(?f2:src2)", "(?:src){n}") has this denotation is Proofs/C21_Compose.v.
   No proofs here. *)
From Coq Require Import ZArith List Bool.
From Elk Require Import Model.C21_RegexSyntax Model.C21_RegexSem.
Import ListNotations.
Open Scope Z_scope.

Inductive cterm :=
| CLeaf (f : flags) (a : re)
| CCat (l r : cterm)
| CRep (t : cterm) (n : list Z).

Section CSem.
Variable orbit : Z -> list Z.
Variable uni : list Z -> Z -> bool.
Variable posix : list Z -> Z -> bool.
Variable s : list Z.

Fixpoint cden (t : cterm) : tf :=
  match t with
  | CLeaf f a => fst (me orbit uni posix s f a)
  | CCat l r => tcomp (cden l) (cden r)
  | CRep t0 n => titer (count n) (cden t0)
  end.

(* Regex#matches on the composed value: some substring matches *)
Definition cmatches (t : cterm) : bool := matches s (cden t).

End CSem.

(* the flags the composed VALUE carries (Regex#+ yields a regex without flags, Regex#* keeps
   the flags of its receiver): observable through inspect *)
Fixpoint cflags (t : cterm) : flags :=
  match t with
  | CLeaf f _ => f
  | CCat _ _ => no_flags
  | CRep t0 _ => cflags t0
  end.

Fixpoint cleaves (t : cterm) : list (flags * re) :=
  match t with
  | CLeaf f a => [(f, a)]
  | CCat l r => cleaves l ++ cleaves r
  | CRep t0 _ => cleaves t0
  end.
