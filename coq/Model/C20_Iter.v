(* C20 - the iterator PROTOCOL of Std::String::{Char,Byte,Grapheme}Iterator (value/string.go
   StringCharIterator / StringByteIterator / StringGraphemeIterator: NextValue, Reset, Copy, and
   String#iter / byte_iter / grapheme_iter which create them). Definitions only; proofs are in
   Proofs/C20_Iter.v.

   Unlike Model/C20_String.v (single pass of a FRESH iterator) this file models the iterator
   OBJECTS as state machines driven by arbitrary histories of operations on a pool of iterators
   over one string: create (of a kind), next, reset, copy, and drain (`for x in it`: next until
   :stop_iteration).

   States mirror the Go structs:
     StringCharIterator      ByteOffset                      -> SC off
     StringByteIterator      ByteOffset                      -> SB off
     StringGraphemeIterator  (Rest, State)                   -> SG rest q
   `State` is uniseg's segmentation state: -1 is the initial sentinel ("nothing classified yet"),
   every call of uniseg.FirstGraphemeClusterInString(rest, state) returns the state to pass to
   the next call. That function enters as the section oracle `gstep`; the grapheme clusters of a
   string are DEFINED from it (`gseg_of`) exactly as uniseg.GraphemeClusterCount, String.GraphemeAtInt
   and a fresh iterator enumerate them: repeated steps starting from (s, -1). *)
From Elk Require Import Base.GoSem Base.Utf8 Model.C20_String.
Open Scope Z_scope.

(* ---------- a pool of iterators, generically ---------- *)

Inductive pop (K : Type) : Type :=
| PNew (k : K)        (* s.iter / s.byte_iter / s.grapheme_iter : appended to the pool *)
| PNext (i : nat)     (* pool[i].next *)
| PReset (i : nat)    (* pool[i].reset *)
| PCopy (i : nat)     (* pool[i].Copy() : appended to the pool *)
| PDrain (i : nat).   (* for x in pool[i] : next until stop_iteration *)
Arguments PNew {K} k.
Arguments PNext {K} i.
Arguments PReset {K} i.
Arguments PCopy {K} i.
Arguments PDrain {K} i.

Inductive pout (A : Type) : Type :=
| QElem (a : A)       (* next returned an element *)
| QStop               (* next raised :stop_iteration *)
| QUnit               (* new / reset / copy: nothing observable *)
| QBad.               (* no such iterator (ill-formed history) *)
Arguments QElem {A} a.
Arguments QStop {A}.
Arguments QUnit {A}.
Arguments QBad {A}.

Fixpoint upd {X : Type} (l : list X) (i : nat) (x : X) : list X :=
  match l, i with
  | [], _ => []
  | _ :: t, O => x :: t
  | y :: t, S j => y :: upd t j x
  end.

Section Pool.
Context {K St A : Type}.
Variable init : K -> St.                       (* constructor *)
Variable next : St -> option (A * St).         (* NextValue; None = :stop_iteration *)
Variable reset : St -> St.                     (* Reset *)

Definition pnext (pool : list St) (i : nat) : list St * pout A :=
  match nth_error pool i with
  | None => (pool, QBad)
  | Some st =>
    match next st with
    | Some (a, st') => (upd pool i st', QElem a)
    | None => (pool, QStop)
    end
  end.

(* `for x in it`: it.iter returns the iterator itself, then next until stop. Out of fuel = the
   loop did not end within `fuel` elements (the output then lacks its final QStop). *)
Fixpoint pdrain (fuel : nat) (pool : list St) (i : nat) : list St * list (pout A) :=
  match fuel with
  | O => (pool, [])
  | S f =>
    let '(pool', o) := pnext pool i in
    match o with
    | QElem _ => let '(pool'', os) := pdrain f pool' i in (pool'', o :: os)
    | _ => (pool', [o])
    end
  end.

Definition pool_op (fuel : nat) (pool : list St) (o : pop K) : list St * list (pout A) :=
  match o with
  | PNew k => (pool ++ [init k], [QUnit])
  | PNext i => let '(pool', x) := pnext pool i in (pool', [x])
  | PReset i =>
    match nth_error pool i with
    | None => (pool, [QBad])
    | Some st => (upd pool i (reset st), [QUnit])
    end
  | PCopy i =>
    match nth_error pool i with
    | None => (pool, [QBad])
    | Some st => (pool ++ [st], [QUnit])
    end
  | PDrain i => pdrain fuel pool i
  end.

(* the outputs of a whole history, one list per operation *)
Fixpoint pool_run (fuel : nat) (pool : list St) (h : list (pop K)) : list (list (pout A)) :=
  match h with
  | [] => []
  | o :: h' => let '(pool', out) := pool_op fuel pool o in out :: pool_run fuel pool' h'
  end.

End Pool.

(* ---------- the reference: a position in the element list ---------- *)

(* an iterator of kind k over the element lists L is a position p: next yields the p-th element
   and moves on, or stops at the end; reset returns to position 0 *)
Section Spec.
Context {K A : Type}.
Variable L : K -> list A.

Definition pos_init (k : K) : K * nat := (k, O).
Definition pos_next (st : K * nat) : option (A * (K * nat)) :=
  match nth_error (L (fst st)) (snd st) with
  | Some a => Some (a, (fst st, S (snd st)))
  | None => None
  end.
Definition pos_reset (st : K * nat) : K * nat := (fst st, O).

Definition spec_run (fuel : nat) (h : list (pop K)) : list (list (pout A)) :=
  pool_run pos_init pos_next pos_reset fuel [] h.

End Spec.

(* ---------- the three string iterators ---------- *)

Inductive ikind := KChar | KByte | KGr.
Inductive elem := EChar (c : Z) | EByte (b : Z) | EStr (g : list Z).

Inductive ist :=
| SC (off : Z)                      (* StringCharIterator{ByteOffset} *)
| SB (off : Z)                      (* StringByteIterator{ByteOffset} *)
| SG (rest : list Z) (q : Z).       (* StringGraphemeIterator{Rest, State} *)

Definition kind_of (st : ist) : ikind :=
  match st with SC _ => KChar | SB _ => KByte | SG _ _ => KGr end.

Definition G_INITIAL : Z := -1.     (* uniseg: "state -1 = start of the text" *)

Section Iter.
(* uniseg.FirstGraphemeClusterInString(rest, state) = (cluster, rest', state') *)
Variable gstep : list Z -> Z -> list Z * list Z * Z.
Variable s : list Z.                (* the string all iterators of the pool range over *)

(* StringGraphemeIterator.NextValue *)
Definition gr_next (st : list Z * Z) : option (list Z * (list Z * Z)) :=
  match fst st with
  | [] => None                                          (* len(s.Rest) == 0 *)
  | _ :: _ => let '(c, r, q) := gstep (fst st) (snd st) in Some (c, (r, q))
  end.

(* NewStringCharIterator / NewStringByteIterator / NewStringGraphemeIterator *)
Definition it_init (k : ikind) : ist :=
  match k with KChar => SC 0 | KByte => SB 0 | KGr => SG s G_INITIAL end.

Definition it_next (st : ist) : option (elem * ist) :=
  match st with
  | SC off => match char_iter_next s off with Some (c, off') => Some (EChar c, SC off') | None => None end
  | SB off => match byte_iter_next s off with Some (b, off') => Some (EByte b, SB off') | None => None end
  | SG rest q => match gr_next (rest, q) with Some (c, (r, q')) => Some (EStr c, SG r q') | None => None end
  end.

(* Reset: ByteOffset = 0; Rest = String, State = -1 *)
Definition it_reset (st : ist) : ist :=
  match st with SC _ => SC 0 | SB _ => SB 0 | SG _ _ => SG s G_INITIAL end.

(* the same with the grapheme iterator's State set to q0 by Reset: q0 = -1 is the code,
   q0 = 0 is what a zero-valued struct field would give *)
Definition it_reset_to (q0 : Z) (st : ist) : ist :=
  match st with SC _ => SC 0 | SB _ => SB 0 | SG _ _ => SG s q0 end.

(* the grapheme clusters of s: GraphemeClusterCount / GraphemeAtInt / a fresh iterator all run
   gstep from (s, -1) until the rest is empty *)
Definition gseg_run (t : list Z) : list (list Z) :=
  match drain gr_next (S (length t)) (t, G_INITIAL) with Some l => l | None => [] end.

End Iter.

Definition gseg_of (gstep : list Z -> Z -> list Z * list Z * Z) (t : list Z) : list (list Z) :=
  gseg_run gstep t.

(* element lists per kind: what the property's count / *_at clauses talk about *)
Definition elems (gstep : list Z -> Z -> list Z * list Z * Z) (s : list Z) (k : ikind) : list elem :=
  match k with
  | KChar => map EChar (chars s)
  | KByte => map EByte s
  | KGr => map EStr (gseg_of gstep s)
  end.

(* implementation machine and reference machine over a history *)
Definition iter_run (gstep : list Z -> Z -> list Z * list Z * Z) (s : list Z) (h : list (pop ikind))
  : list (list (pout elem)) :=
  pool_run (it_init s) (it_next gstep s) (it_reset s) (S (length s)) [] h.

Definition iter_spec (gstep : list Z -> Z -> list Z * list Z * Z) (s : list Z) (h : list (pop ikind))
  : list (list (pout elem)) :=
  spec_run (elems gstep s) (S (length s)) h.

(* variant whose Reset leaves State = q0 (for the witness that the sentinel matters) *)
Definition iter_run_reset_to (q0 : Z) (gstep : list Z -> Z -> list Z * list Z * Z) (s : list Z)
  (h : list (pop ikind)) : list (list (pout elem)) :=
  pool_run (it_init s) (it_next gstep s) (it_reset_to s q0) (S (length s)) [] h.

(* a toy step oracle with a state-dependent rule, in the spirit of GB3 (CR x LF): in every state
   but 0 a leading 13,10 is one cluster; in state 0 ("first code point already classified as
   Any") it is split. All other bytes are one cluster each. *)
Definition gstep_crlf (rest : list Z) (q : Z) : list Z * list Z * Z :=
  match rest with
  | [] => ([], [], q)
  | b :: r =>
    match r with
    | b2 :: r2 => if (b =? 13) && (b2 =? 10) && negb (q =? 0) then ([b; b2], r2, 1) else ([b], r, 1)
    | [] => ([b], r, 1)
    end
  end.
