(* C15 — generators and async functions preserve the semantics of their body.
   Definitions only (no proofs) so the model always runs.

   A small body language: Int locals, arithmetic, calls of pure helper functions (which may throw),
   a "bump through a closure" statement, if / while, `yield e`, `return e`, `throw t`.

   S  = [exec]: fuel-indexed big-step reference interpreter.  It returns the final environment, the list of
        yielded values (in order) and how the statement was left.
   Three wrappings of a function f:
     plain     [plain]        call f, take the result (the yields are what the plain variant prints)
     generator [gen_init]/[next]/[drive]/[forin]   an object with a resumable continuation:
               `next` runs until the next yield.  This mirrors vm.Generator{ip, stack}: the saved
               continuation [k] is the ip, the saved environment is the stack slice.  As in the
               implementation (compiler emitReturn: `YIELD; STOP_ITERATION`) the function result is
               delivered by the last successful `next`; afterwards every `next` signals stop; an error
               escapes from `next` once and afterwards every `next` signals stop
               (CallGeneratorNext: errorState => ip := trailing STOP_ITERATION).
     async     [async_run]/[await_async]  the body runs as a generator on a pool thread
               (callBytecodePromise); the outcome settles the promise (Resolve/Reject); `await`
               returns the result or rethrows the error. *)
From Coq Require Import ZArith List Bool.
Import ListNotations.
Open Scope Z_scope.

Inductive ev (A : Type) := Val (a : A) | Err (t : Z).
Arguments Val {A} a.
Arguments Err {A} t.

(* helper functions of the fixed prelude (see checks/C15.py PRELUDE); tag 0 = "neg" *)
Definition helper (h : nat) (a b : Z) : ev Z :=
  match h with
  | O => Val (a + 1)
  | S O => Val (a + 1 + b)
  | S (S O) => if a <? 0 then Err 0 else Val a
  | _ => Val (a * 2 - b)
  end.

Inductive expr :=
| EConst (z : Z)
| EVar (x : nat)
| EAdd (a b : expr)
| ESub (a b : expr)
| EMul (a b : expr)
| ECall (h : nat) (a b : expr).

Definition bind {A B} (x : ev A) (f : A -> ev B) : ev B :=
  match x with Val a => f a | Err t => Err t end.

Fixpoint eval (env : list Z) (e : expr) : ev Z :=
  match e with
  | EConst z => Val z
  | EVar x => Val (nth x env 0)
  | EAdd a b => bind (eval env a) (fun u => bind (eval env b) (fun v => Val (u + v)))
  | ESub a b => bind (eval env a) (fun u => bind (eval env b) (fun v => Val (u - v)))
  | EMul a b => bind (eval env a) (fun u => bind (eval env b) (fun v => Val (u * v)))
  | ECall h a b => bind (eval env a) (fun u => bind (eval env b) (fun v => helper h u v))
  end.

Inductive cond :=
| CLt (a b : expr)
| CLe (a b : expr)
| CEq (a b : expr)
| CNot (c : cond)
| CAnd (c d : cond)
| COr (c d : cond).

Fixpoint evalc (env : list Z) (c : cond) : ev bool :=
  match c with
  | CLt a b => bind (eval env a) (fun u => bind (eval env b) (fun v => Val (u <? v)))
  | CLe a b => bind (eval env a) (fun u => bind (eval env b) (fun v => Val (u <=? v)))
  | CEq a b => bind (eval env a) (fun u => bind (eval env b) (fun v => Val (u =? v)))
  | CNot c => bind (evalc env c) (fun x => Val (negb x))
  | CAnd c d => bind (evalc env c) (fun x => if x then evalc env d else Val false)
  | COr c d => bind (evalc env c) (fun x => if x then Val true else evalc env d)
  end.

Inductive stmt :=
| SSkip
| SAssign (x : nat) (e : expr)
| SBump (x : nat) (e : expr)        (* x = x + e, performed through a closure that captured x *)
| SSeq (a b : stmt)
| SIf (c : cond) (a b : stmt)
| SWhile (c : cond) (b : stmt)
| SYield (e : expr)
| SReturn (e : expr)
| SThrow (t : Z).

Fixpoint upd (x : nat) (v : Z) (l : list Z) : list Z :=
  match l, x with
  | [], _ => []
  | _ :: r, O => v :: r
  | a :: r, S x' => a :: upd x' v r
  end.

Inductive exit := XNormal | XRet (v : Z) | XThr (t : Z).

Definition sres := option (list Z * list Z * exit).   (* final env, yields, exit *)

Fixpoint exec (fuel : nat) (s : stmt) (env : list Z) {struct fuel} : sres :=
  match fuel with
  | O => None
  | S f =>
    match s with
    | SSkip => Some (env, [], XNormal)
    | SAssign x e =>
        match eval env e with
        | Val v => Some (upd x v env, [], XNormal)
        | Err t => Some (env, [], XThr t)
        end
    | SBump x e =>
        match eval env e with
        | Val v => Some (upd x (nth x env 0 + v) env, [], XNormal)
        | Err t => Some (env, [], XThr t)
        end
    | SSeq a b =>
        match exec f a env with
        | None => None
        | Some (e1, y1, XNormal) =>
            match exec f b e1 with
            | None => None
            | Some (e2, y2, x) => Some (e2, y1 ++ y2, x)
            end
        | Some r => Some r
        end
    | SIf c a b =>
        match evalc env c with
        | Val true => exec f a env
        | Val false => exec f b env
        | Err t => Some (env, [], XThr t)
        end
    | SWhile c b =>
        match evalc env c with
        | Err t => Some (env, [], XThr t)
        | Val false => Some (env, [], XNormal)
        | Val true =>
            match exec f b env with
            | None => None
            | Some (e1, y1, XNormal) =>
                match exec f (SWhile c b) e1 with
                | None => None
                | Some (e2, y2, x) => Some (e2, y1 ++ y2, x)
                end
            | Some r => Some r
            end
        end
    | SYield e =>
        match eval env e with
        | Val v => Some (env, [v], XNormal)
        | Err t => Some (env, [], XThr t)
        end
    | SReturn e =>
        match eval env e with
        | Val v => Some (env, [], XRet v)
        | Err t => Some (env, [], XThr t)
        end
    | SThrow t => Some (env, [], XThr t)
    end
  end.

Record func := mkFunc { nlocals : nat; body : stmt; final : expr }.

(* the whole function: the body, then the value of the final expression *)
Definition fbody (f : func) : stmt := SSeq (body f) (SReturn (final f)).
Definition init_env (f : func) (args : list Z) : list Z := args ++ repeat 0 (nlocals f).

Inductive outcome := ORet (v : Z) | OThr (t : Z).

(* ---------------- plain ---------------- *)
Definition plain (fuel : nat) (f : func) (args : list Z) : option (list Z * outcome) :=
  match exec fuel (fbody f) (init_env f args) with
  | None => None
  | Some (_, ys, XRet v) => Some (ys, ORet v)
  | Some (_, ys, XThr t) => Some (ys, OThr t)
  | Some (_, ys, XNormal) => Some (ys, ORet 0)      (* unreachable: fbody ends in a return *)
  end.

(* ---------------- generator ---------------- *)
Inductive gstate := GRun (env : list Z) (k : list stmt) | GDone.
Inductive gres := GYield (v : Z) | GFinish (v : Z) | GError (t : Z) | GStop.

(* run the continuation until the next yield / the end; one unit of fuel per machine step *)
Fixpoint run (fuel : nat) (env : list Z) (k : list stmt) {struct fuel} : option (gres * gstate) :=
  match fuel with
  | O => None
  | S f =>
    match k with
    | [] => Some (GStop, GDone)
    | s :: k' =>
      match s with
      | SSkip => run f env k'
      | SAssign x e =>
          match eval env e with
          | Val v => run f (upd x v env) k'
          | Err t => Some (GError t, GDone)
          end
      | SBump x e =>
          match eval env e with
          | Val v => run f (upd x (nth x env 0 + v) env) k'
          | Err t => Some (GError t, GDone)
          end
      | SSeq a b => run f env (a :: b :: k')
      | SIf c a b =>
          match evalc env c with
          | Val true => run f env (a :: k')
          | Val false => run f env (b :: k')
          | Err t => Some (GError t, GDone)
          end
      | SWhile c b =>
          match evalc env c with
          | Val true => run f env (b :: SWhile c b :: k')
          | Val false => run f env k'
          | Err t => Some (GError t, GDone)
          end
      | SYield e =>
          match eval env e with
          | Val v => Some (GYield v, GRun env k')
          | Err t => Some (GError t, GDone)
          end
      | SReturn e =>
          match eval env e with
          | Val v => Some (GFinish v, GDone)
          | Err t => Some (GError t, GDone)
          end
      | SThrow t => Some (GError t, GDone)
      end
    end
  end.

Definition next (fuel : nat) (g : gstate) : option (gres * gstate) :=
  match g with
  | GDone => Some (GStop, GDone)
  | GRun env k => run fuel env k
  end.

Definition gen_init (f : func) (args : list Z) : gstate := GRun (init_env f args) [fbody f].

(* n consecutive calls of `next` *)
Fixpoint drive (n : nat) (fuel : nat) (g : gstate) : option (list gres) :=
  match n with
  | O => Some []
  | S n' =>
      match next fuel g with
      | None => None
      | Some (r, g') =>
          match drive n' fuel g' with
          | None => None
          | Some rs => Some (r :: rs)
          end
      end
  end.

(* `for x in g` : call next until it signals stop, collecting the elements; an error leaves the loop *)
Fixpoint forin (rounds : nat) (fuel : nat) (g : gstate) : option (list Z * option Z) :=
  match rounds with
  | O => None
  | S r =>
      match next fuel g with
      | None => None
      | Some (GYield v, g') | Some (GFinish v, g') =>
          match forin r fuel g' with
          | None => None
          | Some (vs, e) => Some (v :: vs, e)
          end
      | Some (GError t, _) => Some ([], Some t)
      | Some (GStop, _) => Some ([], None)
      end
  end.

Definition gres_of (o : outcome) : gres :=
  match o with ORet v => GFinish v | OThr t => GError t end.

(* ---------------- async + await ---------------- *)
Inductive settled := Resolved (v : Z) | Rejected (t : Z).

(* executeBytecodePromise: the body runs as a generator; default => Resolve, errorState => Reject.
   (A body that yields is not an async function; [None] there.) *)
Definition async_run (fuel : nat) (f : func) (args : list Z) : option settled :=
  match next fuel (gen_init f args) with
  | Some (GFinish v, _) => Some (Resolved v)
  | Some (GError t, _) => Some (Rejected t)
  | _ => None
  end.

(* AWAIT / AWAIT_RESULT / AWAIT_SYNC on a settled promise: the result, or rethrow the error *)
Definition await (s : settled) : outcome :=
  match s with Resolved v => ORet v | Rejected t => OThr t end.

Definition await_async (fuel : nat) (f : func) (args : list Z) : option outcome :=
  match async_run fuel f args with
  | Some s => Some (await s)
  | None => None
  end.

(* syntactic: no yield in a statement *)
Fixpoint no_yield (s : stmt) : bool :=
  match s with
  | SYield _ => false
  | SSeq a b | SIf _ a b => no_yield a && no_yield b
  | SWhile _ b => no_yield b
  | _ => true
  end.

(* a sample used by the non-vacuity examples: locals from calls, a loop with yields, a throw *)
Definition sample : func :=
  mkFunc 3
    (SSeq (SAssign 1 (ECall 0 (EVar 0) (EConst 0)))
    (SSeq (SYield (EVar 1))
    (SSeq (SAssign 2 (EConst 0))
    (SSeq (SWhile (CLt (EVar 2) (EConst 3))
             (SSeq (SYield (EMul (EVar 2) (EConst 10)))
             (SSeq (SBump 1 (EVar 2))
                   (SAssign 2 (EAdd (EVar 2) (EConst 1))))))
    (SIf (CLt (EVar 0) (EConst 0)) (SThrow 2) SSkip)))))
    (ECall 1 (EVar 1) (EVar 0)).
