(* C27 — REPL sessions behave like batch runs of their accepted inputs.
   Executable model only (no proofs).

   A session is a list of inputs; an input is a list of statements of a tiny language:
     def mK(x: Int): T; body; end     (re)definition of a top-level method
     const KK: Int = e                 constant definition
     var vK: T = e                     declaration of a top-level local
     vK = e                            assignment
     println((e).inspect)              print
     class ZK < Nope; end              a definition that fails EARLY (type-definition phase)
     typedef TK = X                    named type (alias) of Int | String | another alias | a class;
                                       hoisted: visible to the whole input, forward references
                                       between the typedefs of one input are resolved, cycles and
                                       undefined names are errors, an alias cannot be redeclared
     class CK; end                     declaration (or reopening) of an empty class; `CK()` is an
                                       instance, the only value of type CK
   The declared type of a local is a type expression X (Int | String | alias | class); aliases are
   transparent (a local declared with an alias of Int is an Int local).
   Ill-typed inputs (undefined name, type mismatch, redeclaration, invalid override) fail LATE:
   after the methods of the input were hoisted into the environment, after some bodies were checked.

   [check_program] mirrors the phases of Checker.CheckProgram (types/checker/checker.go:569-615) on this
   fragment as a pass that MUTATES the checker state and only records errors;
   [check_source] mirrors Checker.CheckSource (checker.go:383-418): reset of the per-input fields,
   snapshot, CheckProgram, restore of exactly the snapshotted components on failure.
   The flag [fx] selects the code as FIXED (true: CheckSource also puts back the compiler of the last
   accepted input, fixes/C27-restore-compiler.patch) or as found (false: c.compiler is left wherever
   CheckProgram stopped; after an early failure that is the namespace-definition compiler, whose
   scopes are empty).
   [incr] threads checker state + VM state (one value stack addressed through the compiler's slot table,
   vm/thread.go:96-115 InterpretREPL); [ref_run] is the reference: a name-keyed interpreter that runs the
   accepted inputs only, in order, with no checker and no slots. *)
From Coq Require Import ZArith NArith List Bool.
Import ListNotations.

Inductive ty := TInt | TStr | TObj (c : N).
Definition ty_eqb (a b : ty) : bool :=
  match a, b with
  | TInt, TInt => true
  | TStr, TStr => true
  | TObj c, TObj d => N.eqb c d
  | _, _ => false
  end.

(* type expressions as written in the source *)
Inductive texp := XInt | XStr | XAlias (a : N) | XClass (c : N).

Inductive expr :=
| ELit (z : Z)
| EStr (s : N)
| ELoc (v : N)
| EConst (k : N)
| EParam
| ECall (m : N) (a : expr)
| EAdd (a b : expr)
| EMul (a b : expr)
| EDiv (a b : expr)
| ENew (c : N).

Inductive stmt :=
| SDef (m : N) (rt : ty) (body : expr)
| SConst (k : N) (e : expr)
| SDecl (v : N) (t : texp) (e : expr)
| SAssign (v : N) (e : expr)
| SPrint (e : expr)
| SEarly
| STypedef (a : N) (x : texp)
| SClass (c : N).

Definition input := list stmt.

Inductive val := VInt (z : Z) | VStr (s : N) | VNil | VObj (c : N).

(* ---------------------------------------------------------------- association lists *)

Fixpoint lookup {A} (l : list (N * A)) (k : N) : option A :=
  match l with
  | [] => None
  | (k', a) :: r => if N.eqb k' k then Some a else lookup r k
  end.

Fixpoint aset {A} (l : list (N * A)) (k : N) (a : A) : list (N * A) :=
  match l with
  | [] => [(k, a)]
  | (k', a') :: r => if N.eqb k' k then (k', a) :: r else (k', a') :: aset r k a
  end.

(* update only when bound (assignment to a local) *)
Fixpoint aupd {A} (l : list (N * A)) (k : N) (a : A) : list (N * A) :=
  match l with
  | [] => []
  | (k', a') :: r => if N.eqb k' k then (k', a) :: r else (k', a') :: aupd r k a
  end.

Fixpoint memN (k : N) (l : list N) : bool :=
  match l with [] => false | x :: r => if N.eqb x k then true else memN k r end.

(* ---------------------------------------------------------------- the checker *)

(* the type a type expression denotes: aliases are chased through the table of typedefs (the
   unresolved right-hand sides, as written); running out of fuel = a circular definition *)
Fixpoint resolve (fuel : nat) (tds : list (N * texp)) (cs : list N) (x : texp) {struct fuel} : option ty :=
  match x with
  | XInt => Some TInt
  | XStr => Some TStr
  | XClass c => if memN c cs then Some (TObj c) else None
  | XAlias a =>
      match fuel with
      | O => None
      | S f => match lookup tds a with Some y => resolve f tds cs y | None => None end
      end
  end.

Definition resolve_in (tds : list (N * texp)) (cs : list N) (x : texp) : option ty :=
  resolve (S (length tds)) tds cs x.

(* static type of an expression; [locs] = None inside method bodies and constant initialisers
   (top-level locals are not visible there); [param] = the method parameter is in scope;
   [cs] = the declared classes *)
Fixpoint ty_of (cs : list N) (ms : list (N * ty)) (ks : list N) (locs : option (list (N * ty))) (param : bool)
         (e : expr) : option ty :=
  match e with
  | ELit _ => Some TInt
  | EStr _ => Some TStr
  | ELoc v => match locs with Some ls => lookup ls v | None => None end
  | EConst k => if memN k ks then Some TInt else None
  | EParam => if param then Some TInt else None
  | ECall m a =>
      match ty_of cs ms ks locs param a with
      | Some TInt => lookup ms m
      | _ => None
      end
  | EAdd a b | EMul a b | EDiv a b =>
      match ty_of cs ms ks locs param a, ty_of cs ms ks locs param b with
      | Some TInt, Some TInt => Some TInt
      | _, _ => None
      end
  | ENew c => if memN c cs then Some (TObj c) else None
  end.

(* the compiler chain (Checker.compiler): nothing yet | the main compiler of an input, with its
   table of top-level locals in slot order | the namespace-definition compiler created by
   initGlobalEnvCompiler (fresh scopes; its parent is the new main compiler) *)
Inductive comp := CNone | CMain (slots : list N) | CEnv (parent : list N).

Definition comp_slots (c : comp) : list N :=
  match c with CMain s => s | _ => [] end.

Record cstate := mkC {
  c_meths  : list (N * ty);          (* runtimeEnv: method signatures        — snapshotted/restored *)
  c_consts : list N;                 (* runtimeEnv: constants (all Int)      — snapshotted/restored *)
  c_locals : list (N * ty);          (* localEnvs: declared types of locals  — snapshotted/restored *)
  c_comp   : comp;                   (* compiler chain                       — restored only if fx  *)
  c_bodies : list (N * ty * expr);   (* methodBodyChecks                     — reset per input      *)
  c_err    : bool;                   (* Errors.IsFailure()                   — cleared by the REPL  *)
  c_tdefs  : list (N * texp);        (* runtimeEnv: named types, as written  — snapshotted/restored *)
  c_classes : list N                 (* runtimeEnv: classes                  — snapshotted/restored *)
}.

Definition fail (s : cstate) : cstate :=
  mkC (c_meths s) (c_consts s) (c_locals s) (c_comp s) (c_bodies s) true (c_tdefs s) (c_classes s).

Definition or_err (s : cstate) (bad : bool) : cstate :=
  mkC (c_meths s) (c_consts s) (c_locals s) (c_comp s) (c_bodies s) (c_err s || bad) (c_tdefs s) (c_classes s).

Definition is_early (st : stmt) : bool := match st with SEarly => true | _ => false end.

(* hoistNamespaceDefinitionsAndMacros: constants, classes and named types are registered here
   (a class may be reopened; a constant or a named type cannot be redeclared),
   `class Z < Nope` fails here *)
Fixpoint phase_namespaces (s : cstate) (inp : input) : cstate :=
  match inp with
  | [] => s
  | SEarly :: r => phase_namespaces (fail s) r
  | SConst k _ :: r =>
      let s1 := if memN k (c_consts s) then fail s (* cannot redeclare constant *)
                else mkC (c_meths s) (k :: c_consts s) (c_locals s) (c_comp s) (c_bodies s) (c_err s)
                         (c_tdefs s) (c_classes s) in
      phase_namespaces s1 r
  | SClass c :: r =>
      let s1 := if memN c (c_classes s) then s
                else mkC (c_meths s) (c_consts s) (c_locals s) (c_comp s) (c_bodies s) (c_err s)
                         (c_tdefs s) (c_classes s ++ [c]) in
      phase_namespaces s1 r
  | STypedef a x :: r =>
      let s1 := match lookup (c_tdefs s) a with
                | Some _ => fail s (* cannot redeclare constant *)
                | None => mkC (c_meths s) (c_consts s) (c_locals s) (c_comp s) (c_bodies s) (c_err s)
                              (c_tdefs s ++ [(a, x)]) (c_classes s)
                end in
      phase_namespaces s1 r
  | _ :: r => phase_namespaces s r
  end.

(* checkTypeDefinitions (runs between initGlobalEnvCompiler and switchToMainCompiler, so a failure
   here leaves the namespace-definition compiler in place, like SEarly): every named type of the input must denote a type in the environment that
   now holds ALL classes and named types of the input (undefined type / circular reference) *)
Fixpoint phase_types (s : cstate) (inp : input) : cstate :=
  match inp with
  | [] => s
  | STypedef a _ :: r =>
      let ok := match resolve_in (c_tdefs s) (c_classes s) (XAlias a) with Some _ => true | None => false end in
      phase_types (or_err s (negb ok)) r
  | _ :: r => phase_types s r
  end.

(* initGlobalEnvCompiler: a new main compiler takes over the parent's local table; the current
   compiler becomes its namespace-definition child.  switchToMainCompiler: only when nothing failed. *)
Definition phase_compilers (s : cstate) : cstate :=
  let parent := comp_slots (c_comp s) in
  let c := if c_err s then CEnv parent else CMain parent in
  mkC (c_meths s) (c_consts s) (c_locals s) c (c_bodies s) (c_err s) (c_tdefs s) (c_classes s).

(* hoistMethodDefinitions + checkAllSignatures: the new signature replaces the old one; an
   incompatible return type is an invalid override *)
Fixpoint phase_hoist (s : cstate) (inp : input) : cstate :=
  match inp with
  | [] => s
  | SDef m rt body :: r =>
      let bad := match lookup (c_meths s) m with Some rt' => negb (ty_eqb rt rt') | None => false end in
      let s1 := mkC (aset (c_meths s) m rt) (c_consts s) (c_locals s) (c_comp s)
                    (c_bodies s ++ [(m, rt, body)]) (c_err s || bad) (c_tdefs s) (c_classes s) in
      phase_hoist s1 r
  | _ :: r => phase_hoist s r
  end.

Definition ty_is (o : option ty) (t : ty) : bool :=
  match o with Some t' => ty_eqb t t' | None => false end.

(* checkConstants *)
Fixpoint phase_consts (s : cstate) (inp : input) : cstate :=
  match inp with
  | [] => s
  | SConst _ e :: r =>
      let s1 := if ty_is (ty_of (c_classes s) (c_meths s) (c_consts s) None false e) TInt then s else fail s in
      phase_consts s1 r
  | _ :: r => phase_consts s r
  end.

(* checkMethodBodies *)
Fixpoint bodies_ok (cs : list N) (ms : list (N * ty)) (ks : list N) (bs : list (N * ty * expr)) : bool :=
  match bs with
  | [] => true
  | (_, rt, body) :: r => ty_is (ty_of cs ms ks None true body) rt && bodies_ok cs ms ks r
  end.

Definition phase_bodies (s : cstate) : cstate :=
  if bodies_ok (c_classes s) (c_meths s) (c_consts s) (c_bodies s) then s else fail s.

(* checkExpressionsInFile: top-level statements in order; a declared local stays declared even
   when its initialiser is ill-typed (not when its declared type is undefined) *)
Fixpoint phase_exprs (s : cstate) (inp : input) : cstate :=
  match inp with
  | [] => s
  | SDecl v x e :: r =>
      let tyo := ty_of (c_classes s) (c_meths s) (c_consts s) (Some (c_locals s)) false e in
      let dt := resolve_in (c_tdefs s) (c_classes s) x in
      let ok := match lookup (c_locals s) v, dt with
                | Some _, _ => false (* cannot redeclare local *)
                | None, Some t => ty_is tyo t
                | None, None => false (* undefined type *)
                end in
      let ls := match lookup (c_locals s) v, dt with
                | None, Some t => c_locals s ++ [(v, t)]
                | _, _ => c_locals s
                end in
      phase_exprs (mkC (c_meths s) (c_consts s) ls (c_comp s) (c_bodies s) (c_err s || negb ok)
                       (c_tdefs s) (c_classes s)) r
  | SAssign v e :: r =>
      let ok := match lookup (c_locals s) v with
                | Some t => ty_is (ty_of (c_classes s) (c_meths s) (c_consts s) (Some (c_locals s)) false e) t
                | None => false
                end in
      phase_exprs (or_err s (negb ok)) r
  | SPrint e :: r =>
      let ok := match ty_of (c_classes s) (c_meths s) (c_consts s) (Some (c_locals s)) false e with Some _ => true | None => false end in
      phase_exprs (or_err s (negb ok)) r
  | _ :: r => phase_exprs s r
  end.

(* the compiler defines a slot for every declared local (compileProgram, only when nothing failed) *)
Definition add_slot (slots : list N) (v : N) : list N :=
  if memN v slots then slots else slots ++ [v].

Fixpoint decl_names (inp : input) : list N :=
  match inp with
  | [] => []
  | SDecl v _ _ :: r => v :: decl_names r
  | _ :: r => decl_names r
  end.

Definition phase_compile (s : cstate) (inp : input) : cstate :=
  if c_err s then s
  else mkC (c_meths s) (c_consts s) (c_locals s)
           (CMain (fold_left add_slot (decl_names inp) (comp_slots (c_comp s))))
           (c_bodies s) (c_err s) (c_tdefs s) (c_classes s).

Definition check_program (s : cstate) (inp : input) : cstate :=
  let s1 := phase_namespaces s inp in
  let s1' := phase_types s1 inp in
  let s2 := phase_compilers s1' in
  let s3 := phase_hoist s2 inp in
  let s4 := phase_consts s3 inp in
  let s5 := phase_bodies s4 in
  let s6 := phase_exprs s5 inp in
  phase_compile s6 inp.

(* CheckSource: per-input reset, snapshot, CheckProgram, restore on failure *)
Definition reset (s : cstate) : cstate :=
  mkC (c_meths s) (c_consts s) (c_locals s) (c_comp s) [] false (c_tdefs s) (c_classes s).

Definition check_source (fx : bool) (s : cstate) (inp : input) : cstate :=
  let s1 := check_program (reset s) inp in
  if c_err s1 then
    mkC (c_meths s) (c_consts s) (c_locals s)
        (if fx then c_comp s else c_comp s1)
        (c_bodies s1) true (c_tdefs s) (c_classes s)
  else s1.

(* ---------------------------------------------------------------- evaluation *)

Inductive res := RVal (v : val) | RErr | RCrash | RFuel.

(* [loc] resolves a top-level local (slot-addressed in the VM, name-keyed in the reference) *)
Fixpoint eval (fuel : nat) (ms : list (N * expr)) (ks : list (N * val)) (loc : N -> option val)
         (param : option val) (e : expr) : res :=
  match fuel with
  | O => RFuel
  | S f =>
      let arith (op : Z -> Z -> res) (a b : expr) :=
        match eval f ms ks loc param a with
        | RVal (VInt x) =>
            match eval f ms ks loc param b with
            | RVal (VInt y) => op x y
            | RVal _ => RCrash
            | r => r
            end
        | RVal _ => RCrash
        | r => r
        end in
      match e with
      | ELit z => RVal (VInt z)
      | EStr s => RVal (VStr s)
      | ELoc v => match loc v with Some x => RVal x | None => RCrash end
      | EConst k => match lookup ks k with Some x => RVal x | None => RCrash end
      | EParam => match param with Some x => RVal x | None => RCrash end
      | ECall m a =>
          match eval f ms ks loc param a with
          | RVal x =>
              match lookup ms m with
              | Some body => eval f ms ks (fun _ => None) (Some x) body
              | None => RCrash
              end
          | r => r
          end
      | EAdd a b => arith (fun x y => RVal (VInt (x + y))) a b
      | EMul a b => arith (fun x y => RVal (VInt (x * y))) a b
      | EDiv a b => arith (fun x y => if Z.eqb y 0 then RErr else RVal (VInt (Z.quot x y))) a b
      | ENew c => RVal (VObj c)
      end
  end.

Definition FUEL : nat := 400.

Inductive status := Done | Error (at_stmt : nat) | Crash (at_stmt : nat).
Inductive result := Rejected | Ran (out : list val) (st : status).

Definition stop_of (r : res) (i : nat) : status :=
  match r with RErr => Error i | _ => Crash i end.

(* ---------------------------------------------------------------- the VM side (slots) *)

Fixpoint index_of (v : N) (slots : list N) : option nat :=
  match slots with
  | [] => None
  | x :: r => if N.eqb x v then Some O else match index_of v r with Some i => Some (S i) | None => None end
  end.

Fixpoint upd_nth {A} (l : list A) (i : nat) (a : A) : list A :=
  match l, i with
  | [], _ => []
  | _ :: r, O => a :: r
  | x :: r, S j => x :: upd_nth r j a
  end.

Definition slot_get (slots : list N) (stack : list val) (v : N) : option val :=
  match index_of v slots with Some i => nth_error stack i | None => None end.

Definition slot_set (slots : list N) (stack : list val) (v : N) (x : val) : option (list val) :=
  match index_of v slots with
  | Some i => if Nat.ltb i (length stack) then Some (upd_nth stack i x) else None
  | None => None
  end.

Fixpoint nils (n : nat) : list val := match n with O => [] | S m => VNil :: nils m end.

(* PREP_LOCALS: the stack grows to hold every slot the compiler knows *)
Definition pad (stack : list val) (n : nat) : list val := stack ++ nils (n - length stack).

Record rstate := mkR {
  r_meths : list (N * expr);
  r_consts : list (N * val);
  r_stack : list val
}.

Fixpoint hoist_defs (ms : list (N * expr)) (inp : input) : list (N * expr) :=
  match inp with
  | [] => ms
  | SDef m _ body :: r => hoist_defs (aset ms m body) r
  | _ :: r => hoist_defs ms r
  end.

(* run the statements of one input on the slot-addressed stack *)
Fixpoint vm_stmts (slots : list N) (r : rstate) (inp : input) (i : nat) (out : list val)
  : rstate * list val * status :=
  match inp with
  | [] => (r, out, Done)
  | st :: rest =>
      let ev := eval FUEL (r_meths r) (r_consts r) (slot_get slots (r_stack r)) None in
      match st with
      | SConst k e =>
          match ev e with
          | RVal x => vm_stmts slots (mkR (r_meths r) (aset (r_consts r) k x) (r_stack r)) rest (S i) out
          | x => (r, out, stop_of x i)
          end
      | SDecl v _ e | SAssign v e =>
          match ev e with
          | RVal x =>
              match slot_set slots (r_stack r) v x with
              | Some stk => vm_stmts slots (mkR (r_meths r) (r_consts r) stk) rest (S i) out
              | None => (r, out, Crash i)
              end
          | x => (r, out, stop_of x i)
          end
      | SPrint e =>
          match ev e with
          | RVal x => vm_stmts slots r rest (S i) (out ++ [x])
          | x => (r, out, stop_of x i)
          end
      | _ => vm_stmts slots r rest (S i) out
      end
  end.

Definition vm_input (slots : list N) (r : rstate) (inp : input) : rstate * result :=
  let r0 := mkR (hoist_defs (r_meths r) inp) (r_consts r) (pad (r_stack r) (length slots)) in
  match vm_stmts slots r0 inp O [] with
  | (r1, out, st) => (r1, Ran out st)
  end.

Record istate := mkI { i_c : cstate; i_r : rstate }.

Definition clear_errors (s : cstate) : cstate :=
  mkC (c_meths s) (c_consts s) (c_locals s) (c_comp s) (c_bodies s) false (c_tdefs s) (c_classes s).

(* repl.evaluate *)
Definition incr_step (fx : bool) (st : istate) (inp : input) : istate * result :=
  let c1 := check_source fx (i_c st) inp in
  if c_err c1 then (mkI (clear_errors c1) (i_r st), Rejected)
  else
    match vm_input (comp_slots (c_comp c1)) (i_r st) inp with
    | (r1, res) => (mkI (clear_errors c1) r1, res)
    end.

Fixpoint incr (fx : bool) (st : istate) (h : list input) : list result * istate :=
  match h with
  | [] => ([], st)
  | inp :: r =>
      match incr_step fx st inp with
      | (st1, res) => match incr fx st1 r with (rs, st2) => (res :: rs, st2) end
      end
  end.

Definition c_init : cstate := mkC [] [] [] CNone [] false [] [].
Definition r_init : rstate := mkR [] [] [].
Definition i_init : istate := mkI c_init r_init.

Definition is_ran (r : result) : bool := match r with Ran _ _ => true | Rejected => false end.

Fixpoint accepted_of (h : list input) (rs : list result) : list input :=
  match h, rs with
  | inp :: h', r :: rs' => if is_ran r then inp :: accepted_of h' rs' else accepted_of h' rs'
  | _, _ => []
  end.

Definition accepted (fx : bool) (st : istate) (h : list input) : list input :=
  accepted_of h (fst (incr fx st h)).

Definition ran_results (rs : list result) : list result := filter is_ran rs.

(* what a later input can see *)
Definition visible (st : istate) :=
  (c_meths (i_c st), c_consts (i_c st), c_locals (i_c st), c_comp (i_c st),
   c_tdefs (i_c st), c_classes (i_c st),
   r_meths (i_r st), r_consts (i_r st), r_stack (i_r st)).

(* ---------------------------------------------------------------- the reference (batch) *)

Record bstate := mkB {
  b_meths : list (N * expr);
  b_consts : list (N * val);
  b_locals : list (N * val)
}.

Definition add_local (ls : list (N * val)) (v : N) : list (N * val) :=
  match lookup ls v with Some _ => ls | None => ls ++ [(v, VNil)] end.

Fixpoint ref_stmts (b : bstate) (inp : input) (i : nat) (out : list val) : bstate * list val * status :=
  match inp with
  | [] => (b, out, Done)
  | st :: rest =>
      let ev := eval FUEL (b_meths b) (b_consts b) (lookup (b_locals b)) None in
      match st with
      | SConst k e =>
          match ev e with
          | RVal x => ref_stmts (mkB (b_meths b) (aset (b_consts b) k x) (b_locals b)) rest (S i) out
          | x => (b, out, stop_of x i)
          end
      | SDecl v _ e | SAssign v e =>
          match ev e with
          | RVal x =>
              match lookup (b_locals b) v with
              | Some _ => ref_stmts (mkB (b_meths b) (b_consts b) (aupd (b_locals b) v x)) rest (S i) out
              | None => (b, out, Crash i)
              end
          | x => (b, out, stop_of x i)
          end
      | SPrint e =>
          match ev e with
          | RVal x => ref_stmts b rest (S i) (out ++ [x])
          | x => (b, out, stop_of x i)
          end
      | _ => ref_stmts b rest (S i) out
      end
  end.

(* one segment of the program: its method definitions take effect (hoisted within the segment), its
   declared locals come into existence (nil until assigned), its statements run in order; an
   uncaught error ends THIS segment only, effects made before it persist *)
Definition ref_input_gen (hoist : bool) (b : bstate) (inp : input) : bstate * result :=
  let b0 := mkB (if hoist then hoist_defs (b_meths b) inp else b_meths b) (b_consts b)
                (fold_left add_local (decl_names inp) (b_locals b)) in
  match ref_stmts b0 inp O [] with
  | (b1, out, st) => (b1, Ran out st)
  end.

Definition ref_input := ref_input_gen true.

Fixpoint ref_run_gen (hoist : bool) (b : bstate) (l : list input) : list result :=
  match l with
  | [] => []
  | inp :: r => match ref_input_gen hoist b inp with (b1, res) => res :: ref_run_gen hoist b1 r end
  end.

Definition ref_run := ref_run_gen true.

Definition b_init : bstate := mkB [] [] [].

(* whole-program semantics of `elk run` on the concatenation: EVERY method definition of the program
   is in effect before the first statement runs (the last definition of a name wins everywhere).
   Used by the correspondence for the batch oracle; it differs from [ref_run] exactly when an
   earlier segment's effects depended on a method that a later segment redefines. *)
Fixpoint all_defs (ms : list (N * expr)) (l : list input) : list (N * expr) :=
  match l with [] => ms | inp :: r => all_defs (hoist_defs ms inp) r end.

Definition batch_run (l : list input) : list result :=
  ref_run_gen false (mkB (all_defs [] l) [] []) l.
