(* C02 - static types describe runtime values: classes, subclassing and narrowing by the is-a /
   instance-of operators. Executable model only (no proofs in this file).

   Hierarchy  a class table `ct` = list of (class, superclass) for every class that has a superclass
              (single inheritance; roots are simply absent); `sub_cls ct c d` = c is d or a descendant.
              `ovr` = the classes that define their own `name` method; `resolve` = dynamic dispatch
              (nearest ancestor-or-self that defines it).
   Values     VObj c = an object whose DIRECT class is c (Std::Int is just one more class), VNilK = nil.
   Types      nil never any, C (instances of C or of a subclass), exact C (direct instances only),
              a | b, a & b, ~a.      Value sets: kmem.
   Conditions the four operator tokens of types/checker/narrow.go narrowBinary
                 x <: C   (TIsA)      C :> x   (TRevIsA)      x <<: C  (TInstOf)     C :>> x  (TRevInstOf)
              combined with !, &&, || exactly as narrowUnary / narrowLogicalAnd / narrowLogicalOr do for
              operands of type Bool (truthy &&: both operands in sequence; falsy &&: nothing;
              falsy ||: both operands in sequence; truthy ||: nothing).
   Narrowing  narrowIsA:       truthy  local.typ = C                  falsy  local.typ & ~C
              narrowInstanceOf truthy  local.typ = exact C            falsy  local.typ & ~C      (as found)
                                                                             local.typ & ~exact C (fx = true,
                                                                             fixes/C02-instance-of-else.patch)
              The intersections are kept un-normalised: the correspondence compares VALUE SETS over the
              finite class table, so NewNormalisedIntersection need not be mirrored.
   Statements probes of a local, sequencing, if/else (no assignment in this fragment).
   Static binding  compileCallMethod binds a call statically when the receiver type is `exact C` or a
              class without children: static_target. *)
From Coq Require Import ZArith List Bool.
Import ListNotations.
Open Scope Z_scope.

Definition cls := Z.
Definition cvar := Z.
Definition ctable := list (cls * cls).

Fixpoint parent_of (ct : ctable) (c : cls) : option cls :=
  match ct with
  | [] => None
  | (d, p) :: r => if d =? c then Some p else parent_of r c
  end.

Fixpoint is_sub (fuel : nat) (ct : ctable) (c d : cls) : bool :=
  (c =? d) ||
  match fuel with
  | O => false
  | S f => match parent_of ct c with Some p => is_sub f ct p d | None => false end
  end.

Definition sub_cls (ct : ctable) (c d : cls) : bool := is_sub (length ct) ct c d.

Definition has_child (ct : ctable) (c : cls) : bool := existsb (fun p => snd p =? c) ct.

Definition defines (ovr : list cls) (c : cls) : bool := existsb (fun d => d =? c) ovr.

(* dynamic dispatch of `name`: the class whose definition runs for a receiver of direct class c *)
Fixpoint resolve_f (fuel : nat) (ct : ctable) (ovr : list cls) (c : cls) : option cls :=
  if defines ovr c then Some c
  else match fuel with
       | O => None
       | S f => match parent_of ct c with Some p => resolve_f f ct ovr p | None => None end
       end.

Definition resolve (ct : ctable) (ovr : list cls) (c : cls) : option cls :=
  resolve_f (length ct) ct ovr c.

Inductive kval : Type := VObj (c : cls) | VNilK.

Inductive kty : Type :=
| KNil | KNever | KAny
| KClass (c : cls) | KExact (c : cls)
| KUnion (a b : kty) | KAnd (a b : kty) | KNot (a : kty).

Fixpoint kmem (ct : ctable) (t : kty) (v : kval) : bool :=
  match t with
  | KNil => match v with VNilK => true | _ => false end
  | KNever => false
  | KAny => true
  | KClass c => match v with VObj d => sub_cls ct d c | VNilK => false end
  | KExact c => match v with VObj d => d =? c | VNilK => false end
  | KUnion a b => kmem ct a v || kmem ct b v
  | KAnd a b => kmem ct a v && kmem ct b v
  | KNot a => negb (kmem ct a v)
  end.

(* ---------------------------------------------------------------- conditions *)
Inductive tok : Type := TIsA | TRevIsA | TInstOf | TRevInstOf.

Inductive kcond : Type :=
| CTest (o : tok) (x : cvar) (c : cls)
| CNot (k : kcond)
| CAnd (a b : kcond)
| COr (a b : kcond).

Definition test_val (ct : ctable) (o : tok) (v : kval) (c : cls) : bool :=
  match v with
  | VNilK => false
  | VObj d =>
      match o with
      | TIsA | TRevIsA => sub_cls ct d c
      | TInstOf | TRevInstOf => d =? c
      end
  end.

Definition kenv := list (cvar * kty).
Definition krt := list (cvar * kval).

Fixpoint klookup {A : Type} (x : cvar) (l : list (cvar * A)) : option A :=
  match l with
  | [] => None
  | (y, a) :: r => if y =? x then Some a else klookup x r
  end.

Fixpoint kset (x : cvar) (t : kty) (G : kenv) : kenv :=
  match G with
  | [] => []
  | (y, u) :: r => if y =? x then (y, t) :: r else (y, u) :: kset x t r
  end.

Fixpoint eval_c (ct : ctable) (r : krt) (k : kcond) : option bool :=
  match k with
  | CTest o x c => match klookup x r with Some v => Some (test_val ct o v c) | None => None end
  | CNot k1 => match eval_c ct r k1 with Some b => Some (negb b) | None => None end
  | CAnd a b =>
      match eval_c ct r a with
      | Some true => eval_c ct r b
      | Some false => Some false
      | None => None
      end
  | COr a b =>
      match eval_c ct r a with
      | Some true => Some true
      | Some false => eval_c ct r b
      | None => None
      end
  end.

(* ---------------------------------------------------------------- narrowing *)
Definition narrow_isa (pos : bool) (c : cls) (cur : kty) : kty :=
  if pos then KClass c else KAnd cur (KNot (KClass c)).

Definition narrow_instof (fx pos : bool) (c : cls) (cur : kty) : kty :=
  if pos then KExact c else KAnd cur (KNot (if fx then KExact c else KClass c)).

(* narrowBinary: which narrowing function each operator token selects *)
Definition narrow_tok (fx : bool) (o : tok) : bool -> cls -> kty -> kty :=
  match o with
  | TIsA => narrow_isa
  | TRevIsA => narrow_isa
  | TInstOf => narrow_instof fx
  | TRevInstOf => narrow_instof fx
  end.

(* narrowCondition; pos = true: the condition is assumed truthy *)
Fixpoint narrow_c (fx : bool) (G : kenv) (k : kcond) (pos : bool) : kenv :=
  match k with
  | CTest o x c =>
      match klookup x G with
      | Some cur => kset x (narrow_tok fx o pos c cur) G
      | None => G
      end
  | CNot k1 => narrow_c fx G k1 (negb pos)
  | CAnd a b => if pos then narrow_c fx (narrow_c fx G a true) b true else G
  | COr a b => if pos then G else narrow_c fx (narrow_c fx G a false) b false
  end.

(* ---------------------------------------------------------------- statements *)
Inductive kstmt : Type :=
| KSkip
| KSeq (a b : kstmt)
| KProbe (k : Z) (x : cvar)
| KIf (c : kcond) (a b : kstmt).

(* the static type of every probe *)
Fixpoint kannot (fx : bool) (G : kenv) (s : kstmt) : list (Z * kty) :=
  match s with
  | KSkip => []
  | KSeq a b => kannot fx G a ++ kannot fx G b
  | KProbe k x => match klookup x G with Some t => [(k, t)] | None => [] end
  | KIf c a b => kannot fx (narrow_c fx G c true) a ++ kannot fx (narrow_c fx G c false) b
  end.

(* checked execution: the executed probes with their static type and the value they saw *)
Fixpoint krun (fx : bool) (ct : ctable) (G : kenv) (r : krt) (s : kstmt) : option (list (Z * kty * kval)) :=
  match s with
  | KSkip => Some []
  | KSeq a b =>
      match krun fx ct G r a, krun fx ct G r b with
      | Some la, Some lb => Some (la ++ lb)
      | _, _ => None
      end
  | KProbe k x =>
      match klookup x G, klookup x r with
      | Some t, Some v => Some [(k, t, v)]
      | _, _ => None
      end
  | KIf c a b =>
      match eval_c ct r c with
      | Some true => krun fx ct (narrow_c fx G c true) r a
      | Some false => krun fx ct (narrow_c fx G c false) r b
      | None => None
      end
  end.

Definition klog_ok (ct : ctable) (lg : list (Z * kty * kval)) : bool :=
  forallb (fun p => kmem ct (snd (fst p)) (snd p)) lg.

(* ---------------------------------------------------------------- static binding *)
Definition static_target (ct : ctable) (t : kty) : option cls :=
  match t with
  | KExact c => Some c
  | KClass c => if has_child ct c then None else Some c
  | _ => None
  end.

(* ---------------------------------------------------------------- specification predicates *)
Definition kenv_ok (ct : ctable) (G : kenv) (r : krt) : Prop :=
  forall x t, klookup x G = Some t -> exists v, klookup x r = Some v /\ kmem ct t v = true.

(* operands of the instance-of tokens *)
Fixpoint instof_ops_c (k : kcond) : list cls :=
  match k with
  | CTest (TInstOf | TRevInstOf) _ c => [c]
  | CTest _ _ _ => []
  | CNot k1 => instof_ops_c k1
  | CAnd a b | COr a b => instof_ops_c a ++ instof_ops_c b
  end.

Fixpoint instof_ops (s : kstmt) : list cls :=
  match s with
  | KSkip | KProbe _ _ => []
  | KSeq a b => instof_ops a ++ instof_ops b
  | KIf c a b => instof_ops_c c ++ instof_ops a ++ instof_ops b
  end.

(* the guard that excludes exactly the finding's input class: no local holds an instance of a PROPER
   subclass of a class used as an instance-of operand *)
Definition no_proper_sub (ct : ctable) (r : krt) (ops : list cls) : Prop :=
  forall x d c, klookup x r = Some (VObj d) -> In c ops -> sub_cls ct d c = true -> d = c.
