(* C10 — restoring a suspended generator's saved frame on top of the running thread's value stack
   (vm/thread.go CallGeneratorNext, callBytecodePromise): the saved slots (self, parameters, locals and
   the temporaries pending at the `yield`) are written to sp, sp+W, ... and sp is advanced.
   `resume_frame` derives the destination from the CURRENT stack pointer (what the Go code does: no
   growth can happen between reading sp and the writes).  `resume_frame_stale` is the shape of a
   restore that reserves the slots, lets growValueStack run, and then writes through the destination
   ADDRESS it computed before the growth.  No proofs here. *)
From Elk Require Export Base.GoSem Model.C10_Stack.
Open Scope Z_scope.

Fixpoint poke_frame (s : st) (a : Z) (fr : list Z) : st :=
  match fr with
  | [] => s
  | v :: r => poke_frame (poke s a v) (a + W) r
  end.

Definition bump_sp (s : st) (n : Z) : st :=
  match s with
  | mkst b c m p f fr ol h k hd kh ou => mkst b c m (p + W * n) f fr ol h k hd kh ou
  end.

Definition resume_frame (s : st) (fr : list Z) : st :=
  bump_sp (poke_frame s (sp s) fr) (Z.of_nat (length fr)).

Definition resume_frame_stale (s : st) (nb : Z) (fr : list Z) : st :=
  let a := sp s in
  bump_sp (poke_frame (grow s nb) a fr) (Z.of_nat (length fr)).
