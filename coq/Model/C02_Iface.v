(* C02 - static types describe runtime values: GENERIC classes, GENERIC interfaces and IMPLICIT
   (structural) interface implementation. Executable model only (no proofs in this file).

   Base types   Int String Float nil, the type parameter T, unions.  `bat s b` = the atoms of b when
                the type parameter stands for the atom list s (closed types: s = []).
   Classes      every class has ONE type parameter T (a non-generic class simply never mentions it),
                one field `@item: T` given to the constructor, and methods `def m(x: P): R` / `def m: R`
                whose body is `@item`, a literal, or the argument x.  No inheritance in this fragment.
   Interfaces   ONE type parameter, method signatures only.
   Types        base | C[s] | I[t]            (type arguments are closed base types)
   Values       a base value (its atom + a payload) | an object of direct class c holding `item`
   Subtyping    mirrors types/checker/predicate.go on these constructors:
                  C[s] <: C[t]    isSubtypeOfGenericNamespace: type arguments INVARIANT (s <: t and t <: s)
                  I[s] <: I[t]    the same (same namespace: no structural fallback)
                  C[s] <: I[t]    isImplicitSubtypeOfInterface: every method of I[t] has a same-named
                  J[s] <: I[t]    method in C[s] (J[s]) with the same number of parameters, parameter
                                  types contravariant, return type covariant, after substituting the
                                  type arguments (checkMethodCompatibility)
                  everything else between a base type and a class/interface: false
   Value sets   [[C[s]]] = objects of class C whose item is in [[s]];
                [[I[t]]] = objects that RESPOND to every method of I[t]: the class has the method with the
                same arity and every call with an argument of the declared parameter type returns a value
                of the declared return type (after substitution) - a behavioural definition, it does not
                mention the structural rule.  imem_b decides it with one representative argument per atom. *)
From Coq Require Import ZArith List Bool.
Import ListNotations.
Open Scope Z_scope.

Inductive atom : Type := AInt | AStr | AFlt | ANil.

Definition atom_eqb (a b : atom) : bool :=
  match a, b with
  | AInt, AInt | AStr, AStr | AFlt, AFlt | ANil, ANil => true
  | _, _ => false
  end.

Inductive bty : Type := BAtom (a : atom) | BVar | BOr (a b : bty).

(* atoms of b when T := s *)
Fixpoint bat (s : list atom) (b : bty) : list atom :=
  match b with
  | BAtom a => [a]
  | BVar => s
  | BOr x y => bat s x ++ bat s y
  end.

Definition ain (a : atom) (l : list atom) : bool := existsb (atom_eqb a) l.
Definition asub (xs ys : list atom) : bool := forallb (fun x => ain x ys) xs.

Definition bval : Type := (atom * Z)%type.
Definition bmem (s : list atom) (b : bty) (v : bval) : bool := ain (fst v) (bat s b).

(* ---------------------------------------------------------------- tables *)
Inductive body : Type := BdItem | BdConst (v : bval) | BdArg.

Definition msig : Type := (option bty * bty)%type.               (* parameter, return type *)
Definition imeth : Type := (Z * msig)%type.                      (* name, signature *)
Definition cmeth : Type := (Z * (msig * body))%type.
Definition ctab : Type := list (Z * list cmeth).
Definition itab : Type := list (Z * list imeth).

Fixpoint zfind {A : Type} (k : Z) (l : list (Z * A)) : option A :=
  match l with
  | [] => None
  | (j, a) :: r => if j =? k then Some a else zfind k r
  end.

Definition cmeths (ct : ctab) (c : Z) : list cmeth :=
  match zfind c ct with Some l => l | None => [] end.
Definition imeths (it : itab) (i : Z) : list imeth :=
  match zfind i it with Some l => l | None => [] end.
Definition csigs (ct : ctab) (c : Z) : list imeth := map (fun m => (fst m, fst (snd m))) (cmeths ct c).

(* ---------------------------------------------------------------- types, values *)
Inductive gty : Type := GB (b : bty) | GC (c : Z) (arg : bty) | GI (i : Z) (arg : bty).
Inductive gval : Type := VB (v : bval) | VO (c : Z) (item : bval).

(* ---------------------------------------------------------------- subtyping *)
(* checkMethodCompatibility(abstract, implementation): s = type argument of the implementing
   namespace, t = type argument of the interface *)
Definition compat (s t : list atom) (impl abst : msig) : bool :=
  match fst abst, fst impl with
  | None, None => true
  | Some p, Some p' => asub (bat t p) (bat s p')
  | _, _ => false
  end && asub (bat s (snd impl)) (bat t (snd abst)).

Definition impl_ok (s t : list atom) (impls absts : list imeth) : bool :=
  forallb (fun am => match zfind (fst am) impls with
                     | Some sg => compat s t sg (snd am)
                     | None => false
                     end) absts.

Definition invariant (s t : list atom) : bool := asub s t && asub t s.

Definition isub (ct : ctab) (it : itab) (a b : gty) : bool :=
  match a, b with
  | GB x, GB y => asub (bat [] x) (bat [] y)
  | GC c s, GC d t => (c =? d) && invariant (bat [] s) (bat [] t)
  | GC c s, GI i t => impl_ok (bat [] s) (bat [] t) (csigs ct c) (imeths it i)
  | GI j s, GI i t =>
      if j =? i then invariant (bat [] s) (bat [] t)
      else impl_ok (bat [] s) (bat [] t) (imeths it j) (imeths it i)
  | _, _ => false
  end.

(* ---------------------------------------------------------------- running a method *)
Definition run_body (b : body) (item : bval) (arg : option bval) : option bval :=
  match b with
  | BdItem => Some item
  | BdConst k => Some k
  | BdArg => arg
  end.

(* o.m(arg) / o.m : arity must match the definition *)
Definition gcall (ct : ctab) (c : Z) (item : bval) (m : Z) (arg : option bval) : option bval :=
  match zfind m (cmeths ct c) with
  | Some ((Some _, _), b) => match arg with Some _ => run_body b item arg | None => None end
  | Some ((None, _), b) => match arg with None => run_body b item None | Some _ => None end
  | None => None
  end.

(* the bodies the class declares fit their signatures (what the real checker verifies when it checks the
   class definition): `@item` needs T in the return type, a literal its atom, `x` needs P <= R with T open *)
Fixpoint has_var (b : bty) : bool :=
  match b with
  | BAtom _ => false
  | BVar => true
  | BOr x y => has_var x || has_var y
  end.

Definition body_ok (sg : msig) (b : body) : bool :=
  match b with
  | BdItem => has_var (snd sg)
  | BdConst k => ain (fst k) (bat [] (snd sg))
  | BdArg => match fst sg with
             | Some p => asub (bat [] p) (bat [] (snd sg)) && (negb (has_var p) || has_var (snd sg))
             | None => false
             end
  end.

Definition ctab_ok (ct : ctab) : bool :=
  forallb (fun ce => forallb (fun m => body_ok (fst (snd m)) (snd (snd m))) (snd ce)) ct.

(* ---------------------------------------------------------------- value sets *)
(* behavioural membership of an object in I[t] *)
Definition responds (ct : ctab) (t : list atom) (c : Z) (item : bval) (am : imeth) : Prop :=
  match fst (snd am) with
  | None => exists r, gcall ct c item (fst am) None = Some r /\ bmem t (snd (snd am)) r = true
  | Some p => forall a, bmem t p a = true ->
                        exists r, gcall ct c item (fst am) (Some a) = Some r /\ bmem t (snd (snd am)) r = true
  end.

Definition gmem (ct : ctab) (it : itab) (ty : gty) (v : gval) : Prop :=
  match ty, v with
  | GB b, VB x => bmem [] b x = true
  | GC c s, VO d item => c = d /\ bmem [] s item = true
  | GI i t, VO d item => forall am, In am (imeths it i) -> responds ct (bat [] t) d item am
  | _, _ => False
  end.

(* executable decision of `responds`: one representative argument per atom *)
Definition reps : list bval := [(AInt, 0); (AStr, 0); (AFlt, 0); (ANil, 0)].

Definition responds_b (ct : ctab) (t : list atom) (c : Z) (item : bval) (am : imeth) : bool :=
  match fst (snd am) with
  | None => match gcall ct c item (fst am) None with
            | Some r => bmem t (snd (snd am)) r
            | None => false
            end
  | Some p => forallb (fun a => negb (bmem t p a) ||
                                match gcall ct c item (fst am) (Some a) with
                                | Some r => bmem t (snd (snd am)) r
                                | None => false
                                end) reps
  end.

Definition gmem_b (ct : ctab) (it : itab) (ty : gty) (v : gval) : bool :=
  match ty, v with
  | GB b, VB x => bmem [] b x
  | GC c s, VO d item => (c =? d) && bmem [] s item
  | GI i t, VO d item => forallb (responds_b ct (bat [] t) d item) (imeths it i)
  | _, _ => false
  end.

(* ---------------------------------------------------------------- histories *)
(* a checker run answers a LIST of questions about one pair of tables; the specification answers
   each one on its own *)
Definition hist (ct : ctab) (it : itab) (qs : list (gty * gty)) : list bool :=
  map (fun q => isub ct it (fst q) (snd q)) qs.

(* static return type of `s.m(..)` for s : I[t] / C[s] : atoms after substitution *)
Definition ret_atoms (sigs : list imeth) (t : list atom) (m : Z) : option (list atom) :=
  match zfind m sigs with
  | Some sg => Some (bat t (snd sg))
  | None => None
  end.
