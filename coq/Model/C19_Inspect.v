(* C19 — inspect output is Elk source that evaluates back to an equal value.
   Executable model only (no proofs).  Bytes and runes are Z; strings are `list Z` of bytes.

   Printer side (package value):
     inspect_string      String.Inspect  (value/string.go)  AS FIXED by fixes/C19-inspect-escapes.patch
     inspect_string_old  String.Inspect  as it is in the unfixed tree (kept for the _refuted witnesses)
     inspect_char / inspect_char_old     Char.Inspect (value/char.go), same
     print_int           SmallInt.Inspect / BigInt.Inspect: strconv.FormatInt / big.Int.String, decimal
   Reader side (package lexer + value):
     lex_string_body     scanStringLiteral + scanStringLiteralContent (lexer.go) for a literal that
                         is the whole input: Some bytes iff the token stream is
                         STRING_BEG STRING_CONTENT? STRING_END EOF (no interpolation, no error)
     lex_char_body       Lexer.character + Parser.charLiteral (DecodeRuneInString of the token value)
     number_literal      Lexer.numberLiteral restricted to INT tokens that span the whole input
     parse_ubigint / parse_bigint   value.parseUBigInt / value.ParseBigIntWithErr
     eval_int_source     `-`? INT : unary minus applied to the literal's value

   unicode.IsGraphic / unicode.IsLetter are Section variables (Go's tables; the theorems hold
   for every instance, the extracted functions get the per-rune answers from the harness). *)
From Coq Require Import ZArith List Bool Lia.
From Elk Require Import Base.Utf8.
Import ListNotations.
Open Scope Z_scope.

Fixpoint assoc (k : Z) (l : list (Z * Z)) : option Z :=
  match l with
  | [] => None
  | (a, b) :: t => if a =? k then Some b else assoc k t
  end.

(* ---------- fmt verbs on non-negative values ---------- *)
Definition hexc_lo (d : Z) : Z := if d <? 10 then 48 + d else 87 + d.   (* 0-9a-f *)
Definition hexc_up (d : Z) : Z := if d <? 10 then 48 + d else 55 + d.   (* 0-9A-F *)
Definition nib (v k : Z) : Z := (v / 16 ^ k) mod 16.
(* %02x for v < 2^8, %04x for v < 2^16, %08X for v < 2^32 (the callers guarantee the range) *)
Definition fmt_02x (v : Z) : list Z := [hexc_lo (nib v 1); hexc_lo (nib v 0)].
Definition fmt_04x (v : Z) : list Z := [hexc_lo (nib v 3); hexc_lo (nib v 2); hexc_lo (nib v 1); hexc_lo (nib v 0)].
Definition fmt_08X (v : Z) : list Z :=
  [hexc_up (nib v 7); hexc_up (nib v 6); hexc_up (nib v 5); hexc_up (nib v 4);
   hexc_up (nib v 3); hexc_up (nib v 2); hexc_up (nib v 1); hexc_up (nib v 0)].

(* the `switch char` tables of the printers: rune -> letter written after the backslash *)
Definition insp_str_tbl : list (Z * Z) :=
  [(92, 92); (10, 110); (9, 116); (34, 34); (13, 114); (7, 97); (8, 98); (11, 118); (12, 102); (36, 36); (35, 35)].
Definition insp_chr_tbl : list (Z * Z) :=
  [(92, 92); (10, 110); (9, 116); (96, 96); (13, 114); (7, 97); (8, 98); (11, 118); (12, 102)].
(* the `switch char` tables of the lexer: letter after the backslash -> byte written *)
Definition lex_str_tbl : list (Z * Z) :=
  [(92, 92); (110, 10); (116, 9); (34, 34); (114, 13); (97, 7); (98, 8); (118, 11); (102, 12); (36, 36); (35, 35)].
Definition lex_chr_tbl : list (Z * Z) :=
  [(92, 92); (110, 10); (116, 9); (96, 96); (114, 13); (97, 7); (98, 8); (118, 11); (102, 12)].

(* hexLiteralChars "0123456789abcdefABCDEF" with the digit value strconv.ParseUint gives *)
Definition hex_val (c : Z) : option Z :=
  if in_rng 48 57 c then Some (c - 48)
  else if in_rng 97 102 c then Some (c - 87)
  else if in_rng 65 70 c then Some (c - 55)
  else None.

(* peekChar: '\x00' at end of input, else the decoded rune *)
Definition peek (src : list Z) : Z := match src with [] => 0 | _ => fst (decode_rune src) end.

(* acceptCharsN(hexLiteralChars, n) + advanceChars(n) + strconv.ParseUint(.., 16, _):
   every accepted character is ASCII, so each one is exactly one byte *)
Fixpoint lex_hex (n : nat) (src : list Z) (acc : Z) : option (Z * list Z) :=
  match n with
  | O => Some (acc, src)
  | S k =>
    match src with
    | [] => None
    | _ :: t => match hex_val (peek src) with
                | Some d => lex_hex k t (acc * 16 + d)
                | None => None
                end
    end
  end.

Section Inspect.
  Variable is_graphic : Z -> bool.   (* unicode.IsGraphic *)
  Variable is_letter : Z -> bool.    (* unicode.IsLetter  *)

  (* ---------- printers ---------- *)

  (* the `default:` arm, FIXED: `\xNN` only below utf8.RuneSelf *)
  Definition inspect_rune_default (r : Z) : list Z :=
    if is_graphic r then encode_rune r
    else if r <? 128 then 92 :: 120 :: fmt_02x r
    else if r <? 65536 then 92 :: 117 :: fmt_04x r
    else 92 :: 85 :: fmt_08X r.

  (* the `default:` arm as it is in the unfixed tree: `char>>8 == 0` *)
  Definition inspect_rune_default_old (r : Z) : list Z :=
    if is_graphic r then encode_rune r
    else if r <? 256 then 92 :: 120 :: fmt_02x r
    else if r <? 65536 then 92 :: 117 :: fmt_04x r
    else 92 :: 85 :: fmt_08X r.

  Definition inspect_string_step (st : step) : list Z :=
    if step_invalid st then 92 :: 120 :: fmt_02x (st_byte st)
    else match assoc (st_rune st) insp_str_tbl with
         | Some l => [92; l]
         | None => inspect_rune_default (st_rune st)
         end.

  Definition inspect_string (s : list Z) : list Z :=
    34 :: flat_map inspect_string_step (decode_steps s) ++ [34].

  (* unfixed: an invalid byte is treated as the rune with that number *)
  Definition inspect_string_step_old (st : step) : list Z :=
    let char := if step_invalid st then st_byte st else st_rune st in
    match assoc char insp_str_tbl with
    | Some l => [92; l]
    | None => inspect_rune_default_old char
    end.

  Definition inspect_string_old (s : list Z) : list Z :=
    34 :: flat_map inspect_string_step_old (decode_steps s) ++ [34].

  Definition inspect_char (c : Z) : list Z :=
    96 :: match assoc c insp_chr_tbl with
          | Some l => [92; l]
          | None => inspect_rune_default c
          end ++ [96].

  Definition inspect_char_old (c : Z) : list Z :=
    96 :: match assoc c insp_chr_tbl with
          | Some l => [92; l]
          | None => inspect_rune_default_old c
          end ++ [96].

  (* ---------- lexer: escapes shared by string and char literals ---------- *)

  (* after `\` and the escape letter e: bytes appended to the lexeme, and the remaining input.
     \u: WriteRune(rune(v)) ; \U: WriteRune(rune(v)) ; \x: WriteByte(byte(v)) *)
  Definition lex_escape (tbl : list (Z * Z)) (e : Z) (rest : list Z) : option (list Z * list Z) :=
    match assoc e tbl with
    | Some b => Some ([b], rest)
    | None =>
      if e =? 117 then match lex_hex 4 rest 0 with Some (v, r) => Some (encode_rune v, r) | None => None end
      else if e =? 85 then match lex_hex 8 rest 0 with Some (v, r) => Some (encode_rune v, r) | None => None end
      else if e =? 120 then match lex_hex 2 rest 0 with Some (v, r) => Some ([v], r) | None => None end
      else None
    end.

  (* scanStringLiteral/scanStringLiteralContent; src = input after the opening quote.
     One unit of fuel per loop iteration (each consumes at least one byte). *)
  Fixpoint lex_str (fuel : nat) (src : list Z) : option (list Z) :=
    match fuel with
    | O => None
    | S f =>
      match src with
      | [] => None                                  (* unterminated string literal *)
      | _ :: t =>
        let c := fst (decode_rune src) in
        let n := snd (decode_rune src) in
        let c2 := fst (decode_rune t) in            (* peekNextChar: decodes at cursor+1 BYTE *)
        if c =? 34 then match t with [] => Some [] | _ => None end   (* STRING_END, then EOF *)
        else if ((c =? 36) || (c =? 35)) && ((c2 =? 123) || (c2 =? 95) || is_letter c2)
        then None                                   (* interpolation: not a plain literal *)
        else if negb (c =? 92)
        then option_map (app (encode_rune c)) (lex_str f (skipn (Z.to_nat n) src))
        else match t with
             | [] => None
             | _ => let e := fst (decode_rune t) in
                    let m := snd (decode_rune t) in
                    match lex_escape lex_str_tbl e (skipn (Z.to_nat m) t) with
                    | Some (bs, rest) => option_map (app bs) (lex_str f rest)
                    | None => None                   (* invalid escape modes -> lex error *)
                    end
             end
      end
    end.

  (* whole literal, quotes included *)
  Definition lex_string_body (src : list Z) : option (list Z) :=
    match src with
    | q :: body => if q =? 34 then lex_str (S (length body)) body else None
    | [] => None
    end.

  (* Lexer.character (after the opening backtick) followed by Parser.charLiteral *)
  Definition lex_char_body (src : list Z) : option Z :=
    match src with
    | [] => None
    | q :: body =>
      if negb (q =? 96) then None else
      let lexeme_rest :=
        if peek body =? 92 then
          match body with
          | _ :: t => match t with
                      | [] => None
                      | _ => lex_escape lex_chr_tbl (fst (decode_rune t)) (skipn (Z.to_nat (snd (decode_rune t))) t)
                      end
          | [] => None
          end
        else match body with
             | [] => None
             | _ => Some (encode_rune (fst (decode_rune body)), skipn (Z.to_nat (snd (decode_rune body))) body)
             end in
      match lexeme_rest with
      | Some (lexeme, rest) =>
        if (peek rest =? 96) && (length rest =? 1)%nat then Some (fst (decode_rune lexeme)) else None
      | None => None
      end
    end.

End Inspect.

(* ---------- integers ---------- *)

(* strconv.FormatInt(i, 10) / big.Int.String(): decimal digits, most significant first *)
Fixpoint dec_digits_rev (fuel : nat) (n : Z) : list Z :=
  match fuel with
  | O => []
  | S f => if n <? 10 then [48 + n] else (48 + n mod 10) :: dec_digits_rev f (n / 10)
  end.
Definition print_nat (n : Z) : list Z := rev (dec_digits_rev (S (Z.to_nat (Z.log2 n))) n).
Definition print_int (z : Z) : list Z := if z <? 0 then 45 :: print_nat (- z) else print_nat z.

(* strings.ContainsRune(digitSet, c) for the six digit sets of the lexer: base 16
   "0-9a-fA-F", 12 "0-9abAB", 10, 8, 4, 2 *)
Definition digit_in_set (base c : Z) : bool :=
  match hex_val c with Some d => d <? base | None => false end.

(* Lexer.consumeDigits: one `_` is skipped before every digit *)
Fixpoint consume_digits (fuel : nat) (base : Z) (src : list Z) : list Z * list Z :=
  match fuel with
  | O => ([], src)
  | S f =>
    let src1 := if peek src =? 95 then tl src else src in
    if digit_in_set base (peek src1)
    then let '(ds, rest) := consume_digits f base (tl src1) in (peek src1 :: ds, rest)
    else ([], src1)
  end.

(* Lexer.numberLiteral for a literal that spans the whole input and has no suffix / fraction /
   exponent: Some lexeme iff the token is INT and the next token is EOF *)
Definition number_literal (src : list Z) : option (list Z) :=
  match src with
  | [] => None
  | d0 :: t =>
    if negb (in_rng 48 57 d0) then None
    else
      let p := peek t in
      let '(pre, base, t1) :=
        if d0 =? 48 then
          if (p =? 120) || (p =? 88) then ([120], 16, tl t)
          else if (p =? 100) || (p =? 68) then ([100], 12, tl t)
          else if (p =? 111) || (p =? 79) then ([111], 8, tl t)
          else if (p =? 113) || (p =? 81) then ([113], 4, tl t)
          else if (p =? 98) || (p =? 66) then ([98], 2, tl t)
          else ([], 10, t)
        else ([], 10, t) in
      let '(ds, rest) := consume_digits (S (length t1)) base t1 in
      match rest with
      | [] => Some (d0 :: pre ++ ds)
      | _ => None
      end
  end.

Definition to_lower (c : Z) : Z := Z.lor c 32.    (* letterToLower: c | ('x' - 'X') *)

(* the digit loop of parseUBigInt *)
Fixpoint parse_digits (base : Z) (s : list Z) (n : Z) : option Z :=
  match s with
  | [] => Some n
  | c :: t =>
    if c =? 95 then parse_digits base t n
    else
      let d := if in_rng 48 57 c then Some (c - 48)
               else if in_rng 97 122 (to_lower c) then Some (to_lower c - 97 + 10)
               else None in
      match d with
      | Some d => if base <=? d then None else parse_digits base t (n * base + d)
      | None => None
      end
  end.

(* value.parseUBigInt *)
Definition parse_ubigint (s : list Z) (base : Z) : option Z :=
  match s with
  | [] => None
  | c0 :: t =>
    if in_rng 2 36 base then parse_digits base s 0
    else if base =? 0 then
      let long := (3 <=? length s)%nat in
      let l1 := to_lower (hd 0 t) in
      if (c0 =? 48) && long && (l1 =? 98) then parse_digits 2 (tl t) 0
      else if (c0 =? 48) && long && (l1 =? 113) then parse_digits 4 (tl t) 0
      else if (c0 =? 48) && long && (l1 =? 111) then parse_digits 8 (tl t) 0
      else if (c0 =? 48) && long && (l1 =? 100) then parse_digits 12 (tl t) 0
      else if (c0 =? 48) && long && (l1 =? 120) then parse_digits 16 (tl t) 0
      else parse_digits 10 s 0
    else None
  end.

(* value.ParseBigIntWithErr *)
Definition parse_bigint (s : list Z) (base : Z) : option Z :=
  match s with
  | [] => None
  | c :: t =>
    if c =? 43 then parse_ubigint t base
    else if c =? 45 then option_map Z.opp (parse_ubigint t base)
    else parse_ubigint s base
  end.

(* an Int literal as an expression: INT -> resolveInt (ParseBigInt(lexeme, 0)) *)
Definition eval_int_literal (src : list Z) : option Z :=
  match number_literal src with
  | Some lexeme => parse_bigint lexeme 0
  | None => None
  end.

(* inspect output of an Int as an expression: `-` INT is unary minus applied to the literal *)
Definition eval_int_source (src : list Z) : option Z :=
  match src with
  | c :: t => if c =? 45 then option_map Z.opp (eval_int_literal t) else eval_int_literal src
  | [] => None
  end.

(* ---------- literals "as written": digits with optional `_` separators ---------- *)

(* character for digit value d < 36, lower or upper case *)
Definition digit_char (upper : bool) (d : Z) : Z :=
  if d <? 10 then 48 + d else if upper then 55 + d else 87 + d.

(* one written digit: underscore before it?, upper case?, value *)
Definition wdigit : Type := (bool * bool * Z)%type.
Definition render_digit (w : wdigit) : list Z :=
  let '(u, up, d) := w in (if u then [95] else []) ++ [digit_char up d].
Definition render_digits (ws : list wdigit) : list Z := flat_map render_digit ws.
(* positional value, most significant digit first *)
Definition digits_value (base : Z) (ws : list wdigit) (acc : Z) : Z :=
  fold_left (fun a (w : wdigit) => a * base + snd w) ws acc.

Definition base_prefix (upper : bool) (base : Z) : list Z :=
  if base =? 16 then [48; if upper then 88 else 120]
  else if base =? 12 then [48; if upper then 68 else 100]
  else if base =? 8 then [48; if upper then 79 else 111]
  else if base =? 4 then [48; if upper then 81 else 113]
  else if base =? 2 then [48; if upper then 66 else 98]
  else [].
