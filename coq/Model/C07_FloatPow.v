(* C07 — Float / Float64 / Float32 `**` (special cases) and `%` (exact).

   `**`: IEEE 754-2008 §9.2.1 lists the exceptional cases of pow(x, y): every pair in which an
   operand is a zero, an infinity, a NaN, x = +-1 against an infinity / NaN, and finite x < 0
   against a non-integer y.  `pow_special` is that table, written on the structure of the
   operands (no call into any pow routine); it answers `None` exactly on the remaining pairs
   (both finite and non-zero, x > 0 or y an integer), whose value is a rounding of a real
   power and is NOT modelled here (those are compared with Go's math.Pow by the harness).

   `%`: truncated remainder (sign of the dividend, C fmod).  The remainder of two binary
   floats is exactly representable, so the model is exact: the operands are aligned to
   integers, the integer remainder is taken, the result is converted back without rounding.

   Generic in the format (prec, emax): binary64 for Float and Float64, binary32 for Float32.
   Definitions only. *)
From Coq Require Import ZArith Zpow_facts.
From Flocq Require Import Core IEEE754.BinarySingleNaN IEEE754.Binary IEEE754.Bits.
From Elk Require Import Model.C07_Float.
Open Scope Z_scope.

(* result of a special case; +1, NaN, signed zero, signed infinity *)
Inductive fres := RZero (s : bool) | RInf (s : bool) | ROne | RNaN.

(* the integer n with m * 2^e = n, when there is one *)
Definition fint (m : positive) (e : Z) : option Z :=
  if 0 <=? e then Some (Z.shiftl (Zpos m) e)
  else
    let q := Z.shiftr (Zpos m) (- e) in
    if Z.shiftl q (- e) =? Zpos m then Some q else None.

Definition is_int (m : positive) (e : Z) : bool :=
  match fint m e with Some _ => true | None => false end.
Definition is_odd_int (m : positive) (e : Z) : bool :=
  match fint m e with Some n => Z.odd n | None => false end.

(* aligned integer remainder: the pair (R, e) with  R * 2^e = rem (mx * 2^ex) (my * 2^ey),
   e = min ex ey.  When ex >= ey the dividend mx * 2^(ex-ey) can be 2000 bits long; its
   residue is computed with modular exponentiation instead (proved equal to Z.rem). *)
Definition fmod_int (mx ex : Z) (my : positive) (ey : Z) : Z * Z :=
  if ey <=? ex then
    (Z.sgn mx * ((Z.abs mx * Zpow_mod 2 (ex - ey) (Zpos my)) mod Zpos my), ey)
  else
    (Z.rem mx (Z.shiftl (Zpos my) (ey - ex)), ex).

Section Gen.
Variable prec emax : Z.
Context (Hp : Prec_gt_0 prec) (Hm : Prec_lt_emax prec emax).
Notation bf := (binary_float prec emax).

Definition bone : bf := Bone prec emax Hp Hm.

(* |m * 2^e| against 1, on the mantissa and exponent (no float is constructed) *)
Definition cmp_one (m : positive) (e : Z) : comparison :=
  if 0 <=? e then (if andb (e =? 0) (Pos.eqb m 1) then Eq else Gt)
  else Z.compare (Zpos m) (Z.shiftl 1 (- e)).

(* |x| against 1, for finite x *)
Definition abs_cmp_one (x : bf) : option comparison :=
  match x with
  | Binary.B754_finite _ _ _ m e _ => Some (cmp_one m e)
  | _ => None
  end.

Definition is_pos_one (x : bf) : bool :=
  match x with
  | Binary.B754_finite _ _ false _ _ _ => match abs_cmp_one x with Some Eq => true | _ => false end
  | _ => false
  end.

Definition pow_special (x y : bf) : option fres :=
  match y with
  | Binary.B754_zero _ _ _ => Some ROne                                   (* pow(x, +-0) = 1, even for NaN *)
  | _ =>
    if is_pos_one x then Some ROne                              (* pow(+1, y) = 1, even for NaN *)
    else
      match x, y with
      | Binary.B754_nan _ _ _ _ _, _ => Some RNaN
      | _, Binary.B754_nan _ _ _ _ _ => Some RNaN
      | _, Binary.B754_zero _ _ _ => Some ROne
      (* pow(+-0, y) *)
      | Binary.B754_zero _ _ _, Binary.B754_infinity _ _ sy => Some (if sy then RInf false else RZero false)
      | Binary.B754_zero _ _ sx, Binary.B754_finite _ _ sy m e _ =>
          let s := andb sx (is_odd_int m e) in
          Some (if sy then RInf s else RZero s)
      (* pow(+-inf, y) *)
      | Binary.B754_infinity _ _ _, Binary.B754_infinity _ _ sy => Some (if sy then RZero false else RInf false)
      | Binary.B754_infinity _ _ sx, Binary.B754_finite _ _ sy m e _ =>
          let s := andb sx (is_odd_int m e) in
          Some (if sy then RZero s else RInf s)
      (* pow(x, +-inf) by |x| against 1; pow(-1, +-inf) = 1 *)
      | Binary.B754_finite _ _ _ _ _ _, Binary.B754_infinity _ _ sy =>
          match abs_cmp_one x with
          | Some Lt => Some (if sy then RInf false else RZero false)
          | Some Gt => Some (if sy then RZero false else RInf false)
          | Some Eq => Some ROne
          | None => None
          end
      (* finite x < 0 and non-integer y: invalid *)
      | Binary.B754_finite _ _ sx _ _ _, Binary.B754_finite _ _ _ m e _ =>
          if andb sx (negb (is_int m e)) then Some RNaN else None
      end
  end.

(* x % y; None stands for NaN *)
Definition Bfmod (x y : bf) : option bf :=
  match x, y with
  | Binary.B754_nan _ _ _ _ _, _ => None
  | _, Binary.B754_nan _ _ _ _ _ => None
  | Binary.B754_infinity _ _ _, _ => None
  | _, Binary.B754_zero _ _ _ => None
  | Binary.B754_zero _ _ _, _ => Some x
  | Binary.B754_finite _ _ _ _ _ _, Binary.B754_infinity _ _ _ => Some x
  | Binary.B754_finite _ _ sx mx ex _, Binary.B754_finite _ _ _ my ey _ =>
      let '(r, e) := fmod_int (cond_Zopp sx (Zpos mx)) ex my ey in
      Some (binary_normalize prec emax Hp Hm mode_NE r e sx)
  end.

Definition of_fres (nan : bf) (r : fres) : bf :=
  match r with
  | RZero s => Binary.B754_zero _ _ s
  | RInf s => Binary.B754_infinity _ _ s
  | ROne => bone
  | RNaN => nan
  end.
End Gen.

(* instances *)
Definition pow_special64 (x y : binary64) : option binary64 :=
  option_map (of_fres 53 1024 (eq_refl _) (eq_refl _) nan64)
             (pow_special 53 1024 x y).
Definition pow_special32 (x y : binary32) : option binary32 :=
  option_map (of_fres 24 128 (eq_refl _) (eq_refl _) nan32)
             (pow_special 24 128 x y).
Definition fmod64 (x y : binary64) : binary64 :=
  match Bfmod 53 1024 (eq_refl _) (eq_refl _) x y with Some r => r | None => nan64 end.
Definition fmod32 (x y : binary32) : binary32 :=
  match Bfmod 24 128 (eq_refl _) (eq_refl _) x y with Some r => r | None => nan32 end.

(* on bit patterns, for the driver *)
Definition f64_pow_special_bits (a b : Z) : option Z :=
  option_map bits_of_b64 (pow_special64 (b64_of_bits a) (b64_of_bits b)).
Definition f32_pow_special_bits (a b : Z) : option Z :=
  option_map bits_of_b32 (pow_special32 (b32_of_bits a) (b32_of_bits b)).
Definition f64_mod_bits (a b : Z) : Z := bits_of_b64 (fmod64 (b64_of_bits a) (b64_of_bits b)).
Definition f32_mod_bits (a b : Z) : Z := bits_of_b32 (fmod32 (b32_of_bits a) (b32_of_bits b)).
