(* C21 - Elk regex syntax trees, the transpiler to Go (RE2) syntax, and the printer.

   Mirrors /repo/regex/transpile.go (with fixes/C21-*.patch applied):
     re        the syntax tree built by regex/parser (45 node kinds folded into atoms,
               class items, groups, quantifiers)
     re2       a STRUCTURED term for the Go regexp text the transpiler emits
     tr        transpileNode: flags -> re -> re2 * flags   (t.Flags is threaded exactly like the
               Go field: set by flag groups, restored when a group with content closes)
     pr2       the printer: re2 -> code points; `transpile_text` = what regex.Transpile returns.
   Code points and names are Z / list Z.  No proofs here. *)
From Coq Require Import ZArith List Bool String Ascii.
Import ListNotations.
Open Scope Z_scope.

Definition str (s : string) : list Z := map (fun a => Z.of_N (N_of_ascii a)) (list_ascii_of_string s).

(* ---------------------------------------------------------------- flags *)

(* regex/flag/flag.go: i m s U x a (in this order in flag.Flags) *)
Record flags := mkFlags { fi : bool; fm : bool; fs : bool; fU : bool; fx : bool; fa : bool }.
Definition no_flags := mkFlags false false false false false false.

(* group(): for every flag: set if in SetFlags, then unset if in UnsetFlags *)
Definition apply_flags (f st un : flags) : flags :=
  mkFlags ((fi f || fi st) && negb (fi un)) ((fm f || fm st) && negb (fm un))
          ((fs f || fs st) && negb (fs un)) ((fU f || fU st) && negb (fU un))
          ((fx f || fx st) && negb (fx un)) ((fa f || fa st) && negb (fa un)).

Definition any_flag (f : flags) : bool := fi f || fm f || fs f || fU f || fx f || fa f.

(* the flags Go understands (flag.IsSupportedByGo) *)
Record gflags := mkG { gi : bool; gm : bool; gs : bool; gU : bool }.
Definition no_gflags := mkG false false false false.
Definition vis (f : flags) : gflags := mkG (fi f) (fm f) (fs f) (fU f).
Definition any_gflag (g : gflags) : bool := gi g || gm g || gs g || gU g.
Definition apply_gflags (g st un : gflags) : gflags :=
  mkG ((gi g || gi st) && negb (gi un)) ((gm g || gm st) && negb (gm un))
      ((gs g || gs st) && negb (gs un)) ((gU g || gU st) && negb (gU un)).

(* ---------------------------------------------------------------- Elk syntax tree *)

Inductive predef := PWord | PDigit | PSpace | PHoriz | PVert.        (* \w \d \s \h \v *)
Inductive simple := SBell | SFormFeed | STab | SNewline | SCR.        (* \a \f \t \n \r *)

(* nodes that stand for one code point (or a set of code points); usable at top level and in
   character classes *)
Inductive atom :=
| AChar (c : Z)                      (* CharNode *)
| AMeta (c : Z)                      (* MetaCharEscapeNode  \. \* ... *)
| ASimple (k : simple)
| AHex (ds : list Z)                 (* HexEscapeNode / UnicodeEscapeNode: hex digits *)
| AOct (ds : list Z)                 (* OctalEscapeNode: octal digits *)
| ACaret (c : Z)                     (* CaretEscapeNode \cA *)
| APre (neg : bool) (p : predef)     (* \w \W \d \D \s \S \h \H \v \V *)
| AUni (neg : bool) (name : list Z). (* \p{..} \P{..} *)

Inductive citem :=
| CIAtom (a : atom)
| CIRange (l r : atom)               (* CharRangeNode *)
| CINamed (neg : bool) (name : list Z).   (* [:alpha:] [:^alpha:] *)

Inductive gkind :=
| GCapture | GNonCapture | GNamed (name : list Z) | GFlags (st un : flags).

Inductive quant := QOpt | QStar | QPlus | QN (n : list Z) | QNM (n m : list Z).

Inductive re :=
| RAtom (a : atom)
| RAny | RBol | REol | RAbsBeg | RAbsEnd | RWordB | RNotWordB
| RQuoted (txt : list Z)
| RClass (neg : bool) (items : list citem)
| RConcat (l : list re)
| RUnion (a b : re)
| RGroup (k : gkind) (body : option re)    (* body = None only for flag groups `(?i)` *)
| RQuant (q : quant) (alt : bool) (r : re).

(* ---------------------------------------------------------------- Go (RE2) term *)

Inductive perlk := KD | KW | KS.                         (* \d \w \s *)
Inductive ctl := CA | CF | CT | CN | CR | CV.            (* \a \f \t \n \r \v *)
Inductive lit2 :=
| L2Raw (c : Z)           (* the character itself *)
| L2Esc (c : Z)           (* backslash + punctuation *)
| L2Ctl (k : ctl)
| L2Hex (ds : list Z)     (* \x{ds} *)
| L2Hex2 (ds : list Z)    (* \xHH *)
| L2Oct (ds : list Z).    (* \ooo *)

Inductive item2 :=
| I2Lit (l : lit2)
| I2Range (l r : lit2)
| I2BadRange (txt : list Z)          (* `x-\w` and the like: Go rejects it *)
| I2Perl (neg : bool) (k : perlk)
| I2Uni (neg : bool) (name : list Z)
| I2Posix (neg : bool) (name : list Z)
| I2Err.                             (* t.Errors.AddFailure *)

Inductive g2kind := G2Capture | G2NonCapture | G2Named (name : list Z) | G2Flags (st un : gflags).

Inductive re2 :=
| R2Empty
| R2Lit (l : lit2)
| R2Any | R2Bol | R2Eol | R2BegText | R2EndText | R2WordB | R2NoWordB
| R2Perl (neg : bool) (k : perlk)
| R2Uni (neg : bool) (name : list Z)
| R2Quoted (txt : list Z)
| R2Class (neg : bool) (items : list item2)
| R2Cat (l : list re2)
| R2Alt (a b : re2)
| R2Group (k : g2kind) (body : re2)
| R2SetFlags (st un : gflags)        (* (?i-s) : changes the flags of the rest of the enclosing group *)
| R2Rep (r : re2) (q : quant) (alt : bool)
| R2Err.

(* ---------------------------------------------------------------- helpers *)

Definition hexdigit (d : Z) : Z := if d <? 10 then 48 + d else 87 + d.
(* fmt "%x" of a letter index 1..26 *)
Definition hex_small (n : Z) : list Z :=
  if n <? 16 then [hexdigit n] else [hexdigit (n / 16); hexdigit (n mod 16)].

(* asciiLetterIndex *)
Definition letter_index (c : Z) : Z :=
  if (65 <=? c) && (c <=? 90) then c - 64 else if (97 <=? c) && (c <=? 122) then c - 96 else 0.

(* fmt "%03s" *)
Definition pad3 (ds : list Z) : list Z :=
  match ds with
  | [] => [48; 48; 48]
  | [a] => [48; 48; a]
  | [a; b] => [48; a; b]
  | _ => ds
  end.

(* unicode.IsSpace: the White_Space property (complete list) *)
Definition is_space (c : Z) : bool :=
  ((9 <=? c) && (c <=? 13)) || (c =? 32) || (c =? 133) || (c =? 160) || (c =? 5760)
  || ((8192 <=? c) && (c <=? 8202)) || (c =? 8232) || (c =? 8233) || (c =? 8239) || (c =? 8287) || (c =? 12288).

Definition N_L := Eval vm_compute in str "L".
Definition N_Mn := Eval vm_compute in str "Mn".
Definition N_Nd := Eval vm_compute in str "Nd".
Definition N_Pc := Eval vm_compute in str "Pc".
Definition N_Z := Eval vm_compute in str "Z".
Definition N_Zs := Eval vm_compute in str "Zs".
Definition D_85 := Eval vm_compute in str "85".
Definition D_2028 := Eval vm_compute in str "2028".
Definition D_2029 := Eval vm_compute in str "2029".

Definition perl_of (p : predef) : option perlk :=
  match p with PWord => Some KW | PDigit => Some KD | PSpace => Some KS | _ => None end.

(* the Unicode-aware / ASCII expansion of a POSITIVE predefined class as class items
   (wordCharClass, digitCharClass, whitespaceCharClass, horizontal..., vertical... in class mode) *)
Definition pre_items (ascii : bool) (p : predef) : list item2 :=
  match p with
  | PWord => if ascii then [I2Perl false KW] else [I2Uni false N_L; I2Uni false N_Mn; I2Uni false N_Nd; I2Uni false N_Pc]
  | PDigit => if ascii then [I2Perl false KD] else [I2Uni false N_Nd]
  | PSpace => if ascii then [I2Perl false KS]
              else [I2Perl false KS; I2Lit (L2Ctl CV); I2Uni false N_Z; I2Lit (L2Hex2 D_85)]
  | PHoriz => if ascii then [I2Lit (L2Ctl CT); I2Lit (L2Raw 32)] else [I2Lit (L2Ctl CT); I2Uni false N_Zs]
  | PVert => if ascii then [I2Lit (L2Ctl CN); I2Lit (L2Ctl CV); I2Lit (L2Ctl CF); I2Lit (L2Ctl CR)]
             else [I2Lit (L2Ctl CN); I2Lit (L2Ctl CV); I2Lit (L2Ctl CF); I2Lit (L2Ctl CR);
                   I2Lit (L2Hex2 D_85); I2Lit (L2Hex D_2028); I2Lit (L2Hex D_2029)]
  end.

Definition ctl_of (k : simple) : ctl :=
  match k with SBell => CA | SFormFeed => CF | STab => CT | SNewline => CN | SCR => CR end.

(* the literal an atom that stands for ONE code point is written as *)
Definition atom_lit (a : atom) : option lit2 :=
  match a with
  | AChar c => Some (L2Raw c)
  | AMeta c => Some (L2Esc c)
  | ASimple k => Some (L2Ctl (ctl_of k))
  | AHex ds => Some (L2Hex ds)
  | AOct ds => Some (L2Oct (pad3 ds))
  | ACaret c => Some (L2Hex (hex_small (letter_index c)))
  | APre _ _ | AUni _ _ => None
  end.

(* top-level mode *)
Definition tr_atom_top (f : flags) (a : atom) : re2 :=
  match a with
  | AChar c => if fx f && is_space c then R2Empty else R2Lit (L2Raw c)
  | APre neg p =>
      match p with
      | PWord => if fa f then R2Perl neg KW else R2Class neg (pre_items false PWord)
      | PDigit => if fa f then R2Perl neg KD else R2Uni neg N_Nd
      | PSpace => if fa f then R2Perl neg KS else R2Class neg (pre_items false PSpace)
      | PHoriz => R2Class neg (pre_items (fa f) PHoriz)
      | PVert => R2Class neg (pre_items (fa f) PVert)
      end
  | AUni neg name => R2Uni neg name
  | _ => match atom_lit a with Some l => R2Lit l | None => R2Err end
  end.

(* charClassElement in charClassMode / negatedCharClassMode; `split`-able elements never get
   here in charClassMode except as the side of a range *)
Definition tr_atom_cls (f : flags) (a : atom) : list item2 :=
  match a with
  | APre false p => pre_items (fa f) p
  | APre true PDigit => if fa f then [I2Perl true KD] else [I2Uni true N_Nd]
  | APre true PWord => if fa f then [I2Perl true KW] else [I2Err]
  | APre true PSpace => if fa f then [I2Perl true KS] else [I2Err]
  | APre true _ => [I2Err]
  | AUni neg name => [I2Uni neg name]
  | _ => match atom_lit a with Some l => [I2Lit l] | None => [I2Err] end
  end.

(* nodeHasToBeSplitInCharacterClasses, in charClassMode *)
Definition must_split (f : flags) (it : citem) : bool :=
  match it with
  | CIAtom (APre true PHoriz) | CIAtom (APre true PVert) => true
  | CIAtom (APre true PSpace) | CIAtom (APre true PWord) => negb (fa f)
  | _ => false
  end.

(* ---------------------------------------------------------------- printer *)

Definition pr_ctl (k : ctl) : list Z :=
  92 :: match k with CA => [97] | CF => [102] | CT => [116] | CN => [110] | CR => [114] | CV => [118] end.

Definition pr_lit (l : lit2) : list Z :=
  match l with
  | L2Raw c => [c]
  | L2Esc c => [92; c]
  | L2Ctl k => pr_ctl k
  | L2Hex ds => [92; 120; 123] ++ ds ++ [125]
  | L2Hex2 ds => [92; 120] ++ ds
  | L2Oct ds => 92 :: ds
  end.

Definition pr_perl (neg : bool) (k : perlk) : list Z :=
  92 :: match k, neg with
        | KD, false => [100] | KD, true => [68]
        | KW, false => [119] | KW, true => [87]
        | KS, false => [115] | KS, true => [83]
        end.

Definition pr_uni (neg : bool) (name : list Z) : list Z :=
  [92; if neg then 80 else 112; 123] ++ name ++ [125].

Definition pr_item (it : item2) : list Z :=
  match it with
  | I2Lit l => pr_lit l
  | I2Range l r => pr_lit l ++ [45] ++ pr_lit r
  | I2BadRange txt => txt
  | I2Perl neg k => pr_perl neg k
  | I2Uni neg name => pr_uni neg name
  | I2Posix neg name => [91; 58] ++ (if neg then [94] else []) ++ name ++ [58; 93]
  | I2Err => []
  end.

Definition pr_items (l : list item2) : list Z := flat_map pr_item l.

Definition pr_gflags (g : gflags) : list Z :=
  (if gi g then [105] else []) ++ (if gm g then [109] else []) ++ (if gs g then [115] else []) ++ (if gU g then [85] else []).

(* "?" set ["-" unset] *)
Definition pr_setunset (st un : gflags) : list Z :=
  [63] ++ pr_gflags st ++ (if any_gflag un then 45 :: pr_gflags un else []).

Definition pr_quant (q : quant) (alt : bool) : list Z :=
  match q with
  | QOpt => if alt then [63; 63] else [63]
  | QStar => if alt then [42; 63] else [42]
  | QPlus => if alt then [43; 63] else [43]
  | QN n => [123] ++ n ++ [125] ++ (if alt then [63] else [])
  | QNM n m => [123] ++ n ++ [44] ++ m ++ [125] ++ (if alt then [63] else [])
  end.

Fixpoint pr2 (r : re2) : list Z :=
  match r with
  | R2Empty => []
  | R2Lit l => pr_lit l
  | R2Any => [46]
  | R2Bol => [94]
  | R2Eol => [36]
  | R2BegText => [92; 65]
  | R2EndText => [92; 122]
  | R2WordB => [92; 98]
  | R2NoWordB => [92; 66]
  | R2Perl neg k => pr_perl neg k
  | R2Uni neg name => pr_uni neg name
  | R2Quoted txt => [92; 81] ++ txt ++ [92; 69]
  | R2Class neg items => [91] ++ (if neg then [94] else []) ++ pr_items items ++ [93]
  | R2Cat l => (fix go (l : list re2) : list Z := match l with [] => [] | x :: t => pr2 x ++ go t end) l
  | R2Alt a b => pr2 a ++ [124] ++ pr2 b
  | R2Group k body =>
      [40] ++ match k with
              | G2Capture => []
              | G2NonCapture => [63; 58]
              | G2Named name => [63; 80; 60] ++ name ++ [62]
              | G2Flags st un => pr_setunset st un ++ [58]
              end ++ pr2 body ++ [41]
  | R2SetFlags st un => [40] ++ pr_setunset st un ++ [41]
  | R2Rep r q alt => pr2 r ++ pr_quant q alt
  | R2Err => []
  end.

Definition item_err (it : item2) : bool := match it with I2Err => true | _ => false end.

Fixpoint has_err (r : re2) : bool :=
  match r with
  | R2Err => true
  | R2Class _ items => existsb item_err items
  | R2Cat l => (fix go (l : list re2) : bool := match l with [] => false | x :: t => has_err x || go t end) l
  | R2Alt a b => has_err a || has_err b
  | R2Group _ body => has_err body
  | R2Rep r _ _ => has_err r
  | _ => false
  end.

(* ---------------------------------------------------------------- the transpiler *)

(* charRange + charClassElement for one element of a class, in class mode *)
Definition tr_citem (f : flags) (it : citem) : list item2 :=
  match it with
  | CIAtom a => tr_atom_cls f a
  | CIRange l r =>
      match atom_lit l, atom_lit r with
      | Some ll, Some rl => [I2Range ll rl]
      | _, _ =>
          let li := tr_atom_cls f l in
          let ri := tr_atom_cls f r in
          if existsb item_err (li ++ ri) then [I2Err] else [I2BadRange (pr_items li ++ [45] ++ pr_items ri)]
      end
  | CINamed neg name => [I2Posix neg name]
  end.

(* charClass: elements that have to be split leave the brackets and become alternatives,
   emitted in top-level mode.  (fixes/C21-empty-split-class.patch: when NO element stays inside
   the brackets the empty `[]` is not written.) *)
Definition split_alt (f : flags) (it : citem) : re2 :=
  match it with CIAtom (APre neg p) => tr_atom_top f (APre neg p) | _ => R2Err end.

Fixpoint alts (l : list re2) : re2 :=
  match l with
  | [] => R2Empty
  | [x] => x
  | x :: t => R2Alt x (alts t)
  end.

Definition tr_class (f : flags) (neg : bool) (items : list citem) : re2 :=
  if neg then R2Class true (flat_map (tr_citem f) items)
  else
    let inside := filter (fun it => negb (must_split f it)) items in
    let outside := filter (must_split f) items in
    match outside with
    | [] => R2Class false (flat_map (tr_citem f) inside)
    | _ =>
        let cls := match inside with [] => [] | _ => [R2Class false (flat_map (tr_citem f) inside)] end in
        R2Group G2NonCapture (alts (cls ++ map (split_alt f) outside))
    end.

Definition tr_quant (q : quant) : quant :=
  match q with QNM [] m => QNM [48] m | _ => q end.

(* concatenation(): extended-mode comment tracking is local to ONE concatenation node.
   `go incomment f l` returns the emitted terms and the flags afterwards. *)
Definition is_char (r : re) (c : Z) : bool :=
  match r with RAtom (AChar d) => d =? c | _ => false end.

Fixpoint tr (f : flags) (r : re) {struct r} : re2 * flags :=
  match r with
  | RAtom a => (tr_atom_top f a, f)
  | RAny => (R2Any, f)
  | RBol => (R2Bol, f)
  | REol => (R2Eol, f)
  | RAbsBeg => (R2BegText, f)
  | RAbsEnd => (R2EndText, f)
  | RWordB => (R2WordB, f)
  | RNotWordB => (R2NoWordB, f)
  | RQuoted txt => (R2Quoted txt, f)
  | RClass neg items => (tr_class f neg items, f)
  | RConcat l =>
      let '(out, f') :=
        (fix go (incomment : bool) (f : flags) (l : list re) {struct l} : list re2 * flags :=
           match l with
           | [] => ([], f)
           | x :: t =>
               if fx f then
                 if incomment then go (negb (is_char x 10)) f t
                 else if is_char x 35 then go true f t
                 else let '(y, f1) := tr f x in let '(ys, f2) := go false f1 t in (y :: ys, f2)
               else let '(y, f1) := tr f x in let '(ys, f2) := go false f1 t in (y :: ys, f2)
           end) false f l in
      (R2Cat out, f')
  | RUnion a b =>
      let '(x, f1) := tr f a in
      let '(y, f2) := tr f1 b in
      (R2Alt x y, f2)
  | RGroup k body =>
      match k with
      | GFlags st un =>
          let f1 := apply_flags f st un in
          let vs := vis st in
          let vu := vis un in
          if any_gflag vs || any_gflag vu then
            match body with
            | Some b => let '(x, _) := tr f1 b in (R2Group (G2Flags vs vu) x, f)
            | None => (R2SetFlags vs vu, f1)
            end
          else
            match body with
            | Some b =>
                let '(x, _) := tr f1 b in
                (R2Group (if any_flag st || any_flag un then G2NonCapture else G2Capture) x, f)
            | None => (R2Empty, f1)
            end
      | GCapture =>
          match body with
          | Some b => let '(x, _) := tr f b in (R2Group G2Capture x, f)
          | None => (R2Empty, f)
          end
      | GNonCapture =>
          match body with
          | Some b => let '(x, _) := tr f b in (R2Group G2NonCapture x, f)
          | None => (R2Empty, f)
          end
      | GNamed name =>
          match body with
          | Some b => let '(x, _) := tr f b in (R2Group (G2Named name) x, f)
          | None => (R2Empty, f)
          end
      end
  | RQuant q alt r0 =>
      let '(x, f1) := tr f r0 in
      (R2Rep x (tr_quant q) alt, f1)
  end.

(* regex.Transpile on a parsed tree.  fixes/C21-global-flags.patch: the flags of the literal
   that Go understands (i m s U) are written as a leading `(?imsU)`. *)
Definition transpile (f : flags) (r : re) : re2 :=
  let body := fst (tr f r) in
  if any_gflag (vis f) then R2Cat [R2SetFlags (vis f) no_gflags; body] else body.

(* None = the transpiler reported failures *)
Definition transpile_text (f : flags) (r : re) : option (list Z) :=
  let t := transpile f r in
  if has_err t then None else Some (pr2 t).

(* ---------------------------------------------------------------- predicates used by Props/C21.v *)

(* some flag group of the tree switches extended mode on *)
Fixpoint sets_x (r : re) : bool :=
  match r with
  | RConcat l => (fix go (l : list re) : bool := match l with [] => false | x :: t => sets_x x || go t end) l
  | RUnion a b => sets_x a || sets_x b
  | RGroup k body =>
      (match k with GFlags st _ => fx st | _ => false end)
      || match body with Some b => sets_x b | None => false end
  | RQuant _ _ r0 => sets_x r0
  | _ => false
  end.

(* some flag group mentions x at all (sets or unsets it) *)
Fixpoint mentions_x (r : re) : bool :=
  match r with
  | RConcat l => (fix go (l : list re) : bool := match l with [] => false | x :: t => mentions_x x || go t end) l
  | RUnion a b => mentions_x a || mentions_x b
  | RGroup k body =>
      (match k with GFlags st un => fx st || fx un | _ => false end)
      || match body with Some b => mentions_x b | None => false end
  | RQuant _ _ r0 => mentions_x r0
  | _ => false
  end.

(* a `#` CharNode occurs outside character classes *)
Fixpoint has_hash (r : re) : bool :=
  match r with
  | RAtom (AChar c) => c =? 35
  | RConcat l => (fix go (l : list re) : bool := match l with [] => false | x :: t => has_hash x || go t end) l
  | RUnion a b => has_hash a || has_hash b
  | RGroup _ body => match body with Some b => has_hash b | None => false end
  | RQuant _ _ r0 => has_hash r0
  | _ => false
  end.

Definition is_ws (r : re) : bool := match r with RAtom (AChar c) => is_space c | _ => false end.

(* "remove the whitespace first": drops whitespace CharNodes outside classes *)
Fixpoint strip_ws (r : re) : re :=
  match r with
  | RAtom (AChar c) => if is_space c then RConcat [] else r
  | RConcat l =>
      RConcat ((fix go (l : list re) : list re :=
                  match l with [] => [] | x :: t => if is_ws x then go t else strip_ws x :: go t end) l)
  | RUnion a b => RUnion (strip_ws a) (strip_ws b)
  | RGroup k body => RGroup k (match body with Some b => Some (strip_ws b) | None => None end)
  | RQuant q alt r0 => RQuant q alt (strip_ws r0)
  | _ => r
  end.

Definition set_x (f : flags) (b : bool) : flags := mkFlags (fi f) (fm f) (fs f) (fU f) b (fa f).

(* a whitespace CharNode occurs outside character classes *)
Fixpoint has_ws (r : re) : bool :=
  match r with
  | RAtom (AChar c) => is_space c
  | RConcat l => (fix go (l : list re) : bool := match l with [] => false | x :: t => has_ws x || go t end) l
  | RUnion a b => has_ws a || has_ws b
  | RGroup _ body => match body with Some b => has_ws b | None => false end
  | RQuant _ _ r0 => has_ws r0
  | _ => false
  end.
