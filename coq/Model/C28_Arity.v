(* C28 - std headers and native implementations agree: the call protocol.

   Mirrors (vm/thread.go, vm/thread_not_debug.go, types/checker/method.go):
     - the checker normalises every statically bound call into one positional slot per declared
       parameter: given arguments, the literal `undefined` for every omitted optional, ONE ArrayTuple
       for the positional rest parameter, ONE HashRecord for the named rest parameter
       (_checkMethodArgumentsAndInferTypeArguments);
     - the compiler pushes the receiver, then the slots, and emits CALL_METHOD with that count;
     - populateMissingParametersOnStack(paramCount, argc): `for range paramCount-argc { push undefined }`
       (a negative count pushes nothing);
     - callNativeMethod: args := unsafe.Slice(sp-(paramCount+1), paramCount+1); result replaces them
       (popN(paramCount+1); push). callBytecodeFunction uses the same window as the frame (fp).
     - opInstantiate with NO runtime `#init`: the instance replaces the class below the arguments and
       nothing is popped.
   Executable definitions only; proofs are in Proofs/C28_Arity.v. *)
From Coq Require Import List Bool Arith NArith.
Import ListNotations.

Inductive rkind := RNative | RBytecode | RGetter | RSetter | ROther | RNone.

(* declared signature: required, optional, positional rest?, named rest?, abstract (sig)?, declared in /
   inherited by a namespace that has instances? , is it the constructor `#init`? *)
Record decl := mkDecl {
  d_req : nat; d_opt : nat; d_rest : bool; d_nrest : bool;
  d_abstract : bool; d_concrete : bool; d_init : bool }.

(* runtime method reached by lookup on the runtime class of the same name *)
Record rt := mkRt { r_found : bool; r_kind : rkind; r_pc : nat; r_opc : nat }.

(* the declared return / throw types of the row stay in the harness table (TSV); they are only used by the
   sampled conformance stream c28.calls, not by any theorem *)
(* row_key: the row's index in the regenerated table (its readable key `own:Std::Regex#*` is in the comment
   next to it in Gen/C28_Headers.v and in the harness table) *)
Record row := mkRow { row_key : N; row_decl : decl; row_rt : rt }.

Definition b2n (b : bool) : nat := if b then 1 else 0.

(* number of declared parameters = number of slots the checker emits *)
Definition total (d : decl) : nat := d_req d + d_opt d + b2n (d_rest d) + b2n (d_nrest d).

(* surface argument counts the signature admits (positional arguments written by the programmer) *)
Definition admitted (d : decl) (argc : nat) : bool :=
  (d_req d <=? argc) && ((argc <=? d_req d + d_opt d) || d_rest d).

(* what a stack slot holds *)
Inductive slot :=
| SRecv                 (* the receiver (or the fresh instance for `#init`) *)
| SArg (i : nat)        (* the i-th argument written at the call site *)
| SOmitted (i : nat)    (* `undefined` emitted by the checker for the omitted optional parameter i *)
| SRest (n : nat)       (* the ArrayTuple holding n rest arguments *)
| SNamed                (* the HashRecord of named rest arguments *)
| SFill                 (* `undefined` pushed by populateMissingParametersOnStack *)
| SResult               (* the value the callee returned *)
| SJunk (n : nat).      (* whatever the caller had on the stack below the call *)

(* checker: one slot per declared parameter *)
Definition normalise (d : decl) (argc : nat) : list slot :=
  let np := d_req d + d_opt d in
  map SArg (seq 0 (Nat.min argc np))
  ++ map SOmitted (seq (Nat.min argc np) (np - argc))
  ++ (if d_rest d then [SRest (argc - np)] else [])
  ++ (if d_nrest d then [SNamed] else []).

(* the value stack, top of stack FIRST *)
Definition stack := list slot.

Definition push_all (xs : list slot) (st : stack) : stack := rev xs ++ st.

(* compiler: receiver, then the slots *)
Definition caller_stack (d : decl) (argc : nat) (below : stack) : stack :=
  push_all (normalise d argc) (SRecv :: below).

(* vm: populateMissingParametersOnStack *)
Definition populate (pc pushed : nat) (st : stack) : stack := repeat SFill (pc - pushed) ++ st.

Record call_result := mkCall {
  c_args : list slot;     (* args[0..paramCount] as the native function sees them *)
  c_after : stack;        (* the stack after the call returned *)
}.

(* callNativeMethod / callBytecodeFunction; None = the window reaches below the bottom of the stack
   (unsafe.Slice before stack[0]) *)
Definition call_method (r : rt) (pushed : nat) (st : stack) : option call_result :=
  let st1 := populate (r_pc r) pushed st in
  if length st1 <? r_pc r + 1 then None
  else Some (mkCall (rev (firstn (r_pc r + 1) st1)) (SResult :: skipn (r_pc r + 1) st1)).

(* opInstantiate when the class has no runtime `#init` *)
Definition call_no_init (st : stack) : call_result := mkCall [] st.

(* the whole statically bound call *)
Definition call (d : decl) (r : rt) (argc : nat) (below : stack) : option call_result :=
  let st := caller_stack d argc below in
  if r_found r then call_method r (total d) st
  else if d_init d then Some (call_no_init st)
  else None.   (* lookupMethod returns nil: panic "tried to call an invalid method" *)

(* arity compatibility of a declaration with the runtime method *)
Definition arity_ok (d : decl) (r : rt) : bool :=
  (r_pc r =? total d) || ((total d <? r_pc r) && (r_pc r - total d <=? r_opc r)).

Definition compatible (d : decl) (r : rt) : bool :=
  if r_found r then arity_ok d r
  else if d_init d then total d =? 0        (* no runtime initialiser: only the zero-argument constructor is balanced *)
  else d_abstract d || negb (d_concrete d). (* nothing to call on: `sig`s and namespaces without instances *)

(* the table check: every row is compatible or listed as a known exception *)
Definition row_ok (exceptions : list N) (x : row) : bool :=
  compatible (row_decl x) (row_rt x) || existsb (N.eqb (row_key x)) exceptions.

Definition all_compatible (exceptions : list N) (rows : list row) : bool :=
  forallb (row_ok exceptions) rows.

Definition incompatible_keys (rows : list row) : list N :=
  map row_key (filter (fun x => negb (compatible (row_decl x) (row_rt x))) rows).

(* what a well-formed native call looks like *)
Definition expected_args (d : decl) (r : rt) (argc : nat) : list slot :=
  SRecv :: normalise d argc ++ repeat SFill (r_pc r - total d).

Definition is_junk (s : slot) : bool := match s with SJunk _ => true | _ => false end.
