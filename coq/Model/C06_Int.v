(* C06 — executable model of Elk's Int arithmetic (value/small_int.go, value/big_int.go).
   `impl` layer: each Go function mirrored under Go semantics (GoSem). math/big is modelled
   by Z: Add/Sub/Mul -> + - *, Div/Mod -> Euclidean, Quo/Rem -> Z.quot/Z.rem, IsInt64 ->
   fits64. No proofs here so the model always runs. *)
From Elk Require Export Base.GoSem.
Open Scope Z_scope.

(* An Elk Int is an inline SmallInt (int64) or a reference to a BigInt. *)
Inductive ival : Type := Small (z : Z) | Big (z : Z).

Definition den (v : ival) : Z := match v with Small z => z | Big z => z end.
(* IsInt64 -> SmallInt, else *BigInt : the normalisation used after big operations *)
Definition norm (z : Z) : ival := if fits64 z then Small z else Big z.
Definition canonical (v : ival) : bool :=
  match v with Small z => fits64 z | Big z => negb (fits64 z) end.

(* math/big Euclidean division (Div/Mod): remainder always >= 0 *)
Definition big_div (a b : Z) : Z :=
  if b >? 0 then a / b else - (a / (- b)).
Definition big_mod (a b : Z) : Z := a mod (Z.abs b).

(* ---- SmallInt overflow helpers (small_int.go) ---- *)
Definition add_overflow (a b : Z) : Z * bool :=
  let c := wrap64 (a + b) in (c, Bool.eqb (c >? a) (b >? 0)).
Definition sub_overflow (a b : Z) : Z * bool :=
  let c := wrap64 (a - b) in (c, Bool.eqb (c <? a) (b >? 0)).
Definition mul_overflow (a b : Z) : Z * bool :=
  if (a =? 0) || (b =? 0) then (0, true) else
  let c := wrap64 (a * b) in
  if Bool.eqb (c <? 0) (xorb (a <? 0) (b <? 0)) then
    (* c / b in Go: truncated, and MinInt64 / -1 wraps to MinInt64 *)
    if wrap64 (Z.quot c b) =? a then (c, true) else (c, false)
  else (c, false).
(* DivideOverflow after the fix: only MinInt64 / -1 overflows. *)
Definition div_overflow (a b : Z) : Z * bool :=
  if b =? 0 then (0, false) else
  if (a =? min64) && (b =? -1) then (wrap64 (Z.quot a b), false)
  else (Z.quot a b, true).

(* ---- operations, by representation pair ---- *)
Definition add_small_small (a b : Z) : ival :=
  let '(c, ok) := add_overflow a b in if ok then Small c else Big (a + b).
Definition sub_small_small (a b : Z) : ival :=
  let '(c, ok) := sub_overflow a b in if ok then Small c else Big (a - b).
Definition mul_small_small (a b : Z) : ival :=
  let '(c, ok) := mul_overflow a b in if ok then Small c else Big (a * b).

Definition iadd (x y : ival) : ival :=
  match x, y with
  | Small a, Small b => add_small_small a b
  | _, _ => norm (den x + den y)
  end.
Definition isub (x y : ival) : ival :=
  match x, y with
  | Small a, Small b => sub_small_small a b
  | _, _ => norm (den x - den y)
  end.
Definition imul (x y : ival) : ival :=
  match x, y with
  | Small a, Small b => mul_small_small a b
  | _, _ => norm (den x * den y)
  end.
Definition ineg (x : ival) : ival :=
  match x with
  | Small a => if a =? min64 then Big (- a) else Small (wrap64 (- a))
  | Big a => Big (- a)    (* BigInt.Negate: not normalised; never small for canonical input *)
  end.

(* after the fix: truncated division (Quo) everywhere *)
Definition idiv (x y : ival) : outcome ival :=
  match x, y with
  | Small a, Small b =>
      if b =? 0 then Err E_ZERO_DIV else
      let '(c, ok) := div_overflow a b in
      if ok then Ok (Small c) else Ok (Big (Z.quot a b))
  | _, _ => if den y =? 0 then Err E_ZERO_DIV else Ok (norm (Z.quot (den x) (den y)))
  end.

Definition imod (x y : ival) : outcome ival :=
  match x, y with
  | Small a, Small b => if b =? 0 then Err E_ZERO_DIV else Ok (Small (Z.rem a b))
  | Small a, Big b =>
      if b =? 0 then Err E_ZERO_DIV else
      if fits64 b then Ok (Small (Z.rem a b)) else Ok (norm (Z.rem a b))
  | Big a, _ => if den y =? 0 then Err E_ZERO_DIV else Ok (norm (Z.rem a (den y)))
  end.

(* the mathematical specification *)
Inductive binop := OpAdd | OpSub | OpMul | OpDiv | OpMod.
Definition spec (o : binop) (a b : Z) : option Z :=
  match o with
  | OpAdd => Some (a + b) | OpSub => Some (a - b) | OpMul => Some (a * b)
  | OpDiv => if b =? 0 then None else Some (Z.quot a b)
  | OpMod => if b =? 0 then None else Some (Z.rem a b)
  end.
Definition impl (o : binop) (x y : ival) : outcome ival :=
  match o with
  | OpAdd => Ok (iadd x y) | OpSub => Ok (isub x y) | OpMul => Ok (imul x y)
  | OpDiv => idiv x y | OpMod => imod x y
  end.
