(* C06 — executable model of Elk's Int arithmetic (value/small_int.go, value/big_int.go).
   `impl` layer: each Go function mirrored under Go semantics (GoSem). math/big is modelled
   by Z: Add/Sub/Mul -> + - *, Div/Mod -> Euclidean, Quo/Rem -> Z.quot/Z.rem, IsInt64 ->
   fits64. No proofs here so the model always runs. *)
From Elk Require Export Base.GoSem.
Open Scope Z_scope.

(* An Elk Int is an inline SmallInt (int64) or a reference to a BigInt. *)
Inductive ival : Type := Small (z : Z) | Big (z : Z).

Definition den (v : ival) : Z := match v with Small z => z | Big z => z end.
(* IsInt64 -> SmallInt, else *BigInt : the normalisation used after big operations *)
Definition norm (z : Z) : ival := if fits64 z then Small z else Big z.
Definition canonical (v : ival) : bool :=
  match v with Small z => fits64 z | Big z => negb (fits64 z) end.

(* math/big Euclidean division (Div/Mod): remainder always >= 0 *)
Definition big_div (a b : Z) : Z :=
  if b >? 0 then a / b else - (a / (- b)).
Definition big_mod (a b : Z) : Z := a mod (Z.abs b).

(* ---- SmallInt overflow helpers (small_int.go) ---- *)
Definition add_overflow (a b : Z) : Z * bool :=
  let c := wrap64 (a + b) in (c, Bool.eqb (c >? a) (b >? 0)).
Definition sub_overflow (a b : Z) : Z * bool :=
  let c := wrap64 (a - b) in (c, Bool.eqb (c <? a) (b >? 0)).
Definition mul_overflow (a b : Z) : Z * bool :=
  if (a =? 0) || (b =? 0) then (0, true) else
  let c := wrap64 (a * b) in
  if Bool.eqb (c <? 0) (xorb (a <? 0) (b <? 0)) then
    (* c / b in Go: truncated, and MinInt64 / -1 wraps to MinInt64 *)
    if wrap64 (Z.quot c b) =? a then (c, true) else (c, false)
  else (c, false).
(* DivideOverflow after the fix: only MinInt64 / -1 overflows. *)
Definition div_overflow (a b : Z) : Z * bool :=
  if b =? 0 then (0, false) else
  if (a =? min64) && (b =? -1) then (wrap64 (Z.quot a b), false)
  else (Z.quot a b, true).

(* ---- operations, by representation pair ---- *)
Definition add_small_small (a b : Z) : ival :=
  let '(c, ok) := add_overflow a b in if ok then Small c else Big (a + b).
Definition sub_small_small (a b : Z) : ival :=
  let '(c, ok) := sub_overflow a b in if ok then Small c else Big (a - b).
Definition mul_small_small (a b : Z) : ival :=
  let '(c, ok) := mul_overflow a b in if ok then Small c else Big (a * b).

Definition iadd (x y : ival) : ival :=
  match x, y with
  | Small a, Small b => add_small_small a b
  | _, _ => norm (den x + den y)
  end.
Definition isub (x y : ival) : ival :=
  match x, y with
  | Small a, Small b => sub_small_small a b
  | _, _ => norm (den x - den y)
  end.
Definition imul (x y : ival) : ival :=
  match x, y with
  | Small a, Small b => mul_small_small a b
  | _, _ => norm (den x * den y)
  end.
(* SmallInt.NegateVal / BigInt.Negate followed by Normalize (after the fix: -(2**63) is small) *)
Definition ineg (x : ival) : ival :=
  match x with
  | Small a => if a =? min64 then Big (- a) else Small (wrap64 (- a))
  | Big a => norm (- a)
  end.

(* after the fix: truncated division (Quo) everywhere *)
Definition idiv (x y : ival) : outcome ival :=
  match x, y with
  | Small a, Small b =>
      if b =? 0 then Err E_ZERO_DIV else
      let '(c, ok) := div_overflow a b in
      if ok then Ok (Small c) else Ok (Big (Z.quot a b))
  | _, _ => if den y =? 0 then Err E_ZERO_DIV else Ok (norm (Z.quot (den x) (den y)))
  end.

Definition imod (x y : ival) : outcome ival :=
  match x, y with
  | Small a, Small b => if b =? 0 then Err E_ZERO_DIV else Ok (Small (Z.rem a b))
  | Small a, Big b =>
      if b =? 0 then Err E_ZERO_DIV else
      if fits64 b then Ok (Small (Z.rem a b)) else Ok (norm (Z.rem a b))
  | Big a, _ => if den y =? 0 then Err E_ZERO_DIV else Ok (norm (Z.rem a (den y)))
  end.

(* the mathematical specification *)
Inductive binop := OpAdd | OpSub | OpMul | OpDiv | OpMod.
Definition spec (o : binop) (a b : Z) : option Z :=
  match o with
  | OpAdd => Some (a + b) | OpSub => Some (a - b) | OpMul => Some (a * b)
  | OpDiv => if b =? 0 then None else Some (Z.quot a b)
  | OpMod => if b =? 0 then None else Some (Z.rem a b)
  end.
Definition impl (o : binop) (x y : ival) : outcome ival :=
  match o with
  | OpAdd => Ok (iadd x y) | OpSub => Ok (isub x y) | OpMul => Ok (imul x y)
  | OpDiv => idiv x y | OpMod => imod x y
  end.

(* ================= extension: ** , comparisons, shifts, bitwise ================= *)

(* big.Int.Exp(x, y, nil): x**y, and 1 when y <= 0 *)
Definition big_exp (x y : Z) : Z := if y <=? 0 then 1 else x ^ y.
(* SmallInt.ExponentiateSmallInt / ExponentiateBigInt, BigInt.ExponentiateSmallInt /
   ExponentiateBigInt: all four are Exp followed by IsInt64 normalisation *)
Definition ipow (x y : ival) : ival :=
  match x, y with
  | Small a, Small b => norm (big_exp a b)
  | Small a, Big b => norm (big_exp a b)
  | Big a, Small b => norm (big_exp a b)
  | Big a, Big b => norm (big_exp a b)
  end.

(* big.Int.Cmp *)
Definition big_cmp (a b : Z) : Z := match a ?= b with Lt => -1 | Eq => 0 | Gt => 1 end.
(* SmallInt.Cmp *)
Definition small_cmp (a b : Z) : Z := if a >? b then 1 else if a <? b then -1 else 0.

Inductive cmpop := CGt | CGe | CLt | CLe | CEq.
(* GreaterThan*/GreaterThanEqual*/LessThan*/LessThanEqual*/Equal* by representation pair:
   machine comparison between two SmallInts, big.Int.Cmp otherwise *)
Definition icmp (o : cmpop) (x y : ival) : bool :=
  match x, y with
  | Small a, Small b =>
      match o with CGt => a >? b | CGe => a >=? b | CLt => a <? b | CLe => a <=? b | CEq => a =? b end
  | _, _ =>
      let c := big_cmp (den x) (den y) in
      match o with CGt => c =? 1 | CGe => c >=? 0 | CLt => c =? -1 | CLe => c <=? 0 | CEq => c =? 0 end
  end.
Definition cmp_spec (o : cmpop) (a b : Z) : bool :=
  match o with CGt => a >? b | CGe => a >=? b | CLt => a <? b | CLe => a <=? b | CEq => a =? b end.
(* CompareSmallInt / CompareBigInt : the <=> operator *)
Definition icompare (x y : ival) : ival :=
  match x, y with
  | Small a, Small b => Small (small_cmp a b)
  | _, _ => Small (big_cmp (den x) (den y))
  end.

(* ---- shifts (after the fix) ---- *)
(* arithmetic right shift x >> n (n >= 0) = floor (x / 2^n), computed without iterating n
   times when n exceeds the length of x (Z.shiftr would loop 2^62 times on `1 >> 2**62`);
   Proofs/C06_Shift.v shows zshr x n = Z.shiftr x n *)
Definition zshr (x n : Z) : Z :=
  if Z.log2 (Z.abs x) <? n then (if x <? 0 then -1 else 0) else Z.shiftr x n.
(* the mathematical shift: a * 2^n for n >= 0, floor (a / 2^(-n)) for n < 0 *)
Definition shl_spec (a n : Z) : Z := if n <? 0 then zshr a (- n) else Z.shiftl a n.
(* Go: x >> n and x << n on int64 with a signed count panic when n < 0 *)
Definition go_shr_chk (x n : Z) : outcome Z :=
  if n <? 0 then Panic P_NEG_SHIFT else Ok (zshr x n).
Definition go_shl_chk (x n : Z) : outcome Z :=
  if n <? 0 then Panic P_NEG_SHIFT else Ok (wrap64 (Z.shiftl x n)).

(* smallIntSignFill / bigIntSignFill *)
Definition sign_fill (i : Z) : ival := if i <? 0 then Small (-1) else Small 0.

(* leftBitshiftSmallInt[T = SmallInt] *)
Definition left_shift_small (i other : Z) : outcome ival :=
  if (other <? 0) || (i =? 0) then Ok (Small 0) else
  if other <=? 63 then
    bind (go_shr_chk i (63 - other)) (fun comp =>
      if ((i <? 0) && (comp =? -1)) || ((i >? 0) && (comp =? 0))
      then bind (go_shl_chk i other) (fun r => Ok (Small r))
      else Ok (Big (Z.shiftl i other)))
  else Ok (Big (Z.shiftl i other)).     (* big.Int.Lsh; never fits when i <> 0 *)
(* rightBitshiftSmallInt[T = SmallInt]: a negative amount is a wrapped -MinInt64 *)
Definition right_shift_small (i other : Z) : outcome ival :=
  if other <? 0 then Ok (sign_fill i) else bind (go_shr_chk i other) (fun r => Ok (Small r)).

(* SmallInt.LeftBitshiftSmallInt ; -other is computed on int64 *)
Definition small_lsh_small (i o : Z) : outcome ival :=
  if o <? 0 then right_shift_small i (wrap64 (- o)) else left_shift_small i o.
(* SmallInt.LeftBitshiftBigInt *)
Definition small_lsh_big (i o : Z) : outcome ival :=
  if fits64 o then small_lsh_small i o
  else if o <? 0 then Ok (sign_fill i) else Ok (Small 0).
(* SmallInt.RightBitshiftSmallInt *)
Definition small_rsh_small (i o : Z) : outcome ival :=
  if o <? 0 then left_shift_small i (wrap64 (- o))
  else bind (go_shr_chk i o) (fun r => Ok (Small r)).
(* SmallInt.RightBitshiftBigInt *)
Definition small_rsh_big (i o : Z) : outcome ival :=
  if fits64 o then small_rsh_small i o
  else if o >? 0 then Ok (sign_fill i) else Ok (Small 0).

(* rightBitshiftBigInt / leftBitshiftBigInt [T = SmallInt]; big.Int.Rsh is an arithmetic shift *)
Definition right_shift_big (a other : Z) : ival :=
  if other <? 0 then sign_fill a else norm (zshr a other).
Definition left_shift_big (a other : Z) : ival :=
  if other <? 0 then Small 0 else Big (Z.shiftl a other).
(* BigInt.LeftBitshiftSmallInt / LeftBitshiftBigInt / RightBitshiftSmallInt / RightBitshiftBigInt *)
Definition big_lsh_small (a o : Z) : ival :=
  if o <? 0 then right_shift_big a (wrap64 (- o)) else left_shift_big a o.
Definition big_lsh_big (a o : Z) : ival :=
  if fits64 o then big_lsh_small a o else if o <? 0 then sign_fill a else Small 0.
Definition big_rsh_small (a o : Z) : ival :=
  if o <? 0 then left_shift_big a (wrap64 (- o)) else right_shift_big a o.
Definition big_rsh_big (a o : Z) : ival :=
  if fits64 o then big_rsh_small a o else if o >? 0 then sign_fill a else Small 0.

Definition ishl (x y : ival) : outcome ival :=
  match x, y with
  | Small a, Small b => small_lsh_small a b
  | Small a, Big b => small_lsh_big a b
  | Big a, Small b => Ok (big_lsh_small a b)
  | Big a, Big b => Ok (big_lsh_big a b)
  end.
Definition ishr (x y : ival) : outcome ival :=
  match x, y with
  | Small a, Small b => small_rsh_small a b
  | Small a, Big b => small_rsh_big a b
  | Big a, Small b => Ok (big_rsh_small a b)
  | Big a, Big b => Ok (big_rsh_big a b)
  end.

(* ---- bitwise: int64 operators between SmallInts, big.Int And/Or/Xor/AndNot
   (two's complement on unbounded integers) followed by normalisation otherwise ---- *)
Inductive bitop := BAnd | BOr | BXor | BAndNot.
Definition bit_z (o : bitop) (a b : Z) : Z :=
  match o with BAnd => Z.land a b | BOr => Z.lor a b | BXor => Z.lxor a b | BAndNot => Z.ldiff a b end.
Definition ibit (o : bitop) (x y : ival) : ival :=
  match x, y with
  | Small a, Small b => Small (bit_z o a b)
  | _, _ => norm (bit_z o (den x) (den y))
  end.
