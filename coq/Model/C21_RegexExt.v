(* C21 - extended mode (x) with inline flag groups: the tree-level reading of
   "where x is on, whitespace is removed; where the text has switched x off, it stays".

   The transpiler (Model/C21_RegexSyntax.v, `tr`) re-reads t.Flags for every element of a
   concatenation, so a bare `(?-x)` / `(?x)` changes how the REST of the enclosing group is read,
   and `(?x:..)` / `(?-x:..)` change it for their content only.  The functions here thread the
   same x state through the tree WITHOUT looking at the transpiler:
     strip_fx x r    the tree with the whitespace CharNodes of the x-on stretches removed and x
                     erased from every flag group (a group that only mentioned x becomes `(?:..)`
                     or an empty flag group), and the x state after r;
     live_hash x r   a `#` CharNode stands (outside classes) where x is on, and the x state after r.
   No proofs here. *)
From Coq Require Import ZArith List Bool.
From Elk Require Import Model.C21_RegexSyntax.
Import ListNotations.
Open Scope Z_scope.

Definition erase_x (f : flags) : flags := set_x f false.

(* group(): set first, then unset *)
Definition x_after (x : bool) (st un : flags) : bool := (x || fx st) && negb (fx un).

(* the kind of a flag group WITH content once x is erased: `(?x:a)` is emitted as `(?:a)` *)
Definition kind_nox (st un : flags) : gkind :=
  if any_flag (erase_x st) || any_flag (erase_x un) then GFlags (erase_x st) (erase_x un)
  else if any_flag st || any_flag un then GNonCapture
  else GFlags (erase_x st) (erase_x un).

Fixpoint strip_fx (x : bool) (r : re) {struct r} : re * bool :=
  match r with
  | RAtom (AChar c) => (if x && is_space c then RConcat [] else r, x)
  | RConcat l =>
      let '(l', x') :=
        (fix go (x : bool) (l : list re) {struct l} : list re * bool :=
           match l with
           | [] => ([], x)
           | e :: t =>
               if x && is_ws e then go x t
               else let '(e', x1) := strip_fx x e in let '(t', x2) := go x1 t in (e' :: t', x2)
           end) x l in
      (RConcat l', x')
  | RUnion a b =>
      let '(a', x1) := strip_fx x a in
      let '(b', x2) := strip_fx x1 b in
      (RUnion a' b', x2)
  | RGroup k body =>
      match k with
      | GFlags st un =>
          match body with
          | Some b => (RGroup (kind_nox st un) (Some (fst (strip_fx (x_after x st un) b))), x)
          | None => (RGroup (GFlags (erase_x st) (erase_x un)) None, x_after x st un)
          end
      | _ => (RGroup k (match body with Some b => Some (fst (strip_fx x b)) | None => None end), x)
      end
  | RQuant q alt r0 => let '(r', x1) := strip_fx x r0 in (RQuant q alt r', x1)
  | _ => (r, x)
  end.

Fixpoint live_hash (x : bool) (r : re) {struct r} : bool * bool :=
  match r with
  | RAtom (AChar c) => (x && (c =? 35), x)
  | RConcat l =>
      (fix go (x : bool) (l : list re) {struct l} : bool * bool :=
         match l with
         | [] => (false, x)
         | e :: t => let '(h1, x1) := live_hash x e in let '(h2, x2) := go x1 t in (h1 || h2, x2)
         end) x l
  | RUnion a b =>
      let '(h1, x1) := live_hash x a in
      let '(h2, x2) := live_hash x1 b in
      (h1 || h2, x2)
  | RGroup k body =>
      match k with
      | GFlags st un =>
          match body with
          | Some b => (fst (live_hash (x_after x st un) b), x)
          | None => (false, x_after x st un)
          end
      | _ => (match body with Some b => fst (live_hash x b) | None => false end, x)
      end
  | RQuant _ _ r0 => live_hash x r0
  | _ => (false, x)
  end.

(* what Props/C21.v states: the stripped tree and the guard, from the flags of the literal *)
Definition strip_x (f : flags) (r : re) : re := fst (strip_fx (fx f) r).
Definition comment_free (f : flags) (r : re) : bool := negb (fst (live_hash (fx f) r)).
