(* C27 -- frame audit of Checker.CheckSource (types/checker/checker.go).

   Gen/C27_CheckerFields.v (written by harness/cmd/c27gen from the Go AST) lists every field of
   `type Checker struct` with six syntactic facts.  This file is the hand-maintained side: it
   says, for every field, WHY a rejected REPL input cannot leave a trace in it, and checks that
   the stated reason agrees with the facts read off the source.

     Restored          copied by CheckSource before CheckProgram and put back when the input
                       is rejected (the `if c.Errors.IsFailure()` block)
     ResetBySource     re-initialised for every input by CheckSource itself: assigned at the top
                       level of CheckSource BEFORE it calls CheckProgram (f_reset_before).  Deleting
                       that assignment makes the audit false even when other code still assigns
                       the field (the scope-copy caches are also cleared by every scope push/pop,
                       but nothing else clears them between a rejected input and the next one)
     ResetByProgram    unconditionally (re)assigned on every run of CheckProgram: by a statement at
                       the top level of CheckProgram or of a pass it calls at its top level
                       (f_reset_cp), before the next input reads it
     ImmutableConfig   never assigned by CheckSource or by anything reachable from CheckProgram
     AppendOnlyCache   only grows; a stale entry is harmless (or the REPL clears it itself)
     TransientBalanced saved and put back around every nested check, so it has its initial value
                       whenever CheckProgram returns

   A new field in the struct has no entry in `classes` and makes the audit false; so does an
   entry whose field disappeared, and a field whose facts contradict its class. *)
From Coq Require Import String List Bool.
Import ListNotations.
From Elk Require Import Gen.C27_CheckerFields.
Open Scope string_scope.

Inductive fclass := Restored | ResetBySource | ResetByProgram | ImmutableConfig | AppendOnlyCache | TransientBalanced.

Definition classes : list (string * fclass) := [
  (* CheckSource: `c.Filename = sourceName` *)
  ("Filename", ResetBySource);
  (* the list only grows during a run; the REPL calls ClearErrors after every input.
     checkMethod swaps in a temporary list and puts the previous one back *)
  ("Errors", AppendOnlyCache);
  (* parsed files keyed by path; only c.ASTCache.Set *)
  ("ASTCache", AppendOnlyCache);
  (* envCopy := c.runtimeEnv.DeepCopyEnv(); setRuntimeGlobalEnv(envCopy) on failure *)
  ("runtimeEnv", Restored);
  (* assigned in newChecker only *)
  ("macroEnv", ImmutableConfig);
  (* CheckSource: setDefinedMacros(false); BuiltinImportsProcessed is set once and stays;
     hasDefer/generator/readonly/... are toggled around nested checks; the others are options *)
  ("flags", ResetBySource);
  (* CheckProgram: c.phase = methodSignatureCheckPhase ... c.phase = expressionPhase.
     KNOWN FINDING: this reason is incomplete.  Hoisting and checkTypeDefinitions run BEFORE the first
     of these assignments and read the phase (checkTypeIfNecessary: `if c.phase != initPhase`), so
     from the second input on they see expressionPhase: circular named types are no longer detected
     (found by c27.sessions, key reject:missed:late:cyclic-typedef; fixes/C27-reset-phase.patch makes
     CheckSource assign c.phase = initPhase).  The audit only checks "unconditionally assigned by
     CheckProgram", not "before every read"; once the fix is applied this entry should become
     ResetBySource *)
  ("phase", ResetByProgram);
  (* every `c.mode = x` is paired with `c.mode = prevMode` *)
  ("mode", TransientBalanced);
  (* set in checkMethodDefinition / closures, nil-ed or put back on exit *)
  ("returnType", TransientBalanced);
  ("throwType", TransientBalanced);
  (* recomputed from the restored environment by setRuntimeGlobalEnv(envCopy):
     c.selfType = newEnv.StdSubtype(symbol.Object) -- see derived_from below *)
  ("selfType", Restored);
  (* constantScopesCopy := c.deepCopyConstantScopes(..); assigned back on failure *)
  ("constantScopes", Restored);
  (* CheckSource: c.constantScopesCopyCache = nil.  The cache aliases the scopes of the environment
     the input is checked in; after a rejection those are the DISCARDED scopes, and only a scope
     push/pop would clear it, so the reset at the start of the next input is what makes it safe *)
  ("constantScopesCopyCache", ResetBySource);
  (* methodScopesCopy := c.deepCopyMethodScopes(..); assigned back on failure *)
  ("methodScopes", Restored);
  (* CheckSource: c.methodScopesCopyCache = nil *)
  ("methodScopesCopyCache", ResetBySource);
  (* pushCatchScope/popCatchScope; checkMethodDefinition saves and puts back prevCatchScopes *)
  ("catchScopes", TransientBalanced);
  (* localEnvsCopy := c.deepCopyLocalEnvs(..); c.localEnvs = localEnvsCopy on failure *)
  ("localEnvs", Restored);
  (* registerLoop / popLoop *)
  ("loops", TransientBalanced);
  (* checkNamespacePlaceholders (always run by CheckProgram) ends with `= nil` *)
  ("namespacePlaceholders", ResetByProgram);
  (* checkConstantPlaceholders (always run) ends with `= nil` *)
  ("constantPlaceholders", ResetByProgram);
  (* checkMethodPlaceholders (always run) ends with `= nil` *)
  ("methodPlaceholders", ResetByProgram);
  (* CheckSource: c.macroChecks = nil *)
  ("macroChecks", ResetBySource);
  (* CheckSource: c.methodBodyChecks = nil *)
  ("methodBodyChecks", ResetBySource);
  (* CheckSource: c.signatureChecks = ds.NewOrderedMap(..) *)
  ("signatureChecks", ResetBySource);
  (* checkConstants (always run) ends with c.constantChecks = newConstantDefinitionChecks() *)
  ("constantChecks", ResetByProgram);
  (* checkTypeDefinitions (always run) ends with c.typeDefinitionChecks = newTypeDefinitionChecks() *)
  ("typeDefinitionChecks", ResetByProgram);
  (* the pointer is never reassigned; entries are pushed during constant/method checks and the
     slice is emptied after each constant declaration and each method body *)
  ("methodCache", AppendOnlyCache);
  (* initExtensions (always run) ends with c.extensions = concurrent.NewSlice() *)
  ("extensions", ResetByProgram);
  (* c.method = m ... c.method = nil around every method/macro body *)
  ("method", TransientBalanced);
  (* CheckProgram: c.namespacesWithIvars = ds.NewOrderedMap(..); nil-ed by checkClassesWithIvars *)
  ("namespacesWithIvars", ResetByProgram);
  (* initMacroCompiler at the start of every CheckProgram *)
  ("macroCompiler", ResetByProgram);
  (* every input chains a new main compiler onto c.compiler (initGlobalEnvCompiler:
     parent := c.compiler); the compiler of a rejected input must not become the parent of the
     next one, so CheckSource has to put the previous compiler back on failure *)
  ("compiler", Restored);
  (* assigned by CheckSourceNative before it calls CheckSource, and in newChecker *)
  ("output", ImmutableConfig);
  (* assigned in newChecker only *)
  ("threadPool", ImmutableConfig)
].

Fixpoint class_of (n : string) (l : list (string * fclass)) : option fclass :=
  match l with
  | [] => None
  | (m, c) :: r => if String.eqb n m then Some c else class_of n r
  end.

(* Rule adjustment for Restored.  selfType has no local copy of its own in CheckSource: the
   failure block calls c.setRuntimeGlobalEnv(envCopy), which recomputes selfType from the
   environment it is given.  Such a field counts as saved when the field it is recomputed from is
   itself both saved and restored.  Everything else classed Restored still needs its own copy. *)
Definition derived_from : list (string * string) := [ ("selfType", "runtimeEnv") ].

Fixpoint source_of (n : string) (l : list (string * string)) : option string :=
  match l with
  | [] => None
  | (m, s) :: r => if String.eqb n m then Some s else source_of n r
  end.

Definition saved_and_restored (n : string) : bool :=
  existsb (fun g => String.eqb (f_name g) n && f_saved g && f_restored g) gen_fields.

Definition saved_eff (f : field) : bool :=
  f_saved f ||
  match source_of (f_name f) derived_from with
  | Some s => saved_and_restored s
  | None => false
  end.

Definition consistent (f : field) (c : fclass) : bool :=
  match c with
  | Restored => saved_eff f && f_restored f
  | ResetBySource => f_reset_before f && negb (f_restored f)
  | ResetByProgram => f_reset_cp f && negb (f_restored f)
  | ImmutableConfig => negb (f_assigned_cs f) && negb (f_assigned_cp f)
  | AppendOnlyCache => negb (f_restored f) && negb (f_reset_before f)
  | TransientBalanced => negb (f_restored f) && negb (f_reset_before f)
  end.

Definition classified (f : field) : bool :=
  match class_of (f_name f) classes with
  | Some c => consistent f c
  | None => false
  end.

Definition no_stale_class : bool :=
  forallb (fun p => existsb (fun f => String.eqb (f_name f) (fst p)) gen_fields) classes.

(* names of the fields that fail, for the report of the check *)
Definition unclassified : list string :=
  map f_name (filter (fun f => negb (classified f)) gen_fields).

Definition frame_audit : bool :=
  gen_checksource_found && forallb classified gen_fields && no_stale_class.
