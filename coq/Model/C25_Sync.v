(* C25 — channels and sync primitives: executable model ONLY (no proofs).

   Two layers per primitive.
   * The Go base (trusted, section 4 of DESIGN.md): channel, sync.Mutex, sync.RWMutex,
     sync.WaitGroup, sync.Once as labelled transition systems.  A blocking operation is a
     DISABLED transition ([None]); send/close of a closed channel and a negative WaitGroup
     counter are recoverable [Panic]s; unlock of an unlocked (RW)Mutex is an unrecoverable
     [Fatal].
   * The Elk wrappers on top (value/channel_of_value.go, native_channel.go, mutex.go,
     rwmutex.go, romutex.go, wait_group.go, once.go, vm/thread.go opSelect), which turn
     these into Elk errors.  The flag [fx] selects the wrappers AFTER
     fixes/C25-mutex-unlock.patch, C25-select-closed-send.patch, C25-waitgroup-negative.patch
     ([true]) or as found ([false]).

   Threads: a schedule is a list of (thread label, action); [run] folds it over the initial
   state, so "every reachable state" is "run sched init for every sched".  A disabled step
   leaves the state unchanged (the caller stays blocked).  None of the Go primitives has an
   owner, so thread identity is a label recorded in the ghost trace only; calls that take
   two micro-steps (the fixed Mutex/RWMutex wrappers, Once) are tracked by counters of the
   threads currently between the two steps (any number of threads). *)
From Elk Require Import Base.GoSem.
Open Scope Z_scope.

(* error / panic / fatal codes shared with the harness *)
Definition E_CLOSED_PUSH : Z := 251.
Definition E_CLOSED_POP : Z := 252.
Definition E_CLOSED_CLOSE : Z := 253.
Definition E_STOP_ITER : Z := 254.
Definition E_UNLOCKED : Z := 255.      (* Mutex::UnlockedError *)
Definition E_RW_UNLOCKED_W : Z := 256. (* RWMutex::UnlockedError, write side *)
Definition E_RW_UNLOCKED_R : Z := 257. (* RWMutex::UnlockedError, read side *)
Definition E_WG_NEG : Z := 258.        (* OutOfRangeError "negative WaitGroup counter" *)
Definition E_WG_RANGE : Z := 259.      (* OutOfRangeError, |n| or counter above MaxInt32 *)
Definition P_SEND_CLOSED : Z := 201.
Definition P_CLOSE_CLOSED : Z := 202.
Definition P_WG_NEG : Z := 203.
Definition F_MUTEX : Z := 301.
Definition F_RW_W : Z := 302.
Definition F_RW_R : Z := 303.

(* result of a wrapper call: Ok None = nil/self, Ok (Some v) = a popped value *)
Definition res := outcome (option Z).

Definition crash (r : res) : bool :=
  match r with Panic _ | Fatal _ => true | _ => false end.

(* ================================================================ channels *)

Record chan := mkChan { buf : list Z; cap : nat; closed : bool }.

(* ---- Go base *)
Definition go_send (c : chan) (v : Z) : option (outcome chan) :=
  if closed c then Some (Panic P_SEND_CLOSED)
  else if Nat.ltb (length (buf c)) (cap c) then Some (Ok (mkChan (buf c ++ [v]) (cap c) false))
  else None.

(* Some (c', Some v): received v;  Some (c', None): closed and drained (zero value, ok=false) *)
Definition go_recv (c : chan) : option (chan * option Z) :=
  match buf c with
  | x :: r => Some (mkChan r (cap c) (closed c), Some x)
  | [] => if closed c then Some (c, None) else None
  end.

Definition go_close (c : chan) : outcome chan :=
  if closed c then Panic P_CLOSE_CLOSED else Ok (mkChan (buf c) (cap c) true).

(* a sender and a receiver meet on an open channel with an empty buffer: the value is handed
   over directly (the only way an unbuffered channel transfers anything) *)
Definition go_rdv (c : chan) : bool := negb (closed c) && match buf c with [] => true | _ => false end.

(* ---- Elk wrappers: Push/PushCtx, Pop/PopCtx, NextValue, Close *)
Definition elk_push (c : chan) (v : Z) : option (chan * res) :=
  match go_send c v with
  | None => None
  | Some (Ok c') => Some (c', Ok None)
  | Some (Panic _) => Some (c, Err E_CLOSED_PUSH)      (* recover() in Push *)
  | Some (Err e) => Some (c, Err e)
  | Some (Fatal f) => Some (c, Fatal f)
  end.

Definition elk_pop_with (closed_code : Z) (c : chan) : option (chan * res) :=
  match go_recv c with
  | None => None
  | Some (c', Some v) => Some (c', Ok (Some v))
  | Some (c', None) => Some (c', Err closed_code)
  end.
Definition elk_pop := elk_pop_with E_CLOSED_POP.      (* pop, <<ch *)
Definition elk_next := elk_pop_with E_STOP_ITER.      (* next / for-in *)

Definition elk_close (c : chan) : chan * res :=
  match go_close c with
  | Ok c' => (c', Ok None)
  | Panic _ => (c, Err E_CLOSED_CLOSE)                 (* recover() in Close *)
  | Err e => (c, Err e)
  | Fatal f => (c, Fatal f)
  end.

(* ---- select *)
Inductive scase := SSend (ch : nat) (v : Z) | SRecv (ch : nat).

Definition upd (m : nat -> chan) (k : nat) (c : chan) : nat -> chan :=
  fun k' => if Nat.eqb k' k then c else m k'.

(* reflect.Select: a case is ready when its channel operation would not block *)
Definition case_ready (chs : nat -> chan) (k : scase) : bool :=
  match k with
  | SSend ch v => match go_send (chs ch) v with Some _ => true | None => false end
  | SRecv ch => match go_recv (chs ch) with Some _ => true | None => false end
  end.

(* opSelect.  choice = Some i: reflect.Select picked case i (possible only when it is ready);
   None: the else branch (possible only when there is one and no case is ready).
   A receive case yields a Result value: Ok v, or the ClosedError as a value (Err).
   A send case on a closed channel: Go panics inside reflect.Select; the fixed opSelect turns
   that into the thrown ClosedError of `<<`.  As found the receive case on a closed channel
   carried the message of the push error. *)
Definition elk_select (fx : bool) (chs : nat -> chan) (cases : list scase) (dflt : bool)
           (choice : option nat) : option ((nat -> chan) * res) :=
  match choice with
  | Some i =>
      match nth_error cases i with
      | Some (SSend ch v) =>
          match go_send (chs ch) v with
          | None => None
          | Some (Ok c') => Some (upd chs ch c', Ok None)
          | Some (Panic p) => Some (chs, if fx then Err E_CLOSED_PUSH else Panic p)
          | Some (Err e) => Some (chs, Err e)
          | Some (Fatal f) => Some (chs, Fatal f)
          end
      | Some (SRecv ch) =>
          match go_recv (chs ch) with
          | None => None
          | Some (c', Some v) => Some (upd chs ch c', Ok (Some v))
          | Some (c', None) => Some (chs, Err (if fx then E_CLOSED_POP else E_CLOSED_PUSH))
          end
      | None => None
      end
  | None =>
      if dflt && forallb (fun k => negb (case_ready chs k)) cases then Some (chs, Ok None) else None
  end.

(* ---- the channel system *)
Inductive cact :=
| CPush (ch : nat) (v : Z)
| CPop (ch : nat)
| CNext (ch : nat)
| CClose (ch : nat)
| CRdv (ch : nat) (v : Z) (rcv : nat)      (* the acting thread sends v, thread rcv receives it *)
| CSelect (cases : list scase) (dflt : bool) (choice : option nat).

Inductive cev := CEv (t : nat) (a : cact) (r : res).

Record cstate := mkC { chans : nat -> chan; ctrace : list cev (* newest first; ghost *) }.

Definition cinit (caps : nat -> nat) : cstate := mkC (fun k => mkChan [] (caps k) false) [].

Definition cstep (fx : bool) (s : cstate) (t : nat) (a : cact) : option cstate :=
  match a with
  | CPush ch v =>
      match elk_push (chans s ch) v with
      | Some (c', r) => Some (mkC (upd (chans s) ch c') (CEv t a r :: ctrace s))
      | None => None
      end
  | CPop ch =>
      match elk_pop (chans s ch) with
      | Some (c', r) => Some (mkC (upd (chans s) ch c') (CEv t a r :: ctrace s))
      | None => None
      end
  | CNext ch =>
      match elk_next (chans s ch) with
      | Some (c', r) => Some (mkC (upd (chans s) ch c') (CEv t a r :: ctrace s))
      | None => None
      end
  | CClose ch =>
      let '(c', r) := elk_close (chans s ch) in
      Some (mkC (upd (chans s) ch c') (CEv t a r :: ctrace s))
  | CRdv ch v rcv =>
      if go_rdv (chans s ch) then Some (mkC (chans s) (CEv t a (Ok (Some v)) :: ctrace s)) else None
  | CSelect cases dflt choice =>
      match elk_select fx (chans s) cases dflt choice with
      | Some (chs', r) => Some (mkC chs' (CEv t a r :: ctrace s))
      | None => None
      end
  end.

Definition cstep' fx (s : cstate) (ta : nat * cact) : cstate :=
  match cstep fx s (fst ta) (snd ta) with Some s' => s' | None => s end.

Definition crun fx (sched : list (nat * cact)) (s : cstate) : cstate := fold_left (cstep' fx) sched s.

(* values whose push on channel ch COMPLETED in this event / values popped from ch *)
Definition ev_pushes (ch : nat) (e : cev) : list Z :=
  match e with
  | CEv _ (CPush c v) (Ok _) => if Nat.eqb c ch then [v] else []
  | CEv _ (CRdv c v _) (Ok _) => if Nat.eqb c ch then [v] else []
  | CEv _ (CSelect cases _ (Some i)) (Ok _) =>
      match nth_error cases i with
      | Some (SSend c v) => if Nat.eqb c ch then [v] else []
      | _ => []
      end
  | _ => []
  end.

Definition ev_pops (ch : nat) (e : cev) : list Z :=
  match e with
  | CEv _ (CPop c) (Ok (Some v)) => if Nat.eqb c ch then [v] else []
  | CEv _ (CNext c) (Ok (Some v)) => if Nat.eqb c ch then [v] else []
  | CEv _ (CRdv c v _) (Ok _) => if Nat.eqb c ch then [v] else []
  | CEv _ (CSelect cases _ (Some i)) (Ok (Some v)) =>
      match nth_error cases i with
      | Some (SRecv c) => if Nat.eqb c ch then [v] else []
      | _ => []
      end
  | _ => []
  end.

(* oldest first *)
Fixpoint pushes_of (ch : nat) (tr : list cev) : list Z :=
  match tr with [] => [] | e :: r => pushes_of ch r ++ ev_pushes ch e end.
Fixpoint pops_of (ch : nat) (tr : list cev) : list Z :=
  match tr with [] => [] | e :: r => pops_of ch r ++ ev_pops ch e end.

Definition cev_res (e : cev) : res := match e with CEv _ _ r => r end.

(* ================================================================ Mutex *)

(* sync.Mutex *)
Definition go_lock (native : bool) : option bool := if native then None else Some true.
Definition go_unlock (native : bool) : outcome bool := if native then Ok false else Fatal F_MUTEX.

Inductive mact :=
| MLock        (* a thread calls Lock: native Lock (blocks while locked) *)
| MLockDone    (* fixed wrapper, second half of Lock: locked.Store(true); Lock returns *)
| MUnlock      (* a thread calls Unlock: fixed = CompareAndSwap(true,false); old = native Unlock *)
| MUnlockDone. (* fixed wrapper, second half of Unlock: native Unlock; Unlock returns *)

Inductive mev := MLocked (t : nat) | MUnlocked (t : nat) | MUnlockErr (t : nat) | MFatal (t : nat).

Record mstate := mkM {
  m_native : bool;       (* sync.Mutex state *)
  m_flag : bool;         (* Mutex.locked (fixed wrapper only) *)
  m_acq : nat;           (* threads that hold the native lock and have not stored the flag yet *)
  m_rel : nat;           (* threads that cleared the flag and have not released the native lock yet *)
  mtrace : list mev
}.

Definition minit : mstate := mkM false false 0 0 [].

Definition mstep (fx : bool) (s : mstate) (t : nat) (a : mact) : option mstate :=
  if fx then
    match a with
    | MLock =>
        match go_lock (m_native s) with
        | Some n => Some (mkM n (m_flag s) (S (m_acq s)) (m_rel s) (mtrace s))
        | None => None
        end
    | MLockDone =>
        match m_acq s with
        | S k => Some (mkM (m_native s) true k (m_rel s) (MLocked t :: mtrace s))
        | O => None
        end
    | MUnlock =>
        if m_flag s then Some (mkM (m_native s) false (m_acq s) (S (m_rel s)) (mtrace s))
        else Some (mkM (m_native s) (m_flag s) (m_acq s) (m_rel s) (MUnlockErr t :: mtrace s))
    | MUnlockDone =>
        match m_rel s with
        | S k =>
            match go_unlock (m_native s) with
            | Ok n => Some (mkM n (m_flag s) (m_acq s) k (MUnlocked t :: mtrace s))
            | _ => Some (mkM (m_native s) (m_flag s) (m_acq s) k (MFatal t :: mtrace s))
            end
        | O => None
        end
    end
  else
    match a with
    | MLock =>
        match go_lock (m_native s) with
        | Some n => Some (mkM n (m_flag s) (m_acq s) (m_rel s) (MLocked t :: mtrace s))
        | None => None
        end
    | MUnlock =>
        (* the recover() in Unlock cannot catch a fatal error *)
        match go_unlock (m_native s) with
        | Ok n => Some (mkM n (m_flag s) (m_acq s) (m_rel s) (MUnlocked t :: mtrace s))
        | _ => Some (mkM (m_native s) (m_flag s) (m_acq s) (m_rel s) (MFatal t :: mtrace s))
        end
    | _ => None
    end.

Definition mstep' fx (s : mstate) (ta : nat * mact) : mstate :=
  match mstep fx s (fst ta) (snd ta) with Some s' => s' | None => s end.
Definition mrun fx (sched : list (nat * mact)) (s : mstate) : mstate := fold_left (mstep' fx) sched s.

(* completed Lock calls minus completed successful Unlock calls *)
Fixpoint mheld (tr : list mev) : Z :=
  match tr with
  | [] => 0
  | MLocked _ :: r => mheld r + 1
  | MUnlocked _ :: r => mheld r - 1
  | _ :: r => mheld r
  end.

Definition mev_fatal (e : mev) : bool := match e with MFatal _ => true | _ => false end.

(* ================================================================ RWMutex (and ROMutex = its read side) *)

Inductive ract :=
| RLock | RLockDone | RUnlock | RUnlockDone          (* write side: Lock / Unlock *)
| RRLock | RRLockDone | RRUnlock | RRUnlockDone.     (* read side: ReadLock / ReadUnlock *)

Inductive rev :=
| RWLocked (t : nat) | RWUnlocked (t : nat) | RWUnlockErr (t : nat)
| RRLocked (t : nat) | RRUnlocked (t : nat) | RRUnlockErr (t : nat)
| RFatal (t : nat) (code : Z).

Record rstate := mkR {
  r_w : bool;          (* sync.RWMutex: a writer holds it *)
  r_r : nat;           (* sync.RWMutex: number of readers holding it *)
  r_wflag : bool;      (* RWMutex.writer  (fixed wrapper) *)
  r_rcount : nat;      (* RWMutex.readers (fixed wrapper) *)
  r_wacq : nat; r_wrel : nat; r_racq : nat; r_rrel : nat;   (* threads between the two halves of a call *)
  rtrace : list rev
}.

Definition rinit : rstate := mkR false 0 false 0 0 0 0 0 [].

(* Go base.  Writer preference (a pending Lock blocks new RLocks) only removes schedules. *)
Definition go_rw_lock (w : bool) (r : nat) : bool := negb w && Nat.eqb r 0.
Definition go_rw_rlock (w : bool) : bool := negb w.

Definition rstep (fx : bool) (s : rstate) (t : nat) (a : ract) : option rstate :=
  let '(mkR w r wf rc wa wr ra rr tr) := s in
  if fx then
    match a with
    | RLock => if go_rw_lock w r then Some (mkR true r wf rc (S wa) wr ra rr tr) else None
    | RLockDone => match wa with S k => Some (mkR w r true rc k wr ra rr (RWLocked t :: tr)) | O => None end
    | RUnlock =>
        if wf then Some (mkR w r false rc wa (S wr) ra rr tr)
        else Some (mkR w r wf rc wa wr ra rr (RWUnlockErr t :: tr))
    | RUnlockDone =>
        match wr with
        | S k => if w then Some (mkR false r wf rc wa k ra rr (RWUnlocked t :: tr))
                 else Some (mkR w r wf rc wa k ra rr (RFatal t F_RW_W :: tr))
        | O => None
        end
    | RRLock => if go_rw_rlock w then Some (mkR w (S r) wf rc wa wr (S ra) rr tr) else None
    | RRLockDone => match ra with S k => Some (mkR w r wf (S rc) wa wr k rr (RRLocked t :: tr)) | O => None end
    | RRUnlock =>
        match rc with
        | S k => Some (mkR w r wf k wa wr ra (S rr) tr)
        | O => Some (mkR w r wf rc wa wr ra rr (RRUnlockErr t :: tr))
        end
    | RRUnlockDone =>
        match rr with
        | S k => match r with
                 | S r' => Some (mkR w r' wf rc wa wr ra k (RRUnlocked t :: tr))
                 | O => Some (mkR w r wf rc wa wr ra k (RFatal t F_RW_R :: tr))
                 end
        | O => None
        end
    end
  else
    match a with
    | RLock => if go_rw_lock w r then Some (mkR true r wf rc wa wr ra rr (RWLocked t :: tr)) else None
    | RUnlock => if w then Some (mkR false r wf rc wa wr ra rr (RWUnlocked t :: tr))
                 else Some (mkR w r wf rc wa wr ra rr (RFatal t F_RW_W :: tr))
    | RRLock => if go_rw_rlock w then Some (mkR w (S r) wf rc wa wr ra rr (RRLocked t :: tr)) else None
    | RRUnlock => match r with
                  | S r' => Some (mkR w r' wf rc wa wr ra rr (RRUnlocked t :: tr))
                  | O => Some (mkR w r wf rc wa wr ra rr (RFatal t F_RW_R :: tr))
                  end
    | _ => None
    end.

Definition rstep' fx (s : rstate) (ta : nat * ract) : rstate :=
  match rstep fx s (fst ta) (snd ta) with Some s' => s' | None => s end.
Definition rrun fx (sched : list (nat * ract)) (s : rstate) : rstate := fold_left (rstep' fx) sched s.

Fixpoint wheld (tr : list rev) : Z :=
  match tr with
  | [] => 0
  | RWLocked _ :: r => wheld r + 1
  | RWUnlocked _ :: r => wheld r - 1
  | _ :: r => wheld r
  end.
Fixpoint rheld (tr : list rev) : Z :=
  match tr with
  | [] => 0
  | RRLocked _ :: r => rheld r + 1
  | RRUnlocked _ :: r => rheld r - 1
  | _ :: r => rheld r
  end.
Definition rev_fatal (e : rev) : bool := match e with RFatal _ _ => true | _ => false end.

(* ================================================================ WaitGroup *)

Definition MAX32 : Z := 2147483647.

(* sync.WaitGroup.Add: 32-bit counter; a negative result panics *)
Definition go_wg_add (cnt n : Z) : outcome Z :=
  let v := wrap_s 32 (cnt + n) in if v <? 0 then Panic P_WG_NEG else Ok v.

Inductive wact :=
| WAdd (n : Z) | WRemove (n : Z) | WStart | WEnd | WWait.

Inductive wev := WEvDelta (t : nat) (a : wact) (r : res) (delta : Z) | WEvWait (t : nat).

Record wstate := mkW { w_cnt : Z (* native counter *); w_count : Z (* wrapper's mirror *); wtrace : list wev }.
Definition winit : wstate := mkW 0 0 [].

(* fixed Add: under the wrapper's mutex, hence one atomic step *)
Definition elk_wg_add (fx : bool) (s : wstate) (t : nat) (a : wact) (n : Z) : wstate :=
  if fx then
    if (n >? MAX32) || (n <? - MAX32) then mkW (w_cnt s) (w_count s) (WEvDelta t a (Err E_WG_RANGE) 0 :: wtrace s)
    else let c := w_count s + n in
      if c <? 0 then mkW (w_cnt s) (w_count s) (WEvDelta t a (Err E_WG_NEG) 0 :: wtrace s)
      else if c >? MAX32 then mkW (w_cnt s) (w_count s) (WEvDelta t a (Err E_WG_RANGE) 0 :: wtrace s)
      else match go_wg_add (w_cnt s) n with
           | Ok v => mkW v c (WEvDelta t a (Ok None) n :: wtrace s)
           | Panic p => mkW (w_cnt s) (w_count s) (WEvDelta t a (Panic p) 0 :: wtrace s)
           | Err e => mkW (w_cnt s) (w_count s) (WEvDelta t a (Err e) 0 :: wtrace s)
           | Fatal f => mkW (w_cnt s) (w_count s) (WEvDelta t a (Fatal f) 0 :: wtrace s)
           end
  else
    match go_wg_add (w_cnt s) n with
    | Ok v => mkW v (w_count s) (WEvDelta t a (Ok None) n :: wtrace s)
    | Panic p => mkW (w_cnt s) (w_count s) (WEvDelta t a (Panic p) 0 :: wtrace s)
    | Err e => mkW (w_cnt s) (w_count s) (WEvDelta t a (Err e) 0 :: wtrace s)
    | Fatal f => mkW (w_cnt s) (w_count s) (WEvDelta t a (Fatal f) 0 :: wtrace s)
    end.

Definition wstep (fx : bool) (s : wstate) (t : nat) (a : wact) : option wstate :=
  match a with
  | WAdd n => Some (elk_wg_add fx s t a n)
  | WStart => Some (elk_wg_add fx s t a 1)
  | WEnd => Some (elk_wg_add fx s t a (-1))
  | WRemove n =>
      if n <=? 0 then Some (mkW (w_cnt s) (w_count s) (WEvDelta t a (Ok None) 0 :: wtrace s))   (* `for range n` / fixed: no-op *)
      else if fx then
        if n >? MAX32 then Some (mkW (w_cnt s) (w_count s) (WEvDelta t a (Err E_WG_NEG) 0 :: wtrace s))
        else Some (elk_wg_add fx s t a (- n))
      else
        (* as found: n times Done(); panics at the first decrement below zero *)
        if n <=? w_cnt s then Some (mkW (w_cnt s - n) (w_count s) (WEvDelta t a (Ok None) (- n) :: wtrace s))
        else Some (mkW (w_cnt s) (w_count s) (WEvDelta t a (Panic P_WG_NEG) 0 :: wtrace s))
  | WWait => if w_cnt s =? 0 then Some (mkW (w_cnt s) (w_count s) (WEvWait t :: wtrace s)) else None
  end.

Definition wstep' fx (s : wstate) (ta : nat * wact) : wstate :=
  match wstep fx s (fst ta) (snd ta) with Some s' => s' | None => s end.
Definition wrun fx (sched : list (nat * wact)) (s : wstate) : wstate := fold_left (wstep' fx) sched s.

Fixpoint wsum (tr : list wev) : Z :=
  match tr with [] => 0 | WEvDelta _ _ _ d :: r => wsum r + d | WEvWait _ :: r => wsum r end.

(* every Wait returned at an instant when the deltas applied so far sum to zero *)
Fixpoint waits_at_zero (tr : list wev) : Prop :=
  match tr with
  | [] => True
  | WEvWait _ :: r => wsum r = 0 /\ waits_at_zero r
  | _ :: r => waits_at_zero r
  end.

Definition wev_crash (e : wev) : bool := match e with WEvDelta _ _ r _ => crash r | WEvWait _ => false end.

(* ================================================================ Once *)

(* sync.Once.Do:  if done == 0 { m.Lock(); if done == 0 { f(); done = 1 }; m.Unlock() } *)
Inductive oact :=
| OCall       (* fast path: read done; done -> return, else queue on the mutex *)
| OEnter      (* a queued caller gets the mutex: done -> go to exit, else start the body *)
| OBodyEnd    (* the body returns (or throws: OnceDo stores the error, it does not panic); done := 1 *)
| OExit.      (* Unlock; the call returns *)

Inductive oev := OBody (t : nat) | OBodyDone (t : nat) | ORet (t : nat).

Record ostate := mkO {
  o_done : bool; o_locked : bool;
  o_queued : nat; o_inbody : nat; o_exiting : nat;
  otrace : list oev
}.
Definition oinit : ostate := mkO false false 0 0 0 [].

Definition ostep (s : ostate) (t : nat) (a : oact) : option ostate :=
  let '(mkO d l q b x tr) := s in
  match a with
  | OCall => if d then Some (mkO d l q b x (ORet t :: tr)) else Some (mkO d l (S q) b x tr)
  | OEnter =>
      match q with
      | S k => if l then None
               else if d then Some (mkO d true k b (S x) tr)
               else Some (mkO d true k (S b) x (OBody t :: tr))
      | O => None
      end
  | OBodyEnd => match b with S k => Some (mkO true l q k (S x) (OBodyDone t :: tr)) | O => None end
  | OExit => match x with S k => Some (mkO d false q b k (ORet t :: tr)) | O => None end
  end.

Definition ostep' (s : ostate) (ta : nat * oact) : ostate :=
  match ostep s (fst ta) (snd ta) with Some s' => s' | None => s end.
Definition orun (sched : list (nat * oact)) (s : ostate) : ostate := fold_left ostep' sched s.

Fixpoint nbody (tr : list oev) : Z :=
  match tr with [] => 0 | OBody _ :: r => nbody r + 1 | _ :: r => nbody r end.
Fixpoint nbodydone (tr : list oev) : Z :=
  match tr with [] => 0 | OBodyDone _ :: r => nbodydone r + 1 | _ :: r => nbodydone r end.

(* every return of `call` happened after the one run of the body had completed *)
Fixpoint rets_after_body (tr : list oev) : Prop :=
  match tr with
  | [] => True
  | ORet _ :: r => nbodydone r = 1 /\ rets_after_body r
  | _ :: r => rets_after_body r
  end.

(* ================================================================ sequential drivers (misuse stream) *)

(* what one call looks like to a single caller *)
Inductive obs := OOk (v : option Z) | OErr (c : Z) | OPanic (c : Z) | OFatal (c : Z) | OBlocked.

Definition obs_of_res (r : res) : obs :=
  match r with Ok v => OOk v | Err c => OErr c | Panic c => OPanic c | Fatal c => OFatal c end.

Definition last_cres (s : cstate) : obs :=
  match ctrace s with CEv _ _ r :: _ => obs_of_res r | [] => OBlocked end.

Definition c_call fx (s : cstate) (t : nat) (a : cact) : cstate * obs :=
  match cstep fx s t a with
  | Some s' => (mkC (chans s') [], last_cres s')    (* the driver drops the ghost trace between calls *)
  | None => (s, OBlocked)
  end.

Inductive mop := MOLock | MOUnlock.
Definition m_call fx (s : mstate) (o : mop) : mstate * obs :=
  let fin s' := mkM (m_native s') (m_flag s') (m_acq s') (m_rel s') [] in
  let look s' := match mtrace s' with
                 | MLocked _ :: _ | MUnlocked _ :: _ => OOk None
                 | MUnlockErr _ :: _ => OErr E_UNLOCKED
                 | MFatal _ :: _ => OFatal F_MUTEX
                 | [] => OBlocked
                 end in
  let first := match o with MOLock => MLock | MOUnlock => MUnlock end in
  let second := match o with MOLock => MLockDone | MOUnlock => MUnlockDone end in
  match mstep fx s 0%nat first with
  | None => (s, OBlocked)
  | Some s1 =>
      match mtrace s1 with
      | _ :: _ => (fin s1, look s1)
      | [] => match mstep fx s1 0%nat second with
              | Some s2 => (fin s2, look s2)
              | None => (s1, OBlocked)
              end
      end
  end.

Inductive rop := ROLock | ROUnlock | RORLock | RORUnlock.
Definition r_call fx (s : rstate) (o : rop) : rstate * obs :=
  let fin s' := mkR (r_w s') (r_r s') (r_wflag s') (r_rcount s') (r_wacq s') (r_wrel s') (r_racq s') (r_rrel s') [] in
  let look s' := match rtrace s' with
                 | RWLocked _ :: _ | RWUnlocked _ :: _ | RRLocked _ :: _ | RRUnlocked _ :: _ => OOk None
                 | RWUnlockErr _ :: _ => OErr E_RW_UNLOCKED_W
                 | RRUnlockErr _ :: _ => OErr E_RW_UNLOCKED_R
                 | RFatal _ c :: _ => OFatal c
                 | [] => OBlocked
                 end in
  let first := match o with ROLock => RLock | ROUnlock => RUnlock | RORLock => RRLock | RORUnlock => RRUnlock end in
  let second := match o with ROLock => RLockDone | ROUnlock => RUnlockDone | RORLock => RRLockDone | RORUnlock => RRUnlockDone end in
  match rstep fx s 0%nat first with
  | None => (s, OBlocked)
  | Some s1 =>
      match rtrace s1 with
      | _ :: _ => (fin s1, look s1)
      | [] => match rstep fx s1 0%nat second with
              | Some s2 => (fin s2, look s2)
              | None => (s1, OBlocked)
              end
      end
  end.

Definition w_call fx (s : wstate) (a : wact) : wstate * obs :=
  match wstep fx s 0%nat a with
  | None => (s, OBlocked)
  | Some s' => (mkW (w_cnt s') (w_count s') [],
                match wtrace s' with
                | WEvDelta _ _ r _ :: _ => obs_of_res r
                | _ => OOk None
                end)
  end.

(* one whole `once.call` by a single caller; Some true = the body ran in this call *)
Definition o_call (s : ostate) : ostate * option bool :=
  let fin s' := mkO (o_done s') (o_locked s') (o_queued s') (o_inbody s') (o_exiting s') [] in
  match ostep s 0%nat OCall with
  | None => (s, None)
  | Some s1 =>
      match otrace s1 with
      | _ :: _ => (fin s1, Some false)
      | [] =>
          match ostep s1 0%nat OEnter with
          | None => (s1, None)
          | Some s2 =>
              let ran := match otrace s2 with OBody _ :: _ => true | _ => false end in
              let s3 := if ran then match ostep s2 0%nat OBodyEnd with Some x => x | None => s2 end else s2 in
              match ostep s3 0%nat OExit with
              | Some s4 => (fin s4, Some ran)
              | None => (s3, None)
              end
          end
      end
  end.
