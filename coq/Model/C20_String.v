(* C20 - executable model of /repo/value/string.go (Elk's Std::String), on Base/Utf8.v.
   Definitions only; proofs are in Proofs/C20_String.v.

   A String is a `list Z` of bytes (Go `string`). A Char is a rune (Z). Go `int` arguments are
   Z; the places where the Go code could overflow or panic are written out explicitly.
   The model mirrors the code AFTER the C20 fixes (fixes/C20-*.patch):
     - RJust/LJust measure and pad in characters (CharCount), not bytes;
     - StringCharIterator.NextValue / String.Iterate yield, for an invalid byte, the same Char
       as Get (the byte's value), not U+FFFD;
     - RemoveSuffix with a Char removes the Char's UTF-8 encoding (strings.CutSuffix).
   External behaviour enters as section variables (instantiated by the driver after extraction):
     gseg      uniseg's grapheme cluster segmentation of a string
     to_upper  unicode.ToUpper      to_lower  unicode.ToLower *)
From Elk Require Import Base.GoSem Base.Utf8.
Open Scope Z_scope.

(* error codes of this model (the harness maps error classes to the same small enum) *)
Definition E_INDEX : Z := 3.       (* Std::IndexError  (= GoSem.E_OUT_OF_RANGE) *)
Definition E_RANGE : Z := 4.       (* Std::OutOfRangeError *)
Definition P_REPEAT_OVERFLOW : Z := 120.   (* strings.Repeat: "output length overflow" *)

(* ---------- generic helpers ---------- *)

(* run an iterator's `next` until it signals stop_iteration; None = fuel exhausted *)
Fixpoint drain {St A : Type} (next : St -> option (A * St)) (fuel : nat) (st : St) : option (list A) :=
  match fuel with
  | O => None
  | S f =>
    match next st with
    | None => Some []
    | Some (a, st') => match drain next f st' with Some l => Some (a :: l) | None => None end
    end
  end.

Fixpoint repeat_list {A : Type} (s : list A) (n : nat) : list A :=
  match n with O => [] | S k => s ++ repeat_list s k end.

Fixpoint is_prefix (p s : list Z) : bool :=
  match p, s with
  | [], _ => true
  | a :: p', b :: s' => (a =? b) && is_prefix p' s'
  | _ :: _, [] => false
  end.

(* strings.CutSuffix: (s without suffix, true) or (s, false) *)
Definition cut_suffix (s suf : list Z) : list Z :=
  if is_prefix (rev suf) (rev s)
  then firstn (length s - length suf) s
  else s.

(* the Char a decoding step stands for in Elk: an invalid byte is the Char with that byte's
   value (Get, Inspect, and after the fix the iterators) *)
Definition char_of_step (x : step) : Z := if step_invalid x then st_byte x else st_rune x.

(* the characters of a string: the reference list of the property *)
Definition chars (s : list Z) : list Z := map char_of_step (decode_steps s).

(* ---------- counts (string.go:168-183) ---------- *)

Definition byte_count (s : list Z) : Z := Z.of_nat (length s).          (* len(s) *)
Definition char_count (s : list Z) : Z := rune_count s.                 (* utf8.RuneCountInString *)

Section Oracles.
Variable gseg : list Z -> list (list Z).      (* uniseg grapheme clusters of s, in order *)
Variable to_upper : Z -> Z.                   (* unicode.ToUpper *)
Variable to_lower : Z -> Z.                   (* unicode.ToLower *)

Definition grapheme_count (s : list Z) : Z := Z.of_nat (length (gseg s)).   (* uniseg.GraphemeClusterCount *)

(* ---------- iterators (string.go:691-901) ---------- *)

(* StringCharIterator: state = ByteOffset *)
Definition char_iter_next (s : list Z) (off : Z) : option (Z * Z) :=
  if off >=? byte_count s then None
  else
    let rest := skipn (Z.to_nat off) s in
    let '(r, n) := decode_rune rest in
    let c := if (r =? RuneError) && (n =? 1) then hd 0 rest else r in
    Some (c, off + n).

Definition char_iter_all (s : list Z) : option (list Z) :=
  drain (char_iter_next s) (S (length s)) 0.

(* StringByteIterator: state = ByteOffset *)
Definition byte_iter_next (s : list Z) (off : Z) : option (Z * Z) :=
  if off >=? byte_count s then None else Some (nth (Z.to_nat off) s 0, off + 1).

Definition byte_iter_all (s : list Z) : option (list Z) :=
  drain (byte_iter_next s) (S (length s)) 0.

(* StringGraphemeIterator: state (Rest, State) abstracted to the clusters still to come;
   Rest = concat of them; `len(s.Rest) == 0` is the stop test *)
Definition grapheme_iter_next (st : list (list Z)) : option (list Z * list (list Z)) :=
  match concat st with
  | [] => None
  | _ :: _ => match st with [] => None | c :: r => Some (c, r) end
  end.

Definition grapheme_iter_all (s : list Z) : option (list (list Z)) :=
  drain grapheme_iter_next (S (length (gseg s))) (gseg s).

(* ---------- indexed access (string.go:561-678) ---------- *)

(* the decode loop of Get: j counts characters *)
Fixpoint get_loop (l : list step) (j i : Z) : outcome Z :=
  match l with
  | [] => Err E_INDEX
  | x :: t => if j =? i then Ok (char_of_step x) else get_loop t (j + 1) i
  end.

(* String.Get *)
Definition get (s : list Z) (index : Z) : outcome Z :=
  if index <? 0 then
    let l := char_count s in
    let i := l + index in
    if i <? 0 then Err E_INDEX else get_loop (decode_steps s) 0 i
  else get_loop (decode_steps s) 0 index.

(* String.Subscript: ToGoInt fails on a big Int -> IndexError *)
Definition char_at (s : list Z) (index : Z) : outcome Z :=
  if fits64 index then get s index else Err E_INDEX.

(* String.ByteAtInt *)
Definition byte_at_int (s : list Z) (index : Z) : outcome Z :=
  let l := byte_count s in
  if (index >=? l) || (index <? - l) then Err E_INDEX
  else
    let index := if index <? 0 then l + index else index in
    Ok (nth (Z.to_nat index) s 0).

Definition byte_at (s : list Z) (index : Z) : outcome Z :=
  if fits64 index then byte_at_int s index else Err E_INDEX.

Fixpoint gat_loop (l : list (list Z)) (j i : Z) : outcome (list Z) :=
  match l with
  | [] => Err E_INDEX
  | c :: t => if j =? i then Ok c else gat_loop t (j + 1) i
  end.

(* String.GraphemeAtInt *)
Definition grapheme_at_int (s : list Z) (index : Z) : outcome (list Z) :=
  if index <? 0 then
    let l := grapheme_count s in
    let i := l + index in
    if i <? 0 then Err E_INDEX else gat_loop (gseg s) 0 i
  else gat_loop (gseg s) 0 index.

Definition grapheme_at (s : list Z) (index : Z) : outcome (list Z) :=
  if fits64 index then grapheme_at_int s index else Err E_INDEX.

(* ---------- justification (string.go:214-245, fixed) ---------- *)

Definition padding (n : Z) (c : Z) : list Z := repeat_list (encode_rune c) (Z.to_nat n).

Definition rjust (s : list Z) (target : Z) (c : Z) : list Z :=
  let l := char_count s in
  if l >=? target then s else padding (target - l) c ++ s.

Definition ljust (s : list Z) (target : Z) (c : Z) : list Z :=
  let l := char_count s in
  if l >=? target then s else s ++ padding (target - l) c.

(* ---------- + - * (string.go:245-336) ---------- *)

Definition concat_string (s t : list Z) : list Z := s ++ t.
Definition concat_char (s : list Z) (c : Z) : list Z := s ++ encode_rune c.   (* WriteRune *)

(* RepeatSmallInt + strings.Repeat; n is a Go int *)
Definition repeat_int (s : list Z) (n : Z) : outcome (list Z) :=
  if n <? 0 then Err E_RANGE
  else if (2 <=? n) && (byte_count s * n >? max64) then Panic P_REPEAT_OVERFLOW
  else Ok (repeat_list s (Z.to_nat n)).

(* String.Repeat: a big Int count is refused *)
Definition repeat (s : list Z) (n : Z) : outcome (list Z) :=
  if fits64 n then repeat_int s n else Err E_RANGE.

Definition remove_suffix (s suf : list Z) : list Z := cut_suffix s suf.
Definition remove_suffix_char (s : list Z) (c : Z) : list Z := cut_suffix s (encode_rune c).

(* ---------- comparison (string.go:126-133, 338-506): strings.Compare, bytewise ---------- *)

Fixpoint cmp (x y : list Z) : Z :=
  match x, y with
  | [], [] => 0
  | [], _ :: _ => -1
  | _ :: _, [] => 1
  | a :: x', b :: y' => if a <? b then -1 else if b <? a then 1 else cmp x' y'
  end.

Definition cmp_char (s : list Z) (c : Z) : Z := cmp s (encode_rune c).   (* s.Cmp(String(char)) *)
Definition lt (x y : list Z) : bool := cmp x y <? 0.
Definition le (x y : list Z) : bool := cmp x y <=? 0.
Definition gt (x y : list Z) : bool := cmp x y >? 0.
Definition ge (x y : list Z) : bool := cmp x y >=? 0.
Definition eqs (x y : list Z) : bool := cmp x y =? 0.

(* ---------- case mapping (string.go:156-164): strings.ToUpper/ToLower = strings.Map ---------- *)

(* strings.Map(f, s): every decoding step is replaced by the encoding of f(rune); an invalid
   byte is seen as U+FFFD and therefore rewritten as f(U+FFFD) *)
Definition map_runes (f : Z -> Z) (s : list Z) : list Z :=
  flat_map (fun x => encode_rune (f (st_rune x))) (decode_steps s).

Definition uppercase (s : list Z) : list Z := map_runes to_upper s.
Definition lowercase (s : list Z) : list Z := map_runes to_lower s.

End Oracles.
