(* C08 — the evaluation paths of a binary operator on Int / Float operands.
   A Value is a flag plus a 64-bit data word, or a reference; every path below mirrors its
   Go counterpart and differs from the others only in how it dispatches and which accessor
   it uses to read the operands:
     generic    vm/thread.go binaryOperation -> value.XVal (dispatch on the left flag)
     fold       compiler/resolve.go resolveBinaryExpression -> value.XVal, declines on error
     typed_int  vm/thread.go opXInt   (left.IsSmallInt() ? AsSmallInt : AsReference() asserted to BigInt)
     typed_float vm/thread.go opXFloat (left.AsFloat(), after fixes/C08-typed-float-opcodes.patch)
     by_name    vm/int.go, vm/float.go natives: "op" and the overloads "op@1", "op@2"
     x_ints     value.XInts -> SmallInt.XInt / BigInt.XInt: the Int-only helpers behind the
                statically bound overload Int#op@1 (and the Go backend's typed Int code)
   Integer arithmetic is the C06 model; IEEE arithmetic on Float bit patterns and the
   Int->Float conversion are external (Section variables): path equality does not depend on them. *)
From Elk Require Export Base.GoSem Model.C06_Int.
Open Scope Z_scope.

Inductive op :=
| OArith (a : binop) | OPow | OCmp (c : cmpop) | OShl | OShr | OBit (b : bitop).

Inductive value :=
| VSmall (z : Z)        (* SMALL_INT_FLAG, data = int64 *)
| VBig (z : Z)          (* reference to *BigInt *)
| VFloat (bits : Z)     (* FLOAT_FLAG, data = IEEE-754 binary64 bits, 0 <= bits < 2^64 *)
| VBool (b : bool)
| VUndefined
| VOther.               (* anything else (String, nil, ...) *)

(* accessors read the data word without looking at the flag *)
Definition as_small_int (v : value) : Z :=
  match v with VSmall z => z | VFloat b => wrap64 b | _ => 0 end.
Definition as_float (v : value) : Z :=
  match v with VFloat b => b | VSmall z => wrap_u 64 z | _ => 0 end.

Definition of_ival (i : ival) : value := match i with Small z => VSmall z | Big z => VBig z end.
Definition is_int (v : value) : bool := match v with VSmall _ | VBig _ => true | _ => false end.
Definition is_float (v : value) : bool := match v with VFloat _ => true | _ => false end.
Definition has_float_opcode (o : op) : bool :=
  match o with OArith _ | OCmp _ => true | _ => false end.
Definition is_arith (o : op) : bool := match o with OArith _ | OPow => true | _ => false end.

(* ---- exact comparison of an integer with a binary64 bit pattern: value/exact_compare.go
   CompareInt64WithFloat64 / CompareBigIntWithFloat64 (both exact, no rounding of the integer).
   -1 | 0 | 1, and 2 = unordered (NaN) ---- *)
Definition f_sign (bits : Z) : Z := bits / 2 ^ 63.
Definition f_exp (bits : Z) : Z := (bits / 2 ^ 52) mod 2 ^ 11.
Definition f_man (bits : Z) : Z := bits mod 2 ^ 52.
Definition ifcmp3 (z bits : Z) : Z :=
  let e := f_exp bits in
  let m := f_man bits in
  let neg := negb (f_sign bits =? 0) in
  if e =? 2047 then (if m =? 0 then (if neg then 1 else -1) else 2)
  else
    let mant := (if e =? 0 then m else 2 ^ 52 + m) * (if neg then -1 else 1) in
    let k := (if e =? 0 then 1 else e) - 1075 in
    if k >=? 0 then big_cmp z (mant * 2 ^ k) else big_cmp (z * 2 ^ (- k)) mant.
(* Int <op> Float from the three-way result c = compare(int, float) *)
Definition cmp_of3 (o : cmpop) (c : Z) : bool :=
  match o with
  | CGt => c =? 1 | CGe => (c =? 1) || (c =? 0)
  | CLt => c =? -1 | CLe => (c =? -1) || (c =? 0)
  | CEq => c =? 0
  end.
(* Float <op> Int: the same call with the operands swapped, so the sense is mirrored *)
Definition cmp_of3_rev (o : cmpop) (c : Z) : bool :=
  match o with
  | CGt => c =? -1 | CGe => (c =? -1) || (c =? 0)
  | CLt => c =? 1 | CLe => (c =? 1) || (c =? 0)
  | CEq => c =? 0
  end.

Section Paths.
  (* Go float64 + - * /, math.Mod, math.Pow on bit patterns; comparisons; Float(int) *)
  Variable farith : binop -> Z -> Z -> Z.
  Variable fpow : Z -> Z -> Z.
  Variable fcmp : cmpop -> Z -> Z -> bool.
  Variable i2f : Z -> Z.

  Definition lift (r : outcome ival) : outcome value := bind r (fun i => Ok (of_ival i)).

  (* Int op Int: the C06 functions *)
  Definition int_int (o : op) (x y : ival) : outcome value :=
    match o with
    | OArith a => lift (impl a x y)
    | OPow => Ok (of_ival (ipow x y))
    | OCmp c => Ok (VBool (icmp c x y))
    | OShl => lift (ishl x y)
    | OShr => lift (ishr x y)
    | OBit b => Ok (of_ival (ibit b x y))
    end.
  (* Float op Float *)
  Definition float_float (o : op) (f g : Z) : outcome value :=
    match o with
    | OArith a => Ok (VFloat (farith a f g))
    | OPow => Ok (VFloat (fpow f g))
    | OCmp c => Ok (VBool (fcmp c f g))
    | _ => Err E_TYPE
    end.

  (* SmallInt.XVal(other) / BigInt.XVal(other): dispatch on the right operand *)
  Definition int_val (o : op) (x : ival) (r : value) : outcome value :=
    match r with
    | VSmall z => int_int o x (Small z)
    | VBig z => int_int o x (Big z)
    | VFloat g =>
        match o with
        | OCmp CEq => Ok (VBool false)                 (* Int == Float is strict: false *)
        | OCmp c => Ok (VBool (cmp_of3 c (ifcmp3 (den x) g)))   (* exact, no conversion *)
        | OArith _ | OPow => float_float o (i2f (den x)) g
        | _ => Err E_TYPE                              (* BitshiftOperandError / CoerceError *)
        end
    | _ => Err E_TYPE
    end.
  (* Float.XVal(other) *)
  Definition float_val (o : op) (f : Z) (r : value) : outcome value :=
    match o with
    | OShl | OShr | OBit _ => Err E_TYPE
    | _ =>
      match r with
      | VFloat g => float_float o f g
      | VSmall z | VBig z =>
          match o with
          | OCmp CEq => Ok (VBool false)
          | OCmp c => Ok (VBool (cmp_of3_rev c (ifcmp3 z f)))    (* exact, no conversion *)
          | _ => float_float o f (i2f z)
          end
      | _ => match o with OCmp CEq => Ok (VBool false) | _ => Err E_TYPE end
      end
    end.

  (* value.XVal(left, right): the generic opcode and the constant folder *)
  Definition generic (o : op) (l r : value) : outcome value :=
    match l with
    | VSmall z => int_val o (Small z) r
    | VBig z => int_val o (Big z) r
    | VFloat f => float_val o f r
    | _ => Err E_TYPE           (* (Undefined, Undefined): method lookup, outside this model *)
    end.
  Definition fold (o : op) (l r : value) : option value :=
    match generic o l r with Ok v => Some v | _ => None end.

  (* opXInt: errors other than those of / and % are dropped (`result, _ = ...`) *)
  Definition keeps_err (o : op) : bool :=
    match o with OArith OpDiv | OArith OpMod => true | _ => false end.
  Definition drop_err (o : op) (r : outcome value) : outcome value :=
    match r with Err c => if keeps_err o then Err c else Ok VUndefined | _ => r end.
  Definition typed_int (o : op) (l r : value) : outcome value :=
    match l with
    | VSmall _ => drop_err o (int_val o (Small (as_small_int l)) r)
    | VBig z => drop_err o (int_val o (Big z) r)
    | _ => Panic P_NIL          (* type assertion to BigInt on something else *)
    end.
  (* opXFloat *)
  Definition typed_float (o : op) (l r : value) : outcome value :=
    drop_err o (float_val o (as_float l) r).

  (* the instruction the bytecode compiler selects from the static type of the left operand
     (compiler/bytecode_compiler.go emitBinaryOperation): the Int instruction for Int, the Float
     instruction for Float - except `==`, for which it emits EQUAL_INT for a Float as well
     (the unchanged code; pinned by compiler test TestBytecodeEqual/compile_runtime_float) *)
  Definition typed (o : op) (l r : value) : outcome value :=
    if is_int l then typed_int o l r
    else match o with
         | OCmp CEq => typed_int o l r
         | _ => typed_float o l r
         end.

  (* ---- the Int-only helpers. SmallInt.XInt(other) and BigInt.XInt(other) (value/small_int.go,
     value/big_int.go: AddInt SubtractInt MultiplyInt DivideInt ModuloInt ExponentiateInt
     GreaterThanInt GreaterThanEqualInt LessThanInt LessThanEqualInt EqualInt LeftBitshiftInt
     RightBitshiftInt BitwiseAndInt BitwiseOrInt BitwiseXorInt BitwiseAndNotInt) are separate Go
     functions from the XVal family: `if other.IsSmallInt() { return i.XSmallInt(other.AsSmallInt()) }
     return i.XBigInt(( *BigInt)(other.Pointer()))` - no look at the flag beyond that, the pointer
     cast is unchecked. The leaves XSmallInt / XBigInt are the ones XVal reaches (C06 model). ---- *)
  Definition is_small (v : value) : bool := match v with VSmall _ => true | _ => false end.
  Definition x_int (o : op) (self : ival) (other : value) : outcome value :=
    if is_small other then int_int o self (Small (as_small_int other))
    else match other with
         | VBig b => int_int o self (Big b)
         | _ => Panic P_NIL          (* pointer of a non-BigInt read as a BigInt *)
         end.
  Definition small_x_int (o : op) (i : Z) (other : value) : outcome value := x_int o (Small i) other.
  Definition big_x_int (o : op) (a : Z) (other : value) : outcome value := x_int o (Big a) other.
  (* value.XInts(left, right): `if left.IsReference() { (( *BigInt)(left.Pointer())).XInt(right) }
     else left.AsSmallInt().XInt(right)` *)
  Definition x_ints (o : op) (l r : value) : outcome value :=
    match l with
    | VBig a => big_x_int o a r
    | VOther => Panic P_NIL
    | _ => small_x_int o (as_small_int l) r
    end.
  (* the six the bytecode VM reaches, through the natives "+@1" "-@1" "*@1" "/@1" "%@1" "**@1" *)
  Definition add_ints := x_ints (OArith OpAdd).
  Definition subtract_ints := x_ints (OArith OpSub).
  Definition multiply_ints := x_ints (OArith OpMul).
  Definition divide_ints := x_ints (OArith OpDiv).
  Definition modulo_ints := x_ints (OArith OpMod).
  Definition exponentiate_ints := x_ints OPow.

  (* natives called by name. Int: "op" -> value.XInt(self, other) = XVal on self's
     representation; arithmetic "op@1" (other : Int) -> value.XInts (x_ints above), which the
     checker binds statically when both operands are typed Int. Float: "op" ->
     self.XVal(other); arithmetic "op@1" (other : Float), "op@2" (other : Int). *)
  Definition by_name (o : op) (l r : value) : outcome value :=
    match l with
    | VSmall _ | VBig _ =>
        let x := match l with VBig z => Big z | _ => Small (as_small_int l) end in
        if is_arith o && is_int r
        then x_ints o l r
        else int_val o x r
    | VFloat _ =>
        let f := as_float l in
        if is_arith o then
          match r with
          | VFloat _ => float_float o f (as_float r)            (* op@1 *)
          | VSmall z => float_float o f (i2f z)                 (* op@2: AddInt *)
          | VBig z => float_float o f (i2f z)
          | _ => float_val o f r
          end
        else float_val o f r
    | _ => Err E_TYPE
    end.
End Paths.
