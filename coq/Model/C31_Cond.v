(* C31 — conditions of an expansion that are (or contain) unhygienic splices.
   Executable model only (no proofs here).

   Elk's conditional forms test TRUTHINESS and narrow the locals mentioned by the condition
   (types/checker/narrow.go narrowCondition: identifiers, `!c`, `a && b`, `a || b`, assignments; the
   narrowing shadow of a local is registered in the conditional local environment of the branch).
   The scope model of Model/C31_Hygiene.v has one conditional statement, SIf c t e, whose condition
   is an expression (truthy = positive; the generated programs encode nil as 0 and use positive
   literals only).  The condition language of this file is compiled to nested SIf:
     if c / unless c / `s if c` / `s unless c` / while c (body runs at most once in the generated
     programs) / `c && e` / `c || e` / `c ?? e` as statements
   are all  ifc u c t e  for the right t, e; `!{Macro.unhygienic(quote c)}` is CUnhyg c: every leaf
   expression of c is evaluated with the unhygienic flag set, the branches t and e are NOT. *)
From Coq Require Import ZArith NArith List Bool.
From Elk Require Import Model.C31_Hygiene.
Import ListNotations.

Inductive cond :=
| CE (e : expr)            (* truthiness of an expression *)
| CNot (c : cond)          (* !c *)
| CAnd (a b : cond)        (* a && b *)
| COr (a b : cond)         (* a || b, a ?? b *)
| CUnhyg (c : cond).       (* !{Macro.unhygienic(quote c)} *)

(* u: the leaves of c are inside an unhygienic splice *)
Fixpoint ifc (u : bool) (c : cond) (t e : stmt) : stmt :=
  match c with
  | CE x => SIf (if u then EUnhyg x else x) t e
  | CNot c' => ifc u c' e t
  | CAnd a b => ifc u a (ifc u b t e) e
  | COr a b => ifc u a t (ifc u b t e)
  | CUnhyg c' => ifc true c' t e
  end.

(* x is not declared by the expression / condition (no `x := e` at any depth) *)
Fixpoint expr_nobind (x : name) (e : expr) : bool :=
  match e with
  | ELit _ | EVar _ => true
  | EAdd a b => expr_nobind x a && expr_nobind x b
  | EUnhyg e' | ESet _ e' => expr_nobind x e'
  | EBind y e' => negb (N.eqb x y) && expr_nobind x e'
  end.

Fixpoint cond_nobind (x : name) (c : cond) : bool :=
  match c with
  | CE e => expr_nobind x e
  | CNot c' | CUnhyg c' => cond_nobind x c'
  | CAnd a b | COr a b => cond_nobind x a && cond_nobind x b
  end.
