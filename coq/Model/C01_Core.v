(* C01 - a small typed core of Elk: union types over five runtime tags, locals with declared
   types, flow narrowing by truthiness, if/while, closures that assign captured locals, methods
   calling each other; a checker [chk] that mirrors the real checker's rules on this core
   (types/checker: narrow.go narrowLocal / ToNonFalsy / ToNonTruthy, checkLocalVariableAssignment's
   walk over the shadow chain, checkIfExpressionNode / checkWhileExpressionNode) and the
   "typed dispatch" interpreter [exec]: like the bytecode compiler it emits the Int-typed
   instruction (ADD_INT, LESS_INT, ...) wherever the checker computed Int operands, and like
   vm.opAddInt that instruction does not re-check the representation: a value of another tag is
   a Go panic, here [RCrash].
   Executable definitions only; proofs are in Proofs/C01_Core.v. *)
From Coq Require Import ZArith List Bool.
Import ListNotations.
Open Scope Z_scope.

(* ---------------------------------------------------------------- values and types *)

Inductive tag := GInt | GTrue | GFalse | GNil | GStr.
Definition all_tags : list tag := [GInt; GTrue; GFalse; GNil; GStr].

(* a type = a set of runtime tags (normalised union); Int? = {Int, Nil}, Bool = {True, False} *)
Definition ty := tag -> bool.

Inductive val := VInt (z : Z) | VTrue | VFalse | VNil | VStr (n : Z).

Definition tag_of (v : val) : tag :=
  match v with VInt _ => GInt | VTrue => GTrue | VFalse => GFalse | VNil => GNil | VStr _ => GStr end.

Definition has_type (v : val) (t : ty) : bool := t (tag_of v).

Definition mk_ty (i t f n s : bool) : ty :=
  fun g => match g with GInt => i | GTrue => t | GFalse => f | GNil => n | GStr => s end.
Definition tInt : ty := mk_ty true false false false false.
Definition tBool : ty := mk_ty false true true false false.
Definition tTrue : ty := mk_ty false true false false false.
Definition tFalse : ty := mk_ty false false true false false.
Definition tNil : ty := mk_ty false false false true false.
Definition tStr : ty := mk_ty false false false false true.

(* IsSubtype on the core lattice *)
Definition sub (a b : ty) : bool := forallb (fun g => implb (a g) (b g)) all_tags.

Definition falsy_tag (g : tag) : bool := match g with GNil | GFalse => true | _ => false end.
Definition truthy (v : val) : bool := negb (falsy_tag (tag_of v)).

(* narrow.go ToNonFalsy = T & ~nil & ~false ; ToNonTruthy = T & (nil | false) *)
Definition non_falsy (t : ty) : ty := fun g => t g && negb (falsy_tag g).
Definition non_truthy (t : ty) : ty := fun g => t g && falsy_tag g.
(* IsTruthy / IsFalsy of a static type *)
Definition may_be_truthy (t : ty) : bool := existsb (fun g => t g && negb (falsy_tag g)) all_tags.
Definition may_be_falsy (t : ty) : bool := existsb (fun g => t g && falsy_tag g) all_tags.

(* ---------------------------------------------------------------- syntax *)

Inductive expr :=
| EInt (z : Z) | ETrue | EFalse | ENil | EStr (n : Z)
| EVar (x : nat)
| EAdd (a b : expr) | ESub (a b : expr) | EMul (a b : expr)
| ELt (a b : expr) | EEq (a b : expr).          (* Int comparisons *)

(* conditions of if / while; only [CVar] (under [CNot]) narrows, as in narrowCondition *)
Inductive cond :=
| CVar (x : nat)
| CNot (c : cond)
| CLt (a b : expr)
| CEq (a b : expr).

Inductive stmt :=
| SSkip
| SAssign (x : nat) (e : expr)
| SSeq (s1 s2 : stmt)
| SIf (c : cond) (s1 s2 : stmt)
| SWhile (c : cond) (s : stmt)
| SPrint (e : expr)
| SCallClo (k : nat)                           (* ck.() *)
| SCall (x : nat) (f : nat) (args : list expr). (* x = mf(args) *)

(* A method: parameters, then `var` declarations with literal initialisers, then the closures
   (closure k may call closures j < k and reads/assigns the locals by reference), then the body
   and the result expression.  Locals are numbered: parameters first. *)
Record meth := {
  m_params : list ty;
  m_locals : list (ty * val);
  m_clos : list stmt;
  m_body : stmt;
  m_ret : expr;
  m_rty : ty
}.
Definition prog := list meth.                   (* method 0 is the entry point *)

Definition m_decls (m : meth) : list ty := m_params m ++ map fst (m_locals m).

(* ---------------------------------------------------------------- the checker *)

(* The checker keeps, per local, the chain of shadow locals created by narrowing: head = the type
   in the innermost conditional environment, last = the declared type. *)
Definition chain := list ty.
Definition ctx := list chain.

Definition cur (G : ctx) (x : nat) : option ty :=
  match nth_error G x with Some (t :: _) => Some t | _ => None end.

Fixpoint set_nth {A} (l : list A) (n : nat) (a : A) : list A :=
  match l, n with
  | [], _ => []
  | _ :: r, O => a :: r
  | h :: r, S n' => h :: set_nth r n' a
  end.

Fixpoint chkE (G : ctx) (e : expr) : option ty :=
  let int2 a b r :=
    match chkE G a, chkE G b with
    | Some ta, Some tb => if sub ta tInt && sub tb tInt then Some r else None
    | _, _ => None
    end in
  match e with
  | EInt _ => Some tInt
  | ETrue => Some tTrue
  | EFalse => Some tFalse
  | ENil => Some tNil
  | EStr _ => Some tStr
  | EVar x => cur G x
  | EAdd a b | ESub a b | EMul a b => int2 a b tInt
  | ELt a b | EEq a b => int2 a b tBool
  end.

(* the local a condition narrows, with the polarity it gets when the condition is [pos] *)
Fixpoint narrow_var (c : cond) (pos : bool) : option (nat * bool) :=
  match c with
  | CVar x => Some (x, pos)
  | CNot c' => narrow_var c' (negb pos)
  | _ => None
  end.

(* A condition on a local is accepted only when its static type can be both truthy and falsy
   (the real checker reports unreachable code otherwise when the dead branch is not empty). *)
Fixpoint chkC (G : ctx) (c : cond) : bool :=
  match c with
  | CVar x => match cur G x with Some t => may_be_truthy t && may_be_falsy t | None => false end
  | CNot c' => chkC G c'
  | CLt a b | CEq a b =>
      match chkE G a, chkE G b with
      | Some ta, Some tb => sub ta tInt && sub tb tInt
      | _, _ => false
      end
  end.

(* entering a conditional environment: every local gets a shadow, the narrowed one a smaller type *)
Definition narrow_ty (nv : option (nat * bool)) (i : nat) (t : ty) : ty :=
  match nv with
  | Some (x, q) => if Nat.eqb x i then (if q then non_falsy t else non_truthy t) else t
  | None => t
  end.
Definition push_chain (nv : option (nat * bool)) (i : nat) (ch : chain) : chain :=
  match ch with [] => [] | t :: _ => narrow_ty nv i t :: ch end.
Fixpoint push_from (i : nat) (G : ctx) (nv : option (nat * bool)) : ctx :=
  match G with
  | [] => []
  | ch :: r => push_chain nv i ch :: push_from (S i) r nv
  end.
Definition narrow (G : ctx) (c : cond) (pos : bool) : ctx := push_from 0 G (narrow_var c pos).

Definition pop_chain (ch : chain) : chain := match ch with _ :: (_ :: _) as r => r | _ => ch end.
Definition pop (G : ctx) : ctx := map pop_chain G.

(* checkLocalVariableAssignment: walk from the innermost shadow outwards to the first one that
   accepts the assigned type and give every narrower shadow that type *)
Fixpoint widen (te : ty) (ch : chain) : option chain :=
  match ch with
  | [] => None
  | t :: rest =>
      if sub te t then Some ch
      else match widen te rest with
           | Some (r :: rest') => Some (r :: r :: rest')
           | _ => None
           end
  end.

Definition msig := (list ty * ty)%type.

Fixpoint chk_args (G : ctx) (args : list expr) (ps : list ty) : bool :=
  match args, ps with
  | [], [] => true
  | a :: ar, p :: pr => match chkE G a with Some t => sub t p && chk_args G ar pr | None => false end
  | _, _ => false
  end.

Definition assign (G : ctx) (x : nat) (te : ty) : option ctx :=
  match nth_error G x with
  | Some ch => match widen te ch with Some ch' => Some (set_nth G x ch') | None => None end
  | None => None
  end.

(* [nclo] = number of closures that are in scope *)
Fixpoint chk (ms : list msig) (nclo : nat) (G : ctx) (s : stmt) : option ctx :=
  match s with
  | SSkip => Some G
  | SAssign x e => match chkE G e with Some te => assign G x te | None => None end
  | SSeq s1 s2 => match chk ms nclo G s1 with Some G1 => chk ms nclo G1 s2 | None => None end
  | SIf c s1 s2 =>
      if chkC G c then
        match chk ms nclo (narrow G c true) s1 with
        | Some G1 =>
            match chk ms nclo (narrow (pop G1) c false) s2 with
            | Some G2 => Some (pop G2)
            | None => None
            end
        | None => None
        end
      else None
  | SWhile c s1 =>
      if chkC G c then
        match chk ms nclo (narrow G c true) s1 with
        | Some G1 => Some (pop G1)
        | None => None
        end
      else None
  | SPrint e => match chkE G e with Some _ => Some G | None => None end
  | SCallClo k => if Nat.ltb k nclo then Some G else None   (* nothing is invalidated: as found *)
  | SCall x f args =>
      match nth_error ms f with
      | Some (ps, rt) => if chk_args G args ps then assign G x rt else None
      | None => None
      end
  end.

Definition ctx0 (ds : list ty) : ctx := map (fun t => [t]) ds.

Fixpoint chk_clos (ms : list msig) (G0 : ctx) (k : nat) (cl : list stmt) : bool :=
  match cl with
  | [] => true
  | b :: r => match chk ms k G0 b with Some _ => chk_clos ms G0 (S k) r | None => false end
  end.

Definition wt_meth (ms : list msig) (m : meth) : bool :=
  let G0 := ctx0 (m_decls m) in
  forallb (fun d => has_type (snd d) (fst d)) (m_locals m)
  && chk_clos ms G0 0 (m_clos m)
  && match chk ms (length (m_clos m)) G0 (m_body m) with
     | Some G1 => match chkE G1 (m_ret m) with Some t => sub t (m_rty m) | None => false end
     | None => false
     end.

Definition sig_of (m : meth) : msig := (m_params m, m_rty m).

Definition wt (p : prog) : bool :=
  let ms := map sig_of p in
  forallb (wt_meth ms) p
  && match p with m :: _ => match m_params m with [] => true | _ => false end | [] => false end.

(* ---------------------------------------------------------------- the guard of the partial theorem *)

Fixpoint assigned (s : stmt) : list nat :=
  match s with
  | SAssign x _ => [x]
  | SCall x _ _ => [x]
  | SSeq a b | SIf _ a b => assigned a ++ assigned b
  | SWhile _ a => assigned a
  | _ => []
  end.

Definition cond_subject (c : cond) : list nat :=
  match narrow_var c true with Some (x, _) => [x] | None => [] end.

(* the locals some condition narrows *)
Fixpoint subjects (s : stmt) : list nat :=
  match s with
  | SSeq a b => subjects a ++ subjects b
  | SIf c a b => cond_subject c ++ subjects a ++ subjects b
  | SWhile c a => cond_subject c ++ subjects a
  | _ => []
  end.

Definition memb (x : nat) (l : list nat) : bool := existsb (Nat.eqb x) l.
Definition disjointb (a b : list nat) : bool := forallb (fun x => negb (memb x b)) a.

(* no loop body assigns a narrowed local *)
Fixpoint loops_ok (N : list nat) (s : stmt) : bool :=
  match s with
  | SSeq a b | SIf _ a b => loops_ok N a && loops_ok N b
  | SWhile _ a => disjointb (assigned a) N && loops_ok N a
  | _ => true
  end.

Definition m_subjects (m : meth) : list nat :=
  subjects (m_body m) ++ flat_map subjects (m_clos m).

(* no closure assigns a local that is narrowed somewhere in the method, and no loop body does *)
Definition guard_meth (m : meth) : bool :=
  let N := m_subjects m in
  forallb (fun b => disjointb (assigned b) N && loops_ok N b) (m_clos m)
  && loops_ok N (m_body m).

Definition no_narrowed_local_assigned_in_closure_or_loop (p : prog) : bool := forallb guard_meth p.

(* ---------------------------------------------------------------- the interpreter T *)

Inductive result :=
| ROk (fr : list val) (out : list val)
| RCrash                          (* Go panic: a typed instruction met another representation *)
| RFuel.                          (* out of fuel = stack limit / still running *)

(* the Int-typed instructions: operands must be Ints *)
Definition int_op (f : Z -> Z -> val) (a b : option val) : option val :=
  match a, b with
  | Some (VInt x), Some (VInt y) => Some (f x y)
  | _, _ => None
  end.
Definition vbool (b : bool) : val := if b then VTrue else VFalse.

Fixpoint evalE (fr : list val) (e : expr) : option val :=   (* None = crash *)
  match e with
  | EInt z => Some (VInt z)
  | ETrue => Some VTrue
  | EFalse => Some VFalse
  | ENil => Some VNil
  | EStr n => Some (VStr n)
  | EVar x => nth_error fr x
  | EAdd a b => int_op (fun x y => VInt (x + y)) (evalE fr a) (evalE fr b)
  | ESub a b => int_op (fun x y => VInt (x - y)) (evalE fr a) (evalE fr b)
  | EMul a b => int_op (fun x y => VInt (x * y)) (evalE fr a) (evalE fr b)
  | ELt a b => int_op (fun x y => vbool (x <? y)) (evalE fr a) (evalE fr b)
  | EEq a b => int_op (fun x y => vbool (x =? y)) (evalE fr a) (evalE fr b)
  end.

Fixpoint evalC (fr : list val) (c : cond) : option bool :=
  match c with
  | CVar x => option_map truthy (nth_error fr x)
  | CNot c' => option_map negb (evalC fr c')
  | CLt a b => option_map truthy (evalE fr (ELt a b))
  | CEq a b => option_map truthy (evalE fr (EEq a b))
  end.

Fixpoint eval_args (fr : list val) (args : list expr) : option (list val) :=
  match args with
  | [] => Some []
  | a :: r => match evalE fr a, eval_args fr r with
              | Some v, Some vs => Some (v :: vs)
              | _, _ => None
              end
  end.

Definition store (fr : list val) (x : nat) (v : val) : option (list val) :=
  if Nat.ltb x (length fr) then Some (set_nth fr x v) else None.

(* every statement costs one unit of fuel, so plain induction on the fuel covers loops, closure
   calls and (mutually) recursive methods *)
Fixpoint exec (fuel : nat) (p : prog) (cl : list stmt) (s : stmt) (fr : list val) (out : list val) : result :=
  match fuel with
  | O => RFuel
  | S f =>
      match s with
      | SSkip => ROk fr out
      | SAssign x e =>
          match evalE fr e with
          | Some v => match store fr x v with Some fr' => ROk fr' out | None => RCrash end
          | None => RCrash
          end
      | SSeq s1 s2 =>
          match exec f p cl s1 fr out with
          | ROk fr1 out1 => exec f p cl s2 fr1 out1
          | r => r
          end
      | SIf c s1 s2 =>
          match evalC fr c with
          | Some true => exec f p cl s1 fr out
          | Some false => exec f p cl s2 fr out
          | None => RCrash
          end
      | SWhile c s1 =>
          match evalC fr c with
          | Some true =>
              match exec f p cl s1 fr out with
              | ROk fr1 out1 => exec f p cl (SWhile c s1) fr1 out1
              | r => r
              end
          | Some false => ROk fr out
          | None => RCrash
          end
      | SPrint e =>
          match evalE fr e with Some v => ROk fr (v :: out) | None => RCrash end
      | SCallClo k =>
          match nth_error cl k with
          | Some b => exec f p cl b fr out
          | None => RCrash
          end
      | SCall x g args =>
          match nth_error p g, eval_args fr args with
          | Some m, Some vs =>
              match exec f p (m_clos m) (m_body m) (vs ++ map snd (m_locals m)) out with
              | ROk fr1 out1 =>
                  match evalE fr1 (m_ret m) with
                  | Some v => match store fr x v with Some fr' => ROk fr' out1 | None => RCrash end
                  | None => RCrash
                  end
              | r => r
              end
          | _, _ => RCrash
          end
      end
  end.

(* running a program = calling method 0; the output is in reverse order of printing, the value
   of the entry method is printed last *)
Definition run (fuel : nat) (p : prog) : result :=
  match p with
  | m :: _ =>
      match exec fuel p (m_clos m) (m_body m) (map snd (m_locals m)) [] with
      | ROk fr out =>
          match evalE fr (m_ret m) with
          | Some v => ROk fr (v :: out)
          | None => RCrash
          end
      | r => r
      end
  | [] => RCrash
  end.

(* ---------------------------------------------------------------- the sync wrappers (value/mutex.go, rwmutex.go) *)

(* Go's sync.Mutex / sync.RWMutex as far as one thread can observe them.  Unlock of an unlocked
   mutex is Go's fatal("sync: unlock of unlocked mutex"): throw, not panic, so recover() in the
   Elk wrapper does not see it. *)
Inductive sres (S : Type) := SOk (s : S) | SErr (s : S) | SFatal | SBlock.
Arguments SOk {S}. Arguments SErr {S}. Arguments SFatal {S}. Arguments SBlock {S}.

Record gomutex := { g_w : bool; g_r : nat }.       (* writer held, number of readers *)
Definition g_new : gomutex := {| g_w := false; g_r := 0 |}.

Inductive mop := MLock | MUnlock | MRLock | MRUnlock.

Definition go_step (g : gomutex) (o : mop) : sres gomutex :=
  match o with
  | MLock => if g_w g || negb (Nat.eqb (g_r g) 0) then SBlock else SOk {| g_w := true; g_r := 0 |}
  | MUnlock => if g_w g then SOk {| g_w := false; g_r := g_r g |} else SFatal
  | MRLock => if g_w g then SBlock else SOk {| g_w := false; g_r := S (g_r g) |}
  | MRUnlock => match g_r g with O => SFatal | S n => SOk {| g_w := g_w g; g_r := n |} end
  end.

(* the Elk wrapper: [fx = false] as found (defer recover(); Native.Unlock()), [fx = true] with
   the lock state tracked next to the native lock (CompareAndSwap on a flag / reader counter) *)
Record elkmutex := { e_go : gomutex; e_w : bool; e_r : nat }.
Definition e_new : elkmutex := {| e_go := g_new; e_w := false; e_r := 0 |}.

Definition lift (e : elkmutex) (w : bool) (r : nat) (x : sres gomutex) : sres elkmutex :=
  match x with
  | SOk g => SOk {| e_go := g; e_w := w; e_r := r |}
  | SErr g => SErr {| e_go := g; e_w := e_w e; e_r := e_r e |}
  | SFatal => SFatal
  | SBlock => SBlock
  end.

Definition elk_step (fx : bool) (e : elkmutex) (o : mop) : sres elkmutex :=
  match o with
  | MLock => lift e true (e_r e) (go_step (e_go e) MLock)
  | MRLock => lift e (e_w e) (S (e_r e)) (go_step (e_go e) MRLock)
  | MUnlock =>
      if fx && negb (e_w e) then SErr e      (* CompareAndSwap(true, false) failed: UnlockedError *)
      else lift e false (e_r e) (go_step (e_go e) MUnlock)
  | MRUnlock =>
      if fx && Nat.eqb (e_r e) 0 then SErr e
      else lift e (e_w e) (Nat.pred (e_r e)) (go_step (e_go e) MRUnlock)
  end.

(* a single-threaded history; a blocking operation ends it (the thread waits) *)
Fixpoint elk_run (fx : bool) (e : elkmutex) (ops : list mop) : sres elkmutex :=
  match ops with
  | [] => SOk e
  | o :: r =>
      match elk_step fx e o with
      | SOk e' | SErr e' => elk_run fx e' r
      | SFatal => SFatal
      | SBlock => SBlock
      end
  end.
