(* C03 - the regex front end: a fuelled model of /repo/regex/lexer/lexer.go and
   /repo/regex/parser/parser.go producing the C21 syntax tree.

   The source is a list of code points (UTF-8 decoding is Base/Utf8.v's business; an invalid
   byte reaches the lexer as U+FFFD).  Loops of the Go code that advance by exactly one token
   per iteration are written as structural recursion on the token list (`scan_until`,
   `firstn`/`skipn`); the loops whose body consumes a variable amount (lexer main loop, the
   `(?#...)` comment loop, concatenation, union, character class, nested groups) run on FUEL and
   return OutOfFuel (= None) when it is exhausted: a hang of the Go code is an OutOfFuel for
   every amount of fuel.

   `fixed` selects the comment loop of the lexer: false = the code as found (at the end of the
   input `advanceChar` fails and the loop spins), true = fixes/C03-regex-unterminated-comment.patch (an
   ERROR token is returned).

   Results: RDiag (diagnostics were reported) | ROk tree.  There is no crash outcome: the model
   has no nil token (advance always yields a token, END_OF_FILE at the end) - every
   place where the Go parser dereferences the result of consume/advance was read and none can
   receive nil.  No proofs in this file. *)
From Coq Require Import ZArith List Bool Arith.
From Elk Require Import Model.C21_RegexSyntax.
Import ListNotations.
Open Scope Z_scope.

Inductive tok :=
| TChar (c : Z) | TMeta (c : Z) | TQuoted (txt : list Z)
| TDot | TSQuote | TDash | TColon | TComma | TLAngle | TRAngle | TLParen | TRParen
| TLBrace | TRBrace | TLBracket | TRBracket | TPipe | TStar | TPlus | TQuestion | TCaret | TDollar
| TCaretEsc | TLongUni | TUni | THex | TOct | TSimpleOct (ds : list Z) | TSimple (k : simple)
| TAbsBeg | TAbsEnd | TWordB | TNotWordB | TUniClass (neg : bool) | TPre (neg : bool) (p : predef)
| TError.

(* ================================================================= lexer *)

Definition is_digit (c : Z) : bool := (48 <=? c) && (c <=? 57).
Definition is_octal (c : Z) : bool := (48 <=? c) && (c <=? 55).
Definition is_hex (c : Z) : bool :=
  is_digit c || ((97 <=? c) && (c <=? 102)) || ((65 <=? c) && (c <=? 70)).
Definition is_letter (c : Z) : bool := ((97 <=? c) && (c <=? 122)) || ((65 <=? c) && (c <=? 90)).
(* unicode.IsLetter, approximated outside ASCII *)
Definition is_uni_letter (c : Z) : bool := is_letter c || (128 <=? c).

(* octalEscape: all following decimal digits; invalid when one is not octal or there are > 3 *)
Fixpoint scan_digits (s : list Z) : list Z * list Z :=
  match s with
  | c :: r => if is_digit c then let '(ds, r') := scan_digits r in (c :: ds, r') else ([], s)
  | [] => ([], [])
  end.

(* quotedText, after `\Q`: up to `\E`; `\` + anything else and end of input are errors *)
Fixpoint scan_quoted (s : list Z) : option (list Z) * list Z :=
  match s with
  | [] => (None, [])
  | c :: r =>
      if c =? 92 then
        match r with
        | c2 :: r' => if c2 =? 69 then (Some [], r') else (None, r)   (* "expected end of quoted text": the `\` is consumed *)
        | [] => (None, r)
        end
      else let '(o, r') := scan_quoted r in (match o with Some t => Some (c :: t) | None => None end, r')
  end.

Definition meta_chars : list Z := [46; 63; 45; 43; 42; 94; 92; 124; 36; 40; 41; 91; 93; 123; 125; 32].

(* the token for `\` + c (c is consumed by the caller), None = not a one-letter escape *)
Definition escape_tok (c : Z) : option tok :=
  if c =? 85 then Some TLongUni else if c =? 117 then Some TUni else if c =? 120 then Some THex
  else if c =? 99 then Some TCaretEsc else if c =? 111 then Some TOct
  else if c =? 97 then Some (TSimple SBell) else if c =? 102 then Some (TSimple SFormFeed)
  else if c =? 116 then Some (TSimple STab) else if c =? 110 then Some (TSimple SNewline)
  else if c =? 114 then Some (TSimple SCR)
  else if c =? 112 then Some (TUniClass false) else if c =? 80 then Some (TUniClass true)
  else if c =? 65 then Some TAbsBeg else if c =? 122 then Some TAbsEnd
  else if c =? 98 then Some TWordB else if c =? 66 then Some TNotWordB
  else if c =? 119 then Some (TPre false PWord) else if c =? 87 then Some (TPre true PWord)
  else if c =? 100 then Some (TPre false PDigit) else if c =? 68 then Some (TPre true PDigit)
  else if c =? 115 then Some (TPre false PSpace) else if c =? 83 then Some (TPre true PSpace)
  else if c =? 104 then Some (TPre false PHoriz) else if c =? 72 then Some (TPre true PHoriz)
  else if c =? 118 then Some (TPre false PVert) else if c =? 86 then Some (TPre true PVert)
  else if existsb (Z.eqb c) meta_chars then Some (TMeta c)
  else None.

Definition punct_tok (c : Z) : option tok :=
  if c =? 46 then Some TDot else if c =? 44 then Some TComma else if c =? 39 then Some TSQuote
  else if c =? 45 then Some TDash else if c =? 58 then Some TColon else if c =? 124 then Some TPipe
  else if c =? 123 then Some TLBrace else if c =? 41 then Some TRParen else if c =? 60 then Some TLAngle
  else if c =? 62 then Some TRAngle else if c =? 125 then Some TRBrace else if c =? 91 then Some TLBracket
  else if c =? 93 then Some TRBracket else if c =? 36 then Some TDollar else if c =? 94 then Some TCaret
  else if c =? 42 then Some TStar else if c =? 43 then Some TPlus else if c =? 63 then Some TQuestion
  else None.

(* after `\` *)
Definition lex_escape (s : list Z) : tok * list Z :=
  match s with
  | [] => (TError, [])                                   (* trailing backslash *)
  | c :: r =>
      if c =? 81 then let '(o, r') := scan_quoted r in (match o with Some t => TQuoted t | None => TError end, r')
      else
      match escape_tok c with
      | Some t => (t, r)
      | None =>
          if is_digit c then
            let '(ds, r') := scan_digits s in
            (if forallb is_octal ds && (Nat.leb (length ds) 3) then TSimpleOct ds else TError, r')
          else (TError, r)                               (* invalid escape sequence *)
      end
  end.

(* the `(?#` comment loop, entered after `(?#`.
   Some (Some r): the comment ended, continue with r; Some None: ERROR token at the end of input
   (fixed code only); None: out of fuel. *)
Fixpoint lex_comment (fixed : bool) (fuel : nat) (s : list Z) : option (option (list Z)) :=
  match fuel with
  | O => None
  | S f =>
      match s with
      | c :: r => if c =? 41 then Some (Some r) else lex_comment fixed f r
      | [] => if fixed then Some None else lex_comment fixed f []     (* advanceChar fails: spins *)
      end
  end.

Definition starts_comment (r : list Z) : option (list Z) :=
  match r with
  | c2 :: c3 :: r' => if (c2 =? 63) && (c3 =? 35) then Some r' else None
  | _ => None
  end.

(* Lex: all tokens up to END_OF_FILE *)
Fixpoint lex (fixed : bool) (fuel : nat) (s : list Z) : option (list tok) :=
  match fuel with
  | O => None
  | S f =>
      match s with
      | [] => Some []
      | c :: r =>
          if c =? 40 then
            match starts_comment r with
            | Some r0 =>
                match lex_comment fixed f r0 with
                | None => None
                | Some None => Some [TError]
                | Some (Some r') => lex fixed f r'
                end
            | None => match lex fixed f r with Some ts => Some (TLParen :: ts) | None => None end
            end
          else if c =? 92 then
            let '(t, r') := lex_escape r in
            match lex fixed f r' with Some ts => Some (t :: ts) | None => None end
          else
            let t := match punct_tok c with Some t => t | None => TChar c end in
            match lex fixed f r with Some ts => Some (t :: ts) | None => None end
      end
  end.

(* ================================================================= parser *)

Definition is_error (t : tok) : bool := match t with TError => true | _ => false end.

(* Token.Char() of a token that primaryRegex / primaryCharClassElement turn into a CharNode *)
Definition tok_char (t : tok) : Z :=
  match t with
  | TChar c => c | TComma => 44 | TRBrace => 125 | TRBracket => 93 | TDash => 45 | TColon => 58
  | TLAngle => 60 | TRAngle => 62 | TSQuote => 39 | TLBrace => 123 | TCaret => 94 | TDollar => 36
  | TDot => 46 | TPlus => 43 | TStar => 42 | TQuestion => 63 | TPipe => 124 | TLParen => 40 | TRParen => 41
  | _ => 65533
  end.

Definition is_rbrace (t : tok) : bool := match t with TRBrace => true | _ => false end.
Definition is_colon (t : tok) : bool := match t with TColon => true | _ => false end.

(* consumeDigits / consumeLetters / consumeFlags / the `{...}` payload loops: advance one token
   per iteration until END_OF_FILE or a stop token *)
Fixpoint scan_until (stop : tok -> bool) (ts : list tok) : list tok * list tok :=
  match ts with
  | [] => ([], [])
  | t :: r => if stop t then ([], ts) else let '(a, b) := scan_until stop r in (t :: a, b)
  end.

(* the characters of the CHAR tokens, and whether every token was a CHAR satisfying ok *)
Definition chars_of (ok : Z -> bool) (l : list tok) : list Z * bool :=
  (flat_map (fun t => match t with TChar c => [c] | _ => [] end) l,
   forallb (fun t => match t with TChar c => ok c | _ => false end) l).

(* `{` payload `}` : tokens, rest, and whether the closing brace was there *)
Definition brace_payload (ts : list tok) : list tok * list tok * bool :=
  let '(a, b) := scan_until is_rbrace ts in
  match b with
  | TRBrace :: r => (a, r, true)
  | _ => (a, b, false)            (* END_OF_FILE: error, advance *)
  end.

(* \x \u \U: n digits or {digits} *)
Definition p_hex (n : nat) (ts : list tok) : atom * list tok * bool :=
  match ts with
  | TLBrace :: r =>
      let '(a, r', closed) := brace_payload r in
      let '(ds, ok) := chars_of is_hex a in
      (AHex ds, r', negb (closed && ok && negb (Nat.eqb (length ds) 0)))
  | _ =>
      let a := firstn n ts in
      let '(ds, ok) := chars_of is_hex a in
      (AHex ds, skipn n ts, negb (ok && Nat.eqb (length a) n))
  end.

Definition p_oct (ts : list tok) : atom * list tok * bool :=
  match ts with
  | TLBrace :: r =>
      let '(a, r', closed) := brace_payload r in
      let '(ds, ok) := chars_of is_octal a in
      (AOct ds, r', negb (closed && ok && negb (Nat.eqb (length ds) 0) && Nat.leb (length ds) 3))
  | _ =>
      let a := firstn 3 ts in
      let '(ds, ok) := chars_of is_octal a in
      (AOct ds, skipn 3 ts, negb (ok && Nat.eqb (length a) 3))
  end.

Definition p_uniclass (neg0 : bool) (ts : list tok) : atom * list tok * bool :=
  match ts with
  | TLBrace :: r =>
      let '(neg, r0) := match r with TCaret :: r1 => (true, r1) | _ => (false, r) end in
      let '(a, r', closed) := brace_payload r0 in
      let '(name, ok) := chars_of is_uni_letter a in
      (AUni (xorb neg0 neg) name, r', negb (closed && ok && negb (Nat.eqb (length name) 0)))
  | TChar c :: r => (AUni neg0 [c], r, negb (is_uni_letter c))
  | _ :: r => (AUni neg0 [], r, true)
  | [] => (AUni neg0 [], [], true)
  end.

Definition p_caret (ts : list tok) : atom * list tok * bool :=
  match ts with
  | TChar c :: r => (ACaret c, r, negb (is_letter c))
  | _ :: r => (ACaret 0, r, true)
  | [] => (ACaret 0, [], true)
  end.

(* consume(T): advance in every case; true = it was the expected token *)
Definition consume (want : tok -> bool) (ts : list tok) : list tok * bool :=
  match ts with
  | t :: r => (r, want t)
  | [] => ([], false)
  end.
Definition is_rangle (t : tok) : bool := match t with TRAngle => true | _ => false end.
Definition is_squote (t : tok) : bool := match t with TSQuote => true | _ => false end.
Definition is_rparen (t : tok) : bool := match t with TRParen => true | _ => false end.
Definition is_langle (t : tok) : bool := match t with TLAngle => true | _ => false end.
Definition is_rbracket (t : tok) : bool := match t with TRBracket => true | _ => false end.

(* consumeFlags over the scanned tokens *)
Fixpoint flags_of (disable : bool) (st un : flags) (l : list tok) : flags * flags * bool :=
  match l with
  | [] => (st, un, true)
  | TDash :: r => flags_of true st un r
  | TChar c :: r =>
      let one :=
        if c =? 109 then Some (mkFlags false true false false false false)
        else if c =? 105 then Some (mkFlags true false false false false false)
        else if c =? 115 then Some (mkFlags false false true false false false)
        else if c =? 85 then Some (mkFlags false false false true false false)
        else if c =? 120 then Some (mkFlags false false false false true false)
        else if c =? 97 then Some (mkFlags false false false false false true)
        else None in
      match one with
      | Some fl =>
          if disable then flags_of disable st (apply_flags un fl no_flags) r
          else flags_of disable (apply_flags st fl no_flags) un r
      | None => let '(a, b, _) := flags_of disable st un r in (a, b, false)
      end
  | _ :: r => let '(a, b, _) := flags_of disable st un r in (a, b, false)
  end.

(* `(?flags` ... : consumeFlags up to `)` or `:` *)
Definition p_group_flags (r : list tok) : gkind * bool * list tok * bool :=
  let '(a, b) := scan_until (fun t => is_rparen t || is_colon t) r in
  let '(st, un, ok) := flags_of false no_flags no_flags a in
  match b with
  | TColon :: r2 => (GFlags st un, true, r2, negb ok)
  | _ => (GFlags st un, false, b, negb ok)
  end.

Definition p_group_name (stop : tok -> bool) (got0 : bool) (r1 : list tok) : gkind * bool * list tok * bool :=
  let '(a, b) := scan_until (fun t => stop t || is_rparen t) r1 in
  let '(name, ok) := chars_of is_letter a in
  let '(r2, got) := consume stop b in
  (GNamed name, true, r2, negb (got0 && ok && got && negb (Nat.eqb (length name) 0))).

(* the header of a group, after `(`: kind, whether content follows, rest, error *)
Definition p_group_header (ts : list tok) : gkind * bool * list tok * bool :=
  match ts with
  | TQuestion :: r =>
      match r with
      | TColon :: r1 => (GNonCapture, true, r1, false)
      | TLAngle :: r1 => p_group_name is_rangle true r1
      | TSQuote :: r1 => p_group_name is_squote true r1
      | TChar cP :: r1 =>
          if cP =? 80 then let '(r1', got0) := consume is_langle r1 in p_group_name is_rangle got0 r1'
          else p_group_flags r
      | _ => p_group_flags r
      end
  | _ => (GCapture, true, ts, false)
  end.

(* consumeDigits(stop...) *)
Definition p_digits (stop : tok -> bool) (ts : list tok) : list Z * list tok * bool :=
  let '(a, b) := scan_until stop ts in
  let '(ds, ok) := chars_of is_digit a in (ds, b, ok).

Definition stop_rb (t : tok) : bool := is_rbrace t.
Definition stop_rb_comma (t : tok) : bool := is_rbrace t || match t with TComma => true | _ => false end.

(* after `{min,` : nothing when `}` follows, else consumeDigits(RBRACE) *)
Definition p_braces_max (mn : list Z) (ok1 : bool) (b1 : list tok) : (bool * list Z * list Z) * list tok * bool :=
  match b1 with
  | TRBrace :: _ => ((true, mn, []), b1, ok1)
  | _ => let '(mx, b2, ok2) := p_digits stop_rb b1 in ((true, mn, mx), b2, ok1 && ok2)
  end.

(* `{` not followed by `,` : min = consumeDigits(RBRACE, COMMA), then an optional `,max` *)
Definition p_braces_min (r : list tok) : (bool * list Z * list Z) * list tok * bool :=
  let '(mn, b, ok1) := p_digits stop_rb_comma r in
  match b with
  | TComma :: b1 => p_braces_max mn ok1 b1
  | _ => ((false, mn, []), b, ok1)
  end.

Definition p_braces (r : list tok) : (bool * list Z * list Z) * list tok * bool :=
  match r with
  | TComma :: r' => let '(mx, b, ok) := p_digits stop_rb r' in ((true, [], mx), b, ok)
  | _ => p_braces_min r
  end.

Definition p_lazy (ts : list tok) : bool * list tok :=
  match ts with TQuestion :: r => (true, r) | _ => (false, ts) end.

(* the quantifier suffix after a primary *)
Definition p_quant_suffix (r0 : re) (ts : list tok) : re * list tok * bool :=
  match ts with
  | TPlus :: r => let '(alt, r') := p_lazy r in (RQuant QPlus alt r0, r', false)
  | TStar :: r => let '(alt, r') := p_lazy r in (RQuant QStar alt r0, r', false)
  | TQuestion :: r => let '(alt, r') := p_lazy r in (RQuant QOpt alt r0, r', false)
  | TLBrace :: r =>
      let '((comma, mn, mx), r1, ok) := p_braces r in
      let '(r2, got) := consume is_rbrace r1 in
      let '(alt, r3) := p_lazy r2 in
      if comma then (RQuant (QNM mn mx) alt r0, r3, negb (ok && got))
      else (RQuant (QN mn) alt r0, r3, negb (ok && got && negb (Nat.eqb (length mn) 0)))
  | _ => (r0, ts, false)
  end.

(* ---- character classes *)

Definition cls_char_tok (t : tok) : bool :=
  match t with
  | TChar _ | TComma | TLBrace | TRBrace | TRBracket | TColon | TLAngle | TRAngle | TSQuote
  | TCaret | TDollar | TDot | TPlus | TStar | TQuestion | TPipe | TLParen | TRParen => true
  | _ => false
  end.

(* primaryCharClassElement *)
Definition p_cls_primary (ts : list tok) : atom * list tok * bool :=
  match ts with
  | [] => (AChar 0, [], true)
  | t :: r =>
      if cls_char_tok t then (AChar (tok_char t), r, false)
      else match t with
           | TMeta c => (AMeta c, r, false)
           | TSimple k => (ASimple k, r, false)
           | TPre neg p => (APre neg p, r, false)
           | TLongUni => p_hex 8 r
           | TUni => p_hex 4 r
           | THex => p_hex 2 r
           | TOct => p_oct r
           | TSimpleOct ds => (AOct ds, r, false)
           | TUniClass neg => p_uniclass neg r
           | _ => (AChar 0, r, true)
           end
  end.

Definition valid_range_left (a : atom) : bool :=
  match a with AChar _ | AMeta _ | AHex _ | ASimple _ | ACaret _ => true | _ => false end.

(* namedCharClass (one element of a class) *)
Definition p_cls_elem (ts : list tok) : citem * list tok * bool :=
  match ts with
  | TLBracket :: r =>
      match r with
      | TColon :: r1 =>
          let '(neg, r2) := match r1 with TCaret :: r' => (true, r') | _ => (false, r1) end in
          let '(a, b) := scan_until is_colon r2 in
          let '(name, ok) := chars_of is_letter a in
          match b with
          | TColon :: b1 =>
              let '(b2, got) := consume is_rbracket b1 in
              (CINamed neg name, b2, negb (ok && got && negb (Nat.eqb (length name) 0)))
          | _ => (CINamed neg name, b, true)                (* unterminated named char class *)
          end
      | _ => (CIAtom (AChar 0), tl r, true)                 (* consume(COLON) failed *)
      end
  | _ =>
      let '(l, r, e1) := p_cls_primary ts in
      if valid_range_left l then
        match r with
        | TDash :: r1 => let '(rt, r2, e2) := p_cls_primary r1 in (CIRange l rt, r2, e1 || e2)
        | _ => (CIAtom l, r, e1)
        end
      else (CIAtom l, r, e1)
  end.

(* charClass, after `[` and the optional `^` *)
Fixpoint p_cls_loop (fuel : nat) (acc : list citem) (ts : list tok) (e : bool) : option (list citem * list tok * bool) :=
  match fuel with
  | O => None
  | S f =>
      match ts with
      | [] => Some (acc, [], true)                          (* unterminated character class *)
      | TRBracket :: r => Some (acc, r, e)
      | _ => let '(it, r, e1) := p_cls_elem ts in p_cls_loop f (acc ++ [it]) r (e || e1)
      end
  end.

(* ---- the recursive part *)

Definition invalid : re := RConcat [].
Definition stops (ing : bool) (t : tok) : bool :=
  match t with TPipe => true | TRParen => ing | _ => false end.

Definition atom_res (x : atom * list tok * bool) : option (re * list tok * bool) :=
  let '(a, r, e) := x in Some (RAtom a, r, e).

(* p_elem = quantifier() (primaryRegex + suffix); p_concat = concatenation(); p_union_loop = the
   loop of union() after the first concatenation; `ing` = inside a group (RPAREN stops) *)
Fixpoint p_elem (fuel : nat) (ts : list tok) : option (re * list tok * bool) :=
  match fuel with
  | O => None
  | S f =>
      let prim : option (re * list tok * bool) :=
        match ts with
        | [] => Some (invalid, [], true)
        | t :: r =>
            match t with
            | TChar _ | TComma | TRBrace | TRBracket | TDash | TColon | TLAngle | TRAngle | TSQuote =>
                Some (RAtom (AChar (tok_char t)), r, false)
            | TMeta c => Some (RAtom (AMeta c), r, false)
            | TQuoted txt => Some (RQuoted txt, r, false)
            | TSimple k => Some (RAtom (ASimple k), r, false)
            | TAbsBeg => Some (RAbsBeg, r, false)
            | TAbsEnd => Some (RAbsEnd, r, false)
            | TCaret => Some (RBol, r, false)
            | TDollar => Some (REol, r, false)
            | TDot => Some (RAny, r, false)
            | TWordB => Some (RWordB, r, false)
            | TNotWordB => Some (RNotWordB, r, false)
            | TPre neg p => Some (RAtom (APre neg p), r, false)
            | TCaretEsc => atom_res (p_caret r)
            | TLongUni => atom_res (p_hex 8 r)
            | TUni => atom_res (p_hex 4 r)
            | THex => atom_res (p_hex 2 r)
            | TOct => atom_res (p_oct r)
            | TSimpleOct ds => Some (RAtom (AOct ds), r, false)
            | TUniClass neg => atom_res (p_uniclass neg r)
            | TLBracket =>
                let '(neg, r1) := match r with TCaret :: r' => (true, r') | _ => (false, r) end in
                match p_cls_loop f [] r1 false with
                | None => None
                | Some (items, r2, e) => Some (RClass neg items, r2, e)
                end
            | TLParen =>
                let '(k, content, r1, e0) := p_group_header r in
                if content then
                  match p_concat f true [] r1 with
                  | None => None
                  | Some (lft, r2, e1) =>
                      match p_union_loop f true lft r2 with
                      | None => None
                      | Some (body, r3, e2) =>
                          let '(r4, got) := consume is_rparen r3 in
                          Some (RGroup k (Some body), r4, e0 || e1 || e2 || negb got)
                      end
                  end
                else
                  let '(r4, got) := consume is_rparen r1 in
                  Some (RGroup k None, r4, e0 || negb got)
            | _ => Some (invalid, r, true)
            end
        end in
      match prim with
      | None => None
      | Some (r0, r, e) => let '(q, r', e') := p_quant_suffix r0 r in Some (q, r', e || e')
      end
  end
with p_concat (fuel : nat) (ing : bool) (acc : list re) (ts : list tok) : option (re * list tok * bool) :=
  match fuel with
  | O => None
  | S f =>
      let finish := match acc with [x] => x | _ => RConcat acc end in
      match ts with
      | [] => Some (finish, [], false)
      | t :: _ =>
          if stops ing t then Some (finish, ts, false)
          else match p_elem f ts with
               | None => None
               | Some (x, r, e) =>
                   match p_concat f ing (acc ++ [x]) r with
                   | None => None
                   | Some (res, r', e') => Some (res, r', e || e')
                   end
               end
      end
  end
with p_union_loop (fuel : nat) (ing : bool) (lft : re) (ts : list tok) : option (re * list tok * bool) :=
  match fuel with
  | O => None
  | S f =>
      match ts with
      | TPipe :: r =>
          match p_concat f ing [] r with
          | None => None
          | Some (rgt, r', e) =>
              match p_union_loop f ing (RUnion lft rgt) r' with
              | None => None
              | Some (res, r'', e') => Some (res, r'', e || e')
              end
          end
      | _ => Some (lft, ts, false)
      end
  end.

Inductive front_result := OutOfFuel | RDiag | ROk (r : re).

(* parser.Parse on the token list: program = union() at top level.  After union() returns at
   top level the lookahead is END_OF_FILE or ... a `)`? No: RPAREN does not stop a top-level
   concatenation, primaryRegex consumes it with a diagnostic.  ERROR tokens are reported when
   they reach the lookahead, which every token does. *)
Definition parse_tokens (fuel : nat) (ts : list tok) : front_result :=
  match p_concat fuel false [] ts with
  | None => OutOfFuel
  | Some (lft, r, e1) =>
      match p_union_loop fuel false lft r with
      | None => OutOfFuel
      | Some (res, _, e2) => if e1 || e2 || existsb is_error ts then RDiag else ROk res
      end
  end.

(* regex.Transpile's front half: lex, then parse *)
Definition regex_front (fixed : bool) (fuel : nat) (s : list Z) : front_result :=
  match lex fixed fuel s with
  | None => OutOfFuel
  | Some ts => parse_tokens fuel ts
  end.

(* the fuel that is always enough (Props/C03.v) *)
Definition enough (s : list Z) : nat := 3 * length s + 6.

(* the whole of regex.Transpile on the model: Diag | Ok text *)
Definition transpile_source (f : flags) (s : list Z) : option (option (list Z)) :=
  match regex_front true (enough s) s with
  | OutOfFuel => None
  | RDiag => Some None
  | ROk a => Some (transpile_text f a)
  end.
