(* C26 — symbol interning under concurrency: executable model ONLY (no proofs).

   The four methods of value/symbol_table.go are represented as micro-op sequences
   (regenerated from the Go AST into Gen/C26_SymTab.v on every run; [ref_functions]
   below is the hand-written copy the proofs are about, and Props/C26.v re-proves
   [gen_functions = ref_functions] on every run).

   [step] is the interleaving semantics: any number of threads (tid : nat), each either
   idle or somewhere inside one call; a schedule is a list of (tid, action) and
   [run_sched] folds it over the initial state, so "every reachable state" is
   "run_sched sched init for every sched".  RWMutex rules: Lock needs no writer and no
   reader, RLock needs no writer (writer preference of the real RWMutex only removes
   schedules), a disabled step leaves the state unchanged (the thread stays blocked).
   Names are opaque keys (Z): the harness encodes the byte string b as the integer with
   big-endian bytes 0x01 ++ b, which is injective, and Go map keys are compared bytewise. *)
From Coq Require Import ZArith List Bool Arith.
Import ListNotations.
Open Scope Z_scope.

Inductive fname := FExistsId | FGet | FGetName | FAdd.

Inductive cond := COk | CNotOk | COutOfRange.

Inductive retexpr :=
| RetInRangePos   (* return symbol < Symbol(len(s.idTable)) && symbol > 0   (len already read) *)
| RetNotFound     (* return -1, false *)
| RetValTrue      (* return val, true      (val from the name table) *)
| RetEmptyFalse   (* return "", false *)
| RetNameTrue     (* return val, true      (val from the id table) *)
| RetVal          (* return val *)
| RetSymbol.      (* return symbol *)

Inductive op :=
| Lock | RLock | Unlock | RUnlock
| DeferUnlock | DeferRUnlock
| ReadName        (* val, ok := s.nameTable[name] *)
| ReadLen         (* read len(s.idTable) into the local l_len *)
| ReadId          (* val := s.idTable[symbol] *)
| LetSymLen       (* symbol := Symbol(<the length just read>) *)
| WriteName       (* s.nameTable[name] = symbol *)
| AppendId        (* s.idTable = append(s.idTable, name) *)
| Branch (c : cond) (n : nat)   (* if c { next n ops }  -- c false: skip n ops *)
| Return (r : retexpr).

Definition fname_eqb (a b : fname) : bool :=
  match a, b with
  | FExistsId, FExistsId | FGet, FGet | FGetName, FGetName | FAdd, FAdd => true
  | _, _ => false
  end.

Definition cond_eqb (a b : cond) : bool :=
  match a, b with COk, COk | CNotOk, CNotOk | COutOfRange, COutOfRange => true | _, _ => false end.

Definition retexpr_eqb (a b : retexpr) : bool :=
  match a, b with
  | RetInRangePos, RetInRangePos | RetNotFound, RetNotFound | RetValTrue, RetValTrue
  | RetEmptyFalse, RetEmptyFalse | RetNameTrue, RetNameTrue | RetVal, RetVal
  | RetSymbol, RetSymbol => true
  | _, _ => false
  end.

Definition op_eqb (a b : op) : bool :=
  match a, b with
  | Lock, Lock | RLock, RLock | Unlock, Unlock | RUnlock, RUnlock
  | DeferUnlock, DeferUnlock | DeferRUnlock, DeferRUnlock
  | ReadName, ReadName | ReadLen, ReadLen | ReadId, ReadId | LetSymLen, LetSymLen
  | WriteName, WriteName | AppendId, AppendId => true
  | Branch c n, Branch d m => cond_eqb c d && Nat.eqb n m
  | Return r, Return q => retexpr_eqb r q
  | _, _ => false
  end.

Fixpoint ops_eqb (a b : list op) : bool :=
  match a, b with
  | [], [] => true
  | x :: a', y :: b' => op_eqb x y && ops_eqb a' b'
  | _, _ => false
  end.

Fixpoint funs_eqb (a b : list (fname * list op)) : bool :=
  match a, b with
  | [], [] => true
  | (f, x) :: a', (g, y) :: b' => fname_eqb f g && ops_eqb x y && funs_eqb a' b'
  | _, _ => false
  end.

(* The sequences the proofs are about (value/symbol_table.go at the pinned commit). *)
Definition ref_functions : list (fname * list op) :=
  [ (FExistsId, [ReadLen; Return RetInRangePos]);
    (FGet, [RLock; ReadName; RUnlock; Branch CNotOk 1; Return RetNotFound; Return RetValTrue]);
    (FGetName, [RLock; DeferRUnlock; ReadLen; Branch COutOfRange 1; Return RetEmptyFalse; ReadId;
                Return RetNameTrue]);
    (FAdd, [Lock; DeferUnlock; ReadName; Branch COk 1; Return RetVal; ReadLen; LetSymLen; WriteName;
            AppendId; Return RetSymbol]) ].

Fixpoint lookup_fn (fs : list (fname * list op)) (f : fname) : list op :=
  match fs with
  | [] => []
  | (g, ops) :: r => if fname_eqb g f then ops else lookup_fn r f
  end.

(* ---------------------------------------------------------------- static lock coverage *)

(* what a micro-op needs from the lock: 0 nothing, 1 at least the read lock, 2 the write lock *)
Definition needs (o : op) : nat :=
  match o with
  | ReadName | ReadId => 1%nat        (* map / slice element reads *)
  | WriteName | AppendId => 2%nat     (* mutations *)
  | _ => 0%nat                        (* ReadLen: decided separately, see touches_maps *)
  end.

(* lock level held after executing o at level h (defers keep the lock until Return) *)
Definition held_after (h : nat) (o : op) : nat :=
  match o with
  | Lock => 2%nat | RLock => 1%nat | Unlock | RUnlock => 0%nat | _ => h
  end.

(* straight-line over-approximation: every op is checked at the level held on the
   fall-through path; this is exact for the extracted shapes because a Branch body never
   changes the lock level (checked: bodies contain no lock op). *)
Fixpoint covered_from (h : nat) (ops : list op) : bool :=
  match ops with
  | [] => true
  | o :: r => Nat.leb (needs o) h && covered_from (held_after h o) r
  end.

Fixpoint branch_bodies_lockfree (ops : list op) : bool :=
  match ops with
  | [] => true
  | Branch _ n :: r =>
      forallb (fun o => match o with Lock | RLock | Unlock | RUnlock | DeferUnlock | DeferRUnlock => false | _ => true end)
              (firstn n r) && branch_bodies_lockfree r
  | _ :: r => branch_bodies_lockfree r
  end.

Definition touches_maps (ops : list op) : bool :=
  existsb (fun o => match o with ReadName | ReadId | WriteName | AppendId => true | _ => false end) ops.

Definition len_reads_covered_from :=
  fix go (h : nat) (ops : list op) : bool :=
    match ops with
    | [] => true
    | o :: r => (match o with ReadLen => Nat.leb 1 h | _ => true end) && go (held_after h o) r
    end.

(* a function is covered when all its table accesses (including length reads) happen under
   a sufficient lock *)
Definition covered (f : fname * list op) : bool :=
  covered_from 0 (snd f) && branch_bodies_lockfree (snd f) && len_reads_covered_from 0 (snd f).

(* ---------------------------------------------------------------- dynamic semantics *)

Inductive result :=
| RSym (i : Z)                 (* Add *)
| RSymOk (i : Z) (ok : bool)   (* Get *)
| RNameOk (n : Z) (ok : bool)  (* GetName; the empty name "" has key 1 *)
| RBool (b : bool).            (* ExistsId *)

Definition empty_name : Z := 1.

Record thread := mkThread {
  t_fn : option fname;     (* None = idle *)
  t_pc : nat;
  a_name : Z;              (* argument: name (Add, Get) *)
  a_sym : Z;               (* argument: symbol (GetName, ExistsId) *)
  l_val : Z;               (* val from the name table *)
  l_ok : bool;
  l_len : Z;
  l_sym : Z;               (* symbol := Symbol(len) *)
  l_name : Z;              (* val from the id table *)
  t_defers : list op
}.

Definition idle : thread := mkThread None 0 0 0 0 false 0 0 0 [].
Definition fresh (f : fname) (n i : Z) : thread := mkThread (Some f) 0 n i 0 false 0 0 0 [].

Inductive event :=
| EvCall (t : nat) (f : fname) (n i : Z)
| EvLin (t : nat) (f : fname) (n i : Z) (r : result)   (* ghost: linearisation point *)
| EvRet (t : nat) (f : fname) (n i : Z) (r : result).

Record state := mkState {
  nt : Z -> option Z;      (* nameTable *)
  it : list Z;             (* idTable *)
  wr : option nat;         (* write-lock holder *)
  rd : list nat;           (* read-lock holders *)
  th : nat -> thread;
  trace : list event       (* newest first; ghost, never read by the semantics *)
}.

Definition init : state := mkState (fun _ => None) [] None [] (fun _ => idle) [].

Definition upd_nt (m : Z -> option Z) (k v : Z) : Z -> option Z :=
  fun k' => if Z.eqb k' k then Some v else m k'.
Definition upd_th (m : nat -> thread) (t : nat) (T : thread) : nat -> thread :=
  fun t' => if Nat.eqb t' t then T else m t'.

Definition zlen (l : list Z) : Z := Z.of_nat (length l).

Definition eval_cond (c : cond) (T : thread) : bool :=
  match c with
  | COk => l_ok T
  | CNotOk => negb (l_ok T)
  | COutOfRange => (a_sym T >=? l_len T) || (a_sym T <? 0)
  end.

Definition eval_ret (r : retexpr) (T : thread) : result :=
  match r with
  | RetInRangePos => RBool ((a_sym T <? l_len T) && (a_sym T >? 0))
  | RetNotFound => RSymOk (-1) false
  | RetValTrue => RSymOk (l_val T) true
  | RetEmptyFalse => RNameOk empty_name false
  | RetNameTrue => RNameOk (l_name T) true
  | RetVal => RSym (l_val T)
  | RetSymbol => RSym (l_sym T)
  end.

Definition set_pc (T : thread) (pc : nat) : thread :=
  mkThread (t_fn T) pc (a_name T) (a_sym T) (l_val T) (l_ok T) (l_len T) (l_sym T) (l_name T) (t_defers T).
Definition next (T : thread) : thread := set_pc T (S (t_pc T)).

Definition release (o : op) (t : nat) (w : option nat) (r : list nat) : option nat * list nat :=
  match o with
  | Unlock => (None, r)
  | RUnlock => (w, remove Nat.eq_dec t r)
  | _ => (w, r)
  end.

Fixpoint release_all (ds : list op) (t : nat) (w : option nat) (r : list nat) : option nat * list nat :=
  match ds with
  | [] => (w, r)
  | d :: ds' => let '(w', r') := release d t w r in release_all ds' t w' r'
  end.

(* ghost: does executing [o] in thread state T (before the step, with the values it is
   about to read) constitute the linearisation point of the running call, and with
   which result? *)
Definition lin_point (f : fname) (o : op) (T : thread) (s : state) : option result :=
  match f, o with
  | FExistsId, ReadLen => Some (RBool ((a_sym T <? zlen (it s)) && (a_sym T >? 0)))
  | FGet, ReadName =>
      Some (match nt s (a_name T) with Some v => RSymOk v true | None => RSymOk (-1) false end)
  | FGetName, ReadLen =>
      if (a_sym T >=? zlen (it s)) || (a_sym T <? 0) then Some (RNameOk empty_name false) else None
  | FGetName, ReadId => Some (RNameOk (nth (Z.to_nat (a_sym T)) (it s) 0) true)
  | FAdd, ReadName => match nt s (a_name T) with Some v => Some (RSym v) | None => None end
  | FAdd, AppendId => Some (RSym (l_sym T))
  | _, _ => None
  end.

Definition add_lin (t : nat) (f : fname) (T : thread) (o : op) (s : state) : list event :=
  match lin_point f o T s with
  | Some r => EvLin t f (a_name T) (a_sym T) r :: trace s
  | None => trace s
  end.

(* one micro-op of thread t (in thread state T, running f); None = blocked / not enabled *)
Definition exec_op (o : op) (t : nat) (f : fname) (T : thread) (s : state) : option state :=
  let tr := add_lin t f T o s in
  let adv T' := upd_th (th s) t T' in
  match o with
  | Lock =>
      match wr s, rd s with
      | None, [] => Some (mkState (nt s) (it s) (Some t) [] (adv (next T)) tr)
      | _, _ => None
      end
  | RLock =>
      match wr s with
      | None => Some (mkState (nt s) (it s) None (t :: rd s) (adv (next T)) tr)
      | Some _ => None
      end
  | Unlock => Some (mkState (nt s) (it s) None (rd s) (adv (next T)) tr)
  | RUnlock => Some (mkState (nt s) (it s) (wr s) (remove Nat.eq_dec t (rd s)) (adv (next T)) tr)
  | DeferUnlock =>
      Some (mkState (nt s) (it s) (wr s) (rd s)
              (adv (mkThread (t_fn T) (S (t_pc T)) (a_name T) (a_sym T) (l_val T) (l_ok T) (l_len T) (l_sym T) (l_name T)
                             (Unlock :: t_defers T))) tr)
  | DeferRUnlock =>
      Some (mkState (nt s) (it s) (wr s) (rd s)
              (adv (mkThread (t_fn T) (S (t_pc T)) (a_name T) (a_sym T) (l_val T) (l_ok T) (l_len T) (l_sym T) (l_name T)
                             (RUnlock :: t_defers T))) tr)
  | ReadName =>
      let '(v, ok) := match nt s (a_name T) with Some v => (v, true) | None => (0, false) end in
      Some (mkState (nt s) (it s) (wr s) (rd s)
              (adv (mkThread (t_fn T) (S (t_pc T)) (a_name T) (a_sym T) v ok (l_len T) (l_sym T) (l_name T) (t_defers T))) tr)
  | ReadLen =>
      Some (mkState (nt s) (it s) (wr s) (rd s)
              (adv (mkThread (t_fn T) (S (t_pc T)) (a_name T) (a_sym T) (l_val T) (l_ok T) (zlen (it s)) (l_sym T) (l_name T)
                             (t_defers T))) tr)
  | ReadId =>
      (* an out-of-range index would be a Go panic; the model blocks the thread instead and
         the theorems show the branch before it makes this unreachable *)
      if (0 <=? a_sym T) && (a_sym T <? zlen (it s)) then
        Some (mkState (nt s) (it s) (wr s) (rd s)
                (adv (mkThread (t_fn T) (S (t_pc T)) (a_name T) (a_sym T) (l_val T) (l_ok T) (l_len T) (l_sym T)
                               (nth (Z.to_nat (a_sym T)) (it s) 0) (t_defers T))) tr)
      else None
  | LetSymLen =>
      Some (mkState (nt s) (it s) (wr s) (rd s)
              (adv (mkThread (t_fn T) (S (t_pc T)) (a_name T) (a_sym T) (l_val T) (l_ok T) (l_len T) (l_len T) (l_name T)
                             (t_defers T))) tr)
  | WriteName =>
      Some (mkState (upd_nt (nt s) (a_name T) (l_sym T)) (it s) (wr s) (rd s) (adv (next T)) tr)
  | AppendId =>
      Some (mkState (nt s) (it s ++ [a_name T]) (wr s) (rd s) (adv (next T)) tr)
  | Branch c n =>
      Some (mkState (nt s) (it s) (wr s) (rd s)
              (adv (set_pc T (if eval_cond c T then S (t_pc T) else (S (t_pc T) + n)%nat))) tr)
  | Return r =>
      (* result evaluated from locals first, then the deferred unlocks run, then the call ends *)
      let '(w', r') := release_all (t_defers T) t (wr s) (rd s) in
      Some (mkState (nt s) (it s) w' r' (adv idle)
              (EvRet t f (a_name T) (a_sym T) (eval_ret r T) :: tr))
  end.

Inductive action :=
| Start (f : fname) (n i : Z)   (* an idle thread begins a call with arbitrary arguments *)
| Run.                          (* a thread inside a call executes its next micro-op *)

Definition step (fs : list (fname * list op)) (s : state) (t : nat) (a : action) : option state :=
  let T := th s t in
  match t_fn T, a with
  | None, Start f n i =>
      Some (mkState (nt s) (it s) (wr s) (rd s) (upd_th (th s) t (fresh f n i)) (EvCall t f n i :: trace s))
  | Some f, Run =>
      match nth_error (lookup_fn fs f) (t_pc T) with
      | Some o => exec_op o t f T s
      | None => None
      end
  | _, _ => None
  end.

Definition step' fs (s : state) (ta : nat * action) : state :=
  match step fs s (fst ta) (snd ta) with Some s' => s' | None => s end.

Definition run_sched fs (sched : list (nat * action)) (s : state) : state :=
  fold_left (step' fs) sched s.

(* ---------------------------------------------------------------- sequential use *)

(* one whole call executed by thread 0 with nobody else running (the c26.seq stream) *)
Fixpoint run_call (fs : list (fname * list op)) (fuel : nat) (s : state) : state :=
  match fuel with
  | O => s
  | S k => match t_fn (th s 0%nat) with
           | None => s
           | Some _ => match step fs s 0%nat Run with Some s' => run_call fs k s' | None => s end
           end
  end.

Definition last_ret (s : state) : option result :=
  match trace s with EvRet _ _ _ _ r :: _ => Some r | _ => None end.

(* returns the new state and the result; None result = the call did not finish (stuck) *)
Definition seq_call fs (s : state) (f : fname) (n i : Z) : state * option result :=
  match step fs s 0%nat (Start f n i) with
  | Some s1 => let s2 := run_call fs 32 s1 in
               (s2, match t_fn (th s2 0%nat) with None => last_ret s2 | Some _ => None end)
  | None => (s, None)
  end.

(* between two sequential calls: drop the ghost trace and the chain of thread-map updates.
   Only used by the sequential driver after seq_call reported a result, i.e. when thread 0
   (the only thread ever started there) is idle again, so the thread map is extensionally
   the constant idle map it is replaced with. *)
Definition forget (s : state) : state := mkState (nt s) (it s) (wr s) (rd s) (fun _ => idle) [].

(* ---------------------------------------------------------------- atomic specification *)

Fixpoint find_index (n : Z) (l : list Z) (i : Z) : option Z :=
  match l with
  | [] => None
  | x :: r => if Z.eqb x n then Some i else find_index n r (i + 1)
  end.

(* the sequential specification on the id table alone *)
Definition spec (f : fname) (n i : Z) (tbl : list Z) : list Z * result :=
  match f with
  | FAdd => match find_index n tbl 0 with
            | Some j => (tbl, RSym j)
            | None => (tbl ++ [n], RSym (zlen tbl))
            end
  | FGet => (tbl, match find_index n tbl 0 with Some j => RSymOk j true | None => RSymOk (-1) false end)
  | FGetName => (tbl, if (0 <=? i) && (i <? zlen tbl) then RNameOk (nth (Z.to_nat i) tbl 0) true
                      else RNameOk empty_name false)
  | FExistsId => (tbl, RBool ((i <? zlen tbl) && (i >? 0)))
  end.

Definition result_eqb (a b : result) : bool :=
  match a, b with
  | RSym i, RSym j => Z.eqb i j
  | RSymOk i x, RSymOk j y => Z.eqb i j && Bool.eqb x y
  | RNameOk i x, RNameOk j y => Z.eqb i j && Bool.eqb x y
  | RBool x, RBool y => Bool.eqb x y
  | _, _ => false
  end.

(* replay the linearisation events of a trace (newest first) on the atomic specification:
   Some tbl = every recorded result is the specification's result at that instant and tbl
   is the resulting id table *)
Fixpoint lin_replay (tr : list event) : option (list Z) :=
  match tr with
  | [] => Some []
  | e :: r =>
      match lin_replay r with
      | None => None
      | Some tbl =>
          match e with
          | EvLin _ f n i res =>
              let '(tbl', res') := spec f n i tbl in
              if result_eqb res res' then Some tbl' else None
          | _ => Some tbl
          end
      end
  end.
