(* C09 — the native Go backend behaves like the bytecode VM.  Executable model only.

   Part A: the Int runtime helpers the generated Go code calls (value.AddInts, SubtractInts,
           MultiplyInts, DivideInts, ModuloInts, LessThanInts, ... in value/value.go), mirrored
           function by function under Go semantics.  They dispatch with IsReference /
           IsSmallInt and an unchecked pointer cast (no type switch, no coercion branch) to
           the leaf functions of value/small_int.go and value/big_int.go.  math/big is
           modelled by Z (Add/Sub/Mul -> + - *, Quo/Rem/QuoRem -> Z.quot/Z.rem, Cmp -> Z.compare,
           IsInt64 -> fits64, Int64 -> wrap64) exactly as in Model/C06_Int.v.
   Part B: a small statement language (Int arithmetic with overflow into big integers,
           comparisons, Bool connectives, String concatenation, locals, if / while / return,
           method calls, println; second generation: user classes with single inheritance and
           method overriding, objects with one immutable Int field, dynamically dispatched
           sends, list literals, for-in loops, Symbol / Char / nil values and dynamic inspect;
           third generation: bounded Int range literals with the four operators ... ..< <.. <.<,
           range values in locals, for-in over a range)
           with the reference interpreter S (fuel; output trace and outcome).  S computes on
           mathematical integers and dispatches sends on the RUNTIME class of the receiver
           (own method first, then the nearest ancestor's).
   Part C: observations of a finished run and the relation obs_equiv.                      *)
From Coq Require Import ZArith List String Ascii Bool DecimalString.
From Elk Require Import Base.GoSem Model.C06_Int.
Import ListNotations.
Open Scope Z_scope.

(* ================================================================ Part A: helpers *)

(* SmallInt.AddOverflow / SubtractOverflow / MultiplyOverflow / DivideOverflow *)
Definition h_add_overflow (a b : Z) : Z * bool :=
  let c := wrap64 (a + b) in (c, Bool.eqb (c >? a) (b >? 0)).
Definition h_sub_overflow (a b : Z) : Z * bool :=
  let c := wrap64 (a - b) in (c, Bool.eqb (c <? a) (b >? 0)).
Definition h_mul_overflow (a b : Z) : Z * bool :=
  if (a =? 0) || (b =? 0) then (0, true) else
  let c := wrap64 (a * b) in
  if Bool.eqb (c <? 0) (xorb (a <? 0) (b <? 0)) then
    (* c / b on int64: truncated; MinInt64 / -1 wraps *)
    if wrap64 (Z.quot c b) =? a then (c, true) else (c, false)
  else (c, false).
Definition h_div_overflow (a b : Z) : Z * bool :=
  if b =? 0 then (0, false) else
  if (a =? min64) && (b =? -1) then (a, false) else (Z.quot a b, true).

(* `if result.IsSmallInt() { return result.ToSmallInt().ToValue() }; return Ref(result)` *)
Definition h_norm (z : Z) : ival := if fits64 z then Small z else Big z.

(* leaves: SmallInt.AddSmallInt, SmallInt.AddBigInt, BigInt.AddSmallInt, BigInt.AddBigInt, ... *)
Definition small_add_small (a b : Z) : ival :=
  let '(c, ok) := h_add_overflow a b in if ok then Small c else Big (a + b).
Definition small_add_big (a b : Z) : ival := h_norm (a + b).
Definition big_add_small (a b : Z) : ival := h_norm (a + b).
Definition big_add_big (a b : Z) : ival := h_norm (a + b).

Definition small_sub_small (a b : Z) : ival :=
  let '(c, ok) := h_sub_overflow a b in if ok then Small c else Big (a - b).
Definition small_sub_big (a b : Z) : ival := h_norm (a - b).
Definition big_sub_small (a b : Z) : ival := h_norm (a - b).
Definition big_sub_big (a b : Z) : ival := h_norm (a - b).

Definition small_mul_small (a b : Z) : ival :=
  let '(c, ok) := h_mul_overflow a b in if ok then Small c else Big (a * b).
Definition small_mul_big (a b : Z) : ival := h_norm (a * b).
Definition big_mul_small (a b : Z) : ival := h_norm (a * b).
Definition big_mul_big (a b : Z) : ival := h_norm (a * b).

Definition small_div_small (a b : Z) : outcome ival :=
  if b =? 0 then Err E_ZERO_DIV else
  let '(c, ok) := h_div_overflow a b in
  if ok then Ok (Small c) else Ok (Big (Z.quot a b)).
Definition small_div_big (a b : Z) : outcome ival :=
  if b =? 0 then Err E_ZERO_DIV else Ok (h_norm (Z.quot a b)).
Definition big_div_small (a b : Z) : outcome ival :=
  if b =? 0 then Err E_ZERO_DIV else Ok (h_norm (Z.quot a b)).
Definition big_div_big (a b : Z) : outcome ival :=
  if b =? 0 then Err E_ZERO_DIV else Ok (h_norm (Z.quot a b)).

(* SmallInt.ModuloSmallInt: Go's % on int64 (MinInt64 % -1 = 0, no trap) *)
Definition small_mod_small (a b : Z) : outcome ival :=
  if b =? 0 then Err E_ZERO_DIV else Ok (Small (Z.rem a b)).
(* SmallInt.ModuloBigInt: small divisor -> machine %, otherwise big Rem and Int64() *)
Definition small_mod_big (a b : Z) : outcome ival :=
  if b =? 0 then Err E_ZERO_DIV else
  if fits64 b then Ok (Small (Z.rem a b)) else Ok (Small (wrap64 (Z.rem a b))).
Definition big_mod_small (a b : Z) : outcome ival :=
  if b =? 0 then Err E_ZERO_DIV else Ok (h_norm (Z.rem a b)).
Definition big_mod_big (a b : Z) : outcome ival :=
  if b =? 0 then Err E_ZERO_DIV else Ok (h_norm (Z.rem a b)).

(* value.AddInts etc.: `if left.IsReference() { BigInt(left.Pointer()).AddInt(right) }
   else left.AsSmallInt().AddInt(right)`; XInt: `if other.IsSmallInt() {..SmallInt} else {..BigInt}` *)
Definition h_add (x y : ival) : ival :=
  match x with
  | Big a => match y with Small b => big_add_small a b | Big b => big_add_big a b end
  | Small a => match y with Small b => small_add_small a b | Big b => small_add_big a b end
  end.
Definition h_sub (x y : ival) : ival :=
  match x with
  | Big a => match y with Small b => big_sub_small a b | Big b => big_sub_big a b end
  | Small a => match y with Small b => small_sub_small a b | Big b => small_sub_big a b end
  end.
Definition h_mul (x y : ival) : ival :=
  match x with
  | Big a => match y with Small b => big_mul_small a b | Big b => big_mul_big a b end
  | Small a => match y with Small b => small_mul_small a b | Big b => small_mul_big a b end
  end.
Definition h_div (x y : ival) : outcome ival :=
  match x with
  | Big a => match y with Small b => big_div_small a b | Big b => big_div_big a b end
  | Small a => match y with Small b => small_div_small a b | Big b => small_div_big a b end
  end.
Definition h_mod (x y : ival) : outcome ival :=
  match x with
  | Big a => match y with Small b => big_mod_small a b | Big b => big_mod_big a b end
  | Small a => match y with Small b => small_mod_small a b | Big b => small_mod_big a b end
  end.

(* the helper called for each operator of C06's `binop` *)
Definition helper (o : binop) (x y : ival) : outcome ival :=
  match o with
  | OpAdd => Ok (h_add x y) | OpSub => Ok (h_sub x y) | OpMul => Ok (h_mul x y)
  | OpDiv => h_div x y | OpMod => h_mod x y
  end.

(* comparisons: value.GreaterThanInts, GreaterThanEqualInts, LessThanInts, LessThanEqualInts,
   EqualInts -> machine comparison between two SmallInts, big.Int.Cmp otherwise *)
Inductive hcmp := HGt | HGe | HLt | HLe | HEq.
Definition h_bigcmp (a b : Z) : Z := match a ?= b with Lt => -1 | Eq => 0 | Gt => 1 end.
Definition h_cmp (o : hcmp) (x y : ival) : bool :=
  match x, y with
  | Small a, Small b =>
      match o with HGt => a >? b | HGe => a >=? b | HLt => a <? b | HLe => a <=? b | HEq => a =? b end
  | _, _ =>
      let c := h_bigcmp (den x) (den y) in
      match o with HGt => c =? 1 | HGe => c >=? 0 | HLt => c =? -1 | HLe => c <=? 0 | HEq => c =? 0 end
  end.
Definition hcmp_spec (o : hcmp) (a b : Z) : bool :=
  match o with HGt => a >? b | HGe => a >=? b | HLt => a <? b | HLe => a <=? b | HEq => a =? b end.

(* ================================================================ Part B: language and S *)

Inductive cop := CLt | CLe | CGt | CGe | CEq | CNe.

(* the four bounded range operators: closed `...`, right-open `..<`, left-open `<..`, open `<.<` *)
Inductive rop := RClosed | RRightOpen | RLeftOpen | ROpen.

Inductive expr :=
| EInt (z : Z)
| EBool (b : bool)
| EStr (s : string)
| EVar (x : nat)                       (* parameter or local, by slot *)
| EBin (o : binop) (a b : expr)        (* Int + - * / % *)
| ENeg (a : expr)
| ECmp (o : cop) (a b : expr)          (* Int comparisons *)
| ENot (a : expr)
| EAnd (a b : expr)                    (* short circuit *)
| EOr (a b : expr)
| ECat (a b : expr)                    (* String + String *)
| EInspect (a : expr)                  (* Int#inspect, Bool#inspect *)
| ECall (f : nat) (args : list expr)
| ENil
| ESym (s : string)                    (* :name *)
| EChar (s : string)                   (* `c` *)
| ENew (c : nat) (k : expr)            (* K<c>(k): instance of user class c, field @k := k *)
| EField                               (* @k of self (slot 0 of a class method) *)
| ESend (r : expr) (name : nat) (args : list expr)   (* r.n<name>(args), dynamic dispatch *)
| EList (es : list expr)               (* [e, ...] *)
| ERange (o : rop) (a b : expr).       (* a...b  a..<b  a<..b  a<.<b  (Int bounds) *)

Inductive stmt :=
| SAssign (x : nat) (e : expr)
| SPrint (e : expr)                    (* println(<String>) *)
| SIf (c : expr) (t e : list stmt)
| SWhile (c : expr) (b : list stmt)
| SReturn (e : expr)
| SExpr (e : expr)
| SForIn (x : nat) (e : expr) (b : list stmt).   (* for <slot x> in e ... end *)

(* a method: number of parameters, initial values of its other locals, body, final expression *)
Record meth := { m_params : nat; m_locals : list expr; m_body : list stmt; m_ret : expr }.
(* a user class: optional superclass (index into the class table) and its OWN methods, keyed by
   method-name index.  A class method sees self in slot 0, then parameters, then locals. *)
Record cls := { c_parent : option nat; c_meths : list (nat * meth) }.
Record prog := { p_meths : list meth; p_locals : list expr; p_main : list stmt;
                 p_classes : list cls }.

Inductive val :=
| VInt (z : Z) | VBool (b : bool) | VStr (s : string)
| VSym (s : string) | VChar (s : string) | VNil
| VObj (c : nat) (k : Z)               (* instance of class c with field @k = k *)
| VList (l : list val)
| VRange (o : rop) (a b : Z).          (* a bounded Int range value *)

(* the integers a range with Int bounds describes, in iteration order: from a (closed start) or
   a + 1 (open start) up to b (closed end) or b - 1 (open end), step 1; empty when the first
   exceeds the last *)
Definition range_first (o : rop) (a : Z) : Z :=
  match o with RClosed | RRightOpen => a | RLeftOpen | ROpen => a + 1 end.
Definition range_last (o : rop) (b : Z) : Z :=
  match o with RClosed | RLeftOpen => b | RRightOpen | ROpen => b - 1 end.
Definition relements (o : rop) (a b : Z) : list Z :=
  let lo := range_first o a in
  map (fun i => lo + Z.of_nat i) (seq 0 (Z.to_nat (range_last o b - lo + 1))).

(* method lookup by runtime class: the class's own method of that name, else the nearest
   ancestor's; d bounds the length of the ancestor chain walked *)
Fixpoint assoc_nat {A} (k : nat) (l : list (nat * A)) : option A :=
  match l with
  | [] => None
  | (k', a) :: r => if Nat.eqb k k' then Some a else assoc_nat k r
  end.
Fixpoint find_meth (d : nat) (cs : list cls) (c name : nat) : option meth :=
  match d with
  | O => None
  | S d' =>
    match nth_error cs c with
    | None => None
    | Some k =>
      match assoc_nat name (c_meths k) with
      | Some m => Some m
      | None => match c_parent k with Some q => find_meth d' cs q name | None => None end
      end
    end
  end.
Definition dispatch (cs : list cls) (c name : nat) : option meth :=
  find_meth (S (List.length cs)) cs c name.

(* outcome of evaluating something: a value, an Elk error (class, message), a type
   confusion (never happens for well-typed programs), or fuel exhaustion *)
Inductive res (A : Type) :=
| ROk (a : A) (out : list string)
| RErr (cls msg : string) (out : list string)
| RStuck (out : list string)
| RFuel (out : list string).
Arguments ROk {A}. Arguments RErr {A}. Arguments RStuck {A}. Arguments RFuel {A}.

Definition rbind {A B} (r : res A) (f : A -> list string -> res B) : res B :=
  match r with
  | ROk a out => f a out
  | RErr c m out => RErr c m out
  | RStuck out => RStuck out
  | RFuel out => RFuel out
  end.

Definition zero_div_class : string := "Std::ZeroDivisionError".
Definition zero_div_msg : string := "cannot divide by zero".

Definition z_to_string (z : Z) : string := NilZero.string_of_int (Z.to_int z).
(* Int#inspect, Bool#inspect, String#inspect (literal text is [a-z0-9 ] only: no escapes),
   Symbol#inspect (identifier-like names only), Char#inspect, Nil#inspect *)
Definition inspect_val (v : val) : option string :=
  match v with
  | VInt z => Some (z_to_string z)
  | VBool true => Some "true"%string
  | VBool false => Some "false"%string
  | VStr s => Some (String """"%char s ++ String """"%char EmptyString)%string
  | VSym s => Some (String ":"%char s)
  | VChar s => Some (String "`"%char s ++ String "`"%char EmptyString)%string
  | VNil => Some "nil"%string
  | VObj _ _ => None
  | VList _ => None
  | VRange _ _ _ => None
  end.

Definition cop_eval (o : cop) (a b : Z) : bool :=
  match o with
  | CLt => a <? b | CLe => a <=? b | CGt => a >? b | CGe => a >=? b
  | CEq => a =? b | CNe => negb (a =? b)
  end.

Fixpoint set_nth {A} (n : nat) (v : A) (l : list A) : list A :=
  match n, l with
  | O, _ :: t => v :: t
  | S k, h :: t => h :: set_nth k v t
  | _, [] => []
  end.

(* how a statement list ends *)
Inductive flow := FNormal (env : list val) | FReturn (v : val).

(* evaluate a list of expressions left to right with the evaluator `ev`, threading the output *)
Fixpoint map_eval (ev : list string -> expr -> res val) (es : list expr) (out : list string)
  : res (list val) :=
  match es with
  | [] => ROk [] out
  | e1 :: r =>
      rbind (ev out e1) (fun v out1 =>
      rbind (map_eval ev r out1) (fun vs out2 => ROk (v :: vs) out2))
  end.

(* run `body` for every element of l in order, threading environment and output; a `return`
   inside the body ends the loop *)
Fixpoint iter_list (body : val -> list val -> list string -> res flow) (l : list val)
  (env : list val) (out : list string) : res flow :=
  match l with
  | [] => ROk (FNormal env) out
  | v :: r =>
      rbind (body v env out) (fun fl out1 =>
        match fl with
        | FReturn x => ROk (FReturn x) out1
        | FNormal env' => iter_list body r env' out1
        end)
  end.

Fixpoint eval (fuel : nat) (p : prog) (env : list val) (out : list string) (e : expr) {struct fuel}
  : res val :=
  match fuel with
  | O => RFuel out
  | S n =>
    match e with
    | EInt z => ROk (VInt z) out
    | EBool b => ROk (VBool b) out
    | EStr s => ROk (VStr s) out
    | EVar x => match nth_error env x with Some v => ROk v out | None => RStuck out end
    | EBin o a b =>
        rbind (eval n p env out a) (fun va out1 =>
        rbind (eval n p env out1 b) (fun vb out2 =>
          match va, vb with
          | VInt x, VInt y =>
              match spec o x y with
              | Some z => ROk (VInt z) out2
              | None => RErr zero_div_class zero_div_msg out2
              end
          | _, _ => RStuck out2
          end))
    | ENeg a =>
        rbind (eval n p env out a) (fun va out1 =>
          match va with VInt x => ROk (VInt (- x)) out1 | _ => RStuck out1 end)
    | ECmp o a b =>
        rbind (eval n p env out a) (fun va out1 =>
        rbind (eval n p env out1 b) (fun vb out2 =>
          match va, vb with
          | VInt x, VInt y => ROk (VBool (cop_eval o x y)) out2
          | _, _ => RStuck out2
          end))
    | ENot a =>
        rbind (eval n p env out a) (fun va out1 =>
          match va with VBool x => ROk (VBool (negb x)) out1 | _ => RStuck out1 end)
    | EAnd a b =>
        rbind (eval n p env out a) (fun va out1 =>
          match va with
          | VBool false => ROk (VBool false) out1
          | VBool true => eval n p env out1 b
          | _ => RStuck out1
          end)
    | EOr a b =>
        rbind (eval n p env out a) (fun va out1 =>
          match va with
          | VBool true => ROk (VBool true) out1
          | VBool false => eval n p env out1 b
          | _ => RStuck out1
          end)
    | ECat a b =>
        rbind (eval n p env out a) (fun va out1 =>
        rbind (eval n p env out1 b) (fun vb out2 =>
          match va, vb with
          | VStr x, VStr y => ROk (VStr (x ++ y)) out2
          | _, _ => RStuck out2
          end))
    | EInspect a =>
        rbind (eval n p env out a) (fun va out1 =>
          match inspect_val va with
          | Some t => ROk (VStr t) out1
          | None => RStuck out1
          end)
    | ECall f args =>
        match nth_error (p_meths p) f with
        | None => RStuck out
        | Some m =>
          rbind (map_eval (fun o e1 => eval n p env o e1) args out) (fun vs out1 =>
            if negb (Nat.eqb (List.length vs) (m_params m)) then RStuck out1 else
            (* the other locals start from constant initialisers *)
            rbind (map_eval (fun o e1 => eval n p [] o e1) (m_locals m) out1) (fun ls out2 =>
              let env' := (vs ++ ls)%list in
              rbind (exec n p env' out2 (m_body m)) (fun fl out3 =>
                match fl with
                | FReturn v => ROk v out3
                | FNormal env'' => eval n p env'' out3 (m_ret m)
                end)))
        end
    | ENil => ROk VNil out
    | ESym s => ROk (VSym s) out
    | EChar s => ROk (VChar s) out
    | ENew c k =>
        match nth_error (p_classes p) c with
        | None => RStuck out
        | Some _ =>
          rbind (eval n p env out k) (fun vk out1 =>
            match vk with VInt z => ROk (VObj c z) out1 | _ => RStuck out1 end)
        end
    | EField =>
        match env with
        | VObj _ z :: _ => ROk (VInt z) out
        | _ => RStuck out
        end
    | ESend r name args =>
        rbind (eval n p env out r) (fun vr out0 =>
          match vr with
          | VObj c _ =>
            (* dynamic dispatch: by the runtime class c of the receiver *)
            match dispatch (p_classes p) c name with
            | None => RStuck out0
            | Some m =>
              rbind (map_eval (fun o e1 => eval n p env o e1) args out0) (fun vs out1 =>
                if negb (Nat.eqb (List.length vs) (m_params m)) then RStuck out1 else
                rbind (map_eval (fun o e1 => eval n p [] o e1) (m_locals m) out1) (fun ls out2 =>
                  let env' := (vr :: vs ++ ls)%list in
                  rbind (exec n p env' out2 (m_body m)) (fun fl out3 =>
                    match fl with
                    | FReturn v => ROk v out3
                    | FNormal env'' => eval n p env'' out3 (m_ret m)
                    end)))
            end
          | _ => RStuck out0
          end)
    | EList es =>
        rbind (map_eval (fun o e1 => eval n p env o e1) es out) (fun vs out1 => ROk (VList vs) out1)
    | ERange o a b =>
        rbind (eval n p env out a) (fun va out1 =>
        rbind (eval n p env out1 b) (fun vb out2 =>
          match va, vb with
          | VInt x, VInt y => ROk (VRange o x y) out2
          | _, _ => RStuck out2
          end))
    end
  end
with exec (fuel : nat) (p : prog) (env : list val) (out : list string) (ss : list stmt) {struct fuel}
  : res flow :=
  match fuel with
  | O => RFuel out
  | S n =>
    match ss with
    | [] => ROk (FNormal env) out
    | s :: rest =>
      match s with
      | SAssign x e =>
          rbind (eval n p env out e) (fun v out1 => exec n p (set_nth x v env) out1 rest)
      | SPrint e =>
          rbind (eval n p env out e) (fun v out1 =>
            match v with
            | VStr t => exec n p env (t :: out1) rest
            | _ => RStuck out1
            end)
      | SIf c t e =>
          rbind (eval n p env out c) (fun v out1 =>
            match v with
            | VBool b =>
                rbind (exec n p env out1 (if b then t else e)) (fun fl out2 =>
                  match fl with
                  | FReturn r => ROk (FReturn r) out2
                  | FNormal env' => exec n p env' out2 rest
                  end)
            | _ => RStuck out1
            end)
      | SWhile c b =>
          rbind (eval n p env out c) (fun v out1 =>
            match v with
            | VBool false => exec n p env out1 rest
            | VBool true =>
                rbind (exec n p env out1 b) (fun fl out2 =>
                  match fl with
                  | FReturn r => ROk (FReturn r) out2
                  | FNormal env' => exec n p env' out2 (SWhile c b :: rest)
                  end)
            | _ => RStuck out1
            end)
      | SReturn e =>
          rbind (eval n p env out e) (fun v out1 => ROk (FReturn v) out1)
      | SExpr e =>
          rbind (eval n p env out e) (fun _ out1 => exec n p env out1 rest)
      | SForIn x e b0 =>
          rbind (eval n p env out e) (fun v out1 =>
            match v with
            | VList l =>
                rbind (iter_list (fun v1 env1 o1 => exec n p (set_nth x v1 env1) o1 b0) l env out1)
                  (fun fl out2 =>
                    match fl with
                    | FReturn r => ROk (FReturn r) out2
                    | FNormal env' => exec n p env' out2 rest
                    end)
            | VRange o a b =>
                (* a range is iterated over exactly the integers it describes, in order *)
                rbind (iter_list (fun v1 env1 o1 => exec n p (set_nth x v1 env1) o1 b0)
                         (map VInt (relements o a b)) env out1)
                  (fun fl out2 =>
                    match fl with
                    | FReturn r => ROk (FReturn r) out2
                    | FNormal env' => exec n p env' out2 rest
                    end)
            | _ => RStuck out1
            end)
      end
    end
  end.

(* ================================================================ Part C: observations *)

(* what is observed of one finished run of a back end: the lines written to standard output,
   the uncaught-error report (class, message) if any, and the process exit status *)
Record obs := { o_out : list string; o_err : option (string * string); o_status : Z }.

(* the run of the reference interpreter: main's locals, then main's statements *)
Inductive sresult := SDone (o : obs) | SStuck | SOutOfFuel.

Definition Sref (fuel : nat) (p : prog) : sresult :=
  match rbind (map_eval (fun o e1 => eval fuel p [] o e1) (p_locals p) []) (fun env out => exec fuel p env out (p_main p)) with
  | ROk _ out => SDone {| o_out := rev out; o_err := None; o_status := 0 |}
  | RErr c m out => SDone {| o_out := rev out; o_err := Some (c, m); o_status := 1 |}
  | RStuck _ => SStuck
  | RFuel _ => SOutOfFuel
  end.

(* same standard output, same uncaught-error class and message, same success/failure status
   (exit statuses are compared as zero / non-zero) *)
Definition opt_pair_eqb (a b : option (string * string)) : bool :=
  match a, b with
  | None, None => true
  | Some (c1, m1), Some (c2, m2) => String.eqb c1 c2 && String.eqb m1 m2
  | _, _ => false
  end.
Definition obs_equiv (a b : obs) : Prop :=
  o_out a = o_out b /\ o_err a = o_err b /\ (o_status a = 0 <-> o_status b = 0).
Definition obs_equivb (a b : obs) : bool :=
  (if list_eq_dec string_dec (o_out a) (o_out b) then true else false)
  && opt_pair_eqb (o_err a) (o_err b)
  && Bool.eqb (o_status a =? 0) (o_status b =? 0).

(* a back end maps a program to an observation (None: it did not produce a finished run);
   it agrees with S on p when S finishes and the observations are equivalent *)
Definition backend := prog -> option obs.
Definition agrees_with_S (fuel : nat) (b : backend) (p : prog) : Prop :=
  exists o so, b p = Some o /\ Sref fuel p = SDone so /\ obs_equiv o so.
