(* C30 — executable reference model of Elk pattern matching (switch / match).
   Mirrors the structure of compiler/bytecode_compiler.go `pattern` (3868-4535) and
   `compileSwitchExpressionNode` (4551-4589):
     literal           DUP; lit; EQUAL
     < <= > >= n       same class as the literal (IS_A) and then the comparison
     range             range.contains(v)   (Int bounds only here)
     identifier        bind, always true;   `_` binds nothing
     [..] / %[..]      IS_A List (resp. Tuple; a List is a Tuple), length test (== n, or >= n with a
                       rest element), elements before the rest by index from the front, the rest
                       collected into a fresh list, elements after it by index from the back
     {..} / %{..}      IS_A Map (resp. Record; a Map is a Record), then for every entry
                       `v[key]` matched against the sub-pattern (a missing key reads as nil)
     p || q            p, and only when p fails, q      p && q   p then q on the same value
     p as x            bind x to the value, then p
   Strings and symbols are atoms identified by a number (only equality is observable here).
   No proofs in this file. *)
From Coq Require Import ZArith List Bool.
Import ListNotations.
Open Scope Z_scope.

Inductive atom : Type :=
| AInt (z : Z) | AStr (id : Z) | ASym (id : Z) | ANil | ABool (b : bool).

Inductive value : Type :=
| VAtom (a : atom)
| VList (l : list value)
| VTuple (l : list value)
| VMap (kvs : list (atom * value))
| VRec (kvs : list (atom * value)).

Definition var := Z.
Inductive cmpop : Type := Lt | Le | Gt | Ge.
(* a...b   a<.<b   a<..b   a..<b *)
Inductive rkind : Type := RClosed | ROpen | RLeftOpen | RRightOpen.
Inductive rest : Type := RNone | RAnon | RNamed (x : var).

Inductive pat : Type :=
| PLit (a : atom)
| PCmp (o : cmpop) (z : Z)
| PRange (k : rkind) (lo hi : option Z)
| PBind (x : var)
| PWild
| PSeq (tuple : bool) (pre : list pat) (r : rest) (post : list pat)
| PDict (record : bool) (es : list (atom * pat))
| POr (p q : pat)
| PAnd (p q : pat)
| PAs (p : pat) (x : var).

Definition env := list (var * value).

Definition atom_eqb (a b : atom) : bool :=
  match a, b with
  | AInt x, AInt y => x =? y
  | AStr x, AStr y => x =? y
  | ASym x, ASym y => x =? y
  | ANil, ANil => true
  | ABool x, ABool y => Bool.eqb x y
  | _, _ => false
  end.

Definition cmp (o : cmpop) (n z : Z) : bool :=
  match o with Lt => n <? z | Le => n <=? z | Gt => n >? z | Ge => n >=? z end.

Definition lo_ok (k : rkind) (lo : option Z) (n : Z) : bool :=
  match lo with
  | None => true
  | Some l => match k with RClosed | RRightOpen => l <=? n | ROpen | RLeftOpen => l <? n end
  end.
Definition hi_ok (k : rkind) (hi : option Z) (n : Z) : bool :=
  match hi with
  | None => true
  | Some h => match k with RClosed | RLeftOpen => n <=? h | ROpen | RRightOpen => n <? h end
  end.
Definition in_range (k : rkind) (lo hi : option Z) (n : Z) : bool := lo_ok k lo n && hi_ok k hi n.

(* `v[k]`: first entry with an equal key; nil when the key is absent (HashMap#[] / HashRecord#[]) *)
Fixpoint lookup (k : atom) (kvs : list (atom * value)) : value :=
  match kvs with
  | [] => VAtom ANil
  | (k', w) :: r => if atom_eqb k k' then w else lookup k r
  end.

(* IS_A ListMixin / TupleMixin: ArrayList includes both, ArrayTuple only Tuple *)
Definition seq_elems (tuple : bool) (v : value) : option (list value) :=
  match v with
  | VList l => Some l
  | VTuple l => if tuple then Some l else None
  | _ => None
  end.
(* IS_A MapMixin / RecordMixin: HashMap includes both, HashRecord only Record *)
Definition dict_entries (record : bool) (v : value) : option (list (atom * value)) :=
  match v with
  | VMap kvs => Some kvs
  | VRec kvs => if record then Some kvs else None
  | _ => None
  end.

Definition rest_env (r : rest) (mid : list value) : env :=
  match r with RNamed x => [(x, VList mid)] | _ => [] end.
(* EQUAL_INT without a rest element, GREATER_EQUAL_I with one (k = number of element patterns) *)
Definition len_ok (r : rest) (k n : nat) : bool :=
  match r with RNone => (n =? k)%nat | _ => (k <=? n)%nat end.

(* element-wise matching of equally long lists, environments concatenated in order *)
Definition match_all (m : pat -> value -> option env) : list pat -> list value -> option env :=
  fix go (ps : list pat) (vs : list value) : option env :=
    match ps, vs with
    | [], [] => Some []
    | p :: ps', v :: vs' =>
        match m p v with
        | Some e => match go ps' vs' with Some e' => Some (e ++ e') | None => None end
        | None => None
        end
    | _, _ => None
    end.

Definition match_dict (m : pat -> value -> option env) (kvs : list (atom * value)) : list (atom * pat) -> option env :=
  fix go (es : list (atom * pat)) : option env :=
    match es with
    | [] => Some []
    | (k, p) :: es' =>
        match m p (lookup k kvs) with
        | Some e => match go es' with Some e' => Some (e ++ e') | None => None end
        | None => None
        end
    end.

Fixpoint matches (p : pat) (v : value) : option env :=
  match p with
  | PLit a => match v with VAtom b => if atom_eqb a b then Some [] else None | _ => None end
  | PCmp o z => match v with VAtom (AInt n) => if cmp o n z then Some [] else None | _ => None end
  | PRange k lo hi => match v with VAtom (AInt n) => if in_range k lo hi n then Some [] else None | _ => None end
  | PBind x => Some [(x, v)]
  | PWild => Some []
  | PSeq tuple pre r post =>
      match seq_elems tuple v with
      | None => None
      | Some l =>
          let np := length pre in
          let nq := length post in
          let n := length l in
          if len_ok r (np + nq) n then
            match match_all matches pre (firstn np l) with
            | None => None
            | Some e1 =>
                match match_all matches post (skipn (n - nq) l) with
                | None => None
                | Some e3 => Some (e1 ++ rest_env r (firstn (n - np - nq) (skipn np l)) ++ e3)
                end
            end
          else None
      end
  | PDict record es =>
      match dict_entries record v with
      | None => None
      | Some kvs => match_dict matches kvs es
      end
  | POr p q => match matches p v with Some e => Some e | None => matches q v end
  | PAnd p q =>
      match matches p v with
      | Some e1 => match matches q v with Some e2 => Some (e1 ++ e2) | None => None end
      | None => None
      end
  | PAs p x => match matches p v with Some e => Some ((x, v) :: e) | None => None end
  end.

Definition matched (o : option env) : bool := match o with Some _ => true | None => false end.

(* switch: clauses tried in order, the first whose pattern matches is selected *)
Fixpoint switch_from (i : nat) (cs : list pat) (v : value) : option (nat * env) :=
  match cs with
  | [] => None
  | p :: cs' => match matches p v with Some e => Some (i, e) | None => switch_from (S i) cs' v end
  end.
Definition switch (cs : list pat) (v : value) : option (nat * env) := switch_from 0 cs v.

(* variables of a pattern in binding order *)
Definition rest_vars (r : rest) : list var := match r with RNamed x => [x] | _ => [] end.
Fixpoint vars (p : pat) : list var :=
  match p with
  | PBind x => [x]
  | PSeq _ pre r post => flat_map vars pre ++ rest_vars r ++ flat_map vars post
  | PDict _ es => flat_map (fun kp => vars (snd kp)) es
  | POr p q => vars p ++ vars q
  | PAnd p q => vars p ++ vars q
  | PAs p x => x :: vars p
  | _ => []
  end.

(* no alternative anywhere in the pattern *)
Fixpoint orfree (p : pat) : bool :=
  match p with
  | PSeq _ pre _ post => forallb orfree pre && forallb orfree post
  | PDict _ es => forallb (fun kp => orfree (snd kp)) es
  | POr _ _ => false
  | PAnd p q => orfree p && orfree q
  | PAs p _ => orfree p
  | _ => true
  end.

(* variables bound by a successful match when alternatives are balanced: at `p || q` those of p *)
Fixpoint bound_vars (p : pat) : list var :=
  match p with
  | PBind x => [x]
  | PSeq _ pre r post => flat_map bound_vars pre ++ rest_vars r ++ flat_map bound_vars post
  | PDict _ es => flat_map (fun kp => bound_vars (snd kp)) es
  | POr p q => bound_vars p
  | PAnd p q => bound_vars p ++ bound_vars q
  | PAs p x => x :: bound_vars p
  | _ => []
  end.

(* every alternative binds the same variables, in the same order, on both sides *)
Definition var_list_eqb (a b : list var) : bool :=
  (length a =? length b)%nat && forallb (fun xy => fst xy =? snd xy) (combine a b).
Fixpoint balanced (p : pat) : bool :=
  match p with
  | PSeq _ pre _ post => forallb balanced pre && forallb balanced post
  | PDict _ es => forallb (fun kp => balanced (snd kp)) es
  | POr p q => balanced p && balanced q && var_list_eqb (bound_vars p) (bound_vars q)
  | PAnd p q => balanced p && balanced q
  | PAs p _ => balanced p
  | _ => true
  end.

(* value of a variable after the match: the last assignment wins *)
Fixpoint env_get (x : var) (e : env) : option value :=
  match e with
  | [] => None
  | (y, w) :: r => match env_get x r with Some w' => Some w' | None => if x =? y then Some w else None end
  end.

(* "w is a part of v": what a variable may be bound to *)
Inductive part : value -> value -> Prop :=
| part_refl : forall v, part v v
| part_elem : forall v tuple l w u, seq_elems tuple v = Some l -> In w l -> part w u -> part v u
| part_slice : forall v tuple l a m b, seq_elems tuple v = Some l -> l = a ++ m ++ b -> part v (VList m)
| part_key : forall v record kvs k u, dict_entries record v = Some kvs -> part (lookup k kvs) u -> part v u.
