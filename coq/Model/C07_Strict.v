(* C07 — executable model of Elk's fixed-width integers (value/int8.go ... uint64.go, uint.go,
   the unary cases of value/value.go, and the four generic shift helpers of
   value/strict_numeric.go) on a 64-bit system (Int64/UInt64/UInt are inline values, UInt is
   64 bits wide).  A value of an integer type (s, w) — s = true for signed, w = width in bits —
   is the mathematical integer it denotes; Go's arithmetic on sized integers is written with
   the explicit wrap of Base/GoSem.  No proofs here so the model always runs. *)
From Elk Require Export Base.GoSem.
Open Scope Z_scope.

(* ---- integer types ---- *)
Definition wrap (s : bool) (w z : Z) : Z := if s then wrap_s w z else wrap_u w z.
Definition fits (s : bool) (w z : Z) : bool := if s then fits_s w z else fits_u w z.

(* ---- Go primitives on a value x of type (s, w) ---- *)
(* x << n for a count n that is unsigned (or signed and already known non-negative): the
   bits shifted out are lost; the guard keeps the model executable for counts up to 2^64 *)
Definition go_shl (s : bool) (w x n : Z) : Z :=
  if n >=? w then 0 else wrap s w (Z.shiftl x n).
(* x >> n, same kind of count: sign-filling for negative x (signed types), zero-filling
   otherwise (x >= 0 always holds for unsigned types) *)
Definition go_shr (w x n : Z) : Z :=
  if n >=? w then (if x <? 0 then -1 else 0) else Z.shiftr x n.
(* a shift whose count has a signed Go type panics when the count is negative *)
Definition go_shl_sc (s : bool) (w x n : Z) : outcome Z :=
  if n <? 0 then Panic P_NEG_SHIFT else Ok (go_shl s w x n).
Definition go_shr_sc (w x n : Z) : outcome Z :=
  if n <? 0 then Panic P_NEG_SHIFT else Ok (go_shr w x n).
(* LogicalRightShift8/16/32/64: L(uintW(left) >> right) *)
Definition logical_shr (s : bool) (w x n : Z) : Z :=
  wrap s w (go_shr w (wrap_u w x) n).
(* uint64(-r) for r of a signed Go type of width kw (the negation wraps at kw bits, the
   conversion reinterprets the sign-extended value as 64 unsigned bits) *)
Definition neg_count (kw r : Z) : Z := wrap_u 64 (wrap_s kw (- r)).

(* ---- arithmetic: i + o, i - o, i * o, -i, i / o, i % o on sized ints ---- *)
Definition iadd (s : bool) (w a b : Z) : Z := wrap s w (a + b).
Definition isub (s : bool) (w a b : Z) : Z := wrap s w (a - b).
Definition imul (s : bool) (w a b : Z) : Z := wrap s w (a * b).
Definition ineg (s : bool) (w a : Z) : Z := wrap s w (- a).
Definition iinc (s : bool) (w a : Z) : Z := wrap s w (a + 1).
Definition idec (s : bool) (w a : Z) : Z := wrap s w (a - 1).
(* DivideIntN / ModuloIntN: explicit zero test, then Go's truncated / and % (MinInt / -1
   wraps, MinInt % -1 = 0) *)
Definition idiv (s : bool) (w a b : Z) : outcome Z :=
  if b =? 0 then Err E_ZERO_DIV else Ok (wrap s w (Z.quot a b)).
Definition imod (s : bool) (w a b : Z) : outcome Z :=
  if b =? 0 then Err E_ZERO_DIV else Ok (wrap s w (Z.rem a b)).
(* bitwise operators act on the w-bit two's-complement patterns *)
Definition iand (s : bool) (w a b : Z) : Z := wrap s w (Z.land a b).
Definition ior (s : bool) (w a b : Z) : Z := wrap s w (Z.lor a b).
Definition ixor (s : bool) (w a b : Z) : Z := wrap s w (Z.lxor a b).
Definition iandnot (s : bool) (w a b : Z) : Z := wrap s w (Z.ldiff a b).
Definition inot (s : bool) (w a : Z) : Z := wrap s w (Z.lnot a).
(* ExponentiateIntN (after the fix: the counter counts down, so it cannot wrap):
     if other <= 0 { return 1 }; result := i; for j := other; j > 1; j-- { result *= i } *)
Fixpoint pow_loop (s : bool) (w a : Z) (n : nat) (acc : Z) : Z :=
  match n with O => acc | S m => pow_loop s w a m (wrap s w (acc * a)) end.
Definition ipow (s : bool) (w a b : Z) : Z :=
  if b <=? 0 then 1 else pow_loop s w a (Z.to_nat (b - 1)) a.
(* the loop runs b-1 times; the driver only asks for exponents below 2^16 *)

(* ---- right operands of the shift operators ---- *)
Inductive rkind : Type :=
| KSmallInt | KBigInt
| KInt64 | KInt32 | KInt16 | KInt8
| KUInt64 | KUInt32 | KUInt16 | KUInt8 | KUInt
| KOther.   (* anything that is not an integer (Float, String, ...): not admitted by AnyInt *)

(* headers/anyint.elh: AnyInt = Int | Int64 | Int32 | Int16 | Int8 | UInt64 | UInt32 | UInt16 | UInt8 | UInt *)
Definition admitted (k : rkind) : bool := match k with KOther => false | _ => true end.

(* which integers a value of the given kind can hold (a *BigInt may hold any integer, also
   one that would fit a SmallInt) *)
Definition kind_fits (k : rkind) (n : Z) : bool :=
  match k with
  | KSmallInt | KInt64 => fits_s 64 n
  | KInt32 => fits_s 32 n | KInt16 => fits_s 16 n | KInt8 => fits_s 8 n
  | KUInt64 | KUInt => fits_u 64 n
  | KUInt32 => fits_u 32 n | KUInt16 => fits_u 16 n | KUInt8 => fits_u 8 n
  | KBigInt => true
  | KOther => true
  end.

(* the `case <signed kind>` arms:   r := right.AsIntK()
     if r < 0 { return <reverse>(left, uint64(-r)) }; return left <op> r          *)
Definition signed_arm (kw r : Z) (rev : Z -> Z) (fwd : Z -> outcome Z) : outcome Z :=
  if r <? 0 then Ok (rev (neg_count kw r)) else fwd r.

(* a count too large for any Go integer (a *BigInt that is not IsSmallInt): the code uses
   the constant saturatingShift = MaxUint64 *)
Definition sat_count : Z := 2 ^ 64 - 1.

(* StrictIntLeftBitshift[T](left, right)  — `<<` of every sized type, `<<<` of unsigned ones *)
Definition left_bitshift (s : bool) (w a : Z) (k : rkind) (r : Z) : outcome Z :=
  match k with
  | KBigInt =>
      if fits64 r then signed_arm 64 r (go_shr w a) (go_shl_sc s w a)
      else if r <? 0 then Ok (go_shr w a sat_count) else Ok 0
  | KSmallInt => signed_arm 64 r (go_shr w a) (go_shl_sc s w a)
  | KInt64 => signed_arm 64 r (go_shr w a) (go_shl_sc s w a)
  | KInt32 => signed_arm 32 r (go_shr w a) (go_shl_sc s w a)
  | KInt16 => signed_arm 16 r (go_shr w a) (go_shl_sc s w a)
  | KInt8 => signed_arm 8 r (go_shr w a) (go_shl_sc s w a)
  | KUInt | KUInt64 | KUInt32 | KUInt16 | KUInt8 => Ok (go_shl s w a r)
  | KOther => Err E_TYPE
  end.

(* StrictIntRightBitshift[T](left, right) — `>>` of every sized type, `>>>` of unsigned ones *)
Definition right_bitshift (s : bool) (w a : Z) (k : rkind) (r : Z) : outcome Z :=
  match k with
  | KBigInt =>
      if fits64 r then signed_arm 64 r (go_shl s w a) (go_shr_sc w a)
      else if r <? 0 then Ok 0 else Ok (go_shr w a sat_count)
  | KSmallInt => signed_arm 64 r (go_shl s w a) (go_shr_sc w a)
  | KInt64 => signed_arm 64 r (go_shl s w a) (go_shr_sc w a)
  | KInt32 => signed_arm 32 r (go_shl s w a) (go_shr_sc w a)
  | KInt16 => signed_arm 16 r (go_shl s w a) (go_shr_sc w a)
  | KInt8 => signed_arm 8 r (go_shl s w a) (go_shr_sc w a)
  | KUInt | KUInt64 | KUInt32 | KUInt16 | KUInt8 => Ok (go_shr w a r)
  | KOther => Err E_TYPE
  end.

(* StrictIntLogicalLeftBitshift[T](left, right, shiftFunc) — `<<<` of signed types *)
Definition logical_left_bitshift (s : bool) (w a : Z) (k : rkind) (r : Z) : outcome Z :=
  match k with
  | KBigInt =>
      if fits64 r then signed_arm 64 r (logical_shr s w a) (go_shl_sc s w a)
      else Ok 0
  | KSmallInt => signed_arm 64 r (logical_shr s w a) (go_shl_sc s w a)
  | KInt64 => signed_arm 64 r (logical_shr s w a) (go_shl_sc s w a)
  | KInt32 => signed_arm 32 r (logical_shr s w a) (go_shl_sc s w a)
  | KInt16 => signed_arm 16 r (logical_shr s w a) (go_shl_sc s w a)
  | KInt8 => signed_arm 8 r (logical_shr s w a) (go_shl_sc s w a)
  | KUInt | KUInt64 | KUInt32 | KUInt16 | KUInt8 => Ok (go_shl s w a r)
  | KOther => Err E_TYPE
  end.

(* StrictIntLogicalRightBitshift[T](left, right, shiftFunc) — `>>>` of signed types *)
Definition logical_right_bitshift (s : bool) (w a : Z) (k : rkind) (r : Z) : outcome Z :=
  match k with
  | KBigInt =>
      if fits64 r then signed_arm 64 r (go_shl s w a) (fun n => Ok (logical_shr s w a n))
      else Ok 0
  | KSmallInt => signed_arm 64 r (go_shl s w a) (fun n => Ok (logical_shr s w a n))
  | KInt64 => signed_arm 64 r (go_shl s w a) (fun n => Ok (logical_shr s w a n))
  | KInt32 => signed_arm 32 r (go_shl s w a) (fun n => Ok (logical_shr s w a n))
  | KInt16 => signed_arm 16 r (go_shl s w a) (fun n => Ok (logical_shr s w a n))
  | KInt8 => signed_arm 8 r (go_shl s w a) (fun n => Ok (logical_shr s w a n))
  | KUInt | KUInt64 | KUInt32 | KUInt16 | KUInt8 => Ok (logical_shr s w a r)
  | KOther => Err E_TYPE
  end.

(* same-type shifts IntN.LeftBitshiftIntN / RightBitshiftIntN (used by the Go backend):
     if other < 0 { return i >> uintN(-other) }; return i << other     (signed)
     return i << other                                                  (unsigned)        *)
Definition same_neg_count (w r : Z) : Z := wrap_u w (wrap_s w (- r)).
Definition same_left (s : bool) (w a r : Z) : outcome Z :=
  if s then (if r <? 0 then Ok (go_shr w a (same_neg_count w r)) else go_shl_sc s w a r)
  else Ok (go_shl s w a r).
Definition same_right (s : bool) (w a r : Z) : outcome Z :=
  if s then (if r <? 0 then Ok (go_shl s w a (same_neg_count w r)) else go_shr_sc w a r)
  else Ok (go_shr w a r).

(* ---- the operators as Elk sees them ---- *)
Inductive shiftop := Shl | Shr | LShl | LShr.

(* vm/intN.go, vm/uintN.go and value.LeftBitshiftVal & co.: signed types use the logical
   helpers for <<< and >>>, unsigned types alias <<< to << and >>> to >> *)
Definition shift_impl (o : shiftop) (s : bool) (w a : Z) (k : rkind) (r : Z) : outcome Z :=
  match o with
  | Shl => left_bitshift s w a k r
  | Shr => right_bitshift s w a k r
  | LShl => if s then logical_left_bitshift s w a k r else left_bitshift s w a k r
  | LShr => if s then logical_right_bitshift s w a k r else right_bitshift s w a k r
  end.

(* the mathematical meaning (not meant to be executed: 2^n is materialised) *)
Definition shift_spec (o : shiftop) (s : bool) (w a n : Z) : Z :=
  match o with
  | Shl => if 0 <=? n then wrap s w (a * 2 ^ n) else a / 2 ^ (- n)
  | Shr => if 0 <=? n then a / 2 ^ n else wrap s w (a * 2 ^ (- n))
  | LShl => if 0 <=? n then wrap s w (a * 2 ^ n) else wrap s w (wrap_u w a / 2 ^ (- n))
  | LShr => if 0 <=? n then wrap s w (wrap_u w a / 2 ^ n) else wrap s w (a * 2 ^ (- n))
  end.

Inductive binop := OAdd | OSub | OMul | ODiv | OMod | OAnd | OOr | OXor | OAndNot | OPow.
Inductive unop := UNeg | UNot | UInc | UDec.

Definition bin_impl (o : binop) (s : bool) (w a b : Z) : outcome Z :=
  match o with
  | OAdd => Ok (iadd s w a b) | OSub => Ok (isub s w a b) | OMul => Ok (imul s w a b)
  | ODiv => idiv s w a b | OMod => imod s w a b
  | OAnd => Ok (iand s w a b) | OOr => Ok (ior s w a b) | OXor => Ok (ixor s w a b)
  | OAndNot => Ok (iandnot s w a b)
  | OPow => Ok (ipow s w a b)
  end.
Definition un_impl (o : unop) (s : bool) (w a : Z) : Z :=
  match o with
  | UNeg => ineg s w a | UNot => inot s w a | UInc => iinc s w a | UDec => idec s w a
  end.

(* exact integer meaning of the modular operators *)
Definition bin_exact (o : binop) (a b : Z) : Z :=
  match o with
  | OAdd => a + b | OSub => a - b | OMul => a * b
  | ODiv => Z.quot a b | OMod => Z.rem a b
  | OAnd => Z.land a b | OOr => Z.lor a b | OXor => Z.lxor a b | OAndNot => Z.ldiff a b
  | OPow => if b <=? 0 then 1 else a ^ b
  end.
Definition un_exact (o : unop) (a : Z) : Z :=
  match o with UNeg => - a | UNot => Z.lnot a | UInc => a + 1 | UDec => a - 1 end.
