(* C11 — type checking gives the same verdict under any parallel schedule.  Executable model only.

   checkMethodBodies (types/checker/method.go) hands every method body to its own goroutine
   through concurrent.Foreach (a semaphore of MethodCheckConcurrencyLimit slots).  The bodies
   share: the SyncDiagnosticList (append under a mutex), the symbol table (interning under
   a RWMutex, C26), caches (method cache / call caches: get-or-insert of a value that is a
   function of the key) and the read-only global environment.

   Model: a task is the list of atomic shared-state actions one body check performs; an
   execution is a list of events (task index, action) that is an interleaving of the tasks;
   [exec] folds the events over the shared state and records the response every action got.
   The concurrency limit only removes interleavings ([limit_ok]), so a statement about all
   interleavings covers every limit L >= 1.
   Names, cache keys and diagnostics are opaque integers. *)
From Coq Require Import ZArith List Bool Arith.
Import ListNotations.

Inductive action :=
| ADiag (d : Z)      (* SyncDiagnosticList.Append *)
| AIntern (n : Z)    (* SymbolTable.Add: id of the name, allocating the next id when new *)
| AMemo (k : Z)      (* cache get-or-insert; the cached value is a function of the key *)
| AEnv (k : Z).      (* read of the global environment (not written during body checks) *)

Inductive resp := RUnit | RId (i : nat) | RVal (v : Z).

Record shared := { diags : list Z; syms : list Z; cache : list Z }.

Fixpoint index (n : Z) (l : list Z) : option nat :=
  match l with
  | [] => None
  | h :: t => if Z.eqb n h then Some O else match index n t with Some i => Some (S i) | None => None end
  end.

Definition intern (n : Z) (l : list Z) : nat * list Z :=
  match index n l with Some i => (i, l) | None => (List.length l, l ++ [n]) end.

Definition cache_put (k : Z) (c : list Z) : list Z :=
  match index k c with Some _ => c | None => c ++ [k] end.

Definition step (memo env : Z -> Z) (s : shared) (a : action) : resp * shared :=
  match a with
  | ADiag d => (RUnit, {| diags := diags s ++ [d]; syms := syms s; cache := cache s |})
  | AIntern n => let '(i, l) := intern n (syms s) in
                 (RId i, {| diags := diags s; syms := l; cache := cache s |})
  | AMemo k => (RVal (memo k), {| diags := diags s; syms := syms s; cache := cache_put k (cache s) |})
  | AEnv k => (RVal (env k), s)
  end.

Fixpoint exec (memo env : Z -> Z) (ev : list (nat * action)) (s : shared) : list (nat * resp) * shared :=
  match ev with
  | [] => ([], s)
  | (t, a) :: r =>
      let '(x, s1) := step memo env s a in
      let '(xs, s2) := exec memo env r s1 in
      ((t, x) :: xs, s2)
  end.

(* what task t did / received, in its own order *)
Definition events_of {A} (t : nat) (ev : list (nat * A)) : list A :=
  map snd (filter (fun e => Nat.eqb (fst e) t) ev).

(* ev is an interleaving of the tasks: every task's actions, in program order, nothing else *)
Definition interleaving (tasks : list (list action)) (ev : list (nat * action)) : Prop :=
  (forall e, In e ev -> fst e < List.length tasks) /\
  (forall t, t < List.length tasks -> events_of t ev = nth t tasks []).

(* the sequential run: task 0 to completion, then task 1, ... *)
Fixpoint seq_from (t : nat) (tasks : list (list action)) : list (nat * action) :=
  match tasks with
  | [] => []
  | a :: r => map (pair t) a ++ seq_from (S t) r
  end.
Definition sequential (tasks : list (list action)) := seq_from 0 tasks.

(* necessary condition for an execution under concurrency limit L: at every moment at most L
   tasks have begun and not finished (each of them holds a semaphore slot) *)
Fixpoint count_open (tasks : list (list action)) (done : list nat) : nat :=
  match tasks, done with
  | a :: r, d :: ds => (if (Nat.ltb 0 d) && (Nat.ltb d (List.length a)) then 1 else 0) + count_open r ds
  | _, _ => 0
  end.
Fixpoint bump (t : nat) (done : list nat) : list nat :=
  match done, t with
  | d :: ds, O => S d :: ds
  | d :: ds, S k => d :: bump k ds
  | [], _ => []
  end.
Fixpoint limit_scan (L : nat) (tasks : list (list action)) (done : list nat) (ev : list (nat * action)) : bool :=
  match ev with
  | [] => true
  | (t, _) :: r => let d' := bump t done in
                   Nat.leb (count_open tasks d') L && limit_scan L tasks d' r
  end.
Definition limit_ok (L : nat) (tasks : list (list action)) (ev : list (nat * action)) : bool :=
  limit_scan L tasks (map (fun _ => O) tasks) ev.

(* the response an action gets when the final symbol table is S (ids never change once given) *)
Definition answer (memo env : Z -> Z) (S : list Z) (a : action) : resp :=
  match a with
  | ADiag _ => RUnit
  | AIntern n => match index n S with Some i => RId i | None => RUnit end
  | AMemo k => RVal (memo k)
  | AEnv k => RVal (env k)
  end.

(* the symbol-id renaming between two runs: id i of run 1 names nth i S1, whose id in run 2 is .. *)
Definition ren (S1 S2 : list Z) (r : resp) : resp :=
  match r with
  | RId i => match nth_error S1 i with
             | Some n => match index n S2 with Some j => RId j | None => r end
             | None => r
             end
  | _ => r
  end.

Definition diag_of (a : action) : list Z := match a with ADiag d => [d] | _ => [] end.
