(* C11 — type checking gives the same verdict under any parallel schedule.  Executable model only.

   checkMethodBodies (types/checker/method.go) hands every method body to its own goroutine
   through concurrent.Foreach (a semaphore of MethodCheckConcurrencyLimit slots).  The bodies
   share: the SyncDiagnosticList (append under a mutex), the symbol table (interning under
   a RWMutex, C26), caches (method cache / call caches: get-or-insert of a value that is a
   function of the key) and the read-only global environment.

   Model: a task is the list of atomic shared-state actions one body check performs; an
   execution is a list of events (task index, action) that is an interleaving of the tasks;
   [exec] folds the events over the shared state and records the response every action got.
   The concurrency limit only removes interleavings ([limit_ok]), so a statement about all
   interleavings covers every limit L >= 1.
   Names, cache keys and diagnostics are opaque integers. *)
From Coq Require Import ZArith List Bool Arith.
Import ListNotations.

Inductive action :=
| ADiag (d : Z)      (* SyncDiagnosticList.Append *)
| AIntern (n : Z)    (* SymbolTable.Add: id of the name, allocating the next id when new *)
| AMemo (k : Z)      (* cache get-or-insert; the cached value is a function of the key *)
| AEnv (k : Z).      (* read of the global environment (not written during body checks) *)

Inductive resp := RUnit | RId (i : nat) | RVal (v : Z).

Record shared := { diags : list Z; syms : list Z; cache : list Z }.

Fixpoint index (n : Z) (l : list Z) : option nat :=
  match l with
  | [] => None
  | h :: t => if Z.eqb n h then Some O else match index n t with Some i => Some (S i) | None => None end
  end.

Definition intern (n : Z) (l : list Z) : nat * list Z :=
  match index n l with Some i => (i, l) | None => (List.length l, l ++ [n]) end.

Definition cache_put (k : Z) (c : list Z) : list Z :=
  match index k c with Some _ => c | None => c ++ [k] end.

Definition step (memo env : Z -> Z) (s : shared) (a : action) : resp * shared :=
  match a with
  | ADiag d => (RUnit, {| diags := diags s ++ [d]; syms := syms s; cache := cache s |})
  | AIntern n => let '(i, l) := intern n (syms s) in
                 (RId i, {| diags := diags s; syms := l; cache := cache s |})
  | AMemo k => (RVal (memo k), {| diags := diags s; syms := syms s; cache := cache_put k (cache s) |})
  | AEnv k => (RVal (env k), s)
  end.

Fixpoint exec (memo env : Z -> Z) (ev : list (nat * action)) (s : shared) : list (nat * resp) * shared :=
  match ev with
  | [] => ([], s)
  | (t, a) :: r =>
      let '(x, s1) := step memo env s a in
      let '(xs, s2) := exec memo env r s1 in
      ((t, x) :: xs, s2)
  end.

(* what task t did / received, in its own order *)
Definition events_of {A} (t : nat) (ev : list (nat * A)) : list A :=
  map snd (filter (fun e => Nat.eqb (fst e) t) ev).

(* ev is an interleaving of the tasks: every task's actions, in program order, nothing else *)
Definition interleaving (tasks : list (list action)) (ev : list (nat * action)) : Prop :=
  (forall e, In e ev -> fst e < List.length tasks) /\
  (forall t, t < List.length tasks -> events_of t ev = nth t tasks []).

(* the sequential run: task 0 to completion, then task 1, ... *)
Fixpoint seq_from (t : nat) (tasks : list (list action)) : list (nat * action) :=
  match tasks with
  | [] => []
  | a :: r => map (pair t) a ++ seq_from (S t) r
  end.
Definition sequential (tasks : list (list action)) := seq_from 0 tasks.

(* necessary condition for an execution under concurrency limit L: at every moment at most L
   tasks have begun and not finished (each of them holds a semaphore slot) *)
Fixpoint count_open (tasks : list (list action)) (done : list nat) : nat :=
  match tasks, done with
  | a :: r, d :: ds => (if (Nat.ltb 0 d) && (Nat.ltb d (List.length a)) then 1 else 0) + count_open r ds
  | _, _ => 0
  end.
Fixpoint bump (t : nat) (done : list nat) : list nat :=
  match done, t with
  | d :: ds, O => S d :: ds
  | d :: ds, S k => d :: bump k ds
  | [], _ => []
  end.
Fixpoint limit_scan (L : nat) (tasks : list (list action)) (done : list nat) (ev : list (nat * action)) : bool :=
  match ev with
  | [] => true
  | (t, _) :: r => let d' := bump t done in
                   Nat.leb (count_open tasks d') L && limit_scan L tasks d' r
  end.
Definition limit_ok (L : nat) (tasks : list (list action)) (ev : list (nat * action)) : bool :=
  limit_scan L tasks (map (fun _ => O) tasks) ev.

(* the response an action gets when the final symbol table is S (ids never change once given) *)
Definition answer (memo env : Z -> Z) (S : list Z) (a : action) : resp :=
  match a with
  | ADiag _ => RUnit
  | AIntern n => match index n S with Some i => RId i | None => RUnit end
  | AMemo k => RVal (memo k)
  | AEnv k => RVal (env k)
  end.

(* the symbol-id renaming between two runs: id i of run 1 names nth i S1, whose id in run 2 is .. *)
Definition ren (S1 S2 : list Z) (r : resp) : resp :=
  match r with
  | RId i => match nth_error S1 i with
             | Some n => match index n S2 with Some j => RId j | None => r end
             | None => r
             end
  | _ => r
  end.

Definition diag_of (a : action) : list Z := match a with ADiag d => [d] | _ => [] end.

(* ---------------------------------------------------------------------------------------------
   Micro-step machine: SymbolTable.Add split into its two halves.

   [AIntern] above is ONE atomic action: value.SymbolTableStruct.Add takes the write lock, looks the
   name up and inserts it when missing, all inside one critical section.  A "fast path" that looks
   the name up under the read lock and, after a miss, takes the write lock and inserts WITHOUT
   looking again is two actions of the shared state: [MLook] (the task remembers hit/miss) and
   [MIns] (on a remembered miss: blind insert, a new id).  Other tasks may run between the two.
   A micro schedule is [intern_atomic] when every lookup is immediately followed by the same task's
   insert of the same name, i.e. lookup+insert is one atomic action; exactly then the machine below
   coincides with [exec] on the collapsed schedule (Proofs: mexec_atomic). *)
Inductive maction :=
| MAct (a : action)     (* an action of the coarse model, atomic *)
| MLook (n : Z)         (* Add, first half: lookup; remembers Some id / None in the task's own state *)
| MIns (n : Z).         (* Add, second half: remembered hit -> that id; remembered miss -> blind append *)

Definition pending := nat -> option nat.           (* per task: what its last lookup found *)
Definition pend0 : pending := fun _ => None.
Definition pend_set (p : pending) (t : nat) (v : option nat) : pending :=
  fun u => if Nat.eqb u t then v else p u.

Definition mstep (memo env : Z -> Z) (s : shared) (p : pending) (t : nat) (m : maction)
  : option resp * (shared * pending) :=
  match m with
  | MAct a => (Some (fst (step memo env s a)), (snd (step memo env s a), p))
  | MLook n => (None, (s, pend_set p t (index n (syms s))))
  | MIns n =>
      match p t with
      | Some i => (Some (RId i), ({| diags := diags s; syms := syms s; cache := cache s |}, p))
      | None => (Some (RId (List.length (syms s))),
                 ({| diags := diags s; syms := syms s ++ [n]; cache := cache s |}, p))
      end
  end.

Fixpoint mexec (memo env : Z -> Z) (mev : list (nat * maction)) (s : shared) (p : pending)
  : list (nat * resp) * shared :=
  match mev with
  | [] => ([], s)
  | (t, m) :: r =>
      let x := fst (mstep memo env s p t m) in
      let sp := snd (mstep memo env s p t m) in
      let rest := mexec memo env r (fst sp) (snd sp) in
      (match x with Some y => (t, y) :: fst rest | None => fst rest end, snd rest)
  end.

(* the coarse schedule a micro schedule stands for: the Add happens where its insert half is *)
Fixpoint collapse (mev : list (nat * maction)) : list (nat * action) :=
  match mev with
  | [] => []
  | (t, MAct a) :: r => (t, a) :: collapse r
  | (t, MLook _) :: r => collapse r
  | (t, MIns n) :: r => (t, AIntern n) :: collapse r
  end.

(* ... and the micro schedule in which every Add of a coarse schedule is one critical section *)
Fixpoint expand (ev : list (nat * action)) : list (nat * maction) :=
  match ev with
  | [] => []
  | (t, AIntern n) :: r => (t, MLook n) :: (t, MIns n) :: expand r
  | (t, a) :: r => (t, MAct a) :: expand r
  end.

(* lookup + insert is one atomic action: nothing is scheduled between the two halves of an Add *)
Fixpoint intern_atomic_b (mev : list (nat * maction)) : bool :=
  match mev with
  | [] => true
  | (t, MLook n) :: r =>
      match r with
      | (t', MIns n') :: r' => Nat.eqb t t' && Z.eqb n n' && intern_atomic_b r'
      | _ => false
      end
  | (_, MIns _) :: _ => false
  | (_, MAct (AIntern _)) :: _ => false     (* every Add goes through its two halves *)
  | (_, MAct _) :: r => intern_atomic_b r
  end.
Definition intern_atomic (mev : list (nat * maction)) : Prop := intern_atomic_b mev = true.

(* well-formed micro schedule (atomic or not): every insert is the same task's next micro action
   after its lookup of the same name - what the split Add does; other TASKS may come in between *)
Fixpoint split_wf_b (open : list (nat * Z)) (mev : list (nat * maction)) : bool :=
  match mev with
  | [] => match open with [] => true | _ => false end
  | (t, MLook n) :: r =>
      negb (existsb (fun o => Nat.eqb (fst o) t) open) && split_wf_b ((t, n) :: open) r
  | (t, MIns n) :: r =>
      existsb (fun o => Nat.eqb (fst o) t && Z.eqb (snd o) n) open &&
      split_wf_b (filter (fun o => negb (Nat.eqb (fst o) t)) open) r
  | (t, MAct _) :: r =>
      negb (existsb (fun o => Nat.eqb (fst o) t) open) && split_wf_b open r
  end.
