(* C12 — type-checking verdicts survive meaning-preserving edits.
   Executable model only (no proofs here).

   A mini checker written as a state machine with the context registers of
   /repo/types/checker: returnType, throwType, mode (+ the local environment and the
   diagnostics counter) and the save / restore points of checkMethod
   (types/checker/method.go), through which both method definitions and closure literals
   (the checkClosureLiteralNode functions of checker.go) are checked.

   fx = true  : checkMethod restores the previous returnType / throwType on exit (fixes/C12-*.patch)
   fx = false : the code as found: `c.returnType = nil; c.throwType = nil` on exit
   mode, flags, catch scopes and the local environment are restored in both variants. *)
From Coq Require Import ZArith NArith List Bool.
Import ListNotations.

Definition name := N.

Inductive ty := TInt | TStr | TBool | TNil | TClos (r : ty) | TNever | TErr.

Fixpoint ty_eqb (a b : ty) : bool :=
  match a, b with
  | TInt, TInt | TStr, TStr | TBool, TBool | TNil, TNil | TNever, TNever | TErr, TErr => true
  | TClos x, TClos y => ty_eqb x y
  | _, _ => false
  end.

(* never and the error type (Untyped) are assignable to everything *)
Definition assignable (a b : ty) : bool :=
  match a, b with
  | TNever, _ | TErr, _ | _, TErr => true
  | _, _ => ty_eqb a b
  end.

Inductive expr :=
| ELit (t : ty)            (* a literal of type t: 1, "s", true, nil *)
| EVar (x : name)
| EClos (body : expr)      (* -> body *)
| EParen (e : expr)        (* (e) *)
| ECall (f : expr)         (* f.() *)
| EMeth (m : name).        (* m() : call of a top-level method *)

Inductive stmt :=
| SLet (x : name) (e : expr)       (* x := e *)
| SAssign (x : name) (e : expr)    (* x = e  *)
| SExpr (e : expr)
| SReturn (e : expr).

Definition mdef := (name * ty * list stmt)%type.   (* def m: rt  body  end *)

Record prog := mkProg { methods : list mdef; main : list stmt }.

Inductive md := TopLevelMode | MethodMode.

Record regs := mkRegs { rret : option ty; rthr : option ty; rmode : md }.

Record st := mkSt { sregs : regs; slocals : list (name * ty); serrs : nat }.

Fixpoint lookup (l : list (name * ty)) (x : name) : option ty :=
  match l with
  | [] => None
  | (y, t) :: l' => if N.eqb x y then Some t else lookup l' x
  end.

Definition err (s : st) : st := mkSt (sregs s) (slocals s) (S (serrs s)).
Definition set_regs (s : st) (r : regs) : st := mkSt r (slocals s) (serrs s).
Definition add_local (s : st) (x : name) (t : ty) : st := mkSt (sregs s) ((x, t) :: slocals s) (serrs s).

(* registers on leaving checkMethod *)
Definition leave (fx : bool) (saved : regs) : regs :=
  if fx then saved else mkRegs None None (rmode saved).

Fixpoint check_expr (fx : bool) (sigs : list (name * ty)) (s : st) (e : expr) : st * ty :=
  match e with
  | ELit t => (s, t)
  | EVar x =>
    match lookup (slocals s) x with
    | Some t => (s, t)
    | None => (err s, TErr)            (* undefined local *)
    end
  | EParen e' => check_expr fx sigs s e'
  | EClos b =>
    (* checkMethod for a closure literal: nested local environment, return type inferred *)
    let saved := sregs s in
    let s1 := set_regs s (mkRegs None None MethodMode) in
    let (s2, t) := check_expr fx sigs s1 b in
    (set_regs s2 (leave fx saved), TClos t)
  | ECall f =>
    let (s1, t) := check_expr fx sigs s f in
    match t with
    | TClos r => (s1, r)
    | TErr => (s1, TErr)
    | _ => (err s1, TErr)              (* not callable *)
    end
  | EMeth m =>
    match lookup sigs m with
    | Some t => (s, t)
    | None => (err s, TErr)            (* undefined method *)
    end
  end.

Definition check_stmt (fx : bool) (sigs : list (name * ty)) (s : st) (c : stmt) : st * ty :=
  match c with
  | SLet x e =>
    let (s1, t) := check_expr fx sigs s e in
    match lookup (slocals s1) x with
    | Some t0 => if assignable t t0 then (s1, t) else (err s1, t)
    | None => (add_local s1 x t, t)
    end
  | SAssign x e =>
    let (s1, t) := check_expr fx sigs s e in
    match lookup (slocals s1) x with
    | Some t0 => if assignable t t0 then (s1, t) else (err s1, t)
    | None => (err s1, TErr)
    end
  | SExpr e => check_expr fx sigs s e
  | SReturn e =>
    let (s1, t) := check_expr fx sigs s e in
    match rret (sregs s1) with
    | Some r => if assignable t r then (s1, TNever) else (err s1, TNever)
    | None => (err s1, TNever)         (* "type `1` cannot be assigned to type `void`" *)
    end
  end.

(* checkStatements: the type of the body is the type of its last statement *)
Fixpoint check_body (fx : bool) (sigs : list (name * ty)) (s : st) (ty0 : ty) (b : list stmt) : st * ty :=
  match b with
  | [] => (s, ty0)
  | c :: b' => let (s1, t) := check_stmt fx sigs s c in check_body fx sigs s1 t b'
  end.

(* checkMethod for a method definition: isolated local environment, declared return type *)
Definition check_method (fx : bool) (sigs : list (name * ty)) (s : st) (m : mdef) : st :=
  let '(_, rt, body) := m in
  let saved := sregs s in
  let s1 := mkSt (mkRegs (Some rt) None MethodMode) [] (serrs s) in
  let (s2, bt) := check_body fx sigs s1 TNil body in
  let s3 := if assignable bt rt then s2 else err s2 in
  mkSt (leave fx saved) (slocals s) (serrs s3).

Definition sigs_of (ms : list mdef) : list (name * ty) := map (fun m => (fst (fst m), snd (fst m))) ms.

Definition top : st := mkSt (mkRegs None None TopLevelMode) [] 0.

Definition check_prog (fx : bool) (p : prog) : st :=
  let sigs := sigs_of (methods p) in
  let s := fold_left (check_method fx sigs) (methods p) top in
  fst (check_body fx sigs s TNil (main p)).

Definition errors (fx : bool) (p : prog) : nat := serrs (check_prog fx p).
Definition accepts (fx : bool) (p : prog) : bool := Nat.eqb (errors fx p) 0.

(* ---- the edits ---- *)

Fixpoint insert_at {A : Type} (pos : nat) (a : A) (l : list A) : list A :=
  match pos, l with
  | O, _ => a :: l
  | S n, [] => [a]
  | S n, h :: t => h :: insert_at n a t
  end.

(* a value or closure literal without free names *)
Fixpoint closed_value (e : expr) : bool :=
  match e with
  | ELit t => match t with TInt | TStr | TBool | TNil => true | _ => false end
  | EClos b => closed_value b
  | EParen e' => closed_value e'
  | _ => false
  end.

Fixpoint expr_names (e : expr) : list name :=
  match e with
  | ELit _ | EMeth _ => []
  | EVar x => [x]
  | EClos b => expr_names b
  | EParen e' => expr_names e'
  | ECall f => expr_names f
  end.

Definition stmt_names (c : stmt) : list name :=
  match c with
  | SLet x e | SAssign x e => x :: expr_names e
  | SExpr e | SReturn e => expr_names e
  end.

Definition body_names (b : list stmt) : list name := flat_map stmt_names b.

Fixpoint ren_expr (f : name -> name) (e : expr) : expr :=
  match e with
  | ELit t => ELit t
  | EVar x => EVar (f x)
  | EClos b => EClos (ren_expr f b)
  | EParen e' => EParen (ren_expr f e')
  | ECall g => ECall (ren_expr f g)
  | EMeth m => EMeth m
  end.

Definition ren_stmt (f : name -> name) (c : stmt) : stmt :=
  match c with
  | SLet x e => SLet (f x) (ren_expr f e)
  | SAssign x e => SAssign (f x) (ren_expr f e)
  | SExpr e => SExpr (ren_expr f e)
  | SReturn e => SReturn (ren_expr f e)
  end.

Definition ren_body (f : name -> name) (b : list stmt) : list stmt := map (ren_stmt f) b.

Definition swap (x y : name) (z : name) : name :=
  if N.eqb z x then y else if N.eqb z y then x else z.

Fixpoint strip_expr (e : expr) : expr :=
  match e with
  | EParen e' => strip_expr e'
  | EClos b => EClos (strip_expr b)
  | ECall g => ECall (strip_expr g)
  | _ => e
  end.

Definition strip_stmt (c : stmt) : stmt :=
  match c with
  | SLet x e => SLet x (strip_expr e)
  | SAssign x e => SAssign x (strip_expr e)
  | SExpr e => SExpr (strip_expr e)
  | SReturn e => SReturn (strip_expr e)
  end.

Definition strip_method (m : mdef) : mdef := (fst m, map strip_stmt (snd m)).

Definition strip_prog (p : prog) : prog :=
  mkProg (map strip_method (methods p)) (map strip_stmt (main p)).
