(* C14 — structured control flow: a small deep-embedded language with a fuel-indexed
   big-step reference interpreter.  Definitions only (no proofs) so the model always runs.

   Observable output = the [Out]/[OutV] events of the trace (what the printed Elk program
   writes with println) + the final outcome.  The other events are instrumentation used by
   the theorems (unique instance ids for every entered do-with-finally and every registered
   defer, catch selection, abrupt exit of a catch clause).

   [exec cf]: cf = true is the REFERENCE semantics (a finally body runs on every exit of its
   do, including an abrupt exit of one of its catch clauses).  cf = false mirrors what
   compiler/bytecode_compiler.go compileDo does today: the catch entries and the
   doFinally scope cover the do BODY only, so throw/return/break/continue that leave a
   catch clause skip that do's finally. *)
From Coq Require Import ZArith List Bool.
Import ListNotations.
Open Scope Z_scope.

Inductive val := VInt (z : Z) | VNil | VBool (b : bool) | VStr (t : Z).

Definition val_eqb (a b : val) : bool :=
  match a, b with
  | VInt x, VInt y => Z.eqb x y
  | VNil, VNil => true
  | VBool x, VBool y => Bool.eqb x y
  | VStr x, VStr y => Z.eqb x y
  | _, _ => false
  end.

Definition truthy (v : val) : bool :=
  match v with VNil => false | VBool b => b | _ => true end.

(* catch patterns: `_` / `Value() as e` (bind = true), `Int() as e`, `String() as e`, literal *)
Inductive pat := PAny (bind : bool) | PInt | PStr | PLit (v : val).

Definition matches (p : pat) (v : val) : bool :=
  match p with
  | PAny _ => true
  | PInt => match v with VInt _ => true | _ => false end
  | PStr => match v with VStr _ => true | _ => false end
  | PLit w => val_eqb w v
  end.

Inductive event :=
| Out (k : Z)                 (* println(k) *)
| OutV (v : val)              (* println(v.inspect) *)
| DoEnter (n : nat)           (* a do WITH a finally clause is entered; n = fresh instance id *)
| FinRun (n : nat)            (* the finally body of instance n starts *)
| DeferReg (n : nat)          (* `defer` executed: closure n pushed on the frame's defer stack *)
| DeferRun (n : nat)          (* deferred closure n starts *)
| CatchSel (v : val) (ps : list pat) (sel : option nat)  (* v reached a do with clauses ps *)
| CatchAbrupt (n : nat) (k : Z).   (* a catch clause of do instance n ended abruptly; k = exit_code *)

(* expressions: pure except for the prints of ETag (a call of the helper `tg(k, e)`) *)
Inductive expr :=
| EVal (v : val)
| EVar (x : nat)
| ELt (x : nat) (n : Z)
| ETag (k : Z) (e : expr)
| ENot (e : expr)
| EAnd (a b : expr)
| EOr (a b : expr)
| ECoal (a b : expr).

Fixpoint eval (loc : list Z) (e : expr) : val * list event :=
  match e with
  | EVal v => (v, [])
  | EVar x => (VInt (nth x loc 0), [])
  | ELt x n => (VBool (nth x loc 0 <? n), [])
  | ETag k a => let (v, t) := eval loc a in (v, t ++ [Out k])
  | ENot a => let (v, t) := eval loc a in (VBool (negb (truthy v)), t)
  | EAnd a b =>
      let (v, t) := eval loc a in
      if truthy v then let (w, u) := eval loc b in (w, t ++ u) else (v, t)
  | EOr a b =>
      let (v, t) := eval loc a in
      if truthy v then (v, t) else let (w, u) := eval loc b in (w, t ++ u)
  | ECoal a b =>
      let (v, t) := eval loc a in
      match v with VNil => let (w, u) := eval loc b in (w, t ++ u) | _ => (v, t) end
  end.

(* bodies of `defer`: always complete normally, structurally recursive *)
Inductive sstmt :=
| PPrint (k : Z)
| PShow (x : nat)
| PIncr (x : nat)
| PSeq (a b : sstmt)
| PIfLt (x : nat) (n : Z) (a b : sstmt).

Fixpoint upd (x : nat) (v : Z) (l : list Z) : list Z :=
  match l, x with
  | [], _ => []
  | _ :: r, O => v :: r
  | a :: r, S x' => a :: upd x' v r
  end.

Fixpoint sexec (s : sstmt) (loc : list Z) : list Z * list event :=
  match s with
  | PPrint k => (loc, [Out k])
  | PShow x => (loc, [OutV (VInt (nth x loc 0))])
  | PIncr x => (upd x (nth x loc 0 + 1) loc, [])
  | PSeq a b => let (l1, t1) := sexec a loc in let (l2, t2) := sexec b l1 in (l2, t1 ++ t2)
  | PIfLt x n a b => if nth x loc 0 <? n then sexec a loc else sexec b loc
  end.

Inductive stmt :=
| SSkip
| SPrint (k : Z)
| SShow (e : expr)
| SSetC (x : nat) (n : Z)
| SIncr (x : nat)
| SSeq (a b : stmt)
| SIf (c : expr) (a b : stmt)
| SLoop (l : option nat) (body : stmt)
| SWhile (l : option nat) (c : expr) (body : stmt)
| SBreak (l : option nat)
| SContinue (l : option nat)
| SReturn (e : expr)
| SThrow (v : val)
| SShowCaught
| SRethrow
| SDo (body : stmt) (cs : list (pat * stmt)) (fin : option stmt)
| SDefer (b : sstmt)
| SCall (m : nat) (show : bool).

Inductive exit :=
| XNormal
| XBreak (l : option nat)
| XContinue (l : option nat)
| XReturn (v : val)
| XThrow (v : val).

Record state := mkSt { locals : list Z; next : nat; dstack : list (nat * sstmt) }.

Definition with_locals (st : state) (l : list Z) : state := mkSt l (next st) (dstack st).
Definition bump (st : state) : state := mkSt (locals st) (S (next st)) (dstack st).
Definition push_defer (st : state) (b : sstmt) : state :=
  mkSt (locals st) (S (next st)) ((next st, b) :: dstack st).

Definition nlocals : nat := 8%nat.
Definition zeros : list Z := repeat 0 nlocals.
Definition enter_frame (st : state) : state := mkSt zeros (next st) [].

Definition res := option (exit * state * list event).

(* prefix a trace *)
Definition pre (t : list event) (r : res) : res :=
  match r with None => None | Some (x, st, u) => Some (x, st, t ++ u) end.

Inductive loopctl := LExit | LNext | LProp.

Definition label_hits (l : option nat) (target : option nat) : bool :=
  match target with
  | None => true
  | Some k => match l with Some j => Nat.eqb j k | None => false end
  end.

Definition loop_ctl (l : option nat) (x : exit) : loopctl :=
  match x with
  | XNormal => LNext
  | XBreak t => if label_hits l t then LExit else LProp
  | XContinue t => if label_hits l t then LNext else LProp
  | _ => LProp
  end.

Fixpoint first_match (v : val) (cs : list (pat * stmt)) (i : nat) : option (nat * stmt) :=
  match cs with
  | [] => None
  | (p, b) :: r => if matches p v then Some (i, b) else first_match v r (S i)
  end.

Definition is_normal (x : exit) : bool := match x with XNormal => true | _ => false end.
Definition exit_code (x : exit) : Z :=
  match x with XNormal => 0 | XBreak _ => 1 | XContinue _ => 2 | XReturn _ => 3 | XThrow _ => 4 end.

(* an abrupt exit of the finally body replaces the pending one *)
Definition override (xfin pending : exit) : exit :=
  match xfin with XNormal => pending | _ => xfin end.

Fixpoint run_defers (ds : list (nat * sstmt)) (loc : list Z) : list Z * list event :=
  match ds with
  | [] => (loc, [])
  | (n, b) :: r =>
      let (l1, t1) := sexec b loc in
      let (l2, t2) := run_defers r l1 in
      (l2, DeferRun n :: t1 ++ t2)
  end.

(* leaving a frame: deferred closures run LIFO on every exit kind; then the call yields *)
Definition frame_exit (x : exit) : exit :=
  match x with XThrow v => XThrow v | _ => XNormal end.
Definition frame_value (x : exit) : val :=
  match x with XReturn v => v | _ => VNil end.

Definition leave_frame (caller : state) (x : exit) (st1 : state) : state * list event :=
  let (_, td) := run_defers (dstack st1) (locals st1) in
  (mkSt (locals caller) (next st1) (dstack caller), td).

Definition show_call (show : bool) (x : exit) : list event :=
  match x with
  | XThrow _ => []
  | _ => if show then [OutV (frame_value x)] else []
  end.

Fixpoint exec (cf : bool) (ms : list stmt) (f : nat) (cv : val) (s : stmt) (st : state)
  {struct f} : res :=
  match f with
  | O => None
  | S f' =>
    match s with
    | SSkip => Some (XNormal, st, [])
    | SPrint k => Some (XNormal, st, [Out k])
    | SShow e => let (v, t) := eval (locals st) e in Some (XNormal, st, t ++ [OutV v])
    | SSetC x n => Some (XNormal, with_locals st (upd x n (locals st)), [])
    | SIncr x => Some (XNormal, with_locals st (upd x (nth x (locals st) 0 + 1) (locals st)), [])
    | SSeq a b =>
        match exec cf ms f' cv a st with
        | None => None
        | Some (x1, st1, t1) =>
            if is_normal x1 then pre t1 (exec cf ms f' cv b st1) else Some (x1, st1, t1)
        end
    | SIf c a b =>
        let (v, t) := eval (locals st) c in
        pre t (exec cf ms f' cv (if truthy v then a else b) st)
    | SLoop l body =>
        match exec cf ms f' cv body st with
        | None => None
        | Some (x1, st1, t1) =>
            match loop_ctl l x1 with
            | LExit => Some (XNormal, st1, t1)
            | LNext => pre t1 (exec cf ms f' cv (SLoop l body) st1)
            | LProp => Some (x1, st1, t1)
            end
        end
    | SWhile l c body =>
        let (v, t) := eval (locals st) c in
        if truthy v then
          match exec cf ms f' cv body st with
          | None => None
          | Some (x1, st1, t1) =>
              match loop_ctl l x1 with
              | LExit => Some (XNormal, st1, t ++ t1)
              | LNext => pre (t ++ t1) (exec cf ms f' cv (SWhile l c body) st1)
              | LProp => Some (x1, st1, t ++ t1)
              end
          end
        else Some (XNormal, st, t)
    | SBreak l => Some (XBreak l, st, [])
    | SContinue l => Some (XContinue l, st, [])
    | SReturn e => let (v, t) := eval (locals st) e in Some (XReturn v, st, t)
    | SThrow v => Some (XThrow v, st, [])
    | SShowCaught => Some (XNormal, st, [OutV cv])
    | SRethrow => Some (XThrow cv, st, [])
    | SDefer b => Some (XNormal, push_defer st b, [DeferReg (next st)])
    | SCall m show =>
        match nth_error ms m with
        | None => Some (XNormal, st, [])
        | Some body =>
            match exec cf ms f' VNil body (enter_frame st) with
            | None => None
            | Some (x1, st1, t1) =>
                let (st2, td) := leave_frame st x1 st1 in
                Some (frame_exit x1, st2, (t1 ++ td) ++ show_call show x1)
            end
        end
    | SDo body cs fin =>
        let n := next st in
        let st0 := match fin with Some _ => bump st | None => st end in
        match exec cf ms f' cv body st0 with
        | None => None
        | Some (x1, st1, t1) =>
            let cr :=
              match x1 with
              | XThrow v =>
                  match first_match v cs O with
                  | Some (i, cb) =>
                      match exec cf ms f' v cb st1 with
                      | None => None
                      | Some (x2, st2, t2) =>
                          Some (x2, st2, CatchSel v (map fst cs) (Some i) :: t2, negb (is_normal x2))
                      end
                  | None => Some (x1, st1, [CatchSel v (map fst cs) None], false)
                  end
              | _ => Some (x1, st1, [], false)
              end in
            match cr with
            | None => None
            | Some (x2, st2, t2, abrupt) =>
                match fin with
                | None => Some (x2, st2, t1 ++ t2)
                | Some fb =>
                    let ta := if abrupt then [CatchAbrupt n (exit_code x2)] else [] in
                    if abrupt && negb cf then
                      Some (x2, st2, DoEnter n :: (t1 ++ t2 ++ ta))
                    else
                      match exec cf ms f' cv fb st2 with
                      | None => None
                      | Some (x3, st3, t3) =>
                          Some (override x3 x2, st3, DoEnter n :: (t1 ++ t2 ++ ta) ++ FinRun n :: t3)
                      end
                end
            end
        end
    end
  end.

Record prog := mkProg { methods : list stmt; main : stmt }.

Inductive outcome := ODone | OUncaught (v : val).

Definition init_state : state := mkSt zeros O [].

(* the program body is a frame of its own (top-level defers, top-level return) *)
Definition run (cf : bool) (f : nat) (p : prog) : option (outcome * list event) :=
  match exec cf (methods p) f VNil (main p) (enter_frame init_state) with
  | None => None
  | Some (x1, st1, t1) =>
      let (_, td) := leave_frame init_state x1 st1 in
      Some (match x1 with XThrow v => OUncaught v | _ => ODone end, t1 ++ td)
  end.

(* ---- trace measures used by the theorems ---- *)
Definition cnt_enter (n : nat) (t : list event) : nat :=
  length (filter (fun e => match e with DoEnter m => Nat.eqb m n | _ => false end) t).
Definition cnt_fin (n : nat) (t : list event) : nat :=
  length (filter (fun e => match e with FinRun m => Nat.eqb m n | _ => false end) t).
Definition cnt_reg (n : nat) (t : list event) : nat :=
  length (filter (fun e => match e with DeferReg m => Nat.eqb m n | _ => false end) t).
Definition cnt_drun (n : nat) (t : list event) : nat :=
  length (filter (fun e => match e with DeferRun m => Nat.eqb m n | _ => false end) t).
Definition is_abrupt (e : event) : bool := match e with CatchAbrupt _ _ => true | _ => false end.
Definition no_abrupt (t : list event) : bool := forallb (fun e => negb (is_abrupt e)) t.

(* bracket discipline of DoEnter n ... FinRun n: FinRun must close the most recently
   entered instance that has not run its finally yet *)
Fixpoint wb (stk : list nat) (t : list event) : option (list nat) :=
  match t with
  | [] => Some stk
  | DoEnter n :: r => wb (n :: stk) r
  | FinRun n :: r =>
      match stk with
      | m :: stk' => if Nat.eqb m n then wb stk' r else None
      | [] => None
      end
  | _ :: r => wb stk r
  end.

(* index of the first matching pattern *)
Fixpoint first_idx (v : val) (ps : list pat) (i : nat) : option nat :=
  match ps with
  | [] => None
  | p :: r => if matches p v then Some i else first_idx v r (S i)
  end.

Definition sel_ok (e : event) : bool :=
  match e with
  | CatchSel v ps sel =>
      match sel, first_idx v ps O with
      | Some i, Some j => Nat.eqb i j
      | None, None => true
      | _, _ => false
      end
  | _ => true
  end.

(* what the program prints *)
Definition printed (e : event) : bool := match e with Out _ | OutV _ => true | _ => false end.
Definition stdout (t : list event) : list event := filter printed t.
