(* C24 — executable model of Elk's ArrayList / ArrayTuple (value/array_list_of_value.go,
   value/array_tuple_of_value.go, vm/array_list.go, vm/array_tuple.go, vm/tuple.go `slice`).
   No proofs here so the model always runs.

   What is modelled. A list/tuple value is `Lst tup data cap`: its kind, its elements (Elk
   values are represented by integers; `NILV` stands for Elk `nil`) and the capacity of the Go
   slice.  Go primitives (index, store, make, reslice-remove) are written with their panic
   conditions.  The `impl` layer mirrors the Go functions statement by statement (index
   normalisation, loops over an index variable, explicit error paths); the `spec` layer is
   the plain-sequence meaning written with list functions (nth / firstn / skipn / filter /
   app / concat).  Capacity is bookkeeping shared by both layers: it is never a gating
   observable and only decides whether `make` panics.

   What is left out (stated exactly):
   - storage sharing between distinct slices (`SliceArrayList`, used only by the bytecode
     compiler for literals; `view` is declared in the header but not implemented);
   - stale contents of the backing array beyond `len` (never read by any operation);
   - the exact growth policy of Go's `append`: parameter `growcap old needed`;
   - running out of memory for allocations that `makeslice` accepts: `make` is modelled to
     panic exactly when the requested capacity is negative, below the length or above
     `MAXCAP` = 2^44 elements (16-byte elements, maxAlloc 2^48) and to succeed otherwise;
   - element equality is integer equality (the correspondence uses Int elements only).

   The model mirrors the code AFTER the C24 fixes (fixes/C24-*.patch). *)
From Elk Require Export Base.GoSem.
From Elk Require Import Model.C06_Int.   (* mul_overflow = SmallInt.MultiplyOverflow *)
Open Scope Z_scope.

Definition P_ALLOC : Z := 104.     (* makeslice: len/cap out of range *)
Definition F_FUEL : Z := 199.      (* a loop of the model ran out of fuel: never happens (proved) *)
Definition NILV : Z := -1000003.   (* representation of Elk nil as an element *)
Definition MAXCAP : Z := 2 ^ 44.

Definition len (s : list Z) : Z := Z.of_nat (length s).

(* ---------------- Go primitives with their panics ---------------- *)
Definition in_bounds (s : list Z) (i : Z) : bool := (0 <=? i) && (i <? len s).
(* s[i] *)
Definition go_idx (s : list Z) (i : Z) : outcome Z :=
  if in_bounds s i then Ok (nth (Z.to_nat i) s 0) else Panic P_INDEX.
(* s[i] = v *)
Definition go_set (s : list Z) (i v : Z) : outcome (list Z) :=
  if in_bounds s i then Ok (firstn (Z.to_nat i) s ++ v :: skipn (S (Z.to_nat i)) s) else Panic P_INDEX.
(* make([]T, l, c): returns the capacity *)
Definition go_make (l c : Z) : outcome Z :=
  if (0 <=? l) && (l <=? c) && (c <=? MAXCAP) then Ok c else Panic P_ALLOC.
(* RemoveAt: copy(s[i:], s[i+1:]); *l = s[:len(s)-1] — the slice expressions panic unless 0 <= i < len *)
Definition go_remove_at (s : list Z) (i : Z) : outcome (list Z) :=
  if in_bounds s i then Ok (firstn (Z.to_nat i) s ++ skipn (S (Z.to_nat i)) s) else Panic P_INDEX.

Record lst : Type := Lst { tup : bool; data : list Z; cap : Z }.
Definition set_data (l : lst) (d : list Z) : lst := Lst (tup l) d (cap l).

(* a range argument: optional bounds, each possibly excluded *)
Record rng : Type := Rng { r_start : option Z; r_sx : bool; r_end : option Z; r_ex : bool }.

(* Elk Int argument -> Go int (value.IntToGoInt / ToGoInt): BigInts outside int64 are refused *)
Definition to_go_int (a : Z) : option Z := if fits64 a then Some a else None.

(* value.NormalizeArrayIndex *)
Definition normalize (i n : Z) : outcome Z :=
  if (i >=? n) || (i <? - n) then Err E_OUT_OF_RANGE
  else Ok (if i <? 0 then n + i else i).

Section WithGrow.
Variable growcap : Z -> Z -> Z.    (* Go's append growth: capacity after growing `old` to hold `needed` *)

(* *l = append( *l, vs...) *)
Definition go_append (l : lst) (vs : list Z) : lst :=
  let need := len (data l) + len vs in
  Lst (tup l) (data l ++ vs) (if need <=? cap l then cap l else growcap (cap l) need).

(* ======================= impl layer ======================= *)

(* GetFromSlice / Get / SubscriptInt *)
Definition i_get_int (l : lst) (i : Z) : outcome Z :=
  bind (normalize i (len (data l))) (fun j => go_idx (data l) j).
(* Subscript: ToGoInt, then Get *)
Definition i_get (l : lst) (a : Z) : outcome Z :=
  match to_go_int a with None => Err E_OUT_OF_RANGE | Some i => i_get_int l i end.
(* SubscriptSet: ToGoInt, SetInSlice *)
Definition i_set (l : lst) (a v : Z) : outcome lst :=
  match to_go_int a with
  | None => Err E_OUT_OF_RANGE
  | Some i => bind (normalize i (len (data l))) (fun j =>
              bind (go_set (data l) j v) (fun d => Ok (set_data l d)))
  end.
(* `<<` / push: AppendVal(v) *)
Definition i_push (l : lst) (v : Z) : lst := go_append l [v].
(* `append`: for val := range values { self.AppendVal(val) } *)
Definition i_append (l : lst) (vs : list Z) : lst := fold_left i_push vs l.
(* RemoveAtErr *)
Definition i_remove_at_err (l : lst) (i : Z) : outcome lst :=
  bind (normalize i (len (data l))) (fun j =>
  bind (go_remove_at (data l) j) (fun d => Ok (set_data l d))).
(* remove_at (fixed): IntToGoInt, RemoveAtErr *)
Definition i_remove_at (l : lst) (a : Z) : outcome lst :=
  match to_go_int a with None => Err E_OUT_OF_RANGE | Some i => i_remove_at_err l i end.
(* pop (added by the fix): last, err := SubscriptInt(-1); RemoveAt(Length()-1) *)
Definition i_pop (l : lst) : outcome (lst * Z) :=
  bind (i_get_int l (-1)) (fun v =>
  bind (go_remove_at (data l) (len (data l) - 1)) (fun d => Ok (set_data l d, v))).
(* clear (added by the fix): for self.Length() > 0 { self.RemoveAt(self.Length()-1) } *)
Fixpoint i_clear_loop (fuel : nat) (d : list Z) : outcome (list Z) :=
  if len d >? 0 then
    match fuel with
    | O => Fatal F_FUEL
    | S f => bind (go_remove_at d (len d - 1)) (fun d' => i_clear_loop f d')
    end
  else Ok d.
Definition i_clear (l : lst) : outcome lst :=
  bind (i_clear_loop (length (data l)) (data l)) (fun d => Ok (set_data l d)).
(* remove (fixed): for i := 0; i < Length(); { if equal { RemoveAt(i); removed = true; continue }; i++ } *)
Fixpoint i_remove_loop (fuel : nat) (i : Z) (d : list Z) (v : Z) (removed : bool) : outcome (list Z * bool) :=
  if i <? len d then
    match fuel with
    | O => Fatal F_FUEL
    | S f => bind (go_idx d i) (fun e =>
             if e =? v then bind (go_remove_at d i) (fun d' => i_remove_loop f i d' v true)
             else i_remove_loop f (i + 1) d v removed)
    end
  else Ok (d, removed).
Definition i_remove (l : lst) (v : Z) : outcome (lst * bool) :=
  bind (i_remove_loop (length (data l)) 0 (data l) v false) (fun p => Ok (set_data l (fst p), snd p)).
(* Grow(n): make(len, cap+n) with Go int addition; copy *)
Definition go_grow (l : lst) (n : Z) : outcome lst :=
  bind (go_make (len (data l)) (wrap64 (cap l + n))) (fun c => Ok (Lst (tup l) (data l) c)).
(* grow: IntToGoInt; too large / negative -> OutOfRangeError; Grow(n) *)
Definition i_grow (l : lst) (a : Z) : outcome lst :=
  match to_go_int a with
  | None => Err E_OUT_OF_RANGE
  | Some n => if n <? 0 then Err E_OUT_OF_RANGE else go_grow l n
  end.
(* Expand(k): k nils appended after reserving cap+k *)
Definition go_expand (l : lst) (k : Z) : outcome lst :=
  if k <? 1 then Ok l else
  bind (go_make (len (data l)) (wrap64 (cap l + k))) (fun c =>
    Ok (go_append (Lst (tup l) (data l) c) (repeat NILV (Z.to_nat k)))).
(* AppendAt / AppendAtInt (collection literals with explicit indices) *)
Definition i_append_at (l : lst) (a v : Z) : outcome lst :=
  match to_go_int a with
  | None => Err E_OUT_OF_RANGE
  | Some i =>
    if i <? 0 then Err E_OUT_OF_RANGE else
    bind (if i >=? len (data l) then go_expand l (wrap64 (wrap64 (i + 1) - len (data l))) else Ok l) (fun l' =>
    bind (go_set (data l') i v) (fun d => Ok (set_data l' d)))
  end.
(* map_mut with the closure |x| -> x + k: for i := range Length() { SetAtVal(i, f(AtVal(i))) } *)
Fixpoint i_mapadd_loop (fuel : nat) (i : Z) (d : list Z) (k : Z) : outcome (list Z) :=
  match fuel with
  | O => Ok d
  | S f => bind (go_idx d i) (fun e => bind (go_set d i (e + k)) (fun d' => i_mapadd_loop f (i + 1) d' k))
  end.
Definition i_mapadd (l : lst) (k : Z) : outcome lst :=
  bind (i_mapadd_loop (length (data l)) 0 (data l) k) (fun d => Ok (set_data l d)).
(* Concat: make(len a, len a + len b); copy; append. Kind: tuple only when both are tuples *)
Definition i_concat (a b : lst) : outcome lst :=
  bind (go_make (len (data a)) (len (data a) + len (data b))) (fun c =>
    Ok (go_append (Lst (tup a && tup b) (data a) c) (data b))).
(* Repeat (fixed: empty result returned before the loop) *)
Fixpoint i_rep_loop (count : nat) (acc : lst) (s : list Z) : lst :=
  match count with O => acc | S c => i_rep_loop c (go_append acc s) s end.
Definition i_repeat (a : lst) (n : Z) : outcome lst :=
  match to_go_int n with
  | None => Err E_OUT_OF_RANGE
  | Some o =>
    if o <? 0 then Err E_OUT_OF_RANGE else
    let '(newLen, ok) := mul_overflow o (len (data a)) in
    if negb ok then Err E_OUT_OF_RANGE else
    if newLen =? 0 then Ok (Lst (tup a) [] 0) else
    bind (go_make 0 newLen) (fun c => Ok (i_rep_loop (Z.to_nat o) (Lst (tup a) [] c) (data a)))
  end.

(* Tuple#slice (vm/tuple.go, fixed): resolve negative bounds, step over excluded bounds,
   empty selection -> empty tuple, else both ends must be valid indices; then `at` per index *)
Definition empty_tuple : lst := Lst true [] 0.
Definition i_conv (o : option Z) (dflt : Z) : outcome Z :=
  match o with
  | None => Ok dflt
  | Some a => match to_go_int a with None => Err E_OUT_OF_RANGE | Some s => Ok s end
  end.
Definition has (o : option Z) : bool := match o with None => false | Some _ => true end.
Definition i_bound_start (n : Z) (r : rng) (s : Z) : option Z :=   (* None = return the empty tuple *)
  if has (r_start r) then
    let s := if s <? 0 then s + n else s in
    if r_sx r then (if s =? max64 then None else Some (s + 1)) else Some s
  else Some s.
Definition i_bound_end (n : Z) (r : rng) (e : Z) : option Z :=
  if has (r_end r) then
    let e := if e <? 0 then e + n else e in
    if r_ex r then (if e =? min64 then None else Some (e - 1)) else Some e
  else Some e.
Fixpoint i_slice_loop (count : nat) (l : lst) (i : Z) (acc : lst) : outcome lst :=
  match count with
  | O => Ok acc
  | S c => bind (i_get l i) (fun v => i_slice_loop c l (i + 1) (go_append acc [v]))
  end.
Definition i_slice (l : lst) (r : rng) : outcome lst :=
  let n := len (data l) in
  bind (i_conv (r_start r) 0) (fun s0 =>
  bind (i_conv (r_end r) (n - 1)) (fun e0 =>
  match i_bound_start n r s0 with
  | None => Ok empty_tuple
  | Some s =>
    match i_bound_end n r e0 with
    | None => Ok empty_tuple
    | Some e =>
      if s >? e then Ok empty_tuple else
      if (s <? 0) || (s >=? n) then Err E_OUT_OF_RANGE else
      if (e <? 0) || (e >=? n) then Err E_OUT_OF_RANGE else
      i_slice_loop (Z.to_nat (e - s + 1)) l s empty_tuple
    end
  end)).

(* ArrayTupleEqual: lengths, then index loop with early exit *)
Fixpoint i_eq_loop (count : nat) (x y : list Z) (i : Z) : outcome bool :=
  match count with
  | O => Ok true
  | S c => bind (go_idx x i) (fun a => bind (go_idx y i) (fun b =>
           if a =? b then i_eq_loop c x y (i + 1) else Ok false))
  end.
Definition i_tuple_equal (x y : list Z) : outcome bool :=
  if len x =? len y then i_eq_loop (length x) x y 0 else Ok false.
(* `==`: ArrayList#== accepts only ArrayLists; ArrayTuple#== accepts every value.ArrayTuple,
   which ArrayLists implement as well *)
Definition i_eq (a b : lst) : outcome bool :=
  if tup a then i_tuple_equal (data a) (data b)
  else if tup b then Ok false else i_tuple_equal (data a) (data b).
(* Iterable#contains over the native iteration of the slice *)
Fixpoint i_contains_loop (count : nat) (d : list Z) (i v : Z) : outcome bool :=
  match count with
  | O => Ok false
  | S c => bind (go_idx d i) (fun e => if e =? v then Ok true else i_contains_loop c d (i + 1) v)
  end.
Definition i_contains (l : lst) (v : Z) : outcome bool := i_contains_loop (length (data l)) (data l) 0 v.
(* iterator: NextValue until stop_iteration *)
Fixpoint i_iter_loop (fuel : nat) (d : list Z) (idx : Z) (acc : list Z) : outcome (list Z) :=
  if idx >=? len d then Ok acc else
  match fuel with
  | O => Fatal F_FUEL
  | S f => bind (go_idx d idx) (fun e => i_iter_loop f d (idx + 1) (acc ++ [e]))
  end.
Definition i_iter (l : lst) : outcome (list Z) := i_iter_loop (length (data l)) (data l) 0 [].

(* ======================= spec layer: plain sequences ======================= *)
(* an index is valid when it is a machine integer in [-n, n) *)
Definition valid_index (d : list Z) (a : Z) : bool := fits64 a && (- len d <=? a) && (a <? len d).
Definition pos_of (d : list Z) (a : Z) : nat := Z.to_nat (if a <? 0 then len d + a else a).

Definition s_get (l : lst) (a : Z) : outcome Z :=
  if valid_index (data l) a then Ok (nth (pos_of (data l) a) (data l) 0) else Err E_OUT_OF_RANGE.
Definition s_set (l : lst) (a v : Z) : outcome lst :=
  if valid_index (data l) a
  then Ok (set_data l (firstn (pos_of (data l) a) (data l) ++ v :: skipn (S (pos_of (data l) a)) (data l)))
  else Err E_OUT_OF_RANGE.
Definition s_push (l : lst) (v : Z) : lst := go_append l [v].
Definition s_append (l : lst) (vs : list Z) : lst :=
  Lst (tup l) (data l ++ vs) (cap (fold_left i_push vs l)).
Definition s_remove_at (l : lst) (a : Z) : outcome lst :=
  if valid_index (data l) a
  then Ok (set_data l (firstn (pos_of (data l) a) (data l) ++ skipn (S (pos_of (data l) a)) (data l)))
  else Err E_OUT_OF_RANGE.
Definition s_pop (l : lst) : outcome (lst * Z) :=
  match data l with
  | [] => Err E_OUT_OF_RANGE
  | _ => Ok (set_data l (removelast (data l)), last (data l) 0)
  end.
Definition s_clear (l : lst) : outcome lst := Ok (set_data l []).
Definition s_remove (l : lst) (v : Z) : outcome (lst * bool) :=
  Ok (set_data l (filter (fun e => negb (e =? v)) (data l)), existsb (fun e => e =? v) (data l)).
Definition s_grow (l : lst) (a : Z) : outcome lst :=
  if (0 <=? a) && (a <=? max64) then go_grow l a else Err E_OUT_OF_RANGE.
Definition s_append_at (l : lst) (a v : Z) : outcome lst :=
  if (0 <=? a) && (a <=? max64) then
    if a <? len (data l) then s_set l a v
    else bind (go_make (len (data l)) (wrap64 (cap l + wrap64 (wrap64 (a + 1) - len (data l))))) (fun c =>
         let l' := go_append (Lst (tup l) (data l) c) (repeat NILV (Z.to_nat (a + 1 - len (data l)))) in
         Ok (set_data l' (data l ++ repeat NILV (Z.to_nat (a - len (data l))) ++ [v])))
  else Err E_OUT_OF_RANGE.
Definition s_mapadd (l : lst) (k : Z) : outcome lst := Ok (set_data l (map (fun e => e + k) (data l))).
Definition s_concat (a b : lst) : outcome lst := i_concat a b.   (* data a ++ data b by definition *)
Definition s_repeat (a : lst) (n : Z) : outcome lst :=
  if (n <? 0) || negb (fits64 n) || negb (fits64 (n * len (data a))) then Err E_OUT_OF_RANGE else
  if n * len (data a) =? 0 then Ok (Lst (tup a) [] 0) else
  bind (go_make 0 (n * len (data a))) (fun c =>
    Ok (Lst (tup a) (concat (repeat (data a) (Z.to_nat n))) (cap (i_rep_loop (Z.to_nat n) (Lst (tup a) [] c) (data a))))).

(* selection of a range over a sequence of length n: inclusive index interval [lo, hi] after
   resolving negative bounds from the end; None = a bound is not a machine integer *)
Definition resolve (n a : Z) : Z := if a <? 0 then a + n else a.
Definition sel_lo (n : Z) (r : rng) : Z :=
  match r_start r with None => 0 | Some a => resolve n a + (if r_sx r then 1 else 0) end.
Definition sel_hi (n : Z) (r : rng) : Z :=
  match r_end r with None => n - 1 | Some a => resolve n a - (if r_ex r then 1 else 0) end.
Definition bound_ok (o : option Z) : bool := match o with None => true | Some a => fits64 a end.
Definition s_slice_data (l : lst) (r : rng) : outcome (list Z) :=
  let n := len (data l) in
  if negb (bound_ok (r_start r)) || negb (bound_ok (r_end r)) then Err E_OUT_OF_RANGE else
  let lo := sel_lo n r in let hi := sel_hi n r in
  if lo >? hi then Ok [] else
  if (lo <? 0) || (hi >=? n) then Err E_OUT_OF_RANGE else
  Ok (firstn (Z.to_nat (hi - lo + 1)) (skipn (Z.to_nat lo) (data l))).

Definition s_eq (a b : lst) : outcome bool :=
  if tup a then Ok (if list_eq_dec Z.eq_dec (data a) (data b) then true else false)
  else if tup b then Ok false else Ok (if list_eq_dec Z.eq_dec (data a) (data b) then true else false).
Definition s_contains (l : lst) (v : Z) : outcome bool := Ok (existsb (fun e => e =? v) (data l)).
Definition s_iter (l : lst) : outcome (list Z) := Ok (data l).

(* ======================= histories ======================= *)
Inductive op : Type :=
| ONew (dst : nat) (t : bool) (vs : list Z)     (* literal *)
| OCopy (dst a : nat)
| OPush (r : nat) (v : Z)
| OAppend (r : nat) (vs : list Z)
| OSet (r : nat) (a v : Z)
| OPop (r : nat)
| ORemove (r : nat) (v : Z)
| ORemoveAt (r : nat) (a : Z)
| OGrow (r : nat) (a : Z)
| OClear (r : nat)
| OAppendAt (r : nat) (a v : Z)                 (* Go API only: literals with explicit indices *)
| OMapAdd (r : nat) (k : Z)
| OConcat (dst a b : nat)
| ORepeat (dst a : nat) (n : Z).

Inductive query : Type :=
| QLen (r : nat) | QGet (r : nat) (a : Z) | QSlice (r : nat) (g : rng) | QEq (a b : nat)
| QContains (r : nat) (v : Z) | QIter (r : nat).

(* result of a step or query, as printed by the drivers *)
Inductive res : Type := RUnit | RInt (z : Z) | RBool (b : bool) | RSeq (t : bool) (d : list Z).

Record layer : Type := Layer {
  f_get : lst -> Z -> outcome Z;
  f_set : lst -> Z -> Z -> outcome lst;
  f_push : lst -> Z -> lst;
  f_append : lst -> list Z -> lst;
  f_pop : lst -> outcome (lst * Z);
  f_remove : lst -> Z -> outcome (lst * bool);
  f_remove_at : lst -> Z -> outcome lst;
  f_grow : lst -> Z -> outcome lst;
  f_clear : lst -> outcome lst;
  f_append_at : lst -> Z -> Z -> outcome lst;
  f_mapadd : lst -> Z -> outcome lst;
  f_concat : lst -> lst -> outcome lst;
  f_repeat : lst -> Z -> outcome lst;
  f_slice : lst -> rng -> outcome (list Z);
  f_eq : lst -> lst -> outcome bool;
  f_contains : lst -> Z -> outcome bool;
  f_iter : lst -> outcome (list Z) }.

Definition impl_layer : layer :=
  Layer i_get i_set i_push i_append i_pop i_remove i_remove_at i_grow i_clear i_append_at i_mapadd
        i_concat i_repeat (fun l r => bind (i_slice l r) (fun t => Ok (data t))) i_eq i_contains i_iter.
Definition spec_layer : layer :=
  Layer s_get s_set s_push s_append s_pop s_remove s_remove_at s_grow s_clear s_append_at s_mapadd
        s_concat s_repeat s_slice_data s_eq s_contains s_iter.

Definition state := list lst.
Definition reg (st : state) (r : nat) : option lst := nth_error st r.
Fixpoint set_reg (st : state) (r : nat) (l : lst) : state :=
  match st, r with
  | [], _ => []
  | _ :: t, O => l :: t
  | h :: t, S r' => h :: set_reg t r' l
  end.

(* a mutation of register r: tuples have no mutating methods (E_TYPE), errors leave the state alone *)
Definition mutate (st : state) (r : nat) (f : lst -> outcome (lst * res)) : state * outcome res :=
  match reg st r with
  | None => (st, Err E_TYPE)
  | Some l =>
    if tup l then (st, Err E_TYPE) else
    match f l with
    | Ok (l', x) => (set_reg st r l', Ok x)
    | Err c => (st, Err c) | Panic c => (st, Panic c) | Fatal c => (st, Fatal c)
    end
  end.
Definition store (st : state) (dst : nat) (o : outcome lst) : state * outcome res :=
  match o with
  | Ok l => (set_reg st dst l, Ok RUnit)
  | Err c => (st, Err c) | Panic c => (st, Panic c) | Fatal c => (st, Fatal c)
  end.
Definition unit_res (o : outcome lst) : outcome (lst * res) := bind o (fun l => Ok (l, RUnit)).

Definition step (L : layer) (st : state) (o : op) : state * outcome res :=
  match o with
  | ONew dst t vs => store st dst (Ok (Lst t vs (len vs)))
  | OCopy dst a => match reg st a with None => (st, Err E_TYPE) | Some l => store st dst (Ok (Lst (tup l) (data l) (len (data l)))) end
  | OPush r v => mutate st r (fun l => Ok (f_push L l v, RUnit))
  | OAppend r vs => mutate st r (fun l => Ok (f_append L l vs, RUnit))
  | OSet r a v => mutate st r (fun l => unit_res (f_set L l a v))
  | OPop r => mutate st r (fun l => bind (f_pop L l) (fun p => Ok (fst p, RInt (snd p))))
  | ORemove r v => mutate st r (fun l => bind (f_remove L l v) (fun p => Ok (fst p, RBool (snd p))))
  | ORemoveAt r a => mutate st r (fun l => unit_res (f_remove_at L l a))
  | OGrow r a => mutate st r (fun l => unit_res (f_grow L l a))
  | OClear r => mutate st r (fun l => unit_res (f_clear L l))
  | OAppendAt r a v => mutate st r (fun l => unit_res (f_append_at L l a v))
  | OMapAdd r k => mutate st r (fun l => unit_res (f_mapadd L l k))
  | OConcat dst a b =>
      match reg st a, reg st b with
      | Some x, Some y => store st dst (f_concat L x y)
      | _, _ => (st, Err E_TYPE)
      end
  | ORepeat dst a n =>
      match reg st a with Some x => store st dst (f_repeat L x n) | None => (st, Err E_TYPE) end
  end.

Definition observe (L : layer) (st : state) (q : query) : outcome res :=
  match q with
  | QLen r => match reg st r with Some l => Ok (RInt (len (data l))) | None => Err E_TYPE end
  | QGet r a => match reg st r with Some l => bind (f_get L l a) (fun z => Ok (RInt z)) | None => Err E_TYPE end
  | QSlice r g => match reg st r with Some l => bind (f_slice L l g) (fun d => Ok (RSeq true d)) | None => Err E_TYPE end
  | QEq a b => match reg st a, reg st b with Some x, Some y => bind (f_eq L x y) (fun t => Ok (RBool t)) | _, _ => Err E_TYPE end
  | QContains r v => match reg st r with Some l => bind (f_contains L l v) (fun t => Ok (RBool t)) | None => Err E_TYPE end
  | QIter r => match reg st r with Some l => bind (f_iter L l) (fun d => Ok (RSeq (tup l) d)) | None => Err E_TYPE end
  end.

(* run a history, collecting the outcome of every operation (most recent last) *)
Definition run (L : layer) (st : state) (ops : list op) : state * list (outcome res) :=
  fold_left (fun acc o => let '(s, outs) := acc in let '(s', r) := step L s o in (s', outs ++ [r])) ops (st, []).

End WithGrow.

(* three empty list registers *)
Definition init_state : state := [Lst false [] 0; Lst false [] 0; Lst false [] 0].
(* the instance the drivers run: exact-fit growth (capacities are not compared) *)
Definition growcap_exact (old needed : Z) : Z := needed.
Definition run_step (st : state) (o : op) : state * outcome res := step (impl_layer growcap_exact) st o.
Definition run_query (st : state) (q : query) : outcome res := observe (impl_layer growcap_exact) st q.
Definition spec_step (st : state) (o : op) : state * outcome res := step (spec_layer growcap_exact) st o.
Definition spec_query (st : state) (q : query) : outcome res := observe (spec_layer growcap_exact) st q.
