(* C16 — awaiting never loses a wake-up or deadlocks the runtime.
   Executable protocol model (definitions only; proofs live in Proofs/C16_Await.v).

   What is modelled (Go, /repo/vm):
     thread.go  AWAIT               promise.m.Lock(); if !IsResolved { state = awaitState; return }   (returns HOLDING the lock)
                                    else read result; promise.m.Unlock()
     thread_pool.go threadWorker    for task := range queue { executeBytecodePromise }                 (receive = take)
                executeBytecodePromise   awaitState: RegisterContinuationUnsafe(task); m.Unlock()
                                    default:    task.Resolve(result)
     promise.go NewPromise          threadPool.AddTask(p)                                              (spawn = enqueue)
                Resolve/Reject      m.Lock(); publish (ThreadPool=nil, result); wg.Done();
                                    for cont in continuations { enqueue cont }; continuations=nil; m.Unlock()
                AwaitSync           wg.Wait()                                                          (the main thread's `await`)
     thread_pool.go AddTask / enqueue
        protocol Orig  (the tree as found):  queue <- task            blocking send into the bounded channel
        protocol Fixed (fixes/C16-*.patch):  select { case queue <- task: default: go func(){ queue <- task }() }
                                             never blocks; a fallback goroutine holds the task and finishes the
                                             (blocking) send later  = the `s_ovf` component + action AFlush.

   One step = one Go statement group between lock operations / channel operations:
     take | spawn(enqueue) | await-lock(+check; the task's pc moves past the AWAIT here, as vm.ip does) | await-read-unlock | register+unlock (park) |
     settle-lock(+publish, wg.Done) | send one continuation | settle-unlock | flush (fallback goroutine's send completes).
   A promise's mutex is represented by its holder's control state: worker w holds the mutex of j exactly when
   its state is WAwaitHold _ j, WAwaitRead _ j or WSettle j; acquiring is enabled only when no worker holds it
   (Go sync.Mutex semantics; a blocked Lock or a blocked channel send is a step that is not enabled).

   Programs are static tables: task id = promise id = index into c_tasks; `ISpawn j` starts task j (if it was
   not started yet), `IAwait j` awaits promise j; the end of a body is the implicit `finish` (Resolve). *)
From Coq Require Import List Arith Bool.
Import ListNotations.

Inductive instr := ISpawn (j : nat) | IAwait (j : nat).
Definition body := list instr.

Inductive mode := Orig | Fixed.

Record cfg := {
  c_mode : mode;
  c_N : nat;               (* thread pool size *)
  c_Q : nat;               (* task queue capacity *)
  c_main : body;           (* the main thread (not a pool worker): spawn = AddTask, await = AwaitSync *)
  c_tasks : list body }.   (* async task bodies *)

Inductive tstat := TNew | TLive | TDone.   (* not started | started, promise pending | promise settled *)

Inductive wstate :=
| WIdle
| WRun (t : nat)
| WAwaitHold (t j : nat)     (* AWAIT saw j unresolved; thread is in awaitState and holds j's mutex *)
| WAwaitRead (t j : nat)     (* AWAIT saw j resolved; holds j's mutex, about to unlock and continue *)
| WSettle (t : nat).         (* Resolve(t): holds t's mutex, result published, sending continuations *)

Record state := {
  s_mainpc : nat;
  s_pc : list nat;
  s_st : list tstat;
  s_conts : list (list nat);
  s_queue : list nat;
  s_ovf : list nat;          (* Fixed only: tasks held by fallback goroutines blocked on the full queue *)
  s_ws : list wstate;
  (* ghost history counters (never read by the protocol) *)
  s_takes : list nat;        (* times task t was received from the queue by a worker (start or resume) *)
  s_parks : list nat;        (* times task t was registered as a continuation (suspended) *)
  s_settles : list nat }.    (* times promise t was settled *)

Inductive action := AMain | AWorker (w : nat) | AFlush (k : nat).

(* ---- list helpers ---- *)
Fixpoint upd {A} (i : nat) (x : A) (l : list A) : list A :=
  match l, i with
  | [], _ => []
  | _ :: r, O => x :: r
  | y :: r, S i' => y :: upd i' x r
  end.

Fixpoint remove_nth {A} (k : nat) (l : list A) : list A :=
  match l, k with
  | [], _ => []
  | _ :: r, O => r
  | y :: r, S k' => y :: remove_nth k' r
  end.

Definition incr (i : nat) (l : list nat) : list nat := upd i (S (nth i l 0)) l.

Definition st_of (s : state) (t : nat) : tstat := nth t (s_st s) TDone.
Definition pc_of (s : state) (t : nat) : nat := nth t (s_pc s) 0.
Definition conts_of (s : state) (p : nat) : list nat := nth p (s_conts s) [].
Definition body_of (c : cfg) (t : nat) : body := nth t (c_tasks c) [].

Definition is_new (x : tstat) : bool := match x with TNew => true | _ => false end.
Definition is_live (x : tstat) : bool := match x with TLive => true | _ => false end.
Definition is_done (x : tstat) : bool := match x with TDone => true | _ => false end.

Definition holds_lock (j : nat) (w : wstate) : bool :=
  match w with
  | WAwaitHold _ j' => j' =? j
  | WAwaitRead _ j' => j' =? j
  | WSettle t => t =? j
  | _ => false
  end.
Definition locked (s : state) (j : nat) : bool := existsb (holds_lock j) (s_ws s).

Definition wtasks (w : wstate) : list nat :=
  match w with
  | WRun t => [t] | WAwaitHold t _ => [t] | WAwaitRead t _ => [t]
  | WIdle => [] | WSettle _ => []
  end.

(* ---- field setters ---- *)
Definition set_mainpc s v := Build_state v (s_pc s) (s_st s) (s_conts s) (s_queue s) (s_ovf s) (s_ws s) (s_takes s) (s_parks s) (s_settles s).
Definition set_pc s v := Build_state (s_mainpc s) v (s_st s) (s_conts s) (s_queue s) (s_ovf s) (s_ws s) (s_takes s) (s_parks s) (s_settles s).
Definition set_st s v := Build_state (s_mainpc s) (s_pc s) v (s_conts s) (s_queue s) (s_ovf s) (s_ws s) (s_takes s) (s_parks s) (s_settles s).
Definition set_conts s v := Build_state (s_mainpc s) (s_pc s) (s_st s) v (s_queue s) (s_ovf s) (s_ws s) (s_takes s) (s_parks s) (s_settles s).
Definition set_queue s v := Build_state (s_mainpc s) (s_pc s) (s_st s) (s_conts s) v (s_ovf s) (s_ws s) (s_takes s) (s_parks s) (s_settles s).
Definition set_ovf s v := Build_state (s_mainpc s) (s_pc s) (s_st s) (s_conts s) (s_queue s) v (s_ws s) (s_takes s) (s_parks s) (s_settles s).
Definition set_ws s v := Build_state (s_mainpc s) (s_pc s) (s_st s) (s_conts s) (s_queue s) (s_ovf s) v (s_takes s) (s_parks s) (s_settles s).
Definition set_takes s v := Build_state (s_mainpc s) (s_pc s) (s_st s) (s_conts s) (s_queue s) (s_ovf s) (s_ws s) v (s_parks s) (s_settles s).
Definition set_parks s v := Build_state (s_mainpc s) (s_pc s) (s_st s) (s_conts s) (s_queue s) (s_ovf s) (s_ws s) (s_takes s) v (s_settles s).
Definition set_settles s v := Build_state (s_mainpc s) (s_pc s) (s_st s) (s_conts s) (s_queue s) (s_ovf s) (s_ws s) (s_takes s) (s_parks s) v.

Definition bump_pc s t := set_pc s (incr t (s_pc s)).

(* ---- the enqueue primitive: `queue <- t` (Orig) / enqueueTask (Fixed) ---- *)
Definition queue_full (c : cfg) (s : state) : bool := c_Q c <=? length (s_queue s).

Definition enq (c : cfg) (s : state) (t : nat) : option state :=
  if queue_full c s then
    match c_mode c with
    | Orig => None                                   (* blocking send: not enabled *)
    | Fixed => Some (set_ovf s (s_ovf s ++ [t]))     (* default: go func(){ queue <- t }() *)
    end
  else Some (set_queue s (s_queue s ++ [t])).

(* NewPromise: create the promise of task j and AddTask it (no-op when j was already started:
   the static table gives every started task its own index) *)
Definition spawn (c : cfg) (s : state) (j : nat) : option state :=
  if is_new (st_of s j) then enq c (set_st s (upd j TLive (s_st s))) j else Some s.

Definition step_main (c : cfg) (s : state) : option state :=
  match nth_error (c_main c) (s_mainpc s) with
  | None => None                                                    (* main finished: the process exits *)
  | Some (ISpawn j) =>
      match spawn c s j with
      | Some s1 => Some (set_mainpc s1 (S (s_mainpc s)))
      | None => None
      end
  | Some (IAwait j) =>                                              (* AWAIT_SYNC: wg.Wait() *)
      if is_done (st_of s j) then Some (set_mainpc s (S (s_mainpc s))) else None
  end.

Definition step_worker (c : cfg) (s : state) (w : nat) : option state :=
  match nth_error (s_ws s) w with
  | None => None
  | Some WIdle =>                                                   (* task := <-queue *)
      match s_queue s with
      | [] => None
      | t :: q => Some (set_takes (set_ws (set_queue s q) (upd w (WRun t) (s_ws s))) (incr t (s_takes s)))
      end
  | Some (WRun t) =>
      match nth_error (body_of c t) (pc_of s t) with
      | Some (ISpawn j) =>
          match spawn c s j with
          | Some s1 => Some (bump_pc s1 t)
          | None => None
          end
      | Some (IAwait j) =>                                          (* AWAIT: promise.m.Lock(); check *)
          if locked s j then None
          else if is_done (st_of s j) then Some (bump_pc (set_ws s (upd w (WAwaitRead t j) (s_ws s))) t)
          else Some (bump_pc (set_ws s (upd w (WAwaitHold t j) (s_ws s))) t)
      | None =>                                                     (* task.Resolve: Lock; publish; wg.Done *)
          if locked s t then None
          else Some (set_settles (set_st (set_ws s (upd w (WSettle t) (s_ws s))) (upd t TDone (s_st s)))
                                 (incr t (s_settles s)))
      end
  | Some (WAwaitRead t j) =>                                        (* read result; Unlock; continue *)
      Some (set_ws s (upd w (WRun t) (s_ws s)))
  | Some (WAwaitHold t j) =>                                        (* RegisterContinuationUnsafe; Unlock; worker idle *)
      Some (set_parks (set_conts (set_ws s (upd w WIdle (s_ws s)))
                                 (upd j (conts_of s j ++ [t]) (s_conts s)))
                      (incr t (s_parks s)))
  | Some (WSettle t) =>
      match conts_of s t with
      | k :: rest => enq c (set_conts s (upd t rest (s_conts s))) k   (* send one continuation, mutex held *)
      | [] => Some (set_ws s (upd w WIdle (s_ws s)))                  (* continuations = nil; Unlock *)
      end
  end.

Definition step_flush (c : cfg) (s : state) (k : nat) : option state :=
  match nth_error (s_ovf s) k with
  | None => None
  | Some t =>
      if queue_full c s then None
      else Some (set_ovf (set_queue s (s_queue s ++ [t])) (remove_nth k (s_ovf s)))
  end.

Definition step_fn (c : cfg) (s : state) (a : action) : option state :=
  match a with
  | AMain => step_main c s
  | AWorker w => step_worker c s w
  | AFlush k => step_flush c s k
  end.

Definition step (c : cfg) (s s' : state) : Prop := exists a, step_fn c s a = Some s'.

Definition init (c : cfg) : state :=
  let n := length (c_tasks c) in
  Build_state 0 (repeat 0 n) (repeat TNew n) (repeat [] n) [] [] (repeat WIdle (c_N c))
              (repeat 0 n) (repeat 0 n) (repeat 0 n).

Inductive reachable (c : cfg) : state -> Prop :=
| R_init : reachable c (init c)
| R_step : forall s a s', reachable c s -> step_fn c s a = Some s' -> reachable c s'.

(* ---- execution helpers (schedules, enabled actions) ---- *)
Fixpoint run (c : cfg) (sched : list action) (s : state) : option state :=
  match sched with
  | [] => Some s
  | a :: r => match step_fn c s a with Some s1 => run c r s1 | None => None end
  end.

Definition all_actions (s : state) : list action :=
  AMain :: map AWorker (seq 0 (length (s_ws s))) ++ map AFlush (seq 0 (length (s_ovf s))).

Definition is_some {A} (o : option A) : bool := match o with Some _ => true | None => false end.

Definition enabled (c : cfg) (s : state) : list action :=
  filter (fun a => is_some (step_fn c s a)) (all_actions s).

(* deterministic scheduler: always the first enabled action; stops when nothing is enabled *)
Fixpoint run_first (c : cfg) (fuel : nat) (s : state) : state :=
  match fuel with
  | O => s
  | S f => match enabled c s with
           | a :: _ => match step_fn c s a with Some s1 => run_first c f s1 | None => s end
           | [] => s
           end
  end.

(* ---- state predicates ---- *)
Definition main_done (c : cfg) (s : state) : bool := length (c_main c) <=? s_mainpc s.

(* the main thread cannot move for a reason that is the program's own: it has finished, or it is
   waiting (AwaitSync) for a promise that is not settled *)
Definition main_waiting (c : cfg) (s : state) : bool :=
  match nth_error (c_main c) (s_mainpc s) with
  | None => true
  | Some (IAwait j) => negb (is_done (st_of s j))
  | Some (ISpawn _) => false
  end.

Definition is_idle (w : wstate) : bool := match w with WIdle => true | _ => false end.

(* nothing left for the runtime to do: every worker idle, nothing queued anywhere *)
Definition quiescent (c : cfg) (s : state) : bool :=
  forallb is_idle (s_ws s) && (length (s_queue s) =? 0) && (length (s_ovf s) =? 0) && main_waiting c s.

(* a runtime deadlock: no step is enabled although work remains inside the runtime *)
Definition stuck (c : cfg) (s : state) : bool :=
  (length (enabled c s) =? 0) && negb (quiescent c s).

Definition all_tasks_done (s : state) : bool := forallb (fun x => negb (is_live x)) (s_st s).

(* number of occurrences of task t in the places where a started, unfinished task can be *)
Definition cnt (t : nat) (l : list nat) : nat := count_occ Nat.eq_dec l t.
Definition occ (s : state) (t : nat) : nat :=
  cnt t (s_queue s) + cnt t (s_ovf s) + cnt t (concat (s_conts s)) + cnt t (flat_map wtasks (s_ws s)).
Definition on_worker (s : state) (t : nat) : nat := cnt t (flat_map wtasks (s_ws s)).

(* ---- program well-formedness used by the termination theorem ---- *)
(* a body awaits only promises it started itself earlier, and task i starts only tasks with a larger index *)
Fixpoint spawned_before (b : body) (k : nat) (j : nat) : bool :=
  match b, k with
  | _, O => false
  | [], _ => false
  | ISpawn j' :: r, S k' => (j' =? j) || spawned_before r k' j
  | IAwait _ :: r, S k' => spawned_before r k' j
  end.

Fixpoint body_ok_from (lo n : nat) (b full : body) (k : nat) : bool :=
  match b with
  | [] => true
  | ISpawn j :: r => (lo <=? j) && (j <? n) && body_ok_from lo n r full (S k)
  | IAwait j :: r => spawned_before full k j && body_ok_from lo n r full (S k)
  end.
Definition body_ok (lo n : nat) (b : body) : bool := body_ok_from lo n b b 0.

Fixpoint tasks_ok (n i : nat) (l : list body) : bool :=
  match l with
  | [] => true
  | b :: r => body_ok (S i) n b && tasks_ok n (S i) r
  end.
Definition wf (c : cfg) : bool :=
  body_ok 0 (length (c_tasks c)) (c_main c) && tasks_ok (length (c_tasks c)) 0 (c_tasks c).

(* ---- the concrete witness configuration (N=1, Q=1): main starts mid(0) and two leaves (2,3);
        mid starts leaf 1 and awaits it.  Same shape as the program that hangs on the real runtime. ---- *)
Definition wit_main : body := [ISpawn 0; ISpawn 2; ISpawn 3; IAwait 0; IAwait 2; IAwait 3].
Definition wit_tasks : list body := [[ISpawn 1; IAwait 1]; []; []; []].
Definition wit_cfg (m : mode) : cfg := Build_cfg m 1 1 wit_main wit_tasks.
(* schedule: main spawns 0; worker takes 0, spawns 1, locks 1 (unresolved), parks; takes 1;
   main spawns 2 (queue full again); worker settles 1: lock+publish, then must send continuation 0 *)
Definition wit_sched : list action :=
  [AMain; AWorker 0; AWorker 0; AWorker 0; AWorker 0; AWorker 0; AMain; AWorker 0].

(* ---- the "batched fallback that skips one" variant of enqueueContinuations (a refuted design, NOT the tree) ----
     continuations := p.continuations; p.continuations = nil
     for i, cont := range continuations { select { case queue <- cont: default: go sendAll(continuations[i+1:]); return } }
   i.e. non-blocking sends, and when the queue is full "the remaining" continuations are handed to the fallback -
   starting AFTER the one whose send just failed.  Same statement granularity as step_worker: one continuation per
   step while there is room; the step that finds the queue full moves the tail to s_ovf and forgets the head.
   Every other step is the Fixed protocol's. *)
Definition step_worker_skip (c : cfg) (s : state) (w : nat) : option state :=
  match nth_error (s_ws s) w with
  | Some (WSettle t) =>
      match conts_of s t with
      | k :: rest =>
          if queue_full c s
          then Some (set_ovf (set_conts s (upd t [] (s_conts s))) (s_ovf s ++ rest))        (* k is dropped *)
          else Some (set_queue (set_conts s (upd t rest (s_conts s))) (s_queue s ++ [k]))
      | [] => step_worker c s w
      end
  | _ => step_worker c s w
  end.

Definition step_fn_skip (c : cfg) (s : state) (a : action) : option state :=
  match a with
  | AWorker w => step_worker_skip c s w
  | _ => step_fn c s a
  end.

Fixpoint run_skip (c : cfg) (sched : list action) (s : state) : option state :=
  match sched with
  | [] => Some s
  | a :: r => match step_fn_skip c s a with Some s1 => run_skip c r s1 | None => None end
  end.

Definition enabled_skip (c : cfg) (s : state) : list action :=
  filter (fun a => is_some (step_fn_skip c s a)) (all_actions s).

(* witness program for the variant (N=1, Q=1): main starts mid(0) and awaits it; mid starts leaf 1 and filler 2,
   then awaits 1 and 2.  Leaf 1 settles while filler 2 occupies the only queue slot. *)
Definition skip_main : body := [ISpawn 0; IAwait 0].
Definition skip_tasks : list body := [[ISpawn 1; ISpawn 2; IAwait 1; IAwait 2]; []; []].
Definition skip_cfg : cfg := Build_cfg Fixed 1 1 skip_main skip_tasks.
(* main starts 0; worker: take 0, start 1 (queued), start 2 (fallback goroutine), await 1: lock, park; take 1;
   the fallback goroutine's send of 2 completes (queue full again); worker: settle 1 (lock+publish), send
   continuation 0 -> queue full -> dropped; unlock; take 2; settle 2; unlock *)
Definition skip_sched : list action :=
  [AMain; AWorker 0; AWorker 0; AWorker 0; AWorker 0; AWorker 0; AWorker 0; AFlush 0;
   AWorker 0; AWorker 0; AWorker 0; AWorker 0; AWorker 0; AWorker 0].
