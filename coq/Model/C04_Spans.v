(* C04 - Lexing partitions the source faithfully; colouring never alters text.
   Executable model ONLY (no proofs).

   Sources are byte lists (`list Z`, every element in [0,256)); UTF-8 decoding is Go's
   utf8.DecodeRuneInString (Base/Utf8.v).

   1. Positions.  The lexer counts a line per '\n' (CRLF = a column character '\r' followed by the
      line end '\n') and a column per decoded rune (an invalid byte is one rune): `pos_at src n`
      recounts (line, column) of byte offset n from the beginning of the source and is `None`
      when n is not a rune boundary of the source's decoding.
   2. Token streams.  A token is (start, end_incl, line, col, end_line, end_col, sgr);
      `step_code src prev t` is the local step condition L checked by the monitor on every real
      step of the implementation (0 = holds), `chain_ok` its iteration along a stream.
   3. Colouring.  `colorize_from` mirrors lexer.Colorize / ColorizeEmbellishedText
      (lexer.go:100-152) including Go's slice-bounds panics, with fatih/color's wrap
      (ESC[<params>m lexeme ESC[0m); `strip` removes SGR sequences exactly like the regular
      expression ESC \[ [0-9;]* m.
   4. Cursor primitives.  advanceChar (by rune), backupChars n (by BYTES, column -= n),
      saveCursor/restoreCursor (the fix), token emission; `safe` is the guard under which the
      cursor invariant is proved: a backup only crosses single-byte, non-newline advances and a
      raw advance (no incrementLine) never crosses a newline. *)
From Elk Require Import Base.GoSem Base.Utf8.
Open Scope Z_scope.

Definition len (s : list Z) : Z := Z.of_nat (length s).

(* s[a:b] for 0 <= a <= b <= len s *)
Definition slice (s : list Z) (a b : Z) : list Z :=
  firstn (Z.to_nat (b - a)) (skipn (Z.to_nat a) s).

(* ------------------------------------------------------------------ positions *)

(* effect of one decoded rune on (line, column): incrementLine after '\n', column += 1 otherwise *)
Definition bump (p : Z * Z) (x : step) : Z * Z :=
  if st_rune x =? 10 then (fst p + 1, 1) else (fst p, snd p + 1).

(* walk the decoding steps from offset o with counters (line, col) looking for offset n *)
Fixpoint find_pos (l : list step) (o : Z) (p : Z * Z) (n : Z) : option (Z * Z) :=
  if o =? n then Some p
  else match l with
       | [] => None
       | x :: r => if n <? o + st_size x then None else find_pos r (o + st_size x) (bump p x) n
       end.

Definition pos_at (src : list Z) (n : Z) : option (Z * Z) :=
  find_pos (decode_steps src) 0 (1, 1) n.

(* ------------------------------------------------------------------ tokens and the step condition *)

Record tok := mkTok {
  t_start : Z; t_end : Z;            (* byte span [start, end], end inclusive; empty token: end = start-1 *)
  t_line : Z; t_col : Z;             (* StartPos.Line / Column *)
  t_eline : Z; t_ecol : Z;           (* EndPos.Line / Column *)
  t_sgr : list Z                     (* bytes of the SGR parameter string, e.g. "30;41" *)
}.

Definition pair_eqb (a b : Z * Z) : bool := (fst a =? fst b) && (snd a =? snd b).

(* The end position as tokenWithValue builds it: a one-byte token shares its start position;
   otherwise (line at the cursor, column at the cursor - 1) with cursor = end+1. *)
Definition end_expected (t : tok) (pe : Z * Z) : Z * Z :=
  if t_end t =? t_start t then (t_line t, t_col t) else (fst pe, snd pe - 1).

(* L src prev t: 0 = the step condition holds, otherwise the number of the violated clause *)
Definition step_code (src : list Z) (prev : Z) (t : tok) : Z :=
  if t_start t <? prev then 1                                   (* overlaps / precedes the previous token *)
  else if t_end t + 1 <? t_start t then 2                       (* negative length *)
  else if len src <? t_end t + 1 then 3                         (* outside the input *)
  else match pos_at src (t_start t) with
       | None => 4                                              (* start inside a rune *)
       | Some ps =>
         if negb (pair_eqb ps (t_line t, t_col t)) then 5       (* start line/column disagree with the offset *)
         else match pos_at src (t_end t + 1) with
              | None => 6                                       (* end inside a rune *)
              | Some pe =>
                if negb (pair_eqb (end_expected t pe) (t_eline t, t_ecol t)) then 7 else 0
              end
       end.

Definition step_ok (src : list Z) (prev : Z) (t : tok) : bool := step_code src prev t =? 0.

Fixpoint chain_ok (src : list Z) (prev : Z) (toks : list tok) : bool :=
  match toks with
  | [] => true
  | t :: r => step_ok src prev t && chain_ok src (t_end t + 1) r
  end.

(* the monitor's diagnostic: index and clause of the first step that violates L *)
Fixpoint chain_first_bad (src : list Z) (prev : Z) (toks : list tok) (i : Z) : option (Z * Z) :=
  match toks with
  | [] => None
  | t :: r => let c := step_code src prev t in
              if c =? 0 then chain_first_bad src (t_end t + 1) r (i + 1) else Some (i, c)
  end.

(* ------------------------------------------------------------------ colouring *)

Definition ESC : Z := 27.
Definition is_param (b : Z) : bool := in_rng 48 57 b || (b =? 59).        (* 0-9 ; *)
Definition sgr_pre (t : tok) : list Z := ESC :: 91 :: t_sgr t ++ [109].   (* ESC [ params m *)
Definition sgr_suf : list Z := [ESC; 91; 48; 109].                        (* ESC [ 0 m *)

(* Go: s[a:b] panics unless 0 <= a <= b <= len(s) *)
Definition go_slice (s : list Z) (a b : Z) : outcome (list Z) :=
  if (0 <=? a) && (a <=? b) && (b <=? len s) then Ok (slice s a b) else Panic 1.

(* lexer.Colorize: gap, escape prefix, lexeme, escape suffix ... trailing gap *)
Fixpoint colorize_from (src : list Z) (prev : Z) (toks : list tok) : outcome (list Z) :=
  match toks with
  | [] => go_slice src prev (len src)
  | t :: r =>
    bind (go_slice src prev (t_start t)) (fun gap =>
    bind (go_slice src (t_start t) (t_end t + 1)) (fun lexeme =>
    bind (colorize_from src (t_end t + 1) r) (fun rest =>
    Ok (gap ++ sgr_pre t ++ lexeme ++ sgr_suf ++ rest))))
  end.

Definition colorize (src : list Z) (toks : list tok) : outcome (list Z) := colorize_from src 0 toks.

(* removal of SGR escapes = replace all matches of  ESC \[ [0-9;]* m  by nothing.
   State: normal / ESC seen / inside the parameters (acc = parameter bytes seen so far, re-emitted
   when the sequence turns out not to be an SGR sequence). *)
Inductive sst := SNorm | SEsc | SCsi (acc : list Z).

Fixpoint strip_aux (st : sst) (s : list Z) : list Z :=
  match s with
  | [] => match st with SNorm => [] | SEsc => [ESC] | SCsi acc => ESC :: 91 :: acc end
  | b :: t =>
    match st with
    | SNorm => if b =? ESC then strip_aux SEsc t else b :: strip_aux SNorm t
    | SEsc => if b =? 91 then strip_aux (SCsi []) t
              else ESC :: (if b =? ESC then strip_aux SEsc t else b :: strip_aux SNorm t)
    | SCsi acc =>
      if is_param b then strip_aux (SCsi (acc ++ [b])) t
      else if b =? 109 then strip_aux SNorm t
      else ESC :: 91 :: acc ++ (if b =? ESC then strip_aux SEsc t else b :: strip_aux SNorm t)
    end
  end.

Definition strip (s : list Z) : list Z := strip_aux SNorm s.

Definition no_esc (s : list Z) : bool := forallb (fun b => negb (b =? ESC)) s.
Definition sgr_ok (toks : list tok) : bool := forallb (fun t => forallb is_param (t_sgr t)) toks.

(* ------------------------------------------------------------------ cursor primitives *)

(* reading position: cursor, line, column; `trail` is ghost state - the byte sizes of the
   advances made since the last token start / newline, most recent first *)
Record cpos := mkCpos { p_cur : Z; p_line : Z; p_col : Z; p_trail : list Z }.
Record cstate := mkCst { s_start : Z; s_pos : cpos; s_saved : option cpos }.

Inductive cop :=
| Adv            (* advanceChar, followed by incrementLine when the rune is '\n' *)
| AdvRaw         (* advanceChar alone (call sites that do not look for a newline) *)
| Back (n : nat) (* backupChars(n): cursor -= n; column -= n *)
| Save           (* saveCursor *)
| Restore        (* restoreCursor *)
| Emit.          (* tokenWithValue / skipToken: start = cursor *)

Definition next_rune (src : list Z) (p : cpos) : Z * Z := decode_rune (skipn (Z.to_nat (p_cur p)) src).

Definition adv (src : list Z) (raw : bool) (p : cpos) : cpos :=
  if p_cur p <? len src then
    let '(r, sz) := next_rune src p in
    if (r =? 10) && negb raw then mkCpos (p_cur p + sz) (p_line p + 1) 1 []
    else mkCpos (p_cur p + sz) (p_line p) (p_col p + 1) (sz :: p_trail p)
  else p.

Definition cstep (src : list Z) (st : cstate) (o : cop) : cstate :=
  match o with
  | Adv => mkCst (s_start st) (adv src false (s_pos st)) (s_saved st)
  | AdvRaw => mkCst (s_start st) (adv src true (s_pos st)) (s_saved st)
  | Back n => let p := s_pos st in
              mkCst (s_start st)
                    (mkCpos (p_cur p - Z.of_nat n) (p_line p) (p_col p - Z.of_nat n) (skipn n (p_trail p)))
                    (s_saved st)
  | Save => mkCst (s_start st) (s_pos st) (Some (s_pos st))
  | Restore => match s_saved st with
               | Some p => mkCst (s_start st) p (s_saved st)
               | None => st
               end
  | Emit => mkCst (p_cur (s_pos st)) (mkCpos (p_cur (s_pos st)) (p_line (s_pos st)) (p_col (s_pos st)) []) None
  end.

Definition crun (src : list Z) (st : cstate) (ops : list cop) : cstate := fold_left (cstep src) ops st.

(* the guard: what every call site of the FIXED lexer satisfies *)
Definition guard (src : list Z) (st : cstate) (o : cop) : bool :=
  match o with
  | Back n => (n <=? length (p_trail (s_pos st)))%nat && forallb (Z.eqb 1) (firstn n (p_trail (s_pos st)))
  | AdvRaw => negb ((p_cur (s_pos st) <? len src) && (fst (next_rune src (s_pos st)) =? 10))
  | _ => true
  end.

Fixpoint safe (src : list Z) (st : cstate) (ops : list cop) : bool :=
  match ops with
  | [] => true
  | o :: r => guard src st o && safe src (cstep src st o) r
  end.

Definition cinit : cstate := mkCst 0 (mkCpos 0 1 1 []) None.

(* the invariant, as a decidable check (used by the non-vacuity examples and the witnesses) *)
Definition cur_ok (src : list Z) (st : cstate) : bool :=
  let p := s_pos st in
  (0 <=? s_start st) && (s_start st <=? p_cur p) && (p_cur p <=? len src) &&
  match pos_at src (p_cur p) with
  | Some q => pair_eqb q (p_line p, p_col p)
  | None => false
  end.
