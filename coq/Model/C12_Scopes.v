(* C12 — type-checking verdicts survive meaning-preserving edits: the checker model WITH catch scopes.
   Executable model only (no proofs here).

   Extends Model/C12_Checker.v (which stays as it is for the renaming / parentheses / reordering
   theorems) by the throw-checking machinery of /repo/types/checker:
     - the catchScopes register, a STACK of caught throw types (types/checker/throw.go:
       pushCatchScope / popCatchScope / checkThrowType, which accepts a thrown type when it is a
       subtype of ONE scope of the stack),
     - throw signatures `! T` of methods and closure literals (checkMethod, method.go: the saved
       stack is replaced by an empty one, the declared throw type is pushed, the saved stack is put
       back on exit; the local environment of a closure is nested, that of a method isolated),
     - `do ... catch T ... end` (checkDoExpressionNode, checker.go: handler checked first, then the
       scope is pushed around the body and popped),
     - `throw`, calls of throwing methods `m()` and of throwing closures `f.()`,
     - the flags inferClosureReturnType / inferClosureThrowType (c.flags: set when a closure literal
       has no return / throw annotation, never cleared inside, restored on exit - so a closure
       literal nested in an un-annotated closure inherits them, as in the code),
     - block bodies everywhere (`x := e`, `x = e`, `return e`, `throw` are expressions, as in Elk).

   fx = true  : checkMethod restores the previous returnType / throwType on exit (the code as it is now)
   fx = false : the code as first found: `c.returnType = nil; c.throwType = nil` on exit
   Exception classes are unrelated to each other (siblings under Std::Error); a throw type is a
   finite union of classes, [] = never.  Local environments are flat (the generator uses fresh
   names, so shadowing never decides). *)
From Coq Require Import ZArith NArith List Bool.
Import ListNotations.

Definition name := N.
Definition exc := N.
Definition thr := list exc.

Definition mem (a : exc) (u : thr) : bool := existsb (N.eqb a) u.
Definition subset (u v : thr) : bool := forallb (fun a => mem a v) u.
Definition thr_eqb (u v : thr) : bool := subset u v && subset v u.

Inductive ty := TInt | TStr | TBool | TNil | TClos (np : N) (r : ty) (u : thr) | TNever | TErr | TOther.

Fixpoint ty_eqb (a b : ty) : bool :=
  match a, b with
  | TInt, TInt | TStr, TStr | TBool, TBool | TNil, TNil | TNever, TNever | TErr, TErr | TOther, TOther => true
  | TClos n x u, TClos m y v => N.eqb n m && ty_eqb x y && thr_eqb u v
  | _, _ => false
  end.

Definition assignable (a b : ty) : bool :=
  match a, b with
  | TNever, _ | TErr, _ | _, TErr => true
  | _, _ => ty_eqb a b
  end.

(* union of two result types; anything that is not one of the modelled types is TOther *)
Definition join (a b : ty) : ty :=
  match a, b with
  | TNever, _ => b
  | _, TNever => a
  | _, _ => if ty_eqb a b then a else TOther
  end.

Inductive expr :=
| ELit (t : ty)
| EVar (x : name)
| EParen (e : expr)
| ECall (f : expr)                       (* f.() *)
| EMeth (m : name)                       (* m() *)
| EClos (ps : list (name * ty)) (rt : option ty) (th : option thr) (body : block)
                                         (* |ps|: rt ! th -> body end ; None = no annotation *)
| ELet (x : name) (e : expr)             (* x := e *)
| EAssign (x : name) (e : expr)          (* x = e *)
| EReturn (e : expr)
| EThrow (c : exc)                       (* throw C("...") *)
| EDo (body : block) (ct : thr) (handler : block)   (* do body catch ct handler end *)
with block :=
| BNil
| BCons (e : expr) (b : block).

Definition mdef := (name * ty * thr * block)%type.   (* def m: rt ! u  body  end *)

Record prog := mkProg { methods : list mdef; main : block }.

Inductive md := TopLevelMode | MethodMode.

Record regs := mkRegs {
  rret : option ty; rthr : option thr; rmode : md;
  rcatch : list thr;              (* the catch-scope stack, innermost first *)
  rinfr : bool; rinft : bool      (* flags: infer closure return type / throw type *)
}.

Record st := mkSt { sregs : regs; slocals : list (name * ty); serrs : nat; sthrown : thr }.

Fixpoint lookup {A : Type} (l : list (name * A)) (x : name) : option A :=
  match l with
  | [] => None
  | (y, t) :: l' => if N.eqb x y then Some t else lookup l' x
  end.

Definition err (s : st) : st := mkSt (sregs s) (slocals s) (S (serrs s)) (sthrown s).
Definition set_regs (s : st) (r : regs) : st := mkSt r (slocals s) (serrs s) (sthrown s).
Definition set_locals (s : st) (l : list (name * ty)) : st := mkSt (sregs s) l (serrs s) (sthrown s).
Definition add_local (s : st) (x : name) (t : ty) : st := mkSt (sregs s) ((x, t) :: slocals s) (serrs s) (sthrown s).
Definition add_thrown (s : st) (u : thr) : st := mkSt (sregs s) (slocals s) (serrs s) (u ++ sthrown s).

Definition with_catch (r : regs) (c : list thr) : regs := mkRegs (rret r) (rthr r) (rmode r) c (rinfr r) (rinft r).
Definition push_scope (s : st) (u : thr) : st := set_regs s (with_catch (sregs s) (u :: rcatch (sregs s))).
Definition pop_scope (s : st) : st := set_regs s (with_catch (sregs s) (tl (rcatch (sregs s)))).

(* checkThrowType: never is fine; a throw type is fine when ONE scope of the stack covers it;
   in an inferring closure it is added to the closure's throw type; otherwise a diagnostic *)
Definition covered (u : thr) (scopes : list thr) : bool := existsb (subset u) scopes.

Definition check_throw (s : st) (u : thr) : st :=
  match u with
  | [] => s
  | _ => if covered u (rcatch (sregs s)) then s
         else if rinft (sregs s) then add_thrown s u else err s
  end.

(* registers / inferred throw type on leaving checkMethod *)
Definition leave (fx : bool) (saved : regs) : regs :=
  if fx then saved else mkRegs None None (rmode saved) (rcatch saved) (rinfr saved) (rinft saved).

Definition exit_method (fx : bool) (s : st) (errs : nat) : st :=
  mkSt (leave fx (sregs s)) (slocals s) errs (if fx then sthrown s else []).

Definition scopes_of (u : thr) : list thr := match u with [] => [] | _ => [u] end.

Definition sigs_t := list (name * (ty * thr)).

Fixpoint check_expr (fx : bool) (sigs : sigs_t) (s : st) (e : expr) {struct e} : st * ty :=
  match e with
  | ELit t => (s, t)
  | EVar x =>
    match lookup (slocals s) x with
    | Some t => (s, t)
    | None => (err s, TErr)
    end
  | EParen e' => check_expr fx sigs s e'
  | ECall f =>
    let (s1, t) := check_expr fx sigs s f in
    match t with
    | TClos np r u => if N.eqb np 0 then (check_throw s1 u, r) else (err s1, TErr)
    | TErr => (s1, TErr)
    | _ => (err s1, TErr)
    end
  | EMeth m =>
    match lookup sigs m with
    | Some (t, u) => (check_throw s u, t)
    | None => (err s, TErr)
    end
  | EClos ps rt th body =>
    (* checkMethod for a closure literal *)
    let infr := match rt with None => true | Some _ => rinfr (sregs s) end in
    let inft := match th with None => true | Some _ => rinft (sregs s) end in
    let decl := match th with Some u => u | None => [] end in
    let s1 := mkSt (mkRegs rt th MethodMode (scopes_of decl) infr inft) (ps ++ slocals s) (serrs s) decl in
    let (s2, bt) := check_block fx sigs s1 TNil body in
    let s3 := match rt with
              | Some r => if infr then s2 else if assignable bt r then s2 else err s2
              | None => s2
              end in
    let cr := match rt with
              | Some r => if infr then join r bt else r
              | None => bt
              end in
    let cu := if inft then sthrown s2 else decl in
    (exit_method fx s (serrs s3), TClos (N.of_nat (length ps)) cr cu)
  | ELet x e' =>
    let (s1, t) := check_expr fx sigs s e' in
    match lookup (slocals s1) x with
    | Some t0 => if assignable t t0 then (s1, t) else (err s1, t)
    | None => (add_local s1 x t, t)
    end
  | EAssign x e' =>
    let (s1, t) := check_expr fx sigs s e' in
    match lookup (slocals s1) x with
    | Some t0 => if assignable t t0 then (s1, t) else (err s1, t)
    | None => (err s1, TErr)
    end
  | EReturn e' =>
    let (s1, t) := check_expr fx sigs s e' in
    if rinfr (sregs s1) then (s1, TNever)
    else match rret (sregs s1) with
         | Some r => if assignable t r then (s1, TNever) else (err s1, TNever)
         | None => (err s1, TNever)
         end
  | EThrow c => (check_throw s [c], TNever)
  | EDo body ct handler =>
    let locs := slocals s in
    let (s1, th) := check_block fx sigs s TNil handler in
    let s2 := push_scope (set_locals s1 locs) ct in
    let (s3, tb) := check_block fx sigs s2 TNil body in
    (pop_scope (set_locals s3 locs), join th tb)
  end
with check_block (fx : bool) (sigs : sigs_t) (s : st) (t0 : ty) (b : block) {struct b} : st * ty :=
  match b with
  | BNil => (s, t0)
  | BCons e b' => let (s1, t) := check_expr fx sigs s e in check_block fx sigs s1 t b'
  end.

(* checkMethod for a method definition: isolated locals, declared return and throw type *)
Definition check_method (fx : bool) (sigs : sigs_t) (s : st) (m : mdef) : st :=
  let '(_, rt, u, body) := m in
  let s1 := mkSt (mkRegs (Some rt) (Some u) MethodMode (scopes_of u) false false) [] (serrs s) u in
  let (s2, bt) := check_block fx sigs s1 TNil body in
  let s3 := if assignable bt rt then s2 else err s2 in
  exit_method fx s (serrs s3).

Definition sig_of (m : mdef) : name * (ty * thr) :=
  let '(n, rt, u, _) := m in (n, (rt, u)).
Definition sigs_of (ms : list mdef) : sigs_t := map sig_of ms.

Definition top : st := mkSt (mkRegs None None TopLevelMode [] false false) [] 0 [].

Definition check_prog (fx : bool) (p : prog) : st :=
  let sigs := sigs_of (methods p) in
  let s := fold_left (check_method fx sigs) (methods p) top in
  fst (check_block fx sigs s TNil (main p)).

Definition errors (fx : bool) (p : prog) : nat := serrs (check_prog fx p).
Definition accepts (fx : bool) (p : prog) : bool := Nat.eqb (errors fx p) 0.

(* ---- names ---- *)
Fixpoint expr_names (e : expr) : list name :=
  match e with
  | ELit _ | EMeth _ | EThrow _ => []
  | EVar x => [x]
  | EParen e' | ECall e' | EReturn e' => expr_names e'
  | EClos ps _ _ body => map fst ps ++ block_names body
  | ELet x e' | EAssign x e' => x :: expr_names e'
  | EDo body _ handler => block_names body ++ block_names handler
  end
with block_names (b : block) : list name :=
  match b with
  | BNil => []
  | BCons e b' => expr_names e ++ block_names b'
  end.

(* ---- the inserted initialisers: value literals and self-contained closure literals ----
   A closure literal of the class may have parameters (its body may use them), a declared return type,
   a declared throw type, `throw`s covered by its own catch scopes (its throw type or a do/catch inside
   it), do/catch blocks and further closure literals of the class, nested to any depth. *)
Definition base (t : ty) : bool := match t with TInt | TStr | TBool | TNil => true | _ => false end.

(* the statically known type of a simple expression of the class *)
Fixpoint ctype_e (env : list (name * ty)) (e : expr) : option ty :=
  match e with
  | ELit t => Some t
  | EVar x => lookup env x
  | EParen e' => ctype_e env e'
  | EThrow _ => Some TNever
  | _ => None
  end.

Fixpoint ctype_b (env : list (name * ty)) (t0 : option ty) (b : block) : option ty :=
  match b with
  | BNil => t0
  | BCons e b' => ctype_b env (ctype_e env e) b'
  end.

Fixpoint cexpr (env : list (name * ty)) (sc : list thr) (e : expr) {struct e} : bool :=
  match e with
  | ELit t => base t
  | EVar x => match lookup env x with Some _ => true | None => false end
  | EParen e' => cexpr env sc e'
  | EThrow c => covered [c] sc
  | EDo body ct handler => cblock env sc handler && cblock env (ct :: sc) body
  | EClos ps rt th body =>
    let decl := match th with Some u => u | None => [] end in
    cblock (ps ++ env) (scopes_of decl) body &&
    match rt with
    | None => true
    | Some r => match ctype_b (ps ++ env) (Some TNil) body with Some t => assignable t r | None => false end
    end
  | _ => false
  end
with cblock (env : list (name * ty)) (sc : list thr) (b : block) {struct b} : bool :=
  match b with
  | BNil => true
  | BCons e b' => cexpr env sc e && cblock env sc b'
  end.

Fixpoint closed_value (e : expr) : bool :=
  match e with
  | ELit t => base t
  | EParen e' => closed_value e'
  | EClos _ _ _ _ => cexpr [] [] e
  | _ => false
  end.

(* ---- the edit: `c` inserted before an existing statement of a block of the body, at any depth
   (method body, do body, catch handler, closure body; also inside closures bound by x := / returned ...) ---- *)
Inductive ins_b (c : expr) : block -> block -> Prop :=
| ins_here : forall e b, ins_b c (BCons e b) (BCons c (BCons e b))
| ins_later : forall e b b', ins_b c b b' -> ins_b c (BCons e b) (BCons e b')
| ins_inside : forall e e' b, ins_e c e e' -> ins_b c (BCons e b) (BCons e' b)
with ins_e (c : expr) : expr -> expr -> Prop :=
| ins_do_body : forall b b' ct h, ins_b c b b' -> ins_e c (EDo b ct h) (EDo b' ct h)
| ins_do_handler : forall b ct h h', ins_b c h h' -> ins_e c (EDo b ct h) (EDo b ct h')
| ins_clos : forall ps rt th b b', ins_b c b b' -> ins_e c (EClos ps rt th b) (EClos ps rt th b')
| ins_paren : forall e e', ins_e c e e' -> ins_e c (EParen e) (EParen e')
| ins_call : forall e e', ins_e c e e' -> ins_e c (ECall e) (ECall e')
| ins_let : forall x e e', ins_e c e e' -> ins_e c (ELet x e) (ELet x e')
| ins_assign : forall x e e', ins_e c e e' -> ins_e c (EAssign x e) (EAssign x e')
| ins_return : forall e e', ins_e c e e' -> ins_e c (EReturn e) (EReturn e').

(* insertion at a position of one block, the end included (used for the top-level statements) *)
Fixpoint block_len (b : block) : nat := match b with BNil => O | BCons _ b' => S (block_len b') end.

Fixpoint insert_at (pos : nat) (c : expr) (b : block) : block :=
  match pos, b with
  | O, _ => BCons c b
  | S n, BNil => BCons c BNil
  | S n, BCons h t => BCons h (insert_at n c t)
  end.

(* ---- consistent renaming of locals (closure parameters included), redundant parentheses ---- *)
Definition ren_params (f : name -> name) (ps : list (name * ty)) : list (name * ty) :=
  map (fun p => (f (fst p), snd p)) ps.

Fixpoint ren_expr (f : name -> name) (e : expr) : expr :=
  match e with
  | ELit t => ELit t
  | EVar x => EVar (f x)
  | EParen e' => EParen (ren_expr f e')
  | ECall g => ECall (ren_expr f g)
  | EMeth m => EMeth m
  | EClos ps rt th body => EClos (ren_params f ps) rt th (ren_block f body)
  | ELet x e' => ELet (f x) (ren_expr f e')
  | EAssign x e' => EAssign (f x) (ren_expr f e')
  | EReturn e' => EReturn (ren_expr f e')
  | EThrow c => EThrow c
  | EDo body ct handler => EDo (ren_block f body) ct (ren_block f handler)
  end
with ren_block (f : name -> name) (b : block) : block :=
  match b with
  | BNil => BNil
  | BCons e b' => BCons (ren_expr f e) (ren_block f b')
  end.

Definition swap (x y : name) (z : name) : name :=
  if N.eqb z x then y else if N.eqb z y then x else z.

Fixpoint strip_expr (e : expr) : expr :=
  match e with
  | EParen e' => strip_expr e'
  | ECall g => ECall (strip_expr g)
  | EClos ps rt th body => EClos ps rt th (strip_block body)
  | ELet x e' => ELet x (strip_expr e')
  | EAssign x e' => EAssign x (strip_expr e')
  | EReturn e' => EReturn (strip_expr e')
  | EDo body ct handler => EDo (strip_block body) ct (strip_block handler)
  | _ => e
  end
with strip_block (b : block) : block :=
  match b with
  | BNil => BNil
  | BCons e b' => BCons (strip_expr e) (strip_block b')
  end.

Definition strip_method (m : mdef) : mdef := let '(n, rt, u, b) := m in (n, rt, u, strip_block b).

Definition strip_prog (p : prog) : prog :=
  mkProg (map strip_method (methods p)) (strip_block (main p)).
