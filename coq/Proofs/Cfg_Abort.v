(* Proofs/Cfg_Abort.v — soundness of the abort-safety validator of Base/Cfg.v (C33).
   The searches compute_rank / compute_reach are unverified; only the checkers are trusted,
   and they are proved here for an ARBITRARY certificate m. *)
From Coq Require Import NArith ZArith List Bool Lia ZifyBool ZifyNat ZifyN FMapPositive.
From Elk Require Import Base.Cfg Proofs.Cfg_Verify.
Import ListNotations.
Open Scope N_scope.

(* a control-flow path: consecutive offsets are linked by succs (ordinary + handler edges) *)
Inductive cpath (f : func) : list N -> Prop :=
  | cp1 : forall a i, instr_at f a = Some i -> cpath f [a]
  | cpS : forall a i b p,
      instr_at f a = Some i -> In b (succs f i) -> cpath f (b :: p) -> cpath f (a :: b :: p).

(* the same along esuccs (the creating call of a generator/promise is not followed) *)
Inductive epath (f : func) : list N -> Prop :=
  | ep1 : forall a i, instr_at f a = Some i -> epath f [a]
  | epS : forall a i b p,
      instr_at f a = Some i -> In b (esuccs f i) -> epath f (b :: p) -> epath f (a :: b :: p).

Definition nonstop_at (f : func) (o : N) : Prop := forall i, instr_at f o = Some i -> stop i = false.
Definition nocheck_at (f : func) (o : N) : Prop := forall i, instr_at f o = Some i -> i_check i = false.
Definition noexit_at (f : func) (o : N) : Prop := forall i, instr_at f o = Some i -> is_exit i = false.

Lemma cpath_head : forall f a p, cpath f (a :: p) -> exists i, instr_at f a = Some i.
Proof. intros f a p H. inversion H; subst; eauto. Qed.

Lemma epath_head : forall f a p, epath f (a :: p) -> exists i, instr_at f a = Some i.
Proof. intros f a p H. inversion H; subst; eauto. Qed.

Section Rank.
  Variable f : func.
  Variable m : PositiveMap.t N.
  Hypothesis Hck : check_rank f m = true.

  Lemma rank_node : forall a i, instr_at f a = Some i -> stop i = false ->
    rank_of m a < n_instrs f /\
    forall b j, In b (succs f i) -> instr_at f b = Some j -> stop j = false ->
                rank_of m b < rank_of m a.
  Proof.
    intros a i Hat Hns. destruct (instr_at_some _ _ _ Hat) as [Hin Hoff].
    unfold check_rank in Hck. rewrite forallb_forall in Hck. specialize (Hck _ Hin).
    rewrite Hns in Hck. cbn [orb] in Hck. apply andb_prop in Hck as [H1 H2].
    rewrite Hoff in *. split; [lia|].
    intros b j Hb Hj Hjs. rewrite forallb_forall in H2. specialize (H2 _ Hb).
    rewrite Hj, Hjs in H2. cbn [orb] in H2. lia.
  Qed.

  Lemma rank_bounds_path : forall p, cpath f p -> (forall o, In o p -> nonstop_at f o) ->
    match p with
    | [] => True
    | a :: q => N.of_nat (length q) <= rank_of m a
    end.
  Proof.
    intros p Hp. induction Hp as [a i Hat | a i b p Hat Hb Hp IH]; intros Hns.
    - cbn [length]. lia.
    - assert (Hi : stop i = false) by (apply (Hns a); [left; reflexivity | exact Hat]).
      destruct (cpath_head _ _ _ Hp) as [j Hj].
      assert (Hjs : stop j = false) by (apply (Hns b); [right; left; reflexivity | exact Hj]).
      destruct (rank_node _ _ Hat Hi) as [_ Hdec].
      specialize (Hdec _ _ Hb Hj Hjs).
      assert (IH' : N.of_nat (length p) <= rank_of m b).
      { apply IH. intros o Ho. apply Hns. right. exact Ho. }
      cbn [length]. lia.
  Qed.

  Theorem rank_sound : forall p, cpath f p -> (forall o, In o p -> nonstop_at f o) ->
    (length p <= length (f_instrs f))%nat.
  Proof.
    intros p Hp Hns. pose proof (rank_bounds_path p Hp Hns) as Hb.
    destruct p as [|a q]; [cbn [length]; lia|].
    destruct (cpath_head _ _ _ Hp) as [i Hat].
    assert (Hi : stop i = false) by (apply (Hns a); [left; reflexivity | exact Hat]).
    destruct (rank_node _ _ Hat Hi) as [Hlt _].
    unfold n_instrs in Hlt. cbn [length]. lia.
  Qed.
End Rank.

Section Reach.
  Variable f : func.
  Variable m : PositiveMap.t N.
  Hypothesis Hck : check_reach f m = true.

  Lemma reach_node : forall a i, instr_at f a = Some i -> mem_of m a = true -> i_check i = false ->
    is_exit i = false /\ forall b, In b (esuccs f i) -> mem_of m b = true.
  Proof.
    intros a i Hat Hm Hc. destruct (instr_at_some _ _ _ Hat) as [Hin Hoff].
    unfold check_reach in Hck. apply andb_prop in Hck as [_ H2].
    rewrite forallb_forall in H2. specialize (H2 _ Hin).
    rewrite Hoff, Hm, Hc in H2. cbn [negb orb] in H2. apply andb_prop in H2 as [He Hs].
    split; [destruct (is_exit i); [discriminate|reflexivity]|].
    intros b Hb. rewrite forallb_forall in Hs. apply Hs. exact Hb.
  Qed.

  Lemma reach_path : forall p, epath f p ->
    match p with [] => True | a :: _ => mem_of m a = true end ->
    (forall o, In o p -> nocheck_at f o) ->
    forall o, In o p -> noexit_at f o.
  Proof.
    intros p Hp. induction Hp as [a i Hat | a i b p Hat Hb Hp IH]; intros Hm Hnc o Ho.
    - destruct Ho as [<-|[]]. intros i' Hi'. rewrite Hat in Hi'. injection Hi' as <-.
      apply (reach_node a i Hat Hm). apply (Hnc a); [left; reflexivity|exact Hat].
    - assert (Hci : i_check i = false) by (apply (Hnc a); [left; reflexivity|exact Hat]).
      destruct (reach_node a i Hat Hm Hci) as [Hne Hsu].
      destruct Ho as [<-|Ho].
      + intros i' Hi'. rewrite Hat in Hi'. injection Hi' as <-. exact Hne.
      + apply IH; [apply Hsu; exact Hb | intros o' Ho'; apply Hnc; right; exact Ho' | exact Ho].
  Qed.

  Lemma starts_mem : forall a, In a (starts f) -> mem_of m a = true.
  Proof.
    intros a Ha. unfold check_reach in Hck. apply andb_prop in Hck as [H1 _].
    rewrite forallb_forall in H1. apply H1. exact Ha.
  Qed.

  Theorem reach_sound : forall a p, In a (starts f) -> epath f (a :: p) ->
    (forall o, In o (a :: p) -> nocheck_at f o) ->
    forall o, In o (a :: p) -> noexit_at f o.
  Proof.
    intros a p Ha Hp Hnc. apply (reach_path (a :: p) Hp); auto. apply starts_mem. exact Ha.
  Qed.
End Reach.

Theorem abort_safe_loops : forall f, abort_safe f = true ->
  forall p, cpath f p -> (forall o, In o p -> nonstop_at f o) ->
  (length p <= length (f_instrs f))%nat.
Proof.
  intros f H. unfold abort_safe in H. apply andb_prop in H as [H _].
  unfold loops_checked in H. intros p. eapply rank_sound; eauto.
Qed.

Theorem abort_safe_exits : forall f, abort_safe f = true ->
  forall a p, In a (starts f) -> epath f (a :: p) ->
  (forall o, In o (a :: p) -> nocheck_at f o) ->
  forall o, In o (a :: p) -> noexit_at f o.
Proof.
  intros f H. unfold abort_safe in H. apply andb_prop in H as [_ H].
  unfold exits_checked in H. intros a p. eapply reach_sound; eauto.
Qed.
