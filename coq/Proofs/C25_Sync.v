(* C25 — proofs about Model/C25_Sync.v: invariants of every system, by induction over schedules. *)
From Coq Require Import ZArith List Bool Arith Lia.
From Coq Require Import ZifyBool ZifyNat.
From Elk Require Import Base.GoSem Model.C25_Sync.
Import ListNotations.
Open Scope Z_scope.

Lemma fold_inv {S A : Type} (f : S -> A -> S) (P : S -> Prop) :
  (forall s a, P s -> P (f s a)) -> forall l s, P s -> P (fold_left f l s).
Proof. intros H l. induction l as [|a l IH]; intros s Hs; cbn; auto. Qed.

(* ================================================================ channels *)

Lemma upd_same m k c : upd m k c k = c.
Proof. unfold upd. rewrite Nat.eqb_refl. reflexivity. Qed.
Lemma upd_other m k c k' : k' <> k -> upd m k c k' = m k'.
Proof. unfold upd. intros H. destruct (Nat.eqb_spec k' k); congruence. Qed.

Definition cinv (s : cstate) : Prop :=
  forall ch, pushes_of ch (ctrace s) = pops_of ch (ctrace s) ++ buf (chans s ch).

(* the shape every step has: new channel map chs', one new event e *)
Lemma cinv_event s chs' e :
  cinv s ->
  (forall ch, ev_pops ch e ++ buf (chs' ch) = buf (chans s ch) ++ ev_pushes ch e) ->
  cinv (mkC chs' (e :: ctrace s)).
Proof.
  intros I C ch. cbn [ctrace chans pushes_of pops_of].
  rewrite (I ch), <- !app_assoc, (C ch). reflexivity.
Qed.

Ltac eqb_cases :=
  repeat match goal with
  | |- context [Nat.eqb ?a ?b] => destruct (Nat.eqb_spec a b); subst
  end.

Lemma cinv_step fx s t a s' : cinv s -> cstep fx s t a = Some s' -> cinv s'.
Proof.
  intros I H. destruct a as [ch v|ch|ch|ch|ch v rcv|cases dflt choice]; cbn [cstep] in H.
  - (* push *)
    unfold elk_push, go_send in H.
    destruct (closed (chans s ch)) eqn:Ecl.
    + inversion H; subst. apply cinv_event; auto. intros k. cbn [ev_pops ev_pushes app].
      unfold upd. eqb_cases; rewrite ?app_nil_r; reflexivity.
    + destruct (Nat.ltb (length (buf (chans s ch))) (cap (chans s ch))); [|discriminate].
      inversion H; subst. apply cinv_event; auto. intros k. cbn [ev_pops ev_pushes app].
      unfold upd. eqb_cases; cbn [buf]; rewrite ?app_nil_r; try reflexivity; congruence.
  - (* pop *)
    unfold elk_pop, elk_pop_with, go_recv in H.
    destruct (buf (chans s ch)) as [|x r] eqn:Eb.
    + destruct (closed (chans s ch)); [|discriminate].
      inversion H; subst. apply cinv_event; auto. intros k. cbn [ev_pops ev_pushes app].
      unfold upd. eqb_cases; rewrite ?app_nil_r; reflexivity.
    + inversion H; subst. apply cinv_event; auto. intros k. cbn [ev_pops ev_pushes app].
      unfold upd. eqb_cases; cbn [buf app]; rewrite ?app_nil_r; try congruence; reflexivity.
  - (* next *)
    unfold elk_next, elk_pop_with, go_recv in H.
    destruct (buf (chans s ch)) as [|x r] eqn:Eb.
    + destruct (closed (chans s ch)); [|discriminate].
      inversion H; subst. apply cinv_event; auto. intros k. cbn [ev_pops ev_pushes app].
      unfold upd. eqb_cases; rewrite ?app_nil_r; reflexivity.
    + inversion H; subst. apply cinv_event; auto. intros k. cbn [ev_pops ev_pushes app].
      unfold upd. eqb_cases; cbn [buf app]; rewrite ?app_nil_r; try congruence; reflexivity.
  - (* close *)
    unfold elk_close, go_close in H.
    destruct (closed (chans s ch)); inversion H; subst; apply cinv_event; auto; intros k;
      cbn [ev_pops ev_pushes app]; unfold upd; eqb_cases; cbn [buf]; rewrite ?app_nil_r; reflexivity.
  - (* rendezvous *)
    unfold go_rdv in H.
    destruct (closed (chans s ch)); cbn [negb andb] in H; [discriminate|].
    destruct (buf (chans s ch)) eqn:Eb; [|discriminate].
    inversion H; subst. apply cinv_event; auto. intros k. cbn [ev_pops ev_pushes].
    eqb_cases; [rewrite Eb|]; rewrite ?app_nil_r; reflexivity.
  - (* select *)
    unfold elk_select in H. destruct choice as [i|].
    + destruct (nth_error cases i) as [[ch v|ch]|] eqn:En; [| |discriminate].
      * unfold go_send in H. destruct (closed (chans s ch)) eqn:Ecl.
        -- inversion H; subst. apply cinv_event; auto. intros k.
           destruct fx; cbn [ev_pops ev_pushes app]; rewrite ?app_nil_r; reflexivity.
        -- destruct (Nat.ltb (length (buf (chans s ch))) (cap (chans s ch))); [|discriminate].
           inversion H; subst. apply cinv_event; auto. intros k. cbn [ev_pops ev_pushes app].
           rewrite En. unfold upd. eqb_cases; cbn [buf]; rewrite ?app_nil_r; try reflexivity; congruence.
      * unfold go_recv in H. destruct (buf (chans s ch)) as [|x r] eqn:Eb.
        -- destruct (closed (chans s ch)); [|discriminate].
           inversion H; subst. apply cinv_event; auto. intros k.
           destruct fx; cbn [ev_pops ev_pushes app]; rewrite ?En, ?app_nil_r; reflexivity.
        -- inversion H; subst. apply cinv_event; auto. intros k. cbn [ev_pops ev_pushes app].
           rewrite En. unfold upd. eqb_cases; cbn [buf app]; rewrite ?app_nil_r; try congruence; reflexivity.
    + destruct (dflt && forallb (fun k => negb (case_ready (chans s) k)) cases); [|discriminate].
      inversion H; subst. apply cinv_event; auto. intros k. cbn [ev_pops ev_pushes app].
      rewrite ?app_nil_r; reflexivity.
Qed.

Lemma cinv_step' fx s ta : cinv s -> cinv (cstep' fx s ta).
Proof.
  intros I. unfold cstep'. destruct (cstep fx s (fst ta) (snd ta)) eqn:E; auto.
  eapply cinv_step; eauto.
Qed.

Lemma cinv_init caps : cinv (cinit caps).
Proof. intros ch. reflexivity. Qed.

Lemma chan_fifo fx caps sched ch :
  let s := crun fx sched (cinit caps) in
  pushes_of ch (ctrace s) = pops_of ch (ctrace s) ++ buf (chans s ch).
Proof.
  cbn zeta. unfold crun.
  apply (fold_inv (cstep' fx) cinv (cinv_step' fx) sched (cinit caps) (cinv_init caps)).
Qed.

(* capacity bound: a buffer never holds more than its capacity, capacities never change *)
Definition capinv (caps : nat -> nat) (s : cstate) : Prop :=
  forall ch, cap (chans s ch) = caps ch /\ (length (buf (chans s ch)) <= caps ch)%nat.

Lemma capinv_step fx caps s t a s' : capinv caps s -> cstep fx s t a = Some s' -> capinv caps s'.
Proof.
  intros I H. destruct a as [ch v|ch|ch|ch|ch v rcv|cases dflt choice]; cbn [cstep] in H.
  - unfold elk_push, go_send in H. destruct (closed (chans s ch)).
    + inversion H; subst. intros k. cbn [chans]. unfold upd. eqb_cases; apply I.
    + destruct (Nat.ltb_spec (length (buf (chans s ch))) (cap (chans s ch))); [|discriminate].
      inversion H; subst. intros k. destruct (I k) as [A B]. cbn [chans]. unfold upd.
      destruct (Nat.eqb_spec k ch) as [->|]; [|auto].
      cbn [cap buf]. rewrite app_length. cbn [length]. split; [exact A|lia].
  - unfold elk_pop, elk_pop_with, go_recv in H. destruct (buf (chans s ch)) as [|x r] eqn:Eb.
    + destruct (closed (chans s ch)); [|discriminate].
      inversion H; subst. intros k. cbn [chans]. unfold upd. eqb_cases; apply I.
    + inversion H; subst. intros k. destruct (I k) as [A B]. cbn [chans]. unfold upd.
      destruct (Nat.eqb_spec k ch) as [->|]; [|auto].
      cbn [cap buf]. rewrite Eb in B. cbn [length] in B. split; [exact A|lia].
  - unfold elk_next, elk_pop_with, go_recv in H. destruct (buf (chans s ch)) as [|x r] eqn:Eb.
    + destruct (closed (chans s ch)); [|discriminate].
      inversion H; subst. intros k. cbn [chans]. unfold upd. eqb_cases; apply I.
    + inversion H; subst. intros k. destruct (I k) as [A B]. cbn [chans]. unfold upd.
      destruct (Nat.eqb_spec k ch) as [->|]; [|auto].
      cbn [cap buf]. rewrite Eb in B. cbn [length] in B. split; [exact A|lia].
  - unfold elk_close, go_close in H.
    destruct (closed (chans s ch)); inversion H; subst; intros k; cbn [chans]; unfold upd; eqb_cases;
      try apply I; cbn [cap buf]; apply I.
  - destruct (go_rdv (chans s ch)); [|discriminate]. inversion H; subst. exact I.
  - unfold elk_select in H. destruct choice as [i|].
    + destruct (nth_error cases i) as [[ch v|ch]|]; [| |discriminate].
      * unfold go_send in H. destruct (closed (chans s ch)).
        -- inversion H; subst. exact I.
        -- destruct (Nat.ltb_spec (length (buf (chans s ch))) (cap (chans s ch))); [|discriminate].
           inversion H; subst. intros k. destruct (I k) as [A B]. cbn [chans]. unfold upd.
           destruct (Nat.eqb_spec k ch) as [->|]; [|auto].
           cbn [cap buf]. rewrite app_length. cbn [length]. split; [exact A|lia].
      * unfold go_recv in H. destruct (buf (chans s ch)) as [|x r] eqn:Eb.
        -- destruct (closed (chans s ch)); [|discriminate]. inversion H; subst. exact I.
        -- inversion H; subst. intros k. destruct (I k) as [A B]. cbn [chans]. unfold upd.
           destruct (Nat.eqb_spec k ch) as [->|]; [|auto].
           cbn [cap buf]. rewrite Eb in B. cbn [length] in B. split; [exact A|lia].
    + destruct (dflt && forallb (fun k => negb (case_ready (chans s) k)) cases); [|discriminate].
      inversion H; subst. exact I.
Qed.

Lemma chan_cap_bound fx caps sched ch :
  let s := crun fx sched (cinit caps) in
  (length (buf (chans s ch)) <= caps ch)%nat.
Proof.
  cbn zeta. unfold crun.
  assert (P : capinv caps (fold_left (cstep' fx) sched (cinit caps))).
  { apply fold_inv.
    - intros s a I. unfold cstep'. destruct (cstep fx s (fst a) (snd a)) eqn:E; auto.
      eapply capinv_step; eauto.
    - intros k. cbn. split; [reflexivity|lia]. }
  apply P.
Qed.

(* ---- no crash from the fixed wrappers *)
Definition cnocrash (s : cstate) : Prop := Forall (fun e => crash (cev_res e) = false) (ctrace s).

Lemma cnocrash_step s t a s' : cnocrash s -> cstep true s t a = Some s' -> cnocrash s'.
Proof.
  intros I H. destruct a as [ch v|ch|ch|ch|ch v rcv|cases dflt choice]; cbn [cstep] in H.
  - unfold elk_push, go_send in H. destruct (closed (chans s ch)).
    + inversion H; subst. constructor; auto.
    + destruct (Nat.ltb _ _); [|discriminate]. inversion H; subst. constructor; auto.
  - unfold elk_pop, elk_pop_with, go_recv in H. destruct (buf (chans s ch)).
    + destruct (closed (chans s ch)); [|discriminate]. inversion H; subst. constructor; auto.
    + inversion H; subst. constructor; auto.
  - unfold elk_next, elk_pop_with, go_recv in H. destruct (buf (chans s ch)).
    + destruct (closed (chans s ch)); [|discriminate]. inversion H; subst. constructor; auto.
    + inversion H; subst. constructor; auto.
  - unfold elk_close, go_close in H. destruct (closed (chans s ch)); inversion H; subst; constructor; auto.
  - destruct (go_rdv (chans s ch)); [|discriminate]. inversion H; subst. constructor; auto.
  - unfold elk_select in H. destruct choice as [i|].
    + destruct (nth_error cases i) as [[ch v|ch]|]; [| |discriminate].
      * unfold go_send in H. destruct (closed (chans s ch)).
        -- inversion H; subst. constructor; auto.
        -- destruct (Nat.ltb _ _); [|discriminate]. inversion H; subst. constructor; auto.
      * unfold go_recv in H. destruct (buf (chans s ch)).
        -- destruct (closed (chans s ch)); [|discriminate]. inversion H; subst. constructor; auto.
        -- inversion H; subst. constructor; auto.
    + destruct (dflt && _); [|discriminate]. inversion H; subst. constructor; auto.
Qed.

Lemma chan_no_crash caps sched : cnocrash (crun true sched (cinit caps)).
Proof.
  unfold crun. apply fold_inv.
  - intros s a I. unfold cstep'. destruct (cstep true s (fst a) (snd a)) eqn:E; auto.
    eapply cnocrash_step; eauto.
  - constructor.
Qed.

(* ---- closed channels *)
Lemma closed_step fx s t a s' ch :
  closed (chans s ch) = true -> cstep fx s t a = Some s' ->
  closed (chans s' ch) = true /\ pushes_of ch (ctrace s') = pushes_of ch (ctrace s).
Proof.
  intros C H. destruct a as [c v|c|c|c|c v rcv|cases dflt choice]; cbn [cstep] in H.
  - unfold elk_push, go_send in H. destruct (closed (chans s c)) eqn:Ecl.
    + inversion H; subst. cbn [chans ctrace pushes_of ev_pushes]. rewrite app_nil_r.
      split; [|reflexivity]. unfold upd. eqb_cases; auto.
    + destruct (Nat.ltb _ _); [|discriminate]. inversion H; subst.
      cbn [chans ctrace pushes_of ev_pushes]. unfold upd.
      destruct (Nat.eqb_spec ch c); [subst; congruence|].
      destruct (Nat.eqb_spec c ch); [subst; congruence|]. rewrite app_nil_r. auto.
  - unfold elk_pop, elk_pop_with, go_recv in H. destruct (buf (chans s c)) eqn:Eb.
    + destruct (closed (chans s c)); [|discriminate]. inversion H; subst.
      cbn [chans ctrace pushes_of ev_pushes]. rewrite app_nil_r. split; [|reflexivity].
      unfold upd. eqb_cases; auto.
    + inversion H; subst. cbn [chans ctrace pushes_of ev_pushes]. rewrite app_nil_r. split; [|reflexivity].
      unfold upd. eqb_cases; auto.
  - unfold elk_next, elk_pop_with, go_recv in H. destruct (buf (chans s c)) eqn:Eb.
    + destruct (closed (chans s c)); [|discriminate]. inversion H; subst.
      cbn [chans ctrace pushes_of ev_pushes]. rewrite app_nil_r. split; [|reflexivity].
      unfold upd. eqb_cases; auto.
    + inversion H; subst. cbn [chans ctrace pushes_of ev_pushes]. rewrite app_nil_r. split; [|reflexivity].
      unfold upd. eqb_cases; auto.
  - unfold elk_close, go_close in H.
    destruct (closed (chans s c)) eqn:Ecl; inversion H; subst;
      cbn [chans ctrace pushes_of ev_pushes]; rewrite app_nil_r; (split; [|reflexivity]);
      unfold upd; eqb_cases; auto.
  - unfold go_rdv in H. destruct (closed (chans s c)) eqn:Ecl; cbn [negb andb] in H; [discriminate|].
    destruct (buf (chans s c)); [|discriminate]. inversion H; subst.
    cbn [chans ctrace pushes_of ev_pushes].
    destruct (Nat.eqb_spec c ch); [subst; congruence|]. rewrite app_nil_r. auto.
  - unfold elk_select in H. destruct choice as [i|].
    + destruct (nth_error cases i) as [[c v|c]|] eqn:En; [| |discriminate].
      * unfold go_send in H. destruct (closed (chans s c)) eqn:Ecl.
        -- inversion H; subst. cbn [chans ctrace pushes_of]. split; auto.
           destruct fx; cbn [ev_pushes]; rewrite app_nil_r; reflexivity.
        -- destruct (Nat.ltb _ _); [|discriminate]. inversion H; subst.
           cbn [chans ctrace pushes_of ev_pushes]. rewrite En. unfold upd.
           destruct (Nat.eqb_spec ch c); [subst; congruence|].
           destruct (Nat.eqb_spec c ch); [subst; congruence|]. rewrite app_nil_r. auto.
      * unfold go_recv in H. destruct (buf (chans s c)) eqn:Eb.
        -- destruct (closed (chans s c)); [|discriminate]. inversion H; subst.
           cbn [chans ctrace pushes_of]. split; auto.
           destruct fx; cbn [ev_pushes]; rewrite app_nil_r; reflexivity.
        -- inversion H; subst. cbn [chans ctrace pushes_of ev_pushes]. rewrite En, app_nil_r.
           split; [|reflexivity]. unfold upd. eqb_cases; auto.
    + destruct (dflt && _); [|discriminate]. inversion H; subst.
      cbn [chans ctrace pushes_of ev_pushes]. rewrite app_nil_r. auto.
Qed.

Lemma closed_forever fx sched2 s ch :
  closed (chans s ch) = true ->
  closed (chans (crun fx sched2 s) ch) = true /\
  pushes_of ch (ctrace (crun fx sched2 s)) = pushes_of ch (ctrace s).
Proof.
  revert s. induction sched2 as [|a l IH]; intros s C; [cbn; auto|].
  change (crun fx (a :: l) s) with (crun fx l (cstep' fx s a)).
  assert (X : closed (chans (cstep' fx s a) ch) = true /\
              pushes_of ch (ctrace (cstep' fx s a)) = pushes_of ch (ctrace s)).
  { unfold cstep'. destruct (cstep fx s (fst a) (snd a)) eqn:E; [eapply closed_step; eauto|auto]. }
  destruct X as [C' P']. destruct (IH _ C') as [A B]. split; [exact A|]. rewrite B. exact P'.
Qed.

Lemma closed_contract caps sched1 ch :
  let s := crun true sched1 (cinit caps) in
  closed (chans s ch) = true ->
  (forall t v, exists s', cstep true s t (CPush ch v) = Some s' /\
       ctrace s' = CEv t (CPush ch v) (Err E_CLOSED_PUSH) :: ctrace s /\ forall k, chans s' k = chans s k) /\
  (forall t, exists s', cstep true s t (CClose ch) = Some s' /\
       ctrace s' = CEv t (CClose ch) (Err E_CLOSED_CLOSE) :: ctrace s /\ forall k, chans s' k = chans s k) /\
  (forall t, exists s', cstep true s t (CPop ch) = Some s' /\
       match buf (chans s ch) with
       | x :: r => ctrace s' = CEv t (CPop ch) (Ok (Some x)) :: ctrace s /\
                   buf (chans s' ch) = r /\ forall k, k <> ch -> chans s' k = chans s k
       | [] => ctrace s' = CEv t (CPop ch) (Err E_CLOSED_POP) :: ctrace s /\ forall k, chans s' k = chans s k
       end) /\
  (forall t cases dflt i v, nth_error cases i = Some (SSend ch v) -> exists s',
       cstep true s t (CSelect cases dflt (Some i)) = Some s' /\
       ctrace s' = CEv t (CSelect cases dflt (Some i)) (Err E_CLOSED_PUSH) :: ctrace s /\
       forall k, chans s' k = chans s k) /\
  (forall sched2, let s2 := crun true (sched1 ++ sched2) (cinit caps) in
       closed (chans s2 ch) = true /\ pushes_of ch (ctrace s2) = pushes_of ch (ctrace s)).
Proof.
  cbn zeta. set (s := crun true sched1 (cinit caps)). intros C.
  split; [|split; [|split; [|split]]].
  - intros t v. cbn [cstep]. unfold elk_push, go_send. rewrite C. eexists. split; [reflexivity|].
    cbn [ctrace chans]. split; [reflexivity|]. intros k. unfold upd. eqb_cases; reflexivity.
  - intros t. cbn [cstep]. unfold elk_close, go_close. rewrite C. eexists. split; [reflexivity|].
    cbn [ctrace chans]. split; [reflexivity|]. intros k. unfold upd. eqb_cases; reflexivity.
  - intros t. cbn [cstep]. unfold elk_pop, elk_pop_with, go_recv.
    destruct (buf (chans s ch)) as [|x r] eqn:Eb.
    + rewrite C. eexists. split; [reflexivity|]. cbn [ctrace chans]. split; [reflexivity|].
      intros k. unfold upd. eqb_cases; reflexivity.
    + eexists. split; [reflexivity|]. cbn [ctrace chans]. split; [reflexivity|]. split.
      * rewrite upd_same. reflexivity.
      * intros k Hk. apply upd_other. exact Hk.
  - intros t cases dflt i v En. cbn [cstep]. unfold elk_select. rewrite En. unfold go_send. rewrite C.
    eexists. split; [reflexivity|]. cbn [ctrace chans]. auto.
  - intros sched2. unfold crun. rewrite fold_left_app. apply (closed_forever true sched2 s ch C).
Qed.

(* ---- select *)
Lemma select_ready fx s t cases dflt choice s' :
  cstep fx s t (CSelect cases dflt choice) = Some s' ->
  match choice with
  | Some i => exists k, nth_error cases i = Some k /\ case_ready (chans s) k = true
  | None => dflt = true /\ forall k, In k cases -> case_ready (chans s) k = false
  end.
Proof.
  cbn [cstep]. unfold elk_select. destruct choice as [i|].
  - destruct (nth_error cases i) as [[ch v|ch]|] eqn:En; [| |discriminate].
    + intros H. exists (SSend ch v). split; [reflexivity|]. cbn [case_ready].
      destruct (go_send (chans s ch) v); [reflexivity|discriminate].
    + intros H. exists (SRecv ch). split; [reflexivity|]. cbn [case_ready].
      destruct (go_recv (chans s ch)); [reflexivity|discriminate].
  - destruct dflt; cbn [andb]; [|discriminate].
    destruct (forallb (fun k => negb (case_ready (chans s) k)) cases) eqn:F; [|discriminate].
    intros _. split; [reflexivity|]. intros k Hk. rewrite forallb_forall in F.
    specialize (F k Hk). destruct (case_ready (chans s) k); [discriminate|reflexivity].
Qed.

Lemma select_enabled fx s t cases dflt :
  (forall i k, nth_error cases i = Some k -> case_ready (chans s) k = true ->
     cstep fx s t (CSelect cases dflt (Some i)) <> None) /\
  (dflt = true -> (forall k, In k cases -> case_ready (chans s) k = false) ->
     cstep fx s t (CSelect cases dflt None) <> None).
Proof.
  split.
  - intros i k En R. cbn [cstep]. unfold elk_select. rewrite En. destruct k as [ch v|ch]; cbn [case_ready] in R.
    + destruct (go_send (chans s ch) v) as [[c'|e|p|f]|]; try discriminate.
    + destruct (go_recv (chans s ch)) as [[c' [v|]]|]; try discriminate.
  - intros D N. subst dflt. cbn [cstep]. unfold elk_select. cbn [andb].
    assert (F : forallb (fun k => negb (case_ready (chans s) k)) cases = true).
    { apply forallb_forall. intros k Hk. rewrite (N k Hk). reflexivity. }
    rewrite F. discriminate.
Qed.

(* ================================================================ Mutex *)

Definition minv (s : mstate) : Prop :=
  Z.b2z (m_native s) = Z.b2z (m_flag s) + Z.of_nat (m_acq s) + Z.of_nat (m_rel s) /\
  mheld (mtrace s) = Z.b2z (m_flag s) + Z.of_nat (m_rel s) /\
  Forall (fun e => mev_fatal e = false) (mtrace s).

Lemma minv_step s t a s' : minv s -> mstep true s t a = Some s' -> minv s'.
Proof.
  intros [A [B C]] H. destruct s as [n f acq rel tr]. cbn [m_native m_flag m_acq m_rel mtrace] in *.
  destruct a; cbn [mstep] in H; cbn [m_native m_flag m_acq m_rel mtrace] in H.
  - unfold go_lock in H. destruct n; [discriminate|]. inversion H; subst. unfold minv; cbn [m_native m_flag m_acq m_rel mtrace mheld Z.b2z] in *. repeat split; auto; lia.
  - destruct acq as [|k]; [discriminate|]. inversion H; subst. unfold minv; cbn [m_native m_flag m_acq m_rel mtrace mheld].
    destruct n, f; cbn [Z.b2z] in *; repeat split; try lia; constructor; auto.
  - destruct f; inversion H; subst; unfold minv; cbn [m_native m_flag m_acq m_rel mtrace mheld].
    + destruct n; cbn [Z.b2z] in *; repeat split; auto; lia.
    + destruct n; cbn [Z.b2z] in *; repeat split; auto; try lia; constructor; auto.
  - destruct rel as [|k]; [discriminate|]. unfold go_unlock in H.
    destruct n; cbn [Z.b2z] in A; [|destruct f; cbn [Z.b2z] in A; lia].
    inversion H; subst. unfold minv; cbn [m_native m_flag m_acq m_rel mtrace mheld].
    destruct f; cbn [Z.b2z] in *; repeat split; try lia; constructor; auto.
Qed.

Lemma minv_run sched : minv (mrun true sched minit).
Proof.
  unfold mrun. apply fold_inv.
  - intros s a I. unfold mstep'. destruct (mstep true s (fst a) (snd a)) eqn:E; auto.
    eapply minv_step; eauto.
  - unfold minv, minit; cbn. repeat split; auto.
Qed.

Lemma mutex_excl sched :
  let s := mrun true sched minit in
  0 <= mheld (mtrace s) <= 1 /\
  (mheld (mtrace s) = 1 -> m_native s = true) /\
  Forall (fun e => mev_fatal e = false) (mtrace s) /\
  (forall t, mheld (mtrace s) = 0 ->
     mstep true s t MUnlock = Some (mkM (m_native s) (m_flag s) (m_acq s) (m_rel s) (MUnlockErr t :: mtrace s))).
Proof.
  cbn zeta. destruct (minv_run sched) as [A [B C]].
  destruct (mrun true sched minit) as [n f acq rel tr].
  cbn [m_native m_flag m_acq m_rel mtrace] in *.
  split; [destruct n, f; cbn [Z.b2z] in A, B; lia|].
  split; [intros H1; destruct n, f; cbn [Z.b2z] in A, B; auto; lia|].
  split; [exact C|].
  intros t H0. cbn [mstep m_native m_flag m_acq m_rel mtrace].
  destruct f; [cbn [Z.b2z] in B; lia|reflexivity].
Qed.

(* ================================================================ RWMutex *)

Definition rinv (s : rstate) : Prop :=
  Z.b2z (r_w s) = Z.b2z (r_wflag s) + Z.of_nat (r_wacq s) + Z.of_nat (r_wrel s) /\
  Z.of_nat (r_r s) = Z.of_nat (r_rcount s) + Z.of_nat (r_racq s) + Z.of_nat (r_rrel s) /\
  (r_w s = true -> r_r s = 0%nat) /\
  wheld (rtrace s) = Z.b2z (r_wflag s) + Z.of_nat (r_wrel s) /\
  rheld (rtrace s) = Z.of_nat (r_rcount s) + Z.of_nat (r_rrel s) /\
  Forall (fun e => rev_fatal e = false) (rtrace s).

Lemma rinv_step s t a s' : rinv s -> rstep true s t a = Some s' -> rinv s'.
Proof.
  intros [A [B [C [D [E F]]]]] H. destruct s as [w r wf rc wa wr ra rr tr].
  cbn [r_w r_r r_wflag r_rcount r_wacq r_wrel r_racq r_rrel rtrace] in *.
  destruct a; cbn [rstep] in H.
  - unfold go_rw_lock in H. destruct w; cbn [negb andb] in H; [discriminate|].
    destruct (Nat.eqb_spec r 0); [|discriminate]. inversion H; subst.
    unfold rinv; cbn [r_w r_r r_wflag r_rcount r_wacq r_wrel r_racq r_rrel rtrace wheld rheld]. cbn [Z.b2z] in *. repeat split; auto; lia.
  - destruct wa as [|k]; [discriminate|]. inversion H; subst.
    unfold rinv; cbn [r_w r_r r_wflag r_rcount r_wacq r_wrel r_racq r_rrel rtrace wheld rheld].
    destruct w, wf; cbn [Z.b2z] in *; repeat split; auto; try lia; constructor; auto.
  - destruct wf; inversion H; subst;
      unfold rinv; cbn [r_w r_r r_wflag r_rcount r_wacq r_wrel r_racq r_rrel rtrace wheld rheld].
    + destruct w; cbn [Z.b2z] in *; repeat split; auto; lia.
    + destruct w; cbn [Z.b2z] in *; repeat split; auto; try lia; constructor; auto.
  - destruct wr as [|k]; [discriminate|].
    destruct w; cbn [Z.b2z] in A; [|destruct wf; cbn [Z.b2z] in A; lia].
    inversion H; subst. unfold rinv; cbn [r_w r_r r_wflag r_rcount r_wacq r_wrel r_racq r_rrel rtrace wheld rheld].
    destruct wf; cbn [Z.b2z] in *; repeat split; auto; try lia; try discriminate; constructor; auto.
  - unfold go_rw_rlock in H. destruct w; cbn [negb] in H; [discriminate|]. inversion H; subst.
    unfold rinv; cbn [r_w r_r r_wflag r_rcount r_wacq r_wrel r_racq r_rrel rtrace]. cbn [Z.b2z] in *.
    repeat split; auto; try lia; discriminate.
  - destruct ra as [|k]; [discriminate|]. inversion H; subst.
    unfold rinv; cbn [r_w r_r r_wflag r_rcount r_wacq r_wrel r_racq r_rrel rtrace wheld rheld].
    repeat split; auto; try lia; constructor; auto.
  - destruct rc as [|k]; inversion H; subst;
      unfold rinv; cbn [r_w r_r r_wflag r_rcount r_wacq r_wrel r_racq r_rrel rtrace wheld rheld];
      repeat split; auto; try lia; constructor; auto.
  - destruct rr as [|k]; [discriminate|]. destruct r as [|r']; [lia|]. inversion H; subst.
    unfold rinv; cbn [r_w r_r r_wflag r_rcount r_wacq r_wrel r_racq r_rrel rtrace wheld rheld].
    repeat split; auto; try lia; try (intros W; specialize (C W); discriminate); try (constructor; auto).
Qed.

Lemma rinv_run sched : rinv (rrun true sched rinit).
Proof.
  unfold rrun. apply fold_inv.
  - intros s a I. unfold rstep'. destruct (rstep true s (fst a) (snd a)) eqn:E; auto.
    eapply rinv_step; eauto.
  - unfold rinv, rinit; cbn. repeat split; auto.
Qed.

Lemma rwmutex_excl sched :
  let s := rrun true sched rinit in
  0 <= wheld (rtrace s) <= 1 /\ 0 <= rheld (rtrace s) /\
  (wheld (rtrace s) = 1 -> rheld (rtrace s) = 0) /\
  Forall (fun e => rev_fatal e = false) (rtrace s) /\
  (forall t, wheld (rtrace s) = 0 -> exists s', rstep true s t RUnlock = Some s' /\
      rtrace s' = RWUnlockErr t :: rtrace s /\ r_w s' = r_w s /\ r_r s' = r_r s /\
      r_wflag s' = r_wflag s /\ r_rcount s' = r_rcount s) /\
  (forall t, rheld (rtrace s) = 0 -> exists s', rstep true s t RRUnlock = Some s' /\
      rtrace s' = RRUnlockErr t :: rtrace s /\ r_w s' = r_w s /\ r_r s' = r_r s /\
      r_wflag s' = r_wflag s /\ r_rcount s' = r_rcount s).
Proof.
  cbn zeta. destruct (rinv_run sched) as [A [B [C [D [E F]]]]].
  destruct (rrun true sched rinit) as [w r wf rc wa wr ra rr tr].
  cbn [r_w r_r r_wflag r_rcount r_wacq r_wrel r_racq r_rrel rtrace] in *.
  split; [destruct w, wf; cbn [Z.b2z] in *; lia|]. split; [lia|].
  split.
  { intros W. destruct w; [specialize (C eq_refl); lia|]. destruct wf; cbn [Z.b2z] in *; lia. }
  split; [exact F|]. split.
  - intros t W. destruct wf; [cbn [Z.b2z] in D; lia|]. cbn [rstep]. eexists. split; [reflexivity|]. cbn. auto.
  - intros t R. destruct rc as [|k]; [|lia]. cbn [rstep]. eexists. split; [reflexivity|]. cbn. auto.
Qed.

(* ================================================================ WaitGroup *)

Lemma go_wg_add_ok c n : 0 <= c + n <= MAX32 -> go_wg_add c n = Ok (c + n).
Proof.
  intros H. unfold go_wg_add. rewrite wrap_s_id; [|lia|].
  - destruct (Z.ltb_spec (c + n) 0); [lia|reflexivity].
  - unfold fits_s, MAX32 in *. change (2 ^ (32 - 1)) with 2147483648. lia.
Qed.

Definition winv (s : wstate) : Prop :=
  w_cnt s = w_count s /\ 0 <= w_count s <= MAX32 /\ wsum (wtrace s) = w_count s /\
  waits_at_zero (wtrace s) /\ Forall (fun e => wev_crash e = false) (wtrace s).

Lemma winv_add s t a n : winv s -> winv (elk_wg_add true s t a n).
Proof.
  intros [A [B [C [D E]]]]. unfold elk_wg_add.
  destruct ((n >? MAX32) || (n <? - MAX32)) eqn:R.
  { unfold winv; cbn [w_cnt w_count wtrace wsum waits_at_zero]. repeat split; auto; try lia; try (constructor; auto). }
  destruct (Z.ltb_spec (w_count s + n) 0).
  { unfold winv; cbn [w_cnt w_count wtrace wsum waits_at_zero]. repeat split; auto; try lia; try (constructor; auto). }
  destruct (Z.gtb_spec (w_count s + n) MAX32).
  { unfold winv; cbn [w_cnt w_count wtrace wsum waits_at_zero]. repeat split; auto; try lia; try (constructor; auto). }
  rewrite A, go_wg_add_ok by lia.
  unfold winv; cbn [w_cnt w_count wtrace wsum waits_at_zero]. repeat split; auto; try lia; try (constructor; auto).
Qed.

Lemma winv_step s t a s' : winv s -> wstep true s t a = Some s' -> winv s'.
Proof.
  intros I H. destruct a; cbn [wstep] in H.
  - injection H as <-. exact (winv_add s t (WAdd n) n I).
  - destruct (n <=? 0).
    + injection H as <-. destruct I as [A [B [C [D E]]]].
      unfold winv; cbn [w_cnt w_count wtrace wsum waits_at_zero]. repeat split; auto; try lia; try (constructor; auto).
    + destruct (n >? MAX32).
      * injection H as <-. destruct I as [A [B [C [D E]]]].
        unfold winv; cbn [w_cnt w_count wtrace wsum waits_at_zero]. repeat split; auto; try lia; try (constructor; auto).
      * injection H as <-. exact (winv_add s t (WRemove n) (- n) I).
  - injection H as <-. exact (winv_add s t WStart 1 I).
  - injection H as <-. exact (winv_add s t WEnd (-1) I).
  - destruct (Z.eqb_spec (w_cnt s) 0); [|discriminate]. injection H as <-. destruct I as [A [B [C [D E]]]].
    unfold winv; cbn [w_cnt w_count wtrace wsum waits_at_zero]. repeat split; auto; try lia; try (constructor; auto).
Qed.

Lemma waitgroup_ok sched :
  let s := wrun true sched winit in
  w_cnt s = wsum (wtrace s) /\ 0 <= w_cnt s <= MAX32 /\ waits_at_zero (wtrace s) /\
  Forall (fun e => wev_crash e = false) (wtrace s) /\
  (forall t, wstep true s t WWait <> None <-> wsum (wtrace s) = 0).
Proof.
  cbn zeta.
  assert (I : winv (wrun true sched winit)).
  { unfold wrun. apply fold_inv.
    - intros s a I. unfold wstep'. destruct (wstep true s (fst a) (snd a)) eqn:E; auto.
      eapply winv_step; eauto.
    - unfold winv, winit, MAX32; cbn. repeat split; auto; lia. }
  destruct I as [A [B [C [D E]]]]. repeat split; auto; try lia.
  - cbn [wstep]. destruct (Z.eqb_spec (w_cnt (wrun true sched winit)) 0); [lia|]. intros H; exfalso; apply H; reflexivity.
  - intros H. cbn [wstep]. destruct (Z.eqb_spec (w_cnt (wrun true sched winit)) 0); [discriminate|lia].
Qed.

(* ================================================================ Once *)

Definition oinv (s : ostate) : Prop :=
  Z.b2z (o_locked s) = Z.of_nat (o_inbody s) + Z.of_nat (o_exiting s) /\
  nbody (otrace s) = nbodydone (otrace s) + Z.of_nat (o_inbody s) /\
  Z.b2z (o_done s) = nbodydone (otrace s) /\
  ((o_exiting s > 0)%nat -> o_done s = true) /\
  ((o_inbody s > 0)%nat -> o_done s = false) /\
  rets_after_body (otrace s).

Lemma oinv_step s t a s' : oinv s -> ostep s t a = Some s' -> oinv s'.
Proof.
  intros [A [B [C [D [E F]]]]] H. destruct s as [d l q b x tr].
  cbn [o_done o_locked o_queued o_inbody o_exiting otrace] in *.
  destruct a; cbn [ostep] in H.
  - destruct d; inversion H; subst; unfold oinv;
      cbn [o_done o_locked o_queued o_inbody o_exiting otrace nbody nbodydone rets_after_body];
      repeat split; auto; cbn [Z.b2z] in C; lia.
  - destruct q as [|k]; [discriminate|]. destruct l; [discriminate|].
    destruct d; inversion H; subst; unfold oinv;
      cbn [o_done o_locked o_queued o_inbody o_exiting otrace nbody nbodydone rets_after_body];
      cbn [Z.b2z] in A; repeat split; auto; try lia; cbn; try lia.
  - destruct b as [|k]; [discriminate|]. inversion H; subst.
    assert (d = false) by (apply E; lia). subst d.
    unfold oinv; cbn [o_done o_locked o_queued o_inbody o_exiting otrace nbody nbodydone rets_after_body].
    destruct l; cbn [Z.b2z] in A, C; repeat split; auto; try lia; cbn; try lia.
  - destruct x as [|k]; [discriminate|]. inversion H; subst.
    assert (d = true) by (apply D; lia). subst d.
    unfold oinv; cbn [o_done o_locked o_queued o_inbody o_exiting otrace nbody nbodydone rets_after_body].
    destruct l; cbn [Z.b2z] in A, C; repeat split; auto; try lia; cbn; try lia.
Qed.

Lemma once_ok sched :
  let s := orun sched oinit in
  nbody (otrace s) <= 1 /\ nbodydone (otrace s) <= nbody (otrace s) /\ rets_after_body (otrace s) /\
  (o_done s = true <-> nbodydone (otrace s) = 1).
Proof.
  cbn zeta.
  assert (I : oinv (orun sched oinit)).
  { unfold orun. apply fold_inv.
    - intros s a I. unfold ostep'. destruct (ostep s (fst a) (snd a)) eqn:E; auto.
      eapply oinv_step; eauto.
    - unfold oinv, oinit; cbn. repeat split; auto; lia. }
  destruct I as [A [B [C [D [E F]]]]].
  destruct (orun sched oinit) as [d l q b x tr].
  cbn [o_done o_locked o_queued o_inbody o_exiting otrace] in *.
  assert (Hb : (b > 0)%nat -> d = false) by exact E.
  destruct d, l; cbn [Z.b2z] in A, C; repeat split; auto; try lia; try discriminate.
  all: try (destruct b; [lia| specialize (Hb ltac:(lia)); discriminate]).
Qed.
