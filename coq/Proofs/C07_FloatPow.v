(* C07 — proofs about the `**` special-case table and the exact `%` (integer level). *)
From Coq Require Import ZArith Zpow_facts Lia Bool.
From Flocq Require Import Core IEEE754.BinarySingleNaN IEEE754.Binary IEEE754.Bits.
From Elk Require Import Model.C07_Float Model.C07_FloatPow.
Open Scope Z_scope.

(* ---------------------------------------------------------------- integrality of m * 2^e *)

Lemma fint_some m e n : fint m e = Some n ->
  (0 <= e -> n = Zpos m * 2 ^ e) /\ (e < 0 -> Zpos m = n * 2 ^ (- e)).
Proof.
  unfold fint. destruct (0 <=? e) eqn:He.
  - intros H. injection H as <-. apply Z.leb_le in He. split; [intros _|lia].
    apply Z.shiftl_mul_pow2. exact He.
  - apply Z.leb_gt in He.
    destruct (Z.shiftl (Z.shiftr (Zpos m) (- e)) (- e) =? Zpos m) eqn:Hq; [|discriminate].
    intros H. injection H as <-. apply Z.eqb_eq in Hq. split; [lia|intros _].
    rewrite Z.shiftl_mul_pow2 in Hq by lia. symmetry. exact Hq.
Qed.

Lemma fint_none m e : fint m e = None -> e < 0 /\ forall n, Zpos m <> n * 2 ^ (- e).
Proof.
  unfold fint. destruct (0 <=? e) eqn:He; [discriminate|]. apply Z.leb_gt in He.
  destruct (Z.shiftl (Z.shiftr (Zpos m) (- e)) (- e) =? Zpos m) eqn:Hq; [discriminate|].
  intros _. split; [exact He|]. intros n Hn. apply Z.eqb_neq in Hq. apply Hq.
  rewrite Z.shiftl_mul_pow2, Z.shiftr_div_pow2 by lia.
  assert (Hp : 0 < 2 ^ (- e)) by (apply Z.pow_pos_nonneg; lia).
  rewrite Hn at 1. rewrite Z.div_mul by lia. symmetry. exact Hn.
Qed.

(* is_odd_int / is_int say what their names say *)
Lemma is_int_true m e : is_int m e = true <->
  exists n, (0 <= e -> n = Zpos m * 2 ^ e) /\ (e < 0 -> Zpos m = n * 2 ^ (- e)).
Proof.
  unfold is_int. destruct (fint m e) as [n|] eqn:H.
  - split; [intros _|reflexivity]. exists n. apply fint_some. exact H.
  - split; [discriminate|]. intros [n [_ Hn]]. destruct (fint_none m e H) as [He Hno].
    exfalso. apply (Hno n). apply Hn. exact He.
Qed.

Lemma is_odd_int_true m e : is_odd_int m e = true <->
  exists n, Z.odd n = true /\ (0 <= e -> n = Zpos m * 2 ^ e) /\ (e < 0 -> Zpos m = n * 2 ^ (- e)).
Proof.
  unfold is_odd_int. destruct (fint m e) as [n|] eqn:H.
  - pose proof (fint_some m e n H) as Hs. split.
    + intros Ho. exists n. split; [exact Ho|exact Hs].
    + intros [n' [Ho [H1 H2]]]. replace n with n'; [exact Ho|].
      destruct (Z_lt_le_dec e 0) as [He|He].
      * destruct Hs as [_ Hs]. specialize (Hs He). specialize (H2 He).
        assert (Hp : 0 < 2 ^ (- e)) by (apply Z.pow_pos_nonneg; lia). nia.
      * destruct Hs as [Hs _]. rewrite (Hs He), (H1 He). reflexivity.
  - split; [discriminate|]. intros [n [_ [_ Hn]]]. destruct (fint_none m e H) as [He Hno].
    exfalso. apply (Hno n). apply Hn. exact He.
Qed.

(* ---------------------------------------------------------------- the aligned remainder *)

Lemma rem_sgn_abs a b : 0 < b -> Z.rem a b = Z.sgn a * (Z.abs a mod b).
Proof.
  intros Hb. destruct a as [|p|p].
  - rewrite Z.rem_0_l by lia. reflexivity.
  - cbn [Z.sgn Z.abs]. rewrite Z.rem_mod_nonneg by lia. lia.
  - change (Zneg p) with (- Zpos p). rewrite Z.rem_opp_l by lia.
    rewrite Z.rem_mod_nonneg by lia. cbn [Z.sgn Z.abs Z.opp]. lia.
Qed.

(* fmod_int computes the truncated remainder of the operands aligned to the smaller exponent *)
Lemma fmod_int_rem mx ex my ey :
  let e := Z.min ex ey in
  fmod_int mx ex my ey = (Z.rem (mx * 2 ^ (ex - e)) (Zpos my * 2 ^ (ey - e)), e).
Proof.
  cbv zeta. unfold fmod_int. destruct (ey <=? ex) eqn:Hc.
  - apply Z.leb_le in Hc. rewrite Z.min_r by exact Hc. rewrite Z.sub_diag, Z.pow_0_r, Z.mul_1_r.
    f_equal. rewrite rem_sgn_abs by lia.
    assert (Hp : 0 < 2 ^ (ex - ey)) by (apply Z.pow_pos_nonneg; lia).
    rewrite Z.sgn_mul, Z.abs_mul, (Z.sgn_pos (2 ^ (ex - ey))) by exact Hp.
    rewrite (Z.abs_eq (2 ^ (ex - ey))) by lia. rewrite Z.mul_1_r. f_equal.
    rewrite Zpow_mod_correct by discriminate.
    rewrite Z.mul_mod_idemp_r by discriminate. reflexivity.
  - apply Z.leb_gt in Hc. rewrite Z.min_l by lia. rewrite Z.sub_diag, Z.pow_0_r, Z.mul_1_r.
    rewrite Z.shiftl_mul_pow2 by lia. reflexivity.
Qed.

(* the defining properties of the truncated remainder, and representability: with
   X = mx * 2^(ex-e), Y = my * 2^(ey-e) the aligned integers (x = X * 2^e, y = Y * 2^e):
   X = q*Y + R for an integer q, |R| < |Y|, R has the sign of X (or is 0), and R fits the
   precision of the operands, so R * 2^e is a value of the format: no rounding occurs. *)
Lemma fmod_int_spec p mx ex my ey :
  0 <= p -> Z.abs mx < 2 ^ p -> Zpos my < 2 ^ p ->
  let e := Z.min ex ey in
  let X := mx * 2 ^ (ex - e) in
  let Y := Zpos my * 2 ^ (ey - e) in
  exists R q, fmod_int mx ex my ey = (R, e) /\
    X = q * Y + R /\ Z.abs R < Y /\ 0 <= Z.sgn R * Z.sgn mx /\ Z.abs R < 2 ^ p /\ Z.abs R <= Z.abs X.
Proof.
  intros Hp Hmx Hmy e X Y.
  assert (HY : 0 < Y).
  { unfold Y. apply Z.mul_pos_pos; [lia|]. apply Z.pow_pos_nonneg; unfold e; lia. }
  exists (Z.rem X Y), (Z.quot X Y). split; [apply fmod_int_rem|].
  assert (Hb : Z.abs (Z.rem X Y) < Y).
  { pose proof (Z.rem_bound_abs X Y). rewrite (Z.abs_eq Y) in H by lia. apply H. lia. }
  assert (Hle : Z.abs (Z.rem X Y) <= Z.abs X).
  { rewrite rem_sgn_abs by exact HY. rewrite Z.abs_mul.
    pose proof (Z.mod_pos_bound (Z.abs X) Y HY).
    assert (Z.abs X mod Y <= Z.abs X) by (apply Z.mod_le; lia).
    rewrite (Z.abs_eq (Z.abs X mod Y)) by lia.
    destruct X; cbn [Z.sgn Z.abs] in *; lia. }
  assert (Hs : 0 <= Z.sgn (Z.rem X Y) * Z.sgn mx).
  { pose proof (Z.rem_sign_mul X Y ltac:(lia)) as Hm.
    assert (H2 : 0 < 2 ^ (ex - e)) by (apply Z.pow_pos_nonneg; unfold e; lia).
    unfold X in *. destruct mx as [|pm|pm]; cbn [Z.sgn]; try lia. }
  split; [pose proof (Z.quot_rem' X Y); lia|].
  split; [exact Hb|]. split; [exact Hs|]. split; [|exact Hle].
  - (* representability *)
    destruct (Z_le_gt_dec ey ex) as [Hc|Hc].
    + assert (Y = Zpos my). { unfold Y, e. rewrite Z.min_r by lia. rewrite Z.sub_diag. lia. } lia.
    + assert (X = mx). { unfold X, e. rewrite Z.min_l by lia. rewrite Z.sub_diag. lia. } lia.
Qed.

(* ---------------------------------------------------------------- the `**` table *)

Section PowGen.
Variable prec emax : Z.
Context (Hp : Prec_gt_0 prec) (Hm : Prec_lt_emax prec emax).
Notation bf := (binary_float prec emax).
Notation pow := (pow_special prec emax).
Notation pos_one := (is_pos_one prec emax).
Notation cmp_one := (abs_cmp_one prec emax).

Lemma abs_cmp_one_some (x : bf) :
  Binary.is_finite_strict prec emax x = true -> exists c, cmp_one x = Some c.
Proof.
  destruct x as [s|s|s pl Hpl|s m e pf]; try discriminate. intros _.
  eexists; reflexivity.
Qed.

(* pow(x, +-0) = 1 for every x, NaN included *)
Lemma pow_exponent_zero (x : bf) s : pow x (Binary.B754_zero _ _ s) = Some ROne.
Proof. reflexivity. Qed.

(* pow(+1, y) = 1 for every y, NaN included *)
Lemma pow_base_one (x y : bf) : pos_one x = true -> pow x y = Some ROne.
Proof. intros H. unfold pow_special. rewrite H. destruct y; reflexivity. Qed.

(* a NaN operand gives NaN in every other case *)
Lemma pow_nan (x y : bf) :
  Binary.is_nan prec emax x = true \/ Binary.is_nan prec emax y = true ->
  pos_one x = false -> (forall s, y <> Binary.B754_zero _ _ s) -> pow x y = Some RNaN.
Proof.
  intros Hn H1 Hy. unfold pow_special. rewrite H1.
  destruct y as [sy|sy|sy ply Hply|sy my ey py]; [exfalso; apply (Hy sy); reflexivity| | |];
    destruct x as [sx|sx|sx plx Hplx|sx mx ex px]; cbn in Hn; try reflexivity;
    destruct Hn; discriminate.
Qed.

(* pow(+-0, y): sign kept only for odd integers y; y < 0 gives an infinity *)
Lemma pow_base_zero sx (y : bf) :
  pow (Binary.B754_zero _ _ sx) y =
  match y with
  | Binary.B754_zero _ _ _ => Some ROne
  | Binary.B754_nan _ _ _ _ _ => Some RNaN
  | Binary.B754_infinity _ _ sy => Some (if sy then RInf false else RZero false)
  | Binary.B754_finite _ _ sy m e _ =>
      Some (if sy then RInf (sx && is_odd_int m e) else RZero (sx && is_odd_int m e))
  end.
Proof. destruct y; reflexivity. Qed.

(* pow(+-inf, y) *)
Lemma pow_base_inf sx (y : bf) :
  pow (Binary.B754_infinity _ _ sx) y =
  match y with
  | Binary.B754_zero _ _ _ => Some ROne
  | Binary.B754_nan _ _ _ _ _ => Some RNaN
  | Binary.B754_infinity _ _ sy => Some (if sy then RZero false else RInf false)
  | Binary.B754_finite _ _ sy m e _ =>
      Some (if sy then RZero (sx && is_odd_int m e) else RInf (sx && is_odd_int m e))
  end.
Proof. destruct y; reflexivity. Qed.

(* pow(x, +-inf) for finite non-zero x: decided by |x| against 1; |x| = 1 gives 1 (so pow(-1, +-inf) = 1) *)
Lemma pow_exponent_inf s m e pf sy :
  let x : bf := Binary.B754_finite _ _ s m e pf in
  pow x (Binary.B754_infinity _ _ sy) =
  match cmp_one x with
  | Some Lt => Some (if sy then RInf false else RZero false)
  | Some Gt => Some (if sy then RZero false else RInf false)
  | _ => Some ROne
  end.
Proof.
  cbv zeta. unfold pow_special.
  destruct (abs_cmp_one_some (Binary.B754_finite _ _ s m e pf) eq_refl) as [c Hc].
  destruct (pos_one (Binary.B754_finite _ _ s m e pf)) eqn:H1.
  - unfold is_pos_one in H1. destruct s; [discriminate|]. rewrite Hc in *. destruct c; try discriminate. reflexivity.
  - rewrite Hc. destruct c; reflexivity.
Qed.

(* finite x < 0 with a finite non-integer y: invalid operation *)
Lemma pow_neg_nonint mx ex px sy my ey py :
  is_int my ey = false ->
  pow (Binary.B754_finite _ _ true mx ex px) (Binary.B754_finite _ _ sy my ey py) = Some RNaN.
Proof. intros H. unfold pow_special. cbn. rewrite H. reflexivity. Qed.

(* the table is total on the exceptional operands: it is silent only when both operands are
   finite and non-zero and (x > 0 or y is an integer) *)
Lemma pow_special_none (x y : bf) : pow x y = None ->
  exists sx mx ex px sy my ey py,
    x = Binary.B754_finite _ _ sx mx ex px /\ y = Binary.B754_finite _ _ sy my ey py /\
    (sx = false \/ is_int my ey = true).
Proof.
  unfold pow_special.
  destruct y as [sy|sy|sy ply Hply|sy my ey py]; [discriminate| | |];
    destruct (pos_one x) eqn:H1; try discriminate;
    destruct x as [sx|sx|sx plx Hplx|sx mx ex px]; try discriminate.
  - destruct (abs_cmp_one_some (Binary.B754_finite _ _ sx mx ex px) eq_refl) as [c Hc].
    rewrite Hc. destruct c, sy; discriminate.
  - intros H. exists sx, mx, ex, px, sy, my, ey, py. split; [reflexivity|]. split; [reflexivity|].
    destruct sx; [|left; reflexivity]. right. cbn in H. destruct (is_int my ey); [reflexivity|discriminate].
Qed.

(* and conversely never silent on them *)
Lemma pow_special_some_on_specials (x y : bf) :
  Binary.is_finite_strict prec emax x = false \/ Binary.is_finite_strict prec emax y = false ->
  pow x y <> None.
Proof.
  intros H Hn. destruct (pow_special_none x y Hn) as (sx & mx & ex & px & sy & my & ey & py & -> & -> & _).
  destruct H; discriminate.
Qed.
End PowGen.
