(* C02 - proofs about Model/C02_Types.v *)
From Coq Require Import ZArith List Bool Lia.
From Elk Require Import Model.C02_Types.
Import ListNotations.
Open Scope Z_scope.

(* ---------------------------------------------------------------- small facts *)
Lemma str_eqb_refl : forall s, str_eqb s s = true.
Proof. induction s as [|x s IH]; simpl; auto. rewrite Z.eqb_refl, IH. reflexivity. Qed.

Lemma str_eqb_eq : forall a b, str_eqb a b = true -> a = b.
Proof.
  induction a as [|x a IH]; destruct b as [|y b]; simpl; intros H; try discriminate; auto.
  apply andb_true_iff in H. destruct H as [H1 H2]. apply Z.eqb_eq in H1. subst. f_equal. auto.
Qed.

Lemma feq_refl : forall m e, feq m e m e = true.
Proof. intros. unfold feq. apply Z.eqb_refl. Qed.

Lemma truthy_bool : forall b, truthy (VBool b) = b.
Proof. destruct b; reflexivity. Qed.

Lemma not_truthy_cases : forall v, truthy v = false -> v = VNil \/ v = VBool false.
Proof. destruct v as [| | |[]|]; simpl; intros; try discriminate; auto. Qed.

(* ---------------------------------------------------------------- subtype soundness *)
Lemma atom_sub_sound : forall a b v, atom_sub a b = true -> mem a v = true -> mem b v = true.
Proof.
  intros a b v Hs Hm.
  destruct a; destruct b; simpl in Hs; try discriminate;
    destruct v as [vz|vm ve|vs|[]|]; simpl in *; try discriminate; try reflexivity; try assumption;
    repeat match goal with
           | H : (_ && _) = true |- _ => apply andb_true_iff in H; destruct H
           | H : (?x =? ?y) = true |- _ => apply Z.eqb_eq in H; subst
           | H : str_eqb _ _ = true |- _ => apply str_eqb_eq in H; subst
           end;
    try assumption; try apply Z.eqb_refl; try apply str_eqb_refl.
Qed.

Lemma sub_r_sound : forall b a v, sub_r a b = true -> mem a v = true -> mem b v = true.
Proof.
  induction b; intros a0 v Hs Hm; simpl in Hs;
    try (eapply atom_sub_sound; eassumption); try reflexivity.
  - (* nilable *)
    apply orb_true_iff in Hs. simpl. destruct Hs as [Hs|Hs].
    + rewrite (IHb _ _ Hs Hm). apply orb_true_r.
    + pose proof (atom_sub_sound _ _ _ Hs Hm) as H. simpl in H. rewrite H. reflexivity.
  - (* union *)
    apply orb_true_iff in Hs. simpl. destruct Hs as [Hs|Hs].
    + rewrite (IHb1 _ _ Hs Hm). reflexivity.
    + rewrite (IHb2 _ _ Hs Hm). apply orb_true_r.
Qed.

Lemma subtype_sound : forall a b v, subtype a b = true -> mem a v = true -> mem b v = true.
Proof.
  induction a; intros b0 v Hs Hm; simpl in Hs;
    try (eapply sub_r_sound; eassumption).
  - (* any *) clear Hm. induction b0; simpl in Hs; try discriminate; simpl; auto.
    + rewrite (IHb0 Hs). apply orb_true_r.
    + apply orb_true_iff in Hs. destruct Hs as [Hs|Hs]; [rewrite (IHb0_1 Hs)|rewrite (IHb0_2 Hs)]; auto using orb_true_r.
  - (* never *) simpl in Hm. discriminate.
  - (* nilable *)
    apply andb_true_iff in Hs. destruct Hs as [H1 H2]. simpl in Hm.
    apply orb_true_iff in Hm. destruct Hm as [Hm|Hm].
    + eapply sub_r_sound; [exact H2|]. simpl. exact Hm.
    + eauto.
  - (* union *)
    apply andb_true_iff in Hs. destruct Hs as [H1 H2]. simpl in Hm.
    apply orb_true_iff in Hm. destruct Hm as [Hm|Hm]; eauto.
Qed.

(* completeness of the two questions the checker asks about falsiness *)
Lemma sub_r_false_complete : forall t, mem t (VBool false) = true -> sub_r TFalse t = true.
Proof.
  induction t; simpl; intros H; try discriminate; auto.
  - apply orb_true_iff. left. auto.
  - apply orb_true_iff in H. apply orb_true_iff. destruct H; auto.
Qed.

Lemma sub_r_nil_complete : forall t, mem t VNil = true -> sub_r TNil t = true.
Proof.
  induction t; simpl; intros H; try discriminate; auto.
  - apply orb_true_r.
  - apply orb_true_iff in H. apply orb_true_iff. destruct H; auto.
Qed.

Lemma is_truthy_sound : forall t v, is_truthy t = true -> mem t v = true -> truthy v = true.
Proof.
  intros t v Ht Hm. destruct (truthy v) eqn:Hv; auto.
  unfold is_truthy, can_be_falsy in Ht. apply negb_true_iff in Ht. apply orb_false_iff in Ht.
  destruct Ht as [H1 H2]. simpl in H1, H2.
  destruct (not_truthy_cases _ Hv); subst.
  - rewrite (sub_r_nil_complete _ Hm) in H2. discriminate.
  - rewrite (sub_r_false_complete _ Hm) in H1. discriminate.
Qed.

Lemma can_be_truthy_sound : forall t v, can_be_truthy t = false -> mem t v = true -> truthy v = false.
Proof.
  induction t; simpl; intros v Hc Hm; try discriminate.
  - destruct v; simpl in *; try discriminate; reflexivity.
  - destruct v as [| | |[]|]; simpl in *; try discriminate; reflexivity.
  - apply orb_true_iff in Hm. destruct Hm as [Hm|Hm]; [destruct v; simpl in *; try discriminate; reflexivity | auto].
  - apply orb_false_iff in Hc. destruct Hc. apply orb_true_iff in Hm. destruct Hm; auto.
Qed.

Lemma is_falsy_sound : forall t v, is_falsy t = true -> mem t v = true -> truthy v = false.
Proof. intros t v H. unfold is_falsy in H. apply negb_true_iff in H. apply can_be_truthy_sound; auto. Qed.

Lemma not_nilable_sound : forall t v, is_nilable t = false -> mem t v = true -> is_nil v = false.
Proof.
  intros t v H Hm. destruct v; auto. unfold is_nilable in H. simpl in H.
  rewrite (sub_r_nil_complete _ Hm) in H. discriminate.
Qed.

(* ---------------------------------------------------------------- narrowing *)
Lemma mk_union_mem : forall a b v, mem (mk_union a b) v = mem a v || mem b v.
Proof. intros a b v. destruct a; destruct b; simpl; rewrite ?orb_false_r; reflexivity. Qed.

Lemma non_falsy_sound : forall t t' v,
  non_falsy t = Some t' -> mem t v = true -> truthy v = true -> mem t' v = true.
Proof.
  induction t; simpl; intros t' v H Hm Hv; try (inversion H; subst; simpl; assumption); try discriminate.
  - destruct v as [| | |[]|]; simpl in *; try discriminate. inversion H. reflexivity.
  - destruct v; simpl in *; try discriminate.
  - destruct v as [| | |[]|]; simpl in *; discriminate.
  - apply orb_true_iff in Hm. destruct Hm as [Hm|Hm]; [destruct v; simpl in *; discriminate | eauto].
  - destruct (non_falsy t1) as [x|] eqn:E1; try discriminate.
    destruct (non_falsy t2) as [y|] eqn:E2; try discriminate.
    inversion H; subst. rewrite mk_union_mem. apply orb_true_iff in Hm. apply orb_true_iff.
    destruct Hm; [left|right]; eauto.
Qed.

Lemma non_truthy_sound : forall t v,
  mem t v = true -> truthy v = false -> mem (non_truthy t) v = true.
Proof.
  induction t; simpl; intros v Hm Hv; try (destruct v as [| | |[]|]; simpl in *; congruence).
  - rewrite mk_union_mem. apply orb_true_iff in Hm. apply orb_true_iff. destruct Hm; [right|left]; simpl; auto.
  - rewrite mk_union_mem. apply orb_true_iff in Hm. apply orb_true_iff. destruct Hm; [left|right]; auto.
Qed.

Lemma only_nil_sound : forall t v,
  mem t v = true -> is_nil v = true -> mem (only_nil t) v = true.
Proof.
  induction t; simpl; intros v Hm Hv; try (destruct v; simpl in *; congruence).
  rewrite mk_union_mem. apply orb_true_iff in Hm. apply orb_true_iff. destruct Hm; [left|right]; auto.
Qed.

Lemma non_nil_sound : forall t t' v,
  non_nil t = Some t' -> mem t v = true -> is_nil v = false -> mem t' v = true.
Proof.
  induction t; simpl; intros t' v H Hm Hv; try (inversion H; subst; simpl; assumption); try discriminate.
  - inversion H; subst. simpl. destruct v as [| | |[]|]; simpl in *; try discriminate; reflexivity.
  - congruence.
  - apply orb_true_iff in Hm. destruct Hm as [Hm|Hm]; [congruence | eauto].
  - destruct (non_nil t1) as [x|] eqn:E1; try discriminate.
    destruct (non_nil t2) as [y|] eqn:E2; try discriminate.
    inversion H; subst. rewrite mk_union_mem. apply orb_true_iff in Hm. apply orb_true_iff.
    destruct Hm; [left|right]; eauto.
Qed.

Lemma nonlit_sound : forall t v, mem t v = true -> mem (nonlit t) v = true.
Proof.
  induction t; simpl; intros v Hm; auto; try (destruct v as [| | |[]|]; simpl in *; congruence).
  apply orb_true_iff in Hm. apply orb_true_iff. destruct Hm; [left|right]; auto.
Qed.

(* ---------------------------------------------------------------- environments *)

Lemma lookup_upd : forall G x y f,
  lookup x (upd y f G) =
  match lookup x G with
  | Some ch => Some (if x =? y then f ch else ch)
  | None => None
  end.
Proof.
  induction G as [|[z c] G IH]; intros x y f; simpl; auto.
  destruct (z =? y) eqn:Ezy; simpl.
  - destruct (z =? x) eqn:Ezx.
    + apply Z.eqb_eq in Ezy. apply Z.eqb_eq in Ezx. subst. rewrite Z.eqb_refl. reflexivity.
    + apply IH.
  - destruct (z =? x) eqn:Ezx.
    + apply Z.eqb_eq in Ezx. subst. rewrite Ezy. reflexivity.
    + apply IH.
Qed.

Lemma cur_some : forall G x t, cur G x = Some t -> exists ch, lookup x G = Some (t :: ch).
Proof.
  unfold cur. intros G x t H. destruct (lookup x G) as [[|t0 ch]|]; try discriminate.
  inversion H; subst. eauto.
Qed.

Lemma env_ok_cur : forall G r x t, env_ok G r -> cur G x = Some t ->
  exists v, lookup x r = Some v /\ mem t v = true.
Proof.
  intros G r x t Hok Hc. apply cur_some in Hc. destruct Hc as [ch Hl].
  destruct (Hok _ _ Hl) as [v [Hv HF]]. exists v. split; auto. inversion HF; auto.
Qed.

Lemma env_ok_push : forall G r x t,
  env_ok G r -> (forall v, lookup x r = Some v -> mem t v = true) ->
  env_ok (push_opt (Some (x, t)) G) r.
Proof.
  intros G r x t Hok Hm y ch Hl. simpl in Hl. rewrite lookup_upd in Hl.
  destruct (lookup y G) as [ch0|] eqn:E; try discriminate.
  destruct (Hok _ _ E) as [v [Hv HF]]. exists v. split; auto.
  destruct (y =? x) eqn:Eyx; inversion Hl; subst; auto.
  apply Z.eqb_eq in Eyx. subst. constructor; auto.
Qed.


Lemma assumed_negate : forall a, assumed (negate a) = negb (assumed a).
Proof. destruct a; reflexivity. Qed.

Lemma narrow_ok : forall c a G0 G r n vc,
  env_ok G0 r -> env_ok G r ->
  narrow G0 G c a = Some n -> eval_e r c = Some vc -> truthy vc = assumed a ->
  env_ok (push_opt n G) r.
Proof.
  induction c; intros a0 G0 G r n vc H0 HG Hn He Ht; simpl in Hn;
    try (inversion Hn; subst; exact HG); try discriminate.
  - (* EVar *)
    destruct (cur G0 x) as [t|] eqn:Ec; try discriminate.
    destruct (env_ok_cur _ _ _ _ H0 Ec) as [v [Hv Hm]].
    simpl in He. rewrite Hv in He. inversion He; subst vc.
    destruct a0; simpl in Ht.
    + destruct (non_falsy t) as [t'|] eqn:Enf; try discriminate. inversion Hn; subst.
      apply env_ok_push; auto. intros v' Hv'. rewrite Hv in Hv'. inversion Hv'; subst.
      eapply non_falsy_sound; eauto.
    + inversion Hn; subst. apply env_ok_push; auto. intros v' Hv'. rewrite Hv in Hv'. inversion Hv'; subst.
      apply non_truthy_sound; auto.
  - (* ENot *)
    simpl in He. destruct (eval_e r c) as [v1|] eqn:E1; try discriminate. inversion He; subst vc.
    rewrite truthy_bool in Ht. apply (IHc (negate a0) G0 G r n v1 H0 HG Hn E1).
    rewrite assumed_negate, <- Ht, negb_involutive. reflexivity.
  - (* EIsNil *)
    destruct c; try (inversion Hn; subst; exact HG).
    simpl in He. destruct (lookup x r) as [v|] eqn:Ev; try discriminate. inversion He; subst vc.
    rewrite truthy_bool in Ht.
    destruct (if neg then negate a0 else a0) eqn:Ea.
    + destruct (cur G x) as [t|] eqn:Ec; try discriminate. inversion Hn; subst.
      destruct (env_ok_cur _ _ _ _ HG Ec) as [v' [Hv' Hm]]. rewrite Ev in Hv'. inversion Hv'; subst v'.
      apply env_ok_push; auto. intros v2 Hv2. rewrite Ev in Hv2. inversion Hv2; subst v2.
      apply only_nil_sound; auto.
      destruct neg; destruct a0; simpl in *; try discriminate; destruct (is_nil v); simpl in *; congruence.
    + inversion Hn; subst. exact HG.
Qed.

(* ---------------------------------------------------------------- expressions *)
Lemma kind_int : forall t v, kind_of t = KInt -> mem t v = true -> exists z, v = VInt z.
Proof. destruct t; simpl; intros v H Hm; try discriminate; destruct v; try discriminate; eauto. Qed.
Lemma kind_float : forall t v, kind_of t = KFloat -> mem t v = true -> exists m e, v = VFloat m e.
Proof. destruct t; simpl; intros v H Hm; try discriminate; destruct v; try discriminate; eauto. Qed.
Lemma kind_str : forall t v, kind_of t = KStr -> mem t v = true -> exists s, v = VStr s.
Proof. destruct t; simpl; intros v H Hm; try discriminate; destruct v; try discriminate; eauto. Qed.

Lemma bin_sound : forall o ta tb t va vb v,
  bin_type o ta tb = Some t -> mem ta va = true -> mem tb vb = true ->
  bin_val o va vb = Some v -> mem t v = true.
Proof.
  intros o ta tb t va vb v Ht Ha Hb Hv.
  unfold bin_type in Ht.
  destruct (kind_of ta) eqn:Ka; destruct (kind_of tb) eqn:Kb;
    try (destruct o; discriminate);
    repeat match goal with
           | K : kind_of ?t = KInt, M : mem ?t ?w = true |- _ =>
               let z := fresh "z" in destruct (kind_int _ _ K M) as [z ?]; subst w; clear K M
           | K : kind_of ?t = KFloat, M : mem ?t ?w = true |- _ =>
               let m := fresh "m" in let e := fresh "e" in
               destruct (kind_float _ _ K M) as [m [e ?]]; subst w; clear K M
           | K : kind_of ?t = KStr, M : mem ?t ?w = true |- _ =>
               let s := fresh "s" in destruct (kind_str _ _ K M) as [s ?]; subst w; clear K M
           end;
    destruct o; simpl in *; try discriminate;
    inversion Ht; subst; inversion Hv; subst; reflexivity.
Qed.

Lemma check_e_sound : forall e G r t v,
  env_ok G r -> check_e G e = Some t -> eval_e r e = Some v -> mem t v = true.
Proof.
  induction e; intros G r t v Hok Hc He; simpl in Hc, He.
  - inversion Hc; inversion He; subst. simpl. apply Z.eqb_refl.
  - inversion Hc; inversion He; subst. simpl. apply feq_refl.
  - inversion Hc; inversion He; subst. simpl. apply str_eqb_refl.
  - inversion Hc; inversion He; subst. destruct b; reflexivity.
  - inversion Hc; inversion He; subst. reflexivity.
  - destruct (env_ok_cur _ _ _ _ Hok Hc) as [v' [Hv Hm]]. rewrite Hv in He. inversion He; subst. auto.
  - (* EBin *)
    destruct (check_e G e1) as [ta|] eqn:C1; try discriminate.
    destruct (check_e G e2) as [tb|] eqn:C2; try discriminate.
    destruct (eval_e r e1) as [va|] eqn:E1; try discriminate.
    destruct (eval_e r e2) as [vb|] eqn:E2; try discriminate.
    eapply bin_sound; eauto.
  - (* ENeg *)
    destruct (check_e G e) as [ta|] eqn:C1; try discriminate.
    destruct (eval_e r e) as [va|] eqn:E1; try discriminate.
    pose proof (IHe _ _ _ _ Hok C1 E1) as Hm.
    destruct (kind_of ta) eqn:K; try discriminate; inversion Hc; subst.
    + destruct (kind_int _ _ K Hm) as [z ?]; subst. inversion He. reflexivity.
    + destruct (kind_float _ _ K Hm) as [m [x ?]]; subst. inversion He. reflexivity.
  - (* ENot *)
    destruct (check_e G e); try discriminate. destruct (eval_e r e); try discriminate.
    inversion Hc; inversion He; subst. reflexivity.
  - (* EIsNil *)
    destruct (check_e G e); try discriminate. destruct (eval_e r e); try discriminate.
    inversion Hc; inversion He; subst. reflexivity.
  - (* EAnd *)
    destruct (check_e G e1) as [ta|] eqn:C1; try discriminate.
    destruct (narrow G G e1 ATruthy) as [n|] eqn:N; try discriminate.
    destruct (check_e (push_opt n G) e2) as [tb|] eqn:C2; try discriminate.
    destruct (eval_e r e1) as [va|] eqn:E1; try discriminate.
    pose proof (IHe1 _ _ _ _ Hok C1 E1) as Ha.
    destruct (truthy va) eqn:Tv.
    + assert (Hb : mem tb v = true).
      { eapply IHe2; [|exact C2|exact He]. eapply narrow_ok; eauto. }
      destruct (is_truthy ta) eqn:It; [inversion Hc; subst; auto|].
      destruct (is_falsy ta) eqn:If.
      * rewrite (is_falsy_sound _ _ If Ha) in Tv. discriminate.
      * inversion Hc; subst. rewrite mk_union_mem. rewrite Hb. apply orb_true_r.
    + inversion He; subst v.
      destruct (is_truthy ta) eqn:It.
      * rewrite (is_truthy_sound _ _ It Ha) in Tv. discriminate.
      * destruct (is_falsy ta); inversion Hc; subst; auto.
        rewrite mk_union_mem. rewrite (non_truthy_sound _ _ Ha Tv). reflexivity.
  - (* EOr *)
    destruct (check_e G e1) as [ta|] eqn:C1; try discriminate.
    destruct (narrow G G e1 AFalsy) as [n|] eqn:N; try discriminate.
    destruct (check_e (push_opt n G) e2) as [tb|] eqn:C2; try discriminate.
    destruct (eval_e r e1) as [va|] eqn:E1; try discriminate.
    pose proof (IHe1 _ _ _ _ Hok C1 E1) as Ha.
    destruct (truthy va) eqn:Tv.
    + inversion He; subst v.
      destruct (is_truthy ta) eqn:It; [inversion Hc; subst; auto|].
      destruct (is_falsy ta) eqn:If.
      * rewrite (is_falsy_sound _ _ If Ha) in Tv. discriminate.
      * destruct (non_falsy ta) as [nf|] eqn:Nf; try discriminate. inversion Hc; subst.
        rewrite mk_union_mem. rewrite (non_falsy_sound _ _ _ Nf Ha Tv). reflexivity.
    + assert (Hb : mem tb v = true).
      { eapply IHe2; [|exact C2|exact He]. eapply narrow_ok; eauto. }
      destruct (is_truthy ta) eqn:It.
      * rewrite (is_truthy_sound _ _ It Ha) in Tv. discriminate.
      * destruct (is_falsy ta); [inversion Hc; subst; auto|].
        destruct (non_falsy ta) as [nf|]; try discriminate. inversion Hc; subst.
        rewrite mk_union_mem. rewrite Hb. apply orb_true_r.
  - (* ENilCo *)
    destruct e1; try discriminate.
    destruct (cur G x) as [ta|] eqn:Cx; try discriminate.
    destruct (check_e (upd x (fun ch : list ty => TNil :: ch) G) e2) as [tb|] eqn:C2; try discriminate.
    destruct (env_ok_cur _ _ _ _ Hok Cx) as [va [Hv Ha]].
    simpl in He. rewrite Hv in He.
    destruct (is_nil va) eqn:Nv.
    + assert (Hb : mem tb v = true).
      { eapply IHe2; [|exact C2|exact He]. apply (env_ok_push G r x TNil); auto.
        intros v' Hv'. rewrite Hv in Hv'. inversion Hv'; subst. exact Nv. }
      destruct (is_nilable ta) eqn:Nl; simpl in Hc.
      * destruct (non_nil ta) as [nn|]; try discriminate. inversion Hc; subst.
        rewrite mk_union_mem. rewrite Hb. apply orb_true_r.
      * rewrite (not_nilable_sound _ _ Nl Ha) in Nv. discriminate.
    + inversion He; subst v.
      destruct (is_nilable ta) eqn:Nl; simpl in Hc.
      * destruct (non_nil ta) as [nn|] eqn:Nn; try discriminate. inversion Hc; subst.
        rewrite mk_union_mem. rewrite (non_nil_sound _ _ _ Nn Ha Nv). reflexivity.
      * inversion Hc; subst. auto.
Qed.


Lemma check_st_some : forall G e t, check_st G e = Some t -> check_e G e = Some t.
Proof.
  unfold check_st. intros G e t H. destruct (check_e G e) as [t0|]; try discriminate.
  destruct (subtype t0 TNever); inversion H; subst; reflexivity.
Qed.

(* ---------------------------------------------------------------- chains *)
(* cw ch ch': same length, and level j of ch' is level j of ch or one of the levels outside it *)
Inductive cw : list ty -> list ty -> Prop :=
| cw_nil : cw [] []
| cw_cons : forall t ch t' ch', cw ch ch' -> (t' = t \/ In t' ch) -> cw (t :: ch) (t' :: ch').

Lemma cw_refl : forall ch, cw ch ch.
Proof. induction ch; constructor; auto. Qed.

Lemma cw_in : forall a b, cw a b -> forall x, In x b -> In x a.
Proof.
  induction 1; intros x Hin; simpl in *; auto.
  destruct Hin as [Hx|Hx].
  - subst. destruct H0; subst; auto.
  - right. auto.
Qed.

Lemma cw_trans : forall a b, cw a b -> forall c, cw b c -> cw a c.
Proof.
  induction 1; intros c Hc; inversion Hc; subst; constructor; auto.
  match goal with H : _ = _ \/ In _ _ |- _ => destruct H as [Hq|Hq] end.
  - subst. auto.
  - right. eapply cw_in; eauto.
Qed.

Lemma assign_chain_cw : forall te ch ch', assign_chain te ch = Some ch' -> cw ch ch'.
Proof.
  induction ch as [|t rest IH]; simpl; intros ch' H; try discriminate.
  destruct (subtype te t).
  - destruct (forallb (subtype te) rest); inversion H; subst. apply cw_refl.
  - destruct (assign_chain te rest) as [[|t' rest']|] eqn:E; try discriminate.
    inversion H; subst. pose proof (IH _ eq_refl) as Hc.
    constructor; auto. right. eapply cw_in; [exact Hc|]. left. reflexivity.
Qed.

Lemma assign_chain_mem : forall te v, mem te v = true ->
  forall ch ch', assign_chain te ch = Some ch' -> Forall (fun t => mem t v = true) ch'.
Proof.
  intros te v Hm. induction ch as [|t rest IH]; simpl; intros ch' H; try discriminate.
  destruct (subtype te t) eqn:S1.
  - destruct (forallb (subtype te) rest) eqn:FA; inversion H; subst.
    constructor; [eapply subtype_sound; eauto|].
    rewrite forallb_forall in FA. apply Forall_forall. intros x Hx. eapply subtype_sound; eauto.
  - destruct (assign_chain te rest) as [[|t' rest']|] eqn:E; try discriminate.
    inversion H; subst. pose proof (IH _ eq_refl) as HF. inversion HF; subst. constructor; auto.
Qed.

Lemma lookup_leave : forall G n G' x,
  lookup x (leave G n G') =
  match lookup x G with
  | Some ch0 =>
      let ch := match lookup x G' with Some c => c | None => ch0 end in
      Some (match n with
            | Some (y, _) => if x =? y then tl ch else ch
            | None => ch
            end)
  | None => None
  end.
Proof.
  induction G as [|[z c] G IH]; intros n G' x; simpl; auto.
  destruct n as [[y t]|]; simpl.
  - destruct (z =? y) eqn:Ezy; simpl; destruct (z =? x) eqn:Ezx; try apply (IH (Some (y, t))).
    + apply Z.eqb_eq in Ezx. subst z. rewrite Ezy. reflexivity.
    + apply Z.eqb_eq in Ezx. subst z. rewrite Ezy. reflexivity.
  - destruct (z =? x) eqn:Ezx; [|apply (IH None)].
    apply Z.eqb_eq in Ezx. subst z. reflexivity.
Qed.

(* the chain x has in (push_opt n G) *)
Definition pushed (n : option (var * ty)) (x : var) (ch : list ty) : list ty :=
  match n with
  | Some (y, t) => if x =? y then t :: ch else ch
  | None => ch
  end.

Lemma lookup_push : forall n G x,
  lookup x (push_opt n G) = match lookup x G with Some ch => Some (pushed n x ch) | None => None end.
Proof.
  intros [[y t]|] G x; simpl.
  - rewrite lookup_upd. destruct (lookup x G); auto.
  - destruct (lookup x G); auto.
Qed.

Definition widens (G G' : tenv) : Prop :=
  forall x ch, lookup x G = Some ch -> exists ch', lookup x G' = Some ch' /\ cw ch ch'.

Lemma widens_refl : forall G, widens G G.
Proof. intros G x ch H. exists ch. split; auto. apply cw_refl. Qed.

Lemma widens_trans : forall A B C, widens A B -> widens B C -> widens A C.
Proof.
  intros A B C H1 H2 x ch Hl. destruct (H1 _ _ Hl) as [ch1 [Hl1 Hc1]].
  destruct (H2 _ _ Hl1) as [ch2 [Hl2 Hc2]]. exists ch2. split; auto. eapply cw_trans; eauto.
Qed.

Lemma leave_widens : forall G n G', widens (push_opt n G) G' -> widens G (leave G n G').
Proof.
  intros G n G' Hw x ch Hl. rewrite lookup_leave. rewrite Hl.
  assert (Hp : lookup x (push_opt n G) = Some (pushed n x ch)) by (rewrite lookup_push, Hl; reflexivity).
  destruct (Hw _ _ Hp) as [ch' [Hl' Hc]]. rewrite Hl'. simpl.
  eexists. split; [reflexivity|].
  unfold pushed in Hc. destruct n as [[y t]|]; auto.
  destruct (x =? y); auto. inversion Hc; subst. simpl. auto.
Qed.

Lemma lookup_cons_other : forall (G : tenv) x y c ch,
  declared G y = false -> lookup x G = Some ch -> lookup x ((y, c) :: G) = Some ch.
Proof.
  intros G x y c ch Hd Hl. simpl. destruct (y =? x) eqn:E; auto.
  apply Z.eqb_eq in E. subst. unfold declared in Hd. rewrite Hl in Hd. discriminate.
Qed.

Lemma check_widens : forall s G G', check_s G s = Some G' -> widens G G'.
Proof.
  induction s; intros G G' H; simpl in H.
  - inversion H; subst. apply widens_refl.
  - destruct (check_s G s1) as [G1|] eqn:E1; try discriminate.
    eapply widens_trans; eauto.
  - destruct (declared G x) eqn:D; try discriminate.
    destruct (check_st G e); try discriminate. destruct (subtype t0 t); inversion H; subst.
    intros y ch Hl. exists ch. split; [apply lookup_cons_other; auto | apply cw_refl].
  - destruct (declared G x) eqn:D; try discriminate.
    destruct (check_st G e); inversion H; subst.
    intros y ch Hl. exists ch. split; [apply lookup_cons_other; auto | apply cw_refl].
  - destruct (lookup x G) as [ch0|] eqn:L; try discriminate.
    destruct (check_st G e) as [te|]; try discriminate.
    destruct (assign_chain te ch0) as [ch1|] eqn:A; inversion H; subst.
    intros y ch Hl. rewrite lookup_upd. rewrite Hl.
    destruct (y =? x) eqn:E.
    + apply Z.eqb_eq in E. subst. rewrite L in Hl. inversion Hl; subst.
      eexists. split; [reflexivity|]. eapply assign_chain_cw; eauto.
    + eexists. split; [reflexivity|]. apply cw_refl.
  - (* SIf *)
    destruct (check_e G c); try discriminate.
    destruct (narrow G G c ATruthy) as [nt|]; try discriminate.
    destruct (check_s (push_opt nt G) s1) as [Ga|] eqn:E1; try discriminate.
    destruct (narrow G (leave G nt Ga) c AFalsy) as [nf|]; try discriminate.
    destruct (check_s (push_opt nf (leave G nt Ga)) s2) as [Gb|] eqn:E2; inversion H; subst.
    eapply widens_trans; apply leave_widens; eauto.
  - destruct (check_st G e); try discriminate. destruct (subtype t0 t); inversion H; subst. apply widens_refl.
  - destruct (check_e G c); try discriminate.
    destruct (narrow G G c ATruthy) as [nt|]; try discriminate.
    destruct (check_s (push_opt nt G) s) as [Gb|] eqn:E1; inversion H; subst.
    apply leave_widens; eauto.
  - destruct (check_s G s) as [Gb|] eqn:E1; inversion H; subst.
    apply (leave_widens G None). simpl. eauto.
  - inversion H; subst. apply widens_refl.
Qed.

(* statically stepping over a branch that is not executed keeps the environment valid *)
Lemma env_ok_widens_leave : forall G n G' r,
  env_ok G r -> widens (push_opt n G) G' -> env_ok (leave G n G') r.
Proof.
  intros G n G' r Hok Hw x ch Hl.
  pose proof (leave_widens _ _ _ Hw) as Hw'.
  rewrite lookup_leave in Hl. destruct (lookup x G) as [ch0|] eqn:L0; try discriminate.
  destruct (Hw' _ _ L0) as [ch1 [L1 Hc]].
  rewrite lookup_leave, L0 in L1. rewrite L1 in Hl. inversion Hl; subst ch1.
  destruct (Hok _ _ L0) as [v [Hv HF]]. exists v. split; auto.
  apply Forall_forall. intros t Ht. rewrite Forall_forall in HF. apply HF. eapply cw_in; eauto.
Qed.

(* leaving a branch that WAS executed *)
Lemma env_ok_leave : forall G n G' r,
  widens (push_opt n G) G' -> env_ok G' r -> env_ok (leave G n G') r.
Proof.
  intros G n G' r Hw Hok x ch Hl.
  rewrite lookup_leave in Hl. destruct (lookup x G) as [ch0|] eqn:L0; try discriminate.
  assert (Hp : lookup x (push_opt n G) = Some (pushed n x ch0)) by (rewrite lookup_push, L0; reflexivity).
  destruct (Hw _ _ Hp) as [ch' [Hl' Hc]]. rewrite Hl' in Hl. simpl in Hl.
  destruct (Hok _ _ Hl') as [v [Hv HF]]. exists v. split; auto.
  destruct n as [[y t]|]; inversion Hl; subst; auto.
  destruct (x =? y); auto. destruct ch'; simpl; auto. inversion HF; auto.
Qed.

(* ---------------------------------------------------------------- statements *)

Lemma env_ok_decl : forall G r x t v,
  env_ok G r -> declared G x = false -> mem t v = true ->
  env_ok ((x, [t]) :: G) (set_var x v r).
Proof.
  intros G r x t v Hok Hd Hm y ch Hl. simpl in Hl. unfold set_var. simpl.
  destruct (x =? y) eqn:E.
  - inversion Hl; subst. exists v. split; auto.
  - apply Hok; auto.
Qed.

Theorem preservation_s : forall fuel s G G' st st',
  flow_simple s = true ->
  check_s G s = Some G' ->
  exec fuel st s = Some st' ->
  env_ok G (st_vars st) -> log_ok (st_log st) = true ->
  env_ok G' (st_vars st') /\ log_ok (st_log st') = true.
Proof.
  induction fuel as [|f IH]; intros s G G' st st' Hs Hc He Hok Hlog; simpl in He; try discriminate.
  destruct st as [[r k] lg]. unfold st_vars, st_log in *. simpl in Hok, Hlog.
  destruct s; simpl in Hs, Hc; try discriminate.
  - (* SSkip *) inversion Hc; inversion He; subst. auto.
  - (* SSeq *)
    apply andb_true_iff in Hs. destruct Hs as [Hs1 Hs2].
    destruct (check_s G s1) as [G1|] eqn:C1; try discriminate.
    destruct (exec f (r, k, lg) s1) as [st1|] eqn:E1; try discriminate.
    destruct (IH _ _ _ _ _ Hs1 C1 E1 Hok Hlog) as [Hok1 Hlog1].
    eapply IH; eauto.
  - (* SDecl *)
    destruct (declared G x) eqn:D; try discriminate.
    destruct (check_st G e) as [te|] eqn:Ce0; try discriminate. pose proof (check_st_some _ _ _ Ce0) as Ce.
    destruct (subtype te t) eqn:Sb; inversion Hc; subst.
    destruct (eval_e r e) as [v|] eqn:Ev; inversion He; subst. simpl. split; auto.
    apply env_ok_decl; auto. eapply subtype_sound; eauto. eapply check_e_sound; eauto.
  - (* SInfer *)
    destruct (declared G x) eqn:D; try discriminate.
    destruct (check_st G e) as [te|] eqn:Ce0; inversion Hc; subst. pose proof (check_st_some _ _ _ Ce0) as Ce.
    destruct (eval_e r e) as [v|] eqn:Ev; inversion He; subst. simpl. split; auto.
    apply env_ok_decl; auto. apply nonlit_sound. eapply check_e_sound; eauto.
  - (* SAssign *)
    destruct (lookup x G) as [ch0|] eqn:L; try discriminate.
    destruct (check_st G e) as [te|] eqn:Ce0; try discriminate. pose proof (check_st_some _ _ _ Ce0) as Ce.
    destruct (assign_chain te ch0) as [ch1|] eqn:A; inversion Hc; subst.
    destruct (eval_e r e) as [v|] eqn:Ev; inversion He; subst. simpl. split; auto.
    intros y ch Hl. rewrite lookup_upd in Hl. unfold set_var. simpl.
    destruct (lookup y G) as [chy|] eqn:Ly; try discriminate.
    destruct (x =? y) eqn:E.
    + apply Z.eqb_eq in E. subst y. rewrite Z.eqb_refl in Hl. inversion Hl; subst.
      exists v. split; auto. eapply assign_chain_mem; eauto. eapply check_e_sound; eauto.
    + rewrite Z.eqb_sym in E. rewrite E in Hl. inversion Hl; subst. apply Hok; auto.
  - (* SIf *)
    apply andb_true_iff in Hs. destruct Hs as [Hs1 Hs2].
    destruct (check_e G c) as [tc|] eqn:Cc; try discriminate.
    destruct (narrow G G c ATruthy) as [nt|] eqn:Nt; try discriminate.
    destruct (check_s (push_opt nt G) s1) as [Ga|] eqn:C1; try discriminate.
    destruct (narrow G (leave G nt Ga) c AFalsy) as [nf|] eqn:Nf; try discriminate.
    destruct (check_s (push_opt nf (leave G nt Ga)) s2) as [Gb|] eqn:C2; inversion Hc; subst.
    destruct (eval_e r c) as [vc|] eqn:Ec; try discriminate.
    pose proof (check_widens _ _ _ C1) as W1. pose proof (check_widens _ _ _ C2) as W2.
    destruct (truthy vc) eqn:Tv.
    + assert (Hp : env_ok (push_opt nt G) r)
        by exact (narrow_ok c ATruthy G G r nt vc Hok Hok Nt Ec Tv).
      destruct (IH _ _ _ _ _ Hs1 C1 He Hp Hlog) as [Hok1 Hlog1]. split; auto.
      apply env_ok_widens_leave; auto. apply env_ok_leave; auto.
    + assert (H1 : env_ok (leave G nt Ga) r) by (apply env_ok_widens_leave; auto).
      assert (Hp : env_ok (push_opt nf (leave G nt Ga)) r)
        by exact (narrow_ok c AFalsy G (leave G nt Ga) r nf vc Hok H1 Nf Ec Tv).
      destruct (IH _ _ _ _ _ Hs2 C2 He Hp Hlog) as [Hok2 Hlog2]. split; auto.
      apply env_ok_leave; auto.
  - (* SProbe *)
    destruct (check_st G e) as [te|] eqn:Ce0; try discriminate. pose proof (check_st_some _ _ _ Ce0) as Ce.
    destruct (subtype te t) eqn:Sb; inversion Hc; subst.
    destruct (eval_e r e) as [v|] eqn:Ev; inversion He; subst. simpl. split; auto.
    unfold log_ok in *. simpl. rewrite Hlog. rewrite andb_true_r.
    eapply subtype_sound; eauto. eapply check_e_sound; eauto.
Qed.

Lemma env_ok_empty : forall r, env_ok [] r.
Proof. intros r x ch H. simpl in H. discriminate. Qed.
