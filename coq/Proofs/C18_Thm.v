(* C18 — main lemmas: equality/hash, symmetry, coherence and transitivity. *)
From Coq Require Import ZArith List Bool Lia ZifyBool.
From Elk Require Import Base.GoSem Model.C18_Num Proofs.C18_Num.
Open Scope Z_scope.

(* ---------------------------------------------------------------- == and hashing *)
Lemma hash_eq a b :
  wf a = true -> wf b = true -> equal a b = true -> hash_bytes a = hash_bytes b.
Proof.
  destruct a, b; cbn [equal hash_bytes wf]; intros Wa Wb E; try discriminate.
  - apply Z.eqb_eq in E. subst. reflexivity.
  - f_equal. apply decode64_canon; auto; unfold fits_u in *; lia.
  - f_equal. apply decode64_canon; auto; unfold fits_u in *; lia.
  - f_equal. apply decode32_canon; auto; unfold fits_u in *; lia.
  - apply andb_true_iff in E. destruct E as [E1 E2]. apply skind_eqb_eq in E1. apply Z.eqb_eq in E2.
    subst. reflexivity.
  - apply andb_true_iff in E. destruct E as [E1 E2]. apply ukind_eqb_eq in E1. apply Z.eqb_eq in E2.
    subst. reflexivity.
  - now apply list_eqb_eq.
  - apply Z.eqb_eq in E. subst. reflexivity.
  - apply Z.eqb_eq in E. subst. reflexivity.
Qed.

Lemma feq_refl f : f <> FNaN -> feq f f = true.
Proof.
  intros H. apply feq_true. destruct f as [| [|] | s]; try congruence; eexists; split; reflexivity.
Qed.

Lemma eq_refl_nonnan a : is_nan a = false -> equal a a = true.
Proof.
  destruct a; cbn [equal is_nan view]; intros H; try apply Z.eqb_refl.
  - apply feq_refl. intros E. rewrite E in H. discriminate.
  - apply feq_refl. intros E. rewrite E in H. discriminate.
  - apply feq_refl. intros E. rewrite E in H. discriminate.
  - destruct k; simpl; apply Z.eqb_refl.
  - destruct k; simpl; apply Z.eqb_refl.
  - now apply list_eqb_eq.
Qed.

Lemma eq_sym_all a b : equal a b = equal b a.
Proof.
  destruct a, b; cbn [equal]; auto using Z.eqb_sym, feq_sym, list_eqb_sym.
  - now rewrite skind_eqb_sym, Z.eqb_sym.
  - now rewrite ukind_eqb_sym, Z.eqb_sym.
Qed.

Lemma equal_numeric a b : equal a b = true -> numeric a = numeric b.
Proof. destruct a, b; cbn [equal]; intros H; try discriminate; reflexivity. Qed.

Lemma equal_nonnum_eq a b : numeric a = false -> equal a b = true -> a = b.
Proof.
  destruct a, b; cbn [equal]; intros N H; try discriminate.
  - apply list_eqb_eq in H. congruence.
  - apply Z.eqb_eq in H. congruence.
  - apply Z.eqb_eq in H. congruence.
Qed.

Lemma equal_xval a b :
  numeric a = true -> equal a b = true -> exists x, xval a = Some x /\ xval b = Some x.
Proof.
  destruct a, b; cbn [equal]; intros N H; try discriminate; unfold xval; cbn [view].
  - apply Z.eqb_eq in H. subst. eauto.
  - now apply feq_true.
  - now apply feq_true.
  - now apply feq_true.
  - apply andb_true_iff in H. destruct H as [_ H]. apply Z.eqb_eq in H. subst. eauto.
  - apply andb_true_iff in H. destruct H as [_ H]. apply Z.eqb_eq in H. subst. eauto.
Qed.

(* ---------------------------------------------------------------- =~ *)
Definition is_eq (oc : option comparison) : bool := match oc with Some Eq => true | _ => false end.

Lemma lax_num a b :
  wf a = true -> wf b = true -> numeric a = true -> numeric b = true ->
  lax_equal a b = Some (is_eq (xc (xval a) (xval b))).
Proof.
  intros. unfold lax_equal. rewrite num_cmp_spec by assumption.
  destruct (xc (xval a) (xval b)) as [[| |] |]; reflexivity.
Qed.

Definition lax_other (a b : val) : option bool :=
  match a, b with
  | VStr _, VChar _ | VChar _, VStr _ => None
  | _, _ => Some (equal a b)
  end.

Lemma lax_nonnum a b :
  numeric a = false \/ numeric b = false -> lax_equal a b = lax_other a b.
Proof. intros H. unfold lax_equal. rewrite num_cmp_none by assumption. reflexivity. Qed.

Lemma lax_other_sym a b : lax_other a b = lax_other b a.
Proof. destruct a, b; cbn [lax_other]; try reflexivity; f_equal; apply eq_sym_all. Qed.

Lemma is_eq_sym ox oy : is_eq (xc ox oy) = is_eq (xc oy ox).
Proof.
  rewrite <- (xc_opp oy ox). destruct (xc oy ox) as [[| |] |]; reflexivity.
Qed.

Lemma lax_sym a b : wf a = true -> wf b = true -> lax_equal a b = lax_equal b a.
Proof.
  intros Wa Wb. destruct (numeric a) eqn:Na; destruct (numeric b) eqn:Nb.
  - rewrite !lax_num by assumption. f_equal. apply is_eq_sym.
  - rewrite !lax_nonnum by auto. apply lax_other_sym.
  - rewrite !lax_nonnum by auto. apply lax_other_sym.
  - rewrite !lax_nonnum by auto. apply lax_other_sym.
Qed.

Lemma is_eq_true ox oy : is_eq (xc ox oy) = true -> exists x, ox = Some x /\ oy = Some x.
Proof.
  destruct ox as [x |], oy as [y |]; simpl; try discriminate.
  destruct (xcompare x y) eqn:E; try discriminate. apply xcompare_eq in E. subst. eauto.
Qed.

Lemma lax_other_true a b : lax_other a b = Some true -> equal a b = true.
Proof. destruct a, b; cbn [lax_other]; intros H; congruence. Qed.

Lemma lax_true_numeric a b :
  wf a = true -> wf b = true -> lax_equal a b = Some true -> numeric a = numeric b.
Proof.
  intros Wa Wb H. destruct (numeric a) eqn:Na; destruct (numeric b) eqn:Nb; auto.
  - rewrite lax_nonnum in H by auto. apply lax_other_true, equal_numeric in H. congruence.
  - rewrite lax_nonnum in H by auto. apply lax_other_true, equal_numeric in H. congruence.
Qed.

Lemma lax_trans a b c :
  wf a = true -> wf b = true -> wf c = true ->
  lax_equal a b = Some true -> lax_equal b c = Some true -> lax_equal a c = Some true.
Proof.
  intros Wa Wb Wc H1 H2.
  pose proof (lax_true_numeric a b Wa Wb H1) as N1.
  pose proof (lax_true_numeric b c Wb Wc H2) as N2.
  destruct (numeric b) eqn:Nb.
  - rewrite (lax_num a b) in H1 by congruence. rewrite (lax_num b c) in H2 by congruence.
    rewrite (lax_num a c) by congruence.
    assert (E1 : is_eq (xc (xval a) (xval b)) = true) by congruence.
    assert (E2 : is_eq (xc (xval b) (xval c)) = true) by congruence.
    apply is_eq_true in E1. apply is_eq_true in E2.
    destruct E1 as [x [A B]]. destruct E2 as [y [B' C]].
    rewrite A, C. assert (x = y) by congruence. subst. unfold is_eq, xc. rewrite xcompare_refl. reflexivity.
  - pose proof H1 as H1'. rewrite (lax_nonnum a b) in H1 by auto. rewrite (lax_nonnum b c) in H2 by auto.
    pose proof (lax_other_true _ _ H1) as E1. pose proof (lax_other_true _ _ H2) as E2.
    apply equal_nonnum_eq in E1; [| congruence]. apply equal_nonnum_eq in E2; [| congruence].
    subst. exact H1'.
Qed.

Lemma eq_lax a b :
  wf a = true -> wf b = true -> equal a b = true -> lax_equal a b = Some true.
Proof.
  intros Wa Wb E. pose proof (equal_numeric a b E) as N.
  destruct (numeric a) eqn:Na.
  - rewrite lax_num by congruence. destruct (equal_xval a b Na E) as [x [A B]].
    rewrite A, B. unfold is_eq, xc. rewrite xcompare_refl. reflexivity.
  - rewrite lax_nonnum by auto.
    apply equal_nonnum_eq in E; auto. subst b.
    destruct a; cbn [lax_other numeric view] in *; try discriminate; f_equal.
    + now apply list_eqb_eq.
    + apply Z.eqb_refl.
    + apply Z.eqb_refl.
Qed.

(* ---------------------------------------------------------------- ordering *)
Lemma ordered_numeric a b : ordered_pair a b = true -> numeric a = true /\ numeric b = true.
Proof.
  unfold ordered_pair, numeric.
  destruct a; cbn [ord_class view]; try discriminate; destruct b; cbn [ord_class view]; auto;
    repeat match goal with k : ukind |- _ => destruct k end; intros; try discriminate; auto.
Qed.

Lemma ordered_sym a b : ordered_pair a b = ordered_pair b a.
Proof. unfold ordered_pair. destruct (ord_class a), (ord_class b); auto. apply Z.eqb_sym. Qed.

Lemma ordered_trans a b c :
  ordered_pair a b = true -> ordered_pair b c = true -> ordered_pair a c = true.
Proof.
  unfold ordered_pair. destruct (ord_class a), (ord_class b), (ord_class c); try discriminate; lia.
Qed.

Lemma ord_cmp_spec a b :
  wf a = true -> wf b = true ->
  ord_cmp a b = if ordered_pair a b then Some (xc (xval a) (xval b)) else None.
Proof.
  intros Wa Wb. unfold ord_cmp. destruct (ordered_pair a b) eqn:O; auto.
  destruct (ordered_numeric a b O). now apply num_cmp_spec.
Qed.

Lemma cmp_ccmp a b c : cmp a b = CCmp c -> ord_cmp a b = Some (Some c).
Proof.
  unfold cmp. destruct (ord_cmp a b) as [[c' |] |]; try discriminate.
  - congruence.
  - destruct (is_sym a); try discriminate. destruct (is_text a && is_text b); discriminate.
Qed.

Lemma rel_of_ord t a b c : ord_cmp a b = Some (Some c) -> rel t a b = RB (t c).
Proof. intros H. unfold rel. now rewrite H. Qed.

Lemma order_coherent a b c :
  wf a = true -> wf b = true -> cmp a b = CCmp c ->
  lt a b = RB (match c with Lt => true | _ => false end) /\
  le a b = RB (match c with Gt => false | _ => true end) /\
  gt a b = RB (match c with Gt => true | _ => false end) /\
  ge a b = RB (match c with Lt => false | _ => true end) /\
  lax_equal a b = Some (match c with Eq => true | _ => false end) /\
  cmp b a = CCmp (CompOpp c).
Proof.
  intros Wa Wb H. apply cmp_ccmp in H.
  assert (R : forall t, rel t a b = RB (t c)) by (intros; now apply rel_of_ord).
  split; [apply R |]. split; [apply R |]. split; [apply R |]. split; [apply R |]. clear R. split.
  - rewrite ord_cmp_spec in H by assumption.
    destruct (ordered_pair a b) eqn:O; try discriminate.
    destruct (ordered_numeric a b O). rewrite lax_num by assumption.
    assert (E : xc (xval a) (xval b) = Some c) by congruence. rewrite E. destruct c; reflexivity.
  - rewrite ord_cmp_spec in H by assumption.
    destruct (ordered_pair a b) eqn:O; try discriminate.
    unfold cmp. rewrite ord_cmp_spec by assumption. rewrite ordered_sym, O.
    rewrite <- xc_opp. assert (E : xc (xval a) (xval b) = Some c) by congruence. rewrite E. reflexivity.
Qed.

Lemma order_total a b :
  wf a = true -> wf b = true -> ordered_pair a b = true ->
  is_nan a = false -> is_nan b = false -> exists c, cmp a b = CCmp c.
Proof.
  intros Wa Wb O Na Nb. destruct (ordered_numeric a b O) as [Ma Mb].
  unfold cmp. rewrite ord_cmp_spec, O by assumption.
  destruct (xval a) as [x |] eqn:Xa.
  - destruct (xval b) as [y |] eqn:Xb.
    + simpl. eauto.
    + apply xval_nan in Xb; auto. congruence.
  - apply xval_nan in Xa; auto. congruence.
Qed.

Lemma order_nan a b :
  wf a = true -> wf b = true -> ordered_pair a b = true ->
  is_nan a = true \/ is_nan b = true ->
  cmp a b = CNil /\ lt a b = RB false /\ le a b = RB false /\ gt a b = RB false /\ ge a b = RB false /\
  lax_equal a b = Some false.
Proof.
  intros Wa Wb O N. destruct (ordered_numeric a b O) as [Ma Mb].
  assert (X : xc (xval a) (xval b) = None).
  { destruct N as [N | N]; apply xval_nan in N; auto; rewrite N; [reflexivity |].
    destruct (xval a); reflexivity. }
  unfold cmp, lt, le, gt, ge, rel. rewrite ord_cmp_spec, O, X by assumption.
  repeat split. rewrite lax_num, X by assumption. reflexivity.
Qed.

Lemma rel_true t a b :
  wf a = true -> wf b = true -> rel t a b = RB true ->
  ordered_pair a b = true /\ exists x y, xval a = Some x /\ xval b = Some y /\ t (xcompare x y) = true.
Proof.
  intros Wa Wb H. unfold rel in H. rewrite ord_cmp_spec in H by assumption.
  destruct (ordered_pair a b) eqn:O.
  - split; auto. destruct (xval a) as [x |], (xval b) as [y |]; simpl in H; try discriminate.
    exists x, y. repeat split; congruence.
  - destruct (is_sym a); try discriminate. destruct (is_text a && is_text b); discriminate.
Qed.

Lemma rel_trans (t1 t2 t3 : comparison -> bool) a b c :
  (forall x y z, t1 (xcompare x y) = true -> t2 (xcompare y z) = true -> t3 (xcompare x z) = true) ->
  wf a = true -> wf b = true -> wf c = true ->
  rel t1 a b = RB true -> rel t2 b c = RB true -> rel t3 a c = RB true.
Proof.
  intros T Wa Wb Wc H1 H2.
  apply rel_true in H1; auto. apply rel_true in H2; auto.
  destruct H1 as [O1 [x [y [Xa [Xb T1]]]]]. destruct H2 as [O2 [y' [z [Xb' [Xc T2]]]]].
  assert (y' = y) by congruence. subst y'.
  unfold rel. rewrite ord_cmp_spec by assumption. rewrite (ordered_trans a b c O1 O2).
  rewrite Xa, Xc. simpl. f_equal. eapply T; eauto.
Qed.

Definition t_lt c := match c with Lt => true | _ => false end.
Definition t_le c := match c with Gt => false | _ => true end.
Definition t_gt c := match c with Gt => true | _ => false end.
Definition t_ge c := match c with Lt => false | _ => true end.

Ltac xtrans :=
  intros x y z; destruct x, y, z; simpl; intros H1 H2; try congruence; zc; simpl in *; try congruence; lia.

Lemma t_le_le : forall x y z, t_le (xcompare x y) = true -> t_le (xcompare y z) = true -> t_le (xcompare x z) = true.
Proof. xtrans. Qed.
Lemma t_lt_le : forall x y z, t_lt (xcompare x y) = true -> t_le (xcompare y z) = true -> t_lt (xcompare x z) = true.
Proof. xtrans. Qed.
Lemma t_le_lt : forall x y z, t_le (xcompare x y) = true -> t_lt (xcompare y z) = true -> t_lt (xcompare x z) = true.
Proof. xtrans. Qed.
Lemma t_ge_ge : forall x y z, t_ge (xcompare x y) = true -> t_ge (xcompare y z) = true -> t_ge (xcompare x z) = true.
Proof. xtrans. Qed.
Lemma t_gt_ge : forall x y z, t_gt (xcompare x y) = true -> t_ge (xcompare y z) = true -> t_gt (xcompare x z) = true.
Proof. xtrans. Qed.
Lemma t_ge_gt : forall x y z, t_ge (xcompare x y) = true -> t_gt (xcompare y z) = true -> t_gt (xcompare x z) = true.
Proof. xtrans. Qed.

Lemma order_trans a b c :
  wf a = true -> wf b = true -> wf c = true ->
  (le a b = RB true -> le b c = RB true -> le a c = RB true) /\
  (lt a b = RB true -> le b c = RB true -> lt a c = RB true) /\
  (le a b = RB true -> lt b c = RB true -> lt a c = RB true) /\
  (ge a b = RB true -> ge b c = RB true -> ge a c = RB true) /\
  (gt a b = RB true -> ge b c = RB true -> gt a c = RB true) /\
  (ge a b = RB true -> gt b c = RB true -> gt a c = RB true).
Proof.
  intros Wa Wb Wc. unfold le, lt, ge, gt.
  repeat split; intros H1 H2.
  - exact (rel_trans t_le t_le t_le a b c t_le_le Wa Wb Wc H1 H2).
  - exact (rel_trans t_lt t_le t_lt a b c t_lt_le Wa Wb Wc H1 H2).
  - exact (rel_trans t_le t_lt t_lt a b c t_le_lt Wa Wb Wc H1 H2).
  - exact (rel_trans t_ge t_ge t_ge a b c t_ge_ge Wa Wb Wc H1 H2).
  - exact (rel_trans t_gt t_ge t_gt a b c t_gt_ge Wa Wb Wc H1 H2).
  - exact (rel_trans t_ge t_gt t_gt a b c t_ge_gt Wa Wb Wc H1 H2).
Qed.
