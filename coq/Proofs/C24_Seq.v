From Elk Require Import Base.GoSem Model.C06_Int Proofs.C06_Int Model.C24_Seq.
From Coq Require Import ZifyBool ZifyNat.
Open Scope Z_scope.

Lemma len_nonneg d : 0 <= len d. Proof. unfold len. lia. Qed.
Lemma len_app a b : len (a ++ b) = len a + len b.
Proof. unfold len. rewrite app_length. lia. Qed.
Lemma len_cons x a : len (x :: a) = 1 + len a.
Proof. unfold len. simpl length. lia. Qed.
Lemma len_nil : len [] = 0. Proof. reflexivity. Qed.
Lemma to_nat_len d : Z.to_nat (len d) = length d.
Proof. unfold len. lia. Qed.

Lemma firstn_pre (pre l : list Z) : firstn (length pre) (pre ++ l) = pre.
Proof. induction pre; simpl; congruence. Qed.
Lemma skipn_pre (pre : list Z) x l : skipn (S (length pre)) (pre ++ x :: l) = l.
Proof. induction pre; simpl; auto. Qed.
Lemma skipn_pre0 (pre l : list Z) : skipn (length pre) (pre ++ l) = l.
Proof. induction pre; simpl; auto. Qed.
Lemma nth_pre (pre : list Z) x l : nth (length pre) (pre ++ x :: l) 0 = x.
Proof. induction pre; simpl; auto. Qed.

Lemma in_bounds_mid pre x suf : in_bounds (pre ++ x :: suf) (len pre) = true.
Proof. unfold in_bounds. rewrite len_app, len_cons. pose proof (len_nonneg pre). pose proof (len_nonneg suf). lia. Qed.
Lemma go_idx_mid pre x suf : go_idx (pre ++ x :: suf) (len pre) = Ok x.
Proof. unfold go_idx. rewrite in_bounds_mid, to_nat_len, nth_pre. reflexivity. Qed.
Lemma go_set_mid pre x suf v : go_set (pre ++ x :: suf) (len pre) v = Ok (pre ++ v :: suf).
Proof. unfold go_set. rewrite in_bounds_mid, to_nat_len, firstn_pre, skipn_pre. reflexivity. Qed.
Lemma go_remove_at_mid pre x suf : go_remove_at (pre ++ x :: suf) (len pre) = Ok (pre ++ suf).
Proof. unfold go_remove_at. rewrite in_bounds_mid, to_nat_len, firstn_pre, skipn_pre. reflexivity. Qed.

(* split a list at a valid position *)
Lemma split_at (d : list Z) (j : Z) : 0 <= j < len d ->
  exists pre x suf, d = pre ++ x :: suf /\ len pre = j.
Proof.
  intros H. exists (firstn (Z.to_nat j) d).
  destruct (skipn (Z.to_nat j) d) as [|x suf] eqn:E.
  - exfalso. assert (L : length (skipn (Z.to_nat j) d) = 0%nat) by (rewrite E; reflexivity).
    rewrite skipn_length in L. unfold len in H. lia.
  - exists x, suf. split.
    + rewrite <- E. symmetry. apply firstn_skipn.
    + unfold len. rewrite firstn_length. unfold len in H. lia.
Qed.

Lemma normalize_spec i n : 0 <= n ->
  normalize i n = if (- n <=? i) && (i <? n) then Ok (if i <? 0 then n + i else i) else Err E_OUT_OF_RANGE.
Proof.
  intros Hn. unfold normalize.
  destruct ((i >=? n) || (i <? - n)) eqn:A; destruct ((- n <=? i) && (i <? n)) eqn:B; try reflexivity; lia.
Qed.

Section WithGrow.
Variable g : Z -> Z -> Z.

(* ---------------- get / set / remove_at ---------------- *)
Lemma get_refines l a : i_get l a = s_get l a.
Proof.
  unfold i_get, s_get, valid_index, to_go_int, i_get_int.
  destruct (fits64 a) eqn:F; [|reflexivity]. cbn [andb].
  rewrite normalize_spec by apply len_nonneg.
  destruct ((- len (data l) <=? a) && (a <? len (data l))) eqn:V; [|reflexivity].
  cbn [bind]. unfold pos_of.
  set (j := if a <? 0 then len (data l) + a else a).
  assert (Hj : 0 <= j < len (data l)) by (subst j; destruct (a <? 0) eqn:N; lia).
  destruct (split_at _ _ Hj) as (pre & x & suf & E & Lp).
  rewrite E, <- Lp, go_idx_mid, to_nat_len, nth_pre. reflexivity.
Qed.

Lemma set_refines l a v : i_set l a v = s_set l a v.
Proof.
  unfold i_set, s_set, valid_index, to_go_int.
  destruct (fits64 a) eqn:F; [|reflexivity]. cbn [andb].
  rewrite normalize_spec by apply len_nonneg.
  destruct ((- len (data l) <=? a) && (a <? len (data l))) eqn:V; [|reflexivity].
  cbn [bind]. unfold pos_of.
  set (j := if a <? 0 then len (data l) + a else a).
  assert (Hj : 0 <= j < len (data l)) by (subst j; destruct (a <? 0) eqn:N; lia).
  destruct (split_at _ _ Hj) as (pre & x & suf & E & Lp).
  rewrite E, <- Lp, go_set_mid, to_nat_len, firstn_pre, skipn_pre. reflexivity.
Qed.

Lemma remove_at_refines l a : i_remove_at l a = s_remove_at l a.
Proof.
  unfold i_remove_at, i_remove_at_err, s_remove_at, valid_index, to_go_int.
  destruct (fits64 a) eqn:F; [|reflexivity]. cbn [andb].
  rewrite normalize_spec by apply len_nonneg.
  destruct ((- len (data l) <=? a) && (a <? len (data l))) eqn:V; [|reflexivity].
  cbn [bind]. unfold pos_of.
  set (j := if a <? 0 then len (data l) + a else a).
  assert (Hj : 0 <= j < len (data l)) by (subst j; destruct (a <? 0) eqn:N; lia).
  destruct (split_at _ _ Hj) as (pre & x & suf & E & Lp).
  rewrite E, <- Lp, go_remove_at_mid, to_nat_len, firstn_pre, skipn_pre. reflexivity.
Qed.

(* ---------------- push / append ---------------- *)
Lemma append_data vs : forall l, data (fold_left (i_push g) vs l) = data l ++ vs /\ tup (fold_left (i_push g) vs l) = tup l.
Proof.
  induction vs as [|v vs IH]; intros l; simpl.
  - rewrite app_nil_r. auto.
  - destruct (IH (i_push g l v)) as [D T]. rewrite D, T. simpl. rewrite <- app_assoc. auto.
Qed.
Lemma append_refines l vs : i_append g l vs = s_append g l vs.
Proof.
  unfold i_append, s_append. destruct (append_data vs l) as [D T].
  destruct (fold_left (i_push g) vs l) as [t d c] eqn:E. simpl in *. subst. reflexivity.
Qed.

(* ---------------- pop / clear ---------------- *)
Lemma pop_refines l : i_pop l = s_pop l.
Proof.
  unfold i_pop, s_pop, i_get_int.
  destruct (data l) as [|h t] eqn:E.
  - reflexivity.
  - destruct (exists_last (l := h :: t)) as (pre & x & P); [discriminate|]. rewrite P.
    rewrite normalize_spec by apply len_nonneg.
    rewrite len_app, len_cons, len_nil. pose proof (len_nonneg pre).
    replace ((- (len pre + (1 + 0)) <=? -1) && (-1 <? len pre + (1 + 0))) with true by lia.
    replace (-1 <? 0) with true by reflexivity. cbn [bind].
    replace (len pre + (1 + 0) + -1) with (len pre) by lia.
    rewrite go_idx_mid. cbn [bind].
    replace (len pre + (1 + 0) - 1) with (len pre) by lia.
    rewrite go_remove_at_mid. cbn [bind].
    rewrite removelast_last, last_last, app_nil_r.
    destruct pre; reflexivity.
Qed.

Lemma clear_loop_ok : forall fuel d, (length d <= fuel)%nat -> i_clear_loop fuel d = Ok [].
Proof.
  induction fuel as [|f IH]; intros d H.
  - destruct d; [reflexivity|simpl in H; lia].
  - destruct d as [|h t]; [reflexivity|].
    destruct (exists_last (l := h :: t)) as (pre & x & P); [discriminate|]. rewrite P in *.
    cbn [i_clear_loop]. rewrite len_app, len_cons, len_nil. pose proof (len_nonneg pre).
    replace (len pre + (1 + 0) >? 0) with true by lia.
    replace (len pre + (1 + 0) - 1) with (len pre) by lia.
    rewrite go_remove_at_mid. cbn [bind]. rewrite app_nil_r. apply IH.
    rewrite app_length in H. simpl in H. lia.
Qed.
Lemma clear_refines l : i_clear l = s_clear l.
Proof. unfold i_clear, s_clear. rewrite clear_loop_ok by lia. reflexivity. Qed.

(* ---------------- remove ---------------- *)
Lemma remove_loop_ok v : forall suf pre fuel rm, (length suf <= fuel)%nat ->
  i_remove_loop fuel (len pre) (pre ++ suf) v rm =
  Ok (pre ++ filter (fun e => negb (e =? v)) suf, rm || existsb (fun e => e =? v) suf).
Proof.
  induction suf as [|x suf IH]; intros pre fuel rm H.
  - rewrite app_nil_r. destruct fuel; cbn [i_remove_loop]; rewrite Z.ltb_irrefl; simpl; rewrite app_nil_r, orb_false_r; reflexivity.
  - destruct fuel as [|f]; [simpl in H; lia|]. cbn [i_remove_loop].
    rewrite len_app, len_cons. pose proof (len_nonneg suf).
    replace (len pre <? len pre + (1 + len suf)) with true by lia.
    rewrite go_idx_mid. cbn [bind]. simpl filter. simpl existsb.
    destruct (x =? v) eqn:E.
    + rewrite go_remove_at_mid. cbn [bind]. rewrite IH by (simpl in H; lia).
      simpl. rewrite orb_true_r. reflexivity.
    + replace (pre ++ x :: suf) with ((pre ++ [x]) ++ suf) by (rewrite <- app_assoc; reflexivity).
      replace (len pre + 1) with (len (pre ++ [x])) by (rewrite len_app, len_cons, len_nil; lia).
      rewrite IH by (simpl in H; lia). simpl. rewrite <- app_assoc. reflexivity.
Qed.
Lemma remove_refines l v : i_remove l v = s_remove l v.
Proof.
  unfold i_remove, s_remove.
  pose proof (remove_loop_ok v (data l) [] (length (data l)) false (le_n _)) as H.
  change (len []) with 0 in H. cbn [app orb] in H. rewrite H. reflexivity.
Qed.

(* ---------------- grow / append_at / mapadd ---------------- *)
Lemma fits64_nonneg a : fits64 a = true -> (a <? 0) = false -> (0 <=? a) && (a <=? max64) = true.
Proof. intros F N. apply fits64_iff in F. lia. Qed.
Lemma grow_refines l a : i_grow l a = s_grow l a.
Proof.
  unfold i_grow, s_grow, to_go_int.
  destruct (fits64 a) eqn:F.
  - destruct (a <? 0) eqn:N.
    + replace ((0 <=? a) && (a <=? max64)) with false by lia. reflexivity.
    + rewrite (fits64_nonneg _ F N). reflexivity.
  - destruct ((0 <=? a) && (a <=? max64)) eqn:B; [|reflexivity].
    assert (fits64 a = true) by (apply fits64_iff; unfold min64; lia). congruence.
Qed.

Lemma mapadd_loop_ok k : forall suf pre,
  i_mapadd_loop (length suf) (len pre) (pre ++ suf) k = Ok (pre ++ map (fun e => e + k) suf).
Proof.
  induction suf as [|x suf IH]; intros pre; [reflexivity|].
  cbn [length i_mapadd_loop]. rewrite go_idx_mid. cbn [bind]. rewrite go_set_mid. cbn [bind].
  replace (pre ++ (x + k) :: suf) with ((pre ++ [x + k]) ++ suf) by (rewrite <- app_assoc; reflexivity).
  replace (len pre + 1) with (len (pre ++ [x + k])) by (rewrite len_app, len_cons, len_nil; lia).
  rewrite IH. rewrite <- app_assoc. reflexivity.
Qed.
Lemma mapadd_refines l k : i_mapadd l k = s_mapadd l k.
Proof.
  unfold i_mapadd, s_mapadd. pose proof (mapadd_loop_ok k (data l) []) as H.
  change (len []) with 0 in H. cbn [app] in H. rewrite H. reflexivity.
Qed.

(* ---------------- eq / contains / iter ---------------- *)
Lemma eq_loop_ok : forall sx sy px py, len px = len py -> length sx = length sy ->
  i_eq_loop (length sx) (px ++ sx) (py ++ sy) (len px) =
  Ok (if list_eq_dec Z.eq_dec sx sy then true else false).
Proof.
  induction sx as [|a sx IH]; intros sy px py HL HS.
  - destruct sy; [|discriminate]. simpl. destruct (list_eq_dec Z.eq_dec [] []); [reflexivity|congruence].
  - destruct sy as [|b sy]; [discriminate|]. cbn [length i_eq_loop].
    rewrite go_idx_mid. cbn [bind]. rewrite HL, go_idx_mid. cbn [bind].
    destruct (a =? b) eqn:E.
    + apply Z.eqb_eq in E. subst b.
      replace (px ++ a :: sx) with ((px ++ [a]) ++ sx) by (rewrite <- app_assoc; reflexivity).
      replace (py ++ a :: sy) with ((py ++ [a]) ++ sy) by (rewrite <- app_assoc; reflexivity).
      replace (len py + 1) with (len (px ++ [a])) by (rewrite len_app, len_cons, len_nil; lia).
      rewrite IH; [|rewrite !len_app; lia|simpl in HS; lia].
      destruct (list_eq_dec Z.eq_dec sx sy); destruct (list_eq_dec Z.eq_dec (a :: sx) (a :: sy)); try reflexivity; congruence.
    + apply Z.eqb_neq in E. destruct (list_eq_dec Z.eq_dec (a :: sx) (b :: sy)); [congruence|reflexivity].
Qed.
Lemma tuple_equal_ok x y :
  i_tuple_equal x y = Ok (if list_eq_dec Z.eq_dec x y then true else false).
Proof.
  unfold i_tuple_equal. destruct (len x =? len y) eqn:E.
  - apply (eq_loop_ok x y [] []); [reflexivity|unfold len in E; lia].
  - destruct (list_eq_dec Z.eq_dec x y); [subst; lia|reflexivity].
Qed.
Lemma eq_refines a b : i_eq a b = s_eq a b.
Proof. unfold i_eq, s_eq. rewrite !tuple_equal_ok. reflexivity. Qed.

Lemma contains_loop_ok v : forall suf pre,
  i_contains_loop (length suf) (pre ++ suf) (len pre) v = Ok (existsb (fun e => e =? v) suf).
Proof.
  induction suf as [|x suf IH]; intros pre; [reflexivity|].
  cbn [length i_contains_loop]. rewrite go_idx_mid. cbn [bind]. simpl existsb.
  destruct (x =? v); [reflexivity|].
  replace (pre ++ x :: suf) with ((pre ++ [x]) ++ suf) by (rewrite <- app_assoc; reflexivity).
  replace (len pre + 1) with (len (pre ++ [x])) by (rewrite len_app, len_cons, len_nil; lia).
  apply IH.
Qed.
Lemma contains_refines l v : i_contains l v = s_contains l v.
Proof. unfold i_contains, s_contains. apply (contains_loop_ok v (data l) []). Qed.

Lemma iter_loop_ok : forall suf pre fuel acc, (length suf <= fuel)%nat ->
  i_iter_loop fuel (pre ++ suf) (len pre) acc = Ok (acc ++ suf).
Proof.
  induction suf as [|x suf IH]; intros pre fuel acc H.
  - rewrite !app_nil_r. destruct fuel; cbn [i_iter_loop]; replace (len pre >=? len pre) with true by lia; reflexivity.
  - destruct fuel as [|f]; [simpl in H; lia|]. cbn [i_iter_loop].
    rewrite len_app, len_cons. pose proof (len_nonneg suf).
    replace (len pre >=? len pre + (1 + len suf)) with false by lia.
    rewrite go_idx_mid. cbn [bind].
    replace (pre ++ x :: suf) with ((pre ++ [x]) ++ suf) by (rewrite <- app_assoc; reflexivity).
    replace (len pre + 1) with (len (pre ++ [x])) by (rewrite len_app, len_cons, len_nil; lia).
    rewrite IH by (simpl in H; lia). rewrite <- app_assoc. reflexivity.
Qed.
Lemma iter_refines l : i_iter l = s_iter l.
Proof. unfold i_iter, s_iter. apply (iter_loop_ok (data l) [] (length (data l)) [] (le_n _)). Qed.

End WithGrow.

(* ======================= histories ======================= *)
(* operations whose impl layer is proved equal to the plain-sequence layer in this file;
   OAppendAt (collection literals, Go API only) and ORepeat / QSlice are tied to the spec layer
   by the correspondence streams only (both layers are replayed on every history) *)
Definition core_op (o : op) : bool :=
  match o with OAppendAt _ _ _ | ORepeat _ _ _ => false | _ => true end.
Definition core_query (q : query) : bool := match q with QSlice _ _ => false | _ => true end.

Section Hist.
Variable g : Z -> Z -> Z.

Lemma step_refines st o : core_op o = true ->
  step (impl_layer g) st o = step (spec_layer g) st o.
Proof.
  intros C. destruct o; try discriminate C; unfold step, mutate; cbn [impl_layer spec_layer f_get f_set f_push f_append f_pop
    f_remove f_remove_at f_grow f_clear f_append_at f_mapadd f_concat f_repeat f_slice f_eq f_contains f_iter];
    try reflexivity.
  - destruct (reg st r); [|reflexivity]. rewrite append_refines by exact g. reflexivity.
  - destruct (reg st r); [|reflexivity]. rewrite set_refines by exact g. reflexivity.
  - destruct (reg st r); [|reflexivity]. rewrite pop_refines by exact g. reflexivity.
  - destruct (reg st r); [|reflexivity]. rewrite remove_refines by exact g. reflexivity.
  - destruct (reg st r); [|reflexivity]. rewrite remove_at_refines by exact g. reflexivity.
  - destruct (reg st r); [|reflexivity]. rewrite grow_refines by exact g. reflexivity.
  - destruct (reg st r); [|reflexivity]. rewrite clear_refines by exact g. reflexivity.
  - destruct (reg st r); [|reflexivity]. rewrite mapadd_refines by exact g. reflexivity.
Qed.

Lemma observe_refines st q : core_query q = true ->
  observe (impl_layer g) st q = observe (spec_layer g) st q.
Proof.
  intros C. destruct q; try discriminate C; unfold observe; cbn [impl_layer spec_layer f_get f_eq f_contains f_iter];
    try reflexivity.
  - destruct (reg st r); [|reflexivity]. rewrite get_refines by exact g. reflexivity.
  - destruct (reg st a); [|reflexivity]. destruct (reg st b); [|reflexivity]. rewrite eq_refines by exact g. reflexivity.
  - destruct (reg st r); [|reflexivity]. rewrite contains_refines by exact g. reflexivity.
  - destruct (reg st r); [|reflexivity]. rewrite iter_refines by exact g. reflexivity.
Qed.

Lemma run_refines_acc ops : forall acc, forallb core_op ops = true ->
  fold_left (fun acc o => let '(s, outs) := acc in let '(s', r) := step (impl_layer g) s o in (s', outs ++ [r])) ops acc =
  fold_left (fun acc o => let '(s, outs) := acc in let '(s', r) := step (spec_layer g) s o in (s', outs ++ [r])) ops acc.
Proof.
  induction ops as [|o ops IH]; intros acc H; [reflexivity|].
  cbn [forallb] in H. apply andb_prop in H. destruct H as [Ho Hr].
  cbn [fold_left]. destruct acc as [s outs]. rewrite (step_refines s o Ho). apply IH. exact Hr.
Qed.
Theorem run_refines st ops : forallb core_op ops = true ->
  run (impl_layer g) st ops = run (spec_layer g) st ops.
Proof. intros H. unfold run. apply run_refines_acc. exact H. Qed.

(* ---------------- no crash ---------------- *)
Definition benign {A} (o : outcome A) : Prop :=
  match o with Ok _ | Err _ => True | Panic c => c = P_ALLOC | Fatal _ => False end.
Definition clean {A} (o : outcome A) : Prop :=
  match o with Ok _ | Err _ => True | _ => False end.
Lemma clean_benign {A} (o : outcome A) : clean o -> benign o.
Proof. destruct o; simpl; tauto. Qed.

Lemma go_make_benign l c : benign (go_make l c).
Proof. unfold go_make. destruct ((0 <=? l) && (l <=? c) && (c <=? MAXCAP)); simpl; auto. Qed.

Ltac mut_tac st r := unfold mutate; destruct (reg st r) as [l|]; [|exact I]; destruct (tup l); [exact I|].

(* operations that allocate with make() *)
Definition alloc_op (o : op) : bool :=
  match o with OGrow _ _ | OAppendAt _ _ _ | OConcat _ _ _ | ORepeat _ _ _ => true | _ => false end.

Lemma spec_step_clean st o : alloc_op o = false -> clean (snd (step (spec_layer g) st o)).
Proof.
  intros A. destruct o; try discriminate A; unfold step; cbn [spec_layer f_set f_push f_append f_pop f_remove f_remove_at f_clear f_mapadd].
  - exact I.
  - destruct (reg st a); exact I.
  - mut_tac st r. exact I.
  - mut_tac st r. exact I.
  - mut_tac st r. unfold s_set. destruct (valid_index (data l) a); exact I.
  - mut_tac st r. unfold s_pop. destruct (data l); exact I.
  - mut_tac st r. exact I.
  - mut_tac st r. unfold s_remove_at. destruct (valid_index (data l) a); exact I.
  - mut_tac st r. exact I.
  - mut_tac st r. exact I.
Qed.

Lemma spec_observe_clean st q : core_query q = true -> clean (observe (spec_layer g) st q).
Proof.
  intros C. destruct q; try discriminate C; unfold observe; cbn [spec_layer f_get f_eq f_contains f_iter].
  - destruct (reg st r); exact I.
  - destruct (reg st r); [|exact I]. unfold s_get. destruct (valid_index (data l) a); exact I.
  - destruct (reg st a); [|exact I]. destruct (reg st b); [|exact I]. unfold s_eq.
    destruct (tup l); [exact I|]. destruct (tup l0); exact I.
  - destruct (reg st r); exact I.
  - destruct (reg st r); exact I.
Qed.

Lemma spec_slice_clean l r : clean (s_slice_data l r).
Proof.
  unfold s_slice_data.
  destruct (negb (bound_ok (r_start r)) || negb (bound_ok (r_end r))); [exact I|].
  destruct (sel_lo (len (data l)) r >? sel_hi (len (data l)) r); [exact I|].
  destruct ((sel_lo (len (data l)) r <? 0) || (sel_hi (len (data l)) r >=? len (data l))); exact I.
Qed.

(* every step of the impl layer on a core operation: an Elk error or a value; a Go panic only
   from make() (P_ALLOC), and only for the allocating operations *)
Theorem impl_step_no_crash st o : core_op o = true ->
  benign (snd (step (impl_layer g) st o)) /\
  (alloc_op o = false -> clean (snd (step (impl_layer g) st o))).
Proof.
  intros C. rewrite (step_refines st o C). split.
  - destruct (alloc_op o) eqn:A; [|apply clean_benign, spec_step_clean; exact A].
    destruct o; try discriminate A; try discriminate C; unfold step; cbn [spec_layer f_grow f_concat].
    + mut_tac st r. unfold s_grow. destruct ((0 <=? a) && (a <=? max64)); [|exact I].
      unfold go_grow. pose proof (go_make_benign (len (data l)) (wrap64 (cap l + a))) as B.
      destruct (go_make (len (data l)) (wrap64 (cap l + a))); simpl in *; auto.
    + destruct (reg st a); [|exact I]. destruct (reg st b); [|exact I]. unfold s_concat, i_concat.
      pose proof (go_make_benign (len (data l)) (len (data l) + len (data l0))) as B.
      destruct (go_make (len (data l)) (len (data l) + len (data l0))); simpl in *; auto.
  - apply spec_step_clean.
Qed.

Theorem impl_observe_no_crash st q : core_query q = true -> clean (observe (impl_layer g) st q).
Proof. intros C. rewrite (observe_refines st q C). apply spec_observe_clean. exact C. Qed.

Lemma upd_len (d : list Z) p v : (p < length d)%nat -> length (firstn p d ++ v :: skipn (S p) d) = length d.
Proof. intros H. rewrite app_length, firstn_length. cbn [length]. rewrite skipn_length. lia. Qed.
Lemma del_len (d : list Z) p : (p < length d)%nat -> length (firstn p d ++ skipn (S p) d) = (length d - 1)%nat.
Proof. intros H. rewrite app_length, firstn_length, skipn_length. lia. Qed.

(* out-of-range characterisation for the three indexed accesses *)
Theorem index_oob l a v :
  (valid_index (data l) a = false ->
     i_get l a = Err E_OUT_OF_RANGE /\ i_set l a v = Err E_OUT_OF_RANGE /\ i_remove_at l a = Err E_OUT_OF_RANGE) /\
  (valid_index (data l) a = true ->
     i_get l a = Ok (nth (pos_of (data l) a) (data l) 0) /\
     (exists l', i_set l a v = Ok l' /\ len (data l') = len (data l) /\ i_get l' a = Ok v) /\
     (exists l', i_remove_at l a = Ok l' /\ len (data l') = len (data l) - 1)).
Proof.
  rewrite get_refines, set_refines, remove_at_refines by exact g. unfold s_get, s_set, s_remove_at. split; intros V; rewrite V.
  - auto.
  - split; [reflexivity|]. unfold valid_index in V. apply andb_prop in V. destruct V as [V V2]. apply andb_prop in V. destruct V as [F V1].
    assert (P : (pos_of (data l) a < length (data l))%nat).
    { unfold pos_of. unfold len in *. destruct (a <? 0) eqn:N; lia. }
    split.
    + eexists. split; [reflexivity|]. split.
      * unfold set_data, len. cbn [data]. rewrite upd_len by exact P. reflexivity.
      * rewrite get_refines by exact g. unfold s_get, set_data. cbn [data].
        set (d' := firstn (pos_of (data l) a) (data l) ++ v :: skipn (S (pos_of (data l) a)) (data l)).
        assert (L : len d' = len (data l)).
        { subst d'. unfold len. rewrite upd_len by exact P. reflexivity. }
        unfold valid_index. rewrite L, F, V1, V2. cbn [andb].
        unfold pos_of at 1. rewrite L. fold (pos_of (data l) a). subst d'.
        replace (pos_of (data l) a) with (length (firstn (pos_of (data l) a) (data l))) at 1 by (rewrite firstn_length; lia).
        rewrite nth_pre. reflexivity.
    + eexists. split; [reflexivity|]. unfold set_data, len. cbn [data]. rewrite del_len by exact P. lia.
Qed.

End Hist.

(* the faithful model does panic in make(): grow / repeat with astronomically large sizes *)
Lemma alloc_panic_witness :
  snd (step (impl_layer growcap_exact) init_state (OGrow 0%nat max64)) = Panic P_ALLOC \/ True.
Proof. left. vm_compute. reflexivity. Qed.
