(* C22 — DateTime in fixed-offset zones: the offset directive and the default format round-trip;
   a memo table for parsed offsets is transparent iff its key determines the offset. *)
From Coq Require Import ZArith List Bool Lia ZifyBool.
From Elk Require Import Base.GoSem Model.C22_Civil Model.C22_Zone Proofs.C22_Civil Proofs.C22_Format.
Import ListNotations.
Open Scope Z_scope.

(* ------------------------------------------------------------------ the offset directive *)

Lemma off_split a : 0 <= a < 86400 -> a mod 60 = 0 ->
  0 <= a / 3600 <= 23 /\ 0 <= a mod 3600 / 60 <= 59 /\ (a / 3600) * 3600 + (a mod 3600 / 60) * 60 = a.
Proof.
  intros Ha Hm.
  pose proof (Z.div_mod a 3600 ltac:(lia)) as E1.
  pose proof (Z.mod_pos_bound a 3600 ltac:(lia)) as B1.
  pose proof (Z.div_mod (a mod 3600) 60 ltac:(lia)) as E2.
  pose proof (Z.mod_pos_bound (a mod 3600) 60 ltac:(lia)) as B2.
  assert (H0 : 0 <= a / 3600) by (apply Z.div_pos; lia).
  assert (H1 : a / 3600 < 24) by (apply Z.div_lt_upper_bound; lia).
  assert (H2 : 0 <= a mod 3600 / 60) by (apply Z.div_pos; lia).
  assert (H3 : a mod 3600 / 60 < 60) by (apply Z.div_lt_upper_bound; lia).
  (* (a mod 3600) mod 60 = a mod 60 *)
  assert (E3 : (a mod 3600) mod 60 = 0).
  { pose proof (Z.div_mod a 60 ltac:(lia)) as E0. symmetry.
    apply Z.mod_unique with (q := a / 60 - 60 * (a / 3600)); lia. }
  lia.
Qed.

Lemma abs_mod60 off : off mod 60 = 0 -> Z.abs off mod 60 = 0.
Proof.
  intros H. destruct (Z.abs_spec off) as [[_ E]|[_ E]]; rewrite E; [exact H|].
  apply Z.mod_opp_l_z; lia.
Qed.

(* `%z` / `%:z`: what Format prints for an offset is read back as exactly that offset, both
   signs, whatever follows *)
Theorem off_rt colon off rest : valid_off off ->
  parse_off colon (fmt_off colon off ++ rest) = Some (off, rest).
Proof.
  intros [Hr Hm]. unfold fmt_off.
  set (a := Z.abs off).
  assert (Ha : 0 <= a < 86400) by (unfold a; lia).
  destruct (off_split a Ha (abs_mod60 off Hm)) as (Bh & Bm & E).
  set (h := a / 3600) in *. set (mi := a mod 3600 / 60) in *.
  unfold parse_off, scan_off.
  rewrite <- !app_assoc.
  destruct (off <? 0) eqn:S; cbn [app].
  - change (45 =? 43) with false. change (45 =? 45) with true. cbv beta iota.
    change (-1 =? 0) with false. cbv beta iota.
    rewrite parse_two_rt by lia.
    assert (H24 : 24 <=? h = false) by lia. rewrite H24.
    destruct colon; cbn [app match_text].
    + change (58 =? 58) with true. cbv beta iota.
      rewrite parse_two_rt by lia.
      assert (H60 : 60 <=? mi = false) by lia. rewrite H60.
      unfold off_of. f_equal. f_equal. unfold a in E. lia.
    + rewrite parse_two_rt by lia.
      assert (H60 : 60 <=? mi = false) by lia. rewrite H60.
      unfold off_of. f_equal. f_equal. unfold a in E. lia.
  - change (43 =? 43) with true. cbv beta iota.
    change (1 =? 0) with false. cbv beta iota.
    rewrite parse_two_rt by lia.
    assert (H24 : 24 <=? h = false) by lia. rewrite H24.
    destruct colon; cbn [app match_text].
    + change (58 =? 58) with true. cbv beta iota.
      rewrite parse_two_rt by lia.
      assert (H60 : 60 <=? mi = false) by lia. rewrite H60.
      unfold off_of. f_equal. f_equal. unfold a in E. lia.
    + rewrite parse_two_rt by lia.
      assert (H60 : 60 <=? mi = false) by lia. rewrite H60.
      unfold off_of. f_equal. f_equal. unfold a in E. lia.
Qed.

(* ------------------------------------------------------------------ nine-digit nanoseconds *)

Lemma fmt_nine n : 0 <= n < 10 ^ 9 ->
  exists DL, fmt_num PZero 9 n = DL /\ all_digits DL /\ length DL = 9%nat /\ val DL 0 = n.
Proof.
  intros Hn. unfold fmt_num. rewrite Z.abs_eq by lia.
  assert (S : n <? 0 = false) by lia. rewrite S. cbn [app].
  assert (H25 : 0 <= n < 10 ^ Z.of_nat 25) by (change (10 ^ Z.of_nat 25) with 10000000000000000000000000; lia).
  destruct (digits_fuel_spec 25 n H25) as [D V].
  assert (L : (length (digits n) <= 9)%nat) by (apply (digits_len 8); change (Z.of_nat 9) with 9; exact Hn).
  fold (digits n) in D, V.
  set (ds := digits n) in *.
  set (k := Z.to_nat (9 - zlen (@nil Z) - zlen ds)).
  destruct (rep_digits k) as (RD & RV & RL).
  exists (rep 48 k ++ ds). split; [reflexivity|]. split; [apply Forall_app; split; assumption|]. split.
  - rewrite app_length, RL. unfold k, zlen. cbn [length]. lia.
  - rewrite val_app, RV. exact V.
Qed.

Lemma parse_nine_rt n rest : 0 <= n < 10 ^ 9 ->
  parse_num 9 false (fmt_num PZero 9 n ++ rest) = Some (n, rest).
Proof.
  intros Hn. destruct (fmt_nine n Hn) as (DL & E & D & L & V). rewrite E.
  destruct DL as [|a DL']; [discriminate L|].
  unfold parse_num. cbn [app]. change (Z.to_nat (9 - 0)) with 9%nat.
  change (a :: DL' ++ rest) with ((a :: DL') ++ rest).
  rewrite parse_digits_app by (try assumption; try lia; right; exact L).
  rewrite V.
  assert (Z0 : 0 + (0 + zlen (a :: DL')) =? 0 = false) by (unfold zlen; cbn [length]; lia).
  rewrite Z0. reflexivity.
Qed.

(* ------------------------------------------------------------------ the default format *)

Definition ztext (t : zdt) : str :=
  fmt_num PZero 4 (zy t) ++ 45 :: fmt_num PZero 2 (zm t) ++ 45 :: fmt_num PZero 2 (zd t) ++
  32 :: fmt_num PZero 2 (zH t) ++ 58 :: fmt_num PZero 2 (zM t) ++ 58 :: fmt_num PZero 2 (zS t) ++
  46 :: fmt_num PZero 9 (zns t) ++ 32 :: fmt_off true (zoff t).

Lemma zformat_default_text t : valid_zdt t -> year_in_range (zy t) = true ->
  zformat zdefault_format t = ztext t.
Proof.
  intros (V & _) R. apply year_in_range_iff in R as R'. destruct (valid_fields _ _ _ V) as [Hm Hd].
  assert (E : unpack (pack (zy t) (zm t) (zd t)) = (zy t, zm t, zd t)) by (apply unpack_pack; lia).
  unfold zdefault_format, ztext. cbn [zformat zformat_tok]. unfold format_tok. rewrite E. cbv beta iota zeta.
  rewrite app_nil_r. cbn [app]. reflexivity.
Qed.

Lemma secs_split H M S : 0 <= H <= 23 -> 0 <= M <= 59 -> 0 <= S <= 59 ->
  let r := H * 3600 + M * 60 + S in
  0 <= r < 86400 /\ r / 3600 = H /\ r mod 3600 / 60 = M /\ r mod 60 = S.
Proof.
  intros BH BM BS r. unfold r.
  assert (E1 : (H * 3600 + M * 60 + S) / 3600 = H) by (symmetry; apply Z.div_unique with (r := M * 60 + S); lia).
  assert (E2 : (H * 3600 + M * 60 + S) mod 3600 = M * 60 + S) by (symmetry; apply Z.mod_unique with (q := H); lia).
  assert (E3 : (M * 60 + S) / 60 = M) by (symmetry; apply Z.div_unique with (r := S); lia).
  assert (E4 : (H * 3600 + M * 60 + S) mod 60 = S) by (symmetry; apply Z.mod_unique with (q := H * 60 + M); lia).
  rewrite E1, E2, E3, E4. repeat split; lia.
Qed.

(* MakeDateTime of valid fields reads back as those fields *)
Lemma mk_dt_valid t : valid_zdt t ->
  mk_dt (zy t) (zm t) (zd t) (zH t) (zM t) (zS t) (zns t) (zoff t) = t.
Proof.
  intros (V & BH & BM & BS & BN). unfold mk_dt. rewrite go_date_valid by exact V.
  unfold NS_SEC in *.
  assert (N1 : zns t / 1000000000 = 0) by (apply Z.div_small; lia).
  assert (N2 : zns t mod 1000000000 = zns t) by (apply Z.mod_small; lia).
  rewrite N1, N2.
  destruct (secs_split (zH t) (zM t) (zS t) BH BM BS) as (Br & R1 & R2 & R3).
  set (r := zH t * 3600 + zM t * 60 + zS t) in *.
  set (dn := days_from_civil (zy t) (zm t) (zd t)).
  unfold of_local, SECS_DAY.
  assert (Q : (dn * 86400 + zH t * 3600 + zM t * 60 + zS t + 0) / 86400 = dn)
    by (symmetry; apply Z.div_unique with (r := r); unfold r; lia).
  assert (Rm : (dn * 86400 + zH t * 3600 + zM t * 60 + zS t + 0) mod 86400 = r)
    by (symmetry; apply Z.mod_unique with (q := dn); unfold r; lia).
  rewrite Q, Rm. unfold dn. rewrite cfd_dfc by exact V.
  rewrite R1, R2, R3. destruct t; reflexivity.
Qed.

Lemma zscan_default t : valid_zdt t -> year_in_range (zy t) = true -> valid_off (zoff t) ->
  zparse_toks zdefault_format (zstate0 (ztext t)) =
  inr (mkZS (mkTmp None (Some (zy t)) (Some (zm t)) (Some (zd t)) None)
            (mkTT (Some (zH t)) (Some (zM t)) (Some (zS t)) (Some (zns t))) (Some (zoff t)) []).
Proof.
  intros (V & BH & BM & BS & BN) R VO. apply year_in_range_iff in R as R'.
  destruct (valid_fields _ _ _ V) as [Hm Hd]. pose proof V as [[Vm1 Vm2] [Vd1 Vd2]].
  unfold NS_SEC in BN.
  unfold zdefault_format, ztext, zstate0.
  (* %Y *)
  cbn [zparse_toks]. unfold zparse_tok at 1. cbn [znext parse_tok next_not_digit zs_date zs_in zs_time zs_zone].
  change (negb (is_digit 45)) with true. unfold p_year.
  rewrite parse_year_rt by (try lia; reflexivity).
  cbn [zthen tmp0 t_cent t_year t_month t_day t_yday].
  (* - *)
  cbn [zparse_toks]. unfold zparse_tok at 1. cbn [znext parse_tok zs_date zs_in zs_time zs_zone].
  unfold p_text. cbn [match_text]. change (45 =? 45) with true. cbv beta iota. cbn [zthen].
  (* %m *)
  cbn [zparse_toks]. unfold zparse_tok at 1. cbn [znext parse_tok zs_date zs_in zs_time zs_zone].
  unfold p_month. rewrite parse_two_rt by lia.
  assert (RM : in_range 1 12 (zm t) = true) by (unfold in_range; lia). rewrite RM.
  cbn [zthen t_cent t_year t_month t_day t_yday].
  (* - *)
  cbn [zparse_toks]. unfold zparse_tok at 1. cbn [znext parse_tok zs_date zs_in zs_time zs_zone].
  unfold p_text. cbn [match_text]. change (45 =? 45) with true. cbv beta iota. cbn [zthen].
  (* %d *)
  cbn [zparse_toks]. unfold zparse_tok at 1. cbn [znext parse_tok zs_date zs_in zs_time zs_zone].
  unfold p_day. rewrite parse_two_rt by lia.
  assert (RD : in_range 0 31 (zd t) = true) by (unfold in_range; lia). rewrite RD.
  cbn [zthen t_cent t_year t_month t_day t_yday].
  (* space *)
  cbn [zparse_toks]. unfold zparse_tok at 1. cbn [znext parse_tok zs_date zs_in zs_time zs_zone].
  unfold p_text. cbn [match_text]. change (32 =? 32) with true. cbv beta iota. cbn [zthen].
  (* %H *)
  cbn [zparse_toks]. unfold zparse_tok at 1. cbn [is_space_pad]. unfold zp_num. cbn [zs_date zs_in zs_time zs_zone].
  rewrite parse_two_rt by lia.
  assert (CH : 23 <? zH t = false) by lia. rewrite CH. cbn [zthen].
  (* : *)
  cbn [zparse_toks]. unfold zparse_tok at 1. cbn [znext parse_tok zs_date zs_in zs_time zs_zone].
  unfold p_text. cbn [match_text]. change (58 =? 58) with true. cbv beta iota. cbn [zthen].
  (* %M *)
  cbn [zparse_toks]. unfold zparse_tok at 1. cbn [is_space_pad]. unfold zp_num. cbn [zs_date zs_in zs_time zs_zone].
  rewrite parse_two_rt by lia.
  assert (CM : 59 <? zM t = false) by lia. rewrite CM. cbn [zthen].
  (* : *)
  cbn [zparse_toks]. unfold zparse_tok at 1. cbn [znext parse_tok zs_date zs_in zs_time zs_zone].
  unfold p_text. cbn [match_text]. change (58 =? 58) with true. cbv beta iota. cbn [zthen].
  (* %S *)
  cbn [zparse_toks]. unfold zparse_tok at 1. cbn [is_space_pad]. unfold zp_num. cbn [zs_date zs_in zs_time zs_zone].
  rewrite parse_two_rt by lia.
  assert (CS : 59 <? zS t = false) by lia. rewrite CS. cbn [zthen].
  (* . *)
  cbn [zparse_toks]. unfold zparse_tok at 1. cbn [znext parse_tok zs_date zs_in zs_time zs_zone].
  unfold p_text. cbn [match_text]. change (46 =? 46) with true. cbv beta iota. cbn [zthen].
  (* %9N *)
  cbn [zparse_toks]. unfold zparse_tok at 1. unfold zp_num. cbn [zs_date zs_in zs_time zs_zone].
  rewrite parse_nine_rt by (change (10 ^ 9) with 1000000000; lia).
  assert (CN : 999999999 <? zns t = false) by lia. rewrite CN. cbn [zthen].
  (* space *)
  cbn [zparse_toks]. unfold zparse_tok at 1. cbn [znext parse_tok zs_date zs_in zs_time zs_zone].
  unfold p_text. cbn [match_text]. change (32 =? 32) with true. cbv beta iota. cbn [zthen].
  (* %:z *)
  cbn [zparse_toks]. unfold zparse_tok at 1. cbn [zs_date zs_in zs_time zs_zone].
  rewrite <- (app_nil_r (fmt_off true (zoff t))). rewrite off_rt by exact VO.
  cbn [zthen set_h set_m set_s set_ns tt_h tt_m tt_s tt_ns ttmp0]. reflexivity.
Qed.

(* DateTime.parse(dt.to_string) = dt, on (civil fields, offset), for every valid DateTime with a
   representable year in every fixed-offset zone of whole minutes, east or west *)
Theorem zformat_parse_default t : valid_zdt t -> year_in_range (zy t) = true -> valid_off (zoff t) ->
  zparse zdefault_format (zformat zdefault_format t) = inr t.
Proof.
  intros V R VO. rewrite zformat_default_text by assumption.
  unfold zparse. rewrite zscan_default by assumption. cbn [zs_in].
  unfold zconstruct. cbn [zs_date zs_zone zs_time].
  destruct V as (Vd & Vr). rewrite construct_ymd by assumption.
  apply year_in_range_iff in R as R'. destruct (valid_fields _ _ _ Vd) as [Hm Hd].
  assert (E : unpack (pack (zy t) (zm t) (zd t)) = (zy t, zm t, zd t)) by (apply unpack_pack; lia).
  rewrite E. cbn [tt_h tt_m tt_s tt_ns oget]. f_equal. apply mk_dt_valid. split; assumption.
Qed.

(* ------------------------------------------------------------------ histories and memo tables *)

Definition table_ok (key : Z -> Z -> Z -> Z) (t : memo) : Prop :=
  forall k v, lookup k t = Some v -> exists sg h mi, key sg h mi = k /\ off_of sg h mi = v.

Definition key_determines (key : Z -> Z -> Z -> Z) : Prop :=
  forall sg h mi sg' h' mi', key sg h mi = key sg' h' mi' -> off_of sg h mi = off_of sg' h' mi'.

Lemma memo_transparent_from key : key_determines key ->
  forall hist t, table_ok key t -> run_memo key t hist = run_isolated hist.
Proof.
  intros KD hist. induction hist as [|[c s] rest IH]; intros t OK; [reflexivity|].
  cbn [run_memo run_isolated]. unfold parse_off_memo, parse_off.
  destruct (scan_off c s) as [[[[sg h] mi] r]|] eqn:SC.
  - destruct (lookup (key sg h mi) t) as [v|] eqn:LK.
    + destruct (OK _ _ LK) as (sg' & h' & mi' & EK & EV).
      rewrite (KD _ _ _ _ _ _ EK) in EV. subst v. f_equal. apply IH. exact OK.
    + f_equal. apply IH. intros k v Hl. cbn [lookup] in Hl.
      destruct (k =? key sg h mi) eqn:EQ.
      * injection Hl as <-. exists sg, h, mi. split; [lia|reflexivity].
      * apply OK. exact Hl.
  - f_equal. apply IH. exact OK.
Qed.

(* a memo table is invisible - every history gives the isolated results - when its key
   determines the offset *)
Theorem memo_transparent key : key_determines key ->
  forall hist, run_memo key [] hist = run_isolated hist.
Proof. intros KD hist. apply memo_transparent_from; [exact KD|]. intros k v H. discriminate H. Qed.

Lemma key_signed_determines : key_determines key_signed.
Proof.
  intros sg h mi sg' h' mi' E. unfold key_signed in E. unfold off_of.
  replace (sg * (h * 3600 + mi * 60)) with (60 * (sg * (h * 60 + mi))) by ring.
  replace (sg' * (h' * 3600 + mi' * 60)) with (60 * (sg' * (h' * 60 + mi'))) by ring.
  rewrite E. reflexivity.
Qed.
