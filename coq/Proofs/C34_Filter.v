(* C34 — proofs about Model/C34_Filter.v *)
From Coq Require Import ZArith List Bool Lia ZifyBool.
From Elk Require Import Model.C34_Filter.
Import ListNotations.
Open Scope Z_scope.

(* ---- the model's list combinators are Coq's *)
Lemma lmap_eq : forall A B (f : A -> B) l, lmap f l = map f l. Proof. reflexivity. Qed.
Lemma lflat_map_eq : forall A B (f : A -> list B) l, lflat_map f l = flat_map f l. Proof. reflexivity. Qed.
Lemma lforallb_eq : forall A (f : A -> bool) l, lforallb f l = forallb f l. Proof. reflexivity. Qed.
Lemma lexistsb_eq : forall A (f : A -> bool) l, lexistsb f l = existsb f l. Proof. reflexivity. Qed.
Lemma lfold_left_eq : forall A B (f : A -> B -> A) l a, lfold_left f l a = fold_left f l a. Proof. reflexivity. Qed.
Lemma lconcat_eq : forall A (l : list (list A)), lconcat l = concat l. Proof. reflexivity. Qed.
Lemma lrev_eq : forall A (l : list A), lrev l = rev l. Proof. reflexivity. Qed.
Lemma lsum_eq : forall l, lsum l = list_sum l. Proof. reflexivity. Qed.

Ltac std :=
  change (@lmap) with (@map) in *; change (@lflat_map) with (@flat_map) in *;
  change (@lforallb) with (@forallb) in *; change (@lexistsb) with (@existsb) in *;
  change (@lfold_left) with (@fold_left) in *; change (@lconcat) with (@concat) in *;
  change (@lrev) with (@rev) in *; change lsum with list_sum in *.

(* ---- induction principles for the nested trees *)
Section TreeInd.
  Variable P : tree -> Prop.
  Hypothesis Hc : forall c, P (TCase c).
  Hypothesis Hs : forall s kids, Forall P kids -> P (TSuite s kids).
  Fixpoint tree_ind' (t : tree) : P t :=
    match t with
    | TCase c => Hc c
    | TSuite s kids =>
        Hs s kids ((fix go (l : list tree) : Forall P l :=
                      match l with
                      | [] => Forall_nil P
                      | x :: r => Forall_cons x (tree_ind' x) (go r)
                      end) kids)
    end.
End TreeInd.

Section RTreeInd.
  Variable P : rtree -> Prop.
  Hypothesis Hc : forall c, P (RCase c).
  Hypothesis Hs : forall s kids, Forall P kids -> P (RSuite s kids).
  Fixpoint rtree_ind' (t : rtree) : P t :=
    match t with
    | RCase c => Hc c
    | RSuite s kids =>
        Hs s kids ((fix go (l : list rtree) : Forall P l :=
                      match l with
                      | [] => Forall_nil P
                      | x :: r => Forall_cons x (rtree_ind' x) (go r)
                      end) kids)
    end.
End RTreeInd.

(* ---- list facts *)
Lemma filter_flat_map : forall A B (p : B -> bool) (f : A -> list B) l,
  List.filter p (flat_map f l) = flat_map (fun x => List.filter p (f x)) l.
Proof.
  intros A B p f l. induction l as [|x r IH]; [reflexivity|].
  cbn [flat_map]. rewrite filter_app, IH. reflexivity.
Qed.

Lemma flat_map_flat_map : forall A B C (g : B -> list C) (f : A -> list B) l,
  flat_map g (flat_map f l) = flat_map (fun x => flat_map g (f x)) l.
Proof.
  intros A B C g f l. induction l as [|x r IH]; [reflexivity|].
  cbn [flat_map]. rewrite flat_map_app, IH. reflexivity.
Qed.

Lemma flat_map_ext_Forall : forall A B (f g : A -> list B) l,
  Forall (fun x => f x = g x) l -> flat_map f l = flat_map g l.
Proof.
  intros A B f g l H. induction H as [|x r Hx _ IH]; [reflexivity|].
  cbn [flat_map]. rewrite Hx, IH. reflexivity.
Qed.

Lemma filter_map_comm : forall A B (p : B -> bool) (g : A -> B) l,
  List.filter p (map g l) = map g (List.filter (fun x => p (g x)) l).
Proof.
  intros A B p g l. induction l as [|x r IH]; [reflexivity|].
  cbn [map List.filter]. destruct (p (g x)); cbn [map]; rewrite IH; reflexivity.
Qed.

Lemma filter_all_false : forall A (p : A -> bool) l,
  (forall x, p x = false) -> List.filter p l = [].
Proof.
  intros A p l H. induction l as [|x r IH]; [reflexivity|].
  cbn [List.filter]. rewrite H. exact IH.
Qed.

Lemma filter_none : forall A (p : A -> bool) l, existsb p l = false -> List.filter p l = [].
Proof.
  intros A p l. induction l as [|x r IH]; [reflexivity|].
  cbn [existsb List.filter]. destruct (p x); [discriminate|exact IH].
Qed.

Lemma filter_filter : forall A (p q : A -> bool) l,
  List.filter p (List.filter q l) = List.filter (fun x => q x && p x) l.
Proof.
  intros A p q l. induction l as [|x r IH]; [reflexivity|].
  cbn [List.filter]. destruct (q x); cbn [List.filter andb]; [destruct (p x)|]; rewrite IH; reflexivity.
Qed.

Lemma str_eqb_eq : forall a b, str_eqb a b = true -> a = b.
Proof.
  induction a as [|x a IH]; destruct b as [|y b]; cbn [str_eqb]; intro H; try discriminate; [reflexivity|].
  apply andb_prop in H. destruct H as [H1 H2]. apply Z.eqb_eq in H1. subst y. f_equal. apply IH. exact H2.
Qed.

Section Oracles.
  Variable glob : str -> str -> bool.
  Variable rematch : str -> str -> bool.

  Notation case_match := (case_match glob rematch).
  Notation suite_match := (suite_match glob).
  Notation suite_step := (suite_step glob).
  Notation case_step := (case_step glob rematch).
  Notation register := (register glob rematch).
  Notation satisfies := (satisfies glob rematch).
  Notation selected := (selected glob rematch).

  (* does one filter, with "already fully matched" flag b, let case c at the end of the suite
     chain path (outermost first) through, when the walk is currently below ranc? *)
  Fixpoint pass (f : filter) (b : bool) (ranc : list sinfo) (path : list sinfo) (c : cinfo) : bool :=
    match path with
    | [] => b || case_match f ranc c
    | s :: rest =>
        if b then pass f true (s :: ranc) rest c
        else match suite_match f s with
             | MFalse => false
             | MFull => pass f true (s :: ranc) rest c
             | MTrue => pass f false (s :: ranc) rest c
             end
    end.

  Definition pass_all (st : list (filter * bool)) (ranc : list sinfo) (pc : ccase) : bool :=
    forallb (fun fb => pass (fst fb) (snd fb) ranc (fst pc) (snd pc)) st.

  Lemma pass_true : forall f path ranc c, pass f true ranc path c = true.
  Proof. intros f path. induction path as [|s rest IH]; intros ranc c; cbn [pass]; [reflexivity|apply IH]. Qed.

  Lemma step_pass : forall st s rest ranc c,
    pass_all st ranc (s :: rest, c) =
    match suite_step st s with
    | None => false
    | Some st' => pass_all st' (s :: ranc) (rest, c)
    end.
  Proof.
    unfold pass_all. cbn [fst snd].
    induction st as [|[f b] st IH]; intros s rest ranc c; [reflexivity|].
    cbn [forallb C34_Filter.suite_step]. rewrite IH. cbn [fst snd pass].
    destruct b.
    - destruct (suite_step st s) as [st'|]; cbn [option_map forallb fst snd]; [reflexivity|apply andb_false_r].
    - destruct (suite_match f s); cbn [andb];
        [reflexivity| |]; (destruct (suite_step st s) as [st'|]; cbn [option_map forallb fst snd]; [reflexivity|apply andb_false_r]).
  Qed.

  (* cases kept by registration, with their chains relative to the registered node *)
  Fixpoint rcases_rel (r : rtree) : list ccase :=
    match r with
    | RCase c => [([], c)]
    | RSuite s kids => map (fun pc => (s :: fst pc, snd pc)) (flat_map rcases_rel kids)
    end.

  Lemma register_cases : forall t st ranc,
    flat_map rcases_rel (register st ranc t) = List.filter (pass_all st ranc) (cases_rel t).
  Proof.
    induction t as [c|s kids IH] using tree_ind'; intros st ranc.
    - cbn [C34_Filter.register cases_rel List.filter]. unfold pass_all, C34_Filter.case_step. cbn [fst snd pass].
      std. destruct (forallb _ st); reflexivity.
    - cbn [C34_Filter.register cases_rel]. std.
      rewrite filter_map_comm.
      destruct (suite_step st s) as [st'|] eqn:Hst.
      + cbn [flat_map rcases_rel]. std. rewrite app_nil_r. f_equal.
        rewrite flat_map_flat_map, filter_flat_map.
        rewrite (flat_map_ext_Forall _ _ _ (fun x => List.filter (pass_all st' (s :: ranc)) (cases_rel x)) kids).
        * apply flat_map_ext_Forall. apply Forall_forall. intros k _.
          apply filter_ext. intros [p c]. cbn [fst snd]. rewrite step_pass, Hst. reflexivity.
        * eapply Forall_impl; [|exact IH]. intros k Hk. apply Hk.
      + cbn [flat_map]. rewrite filter_all_false; [reflexivity|].
        intros [p c]. cbn [fst snd]. rewrite step_pass, Hst. reflexivity.
  Qed.

  (* ---- pass = the per-filter specification, for nested locations *)
  Fixpoint chain_ok (file : str) (lo hi : Z) (path : list sinfo) (c : cinfo) : Prop :=
    match path with
    | [] => lfile (cloc c) = file /\ lo <= lfirst (cloc c) /\ llast (cloc c) <= hi
    | s :: rest =>
        lfile (sloc s) = file /\ lo <= lfirst (sloc s) /\ lfirst (sloc s) <= llast (sloc s) /\ llast (sloc s) <= hi
        /\ chain_ok (lfile (sloc s)) (lfirst (sloc s)) (llast (sloc s)) rest c
    end.

  Lemma chain_file : forall path file lo hi c, chain_ok file lo hi path c -> lfile (cloc c) = file.
  Proof.
    induction path as [|s rest IH]; intros file lo hi c H; cbn [chain_ok] in H.
    - tauto.
    - destruct H as (Hf & _ & _ & _ & Hr). apply IH in Hr. congruence.
  Qed.

  Lemma chain_span : forall path file lo hi c l,
    chain_ok file lo hi path c ->
    in_span l (cloc c) || existsb (fun s => l =? lfirst (sloc s)) path = true ->
    lo <= l <= hi.
  Proof.
    induction path as [|s rest IH]; intros file lo hi c l H Hin; cbn [chain_ok] in H.
    - cbn [existsb] in Hin. rewrite orb_false_r in Hin. unfold in_span in Hin. lia.
    - destruct H as (Hf & H1 & H2 & H3 & Hr). cbn [existsb] in Hin.
      destruct (l =? lfirst (sloc s)) eqn:E; [lia|].
      cbn [orb] in Hin. specialize (IH _ _ _ _ l Hr Hin). lia.
  Qed.

  Lemma pass_path : forall path file lo hi c p l ranc,
    chain_ok file lo hi path c ->
    pass (FPath p l) false ranc path c =
    glob p file && ((l <? 0) || in_span l (cloc c) || existsb (fun s => l =? lfirst (sloc s)) path).
  Proof.
    induction path as [|s rest IH]; intros file lo hi c p l ranc H.
    - cbn [chain_ok] in H. destruct H as (Hf & _). cbn [pass orb C34_Filter.case_match existsb].
      unfold location_matches. rewrite Hf, orb_false_r.
      destruct (glob p file); cbn [negb andb]; [|reflexivity].
      destruct (l <? 0); reflexivity.
    - pose proof H as H0. cbn [chain_ok] in H. destruct H as (Hf & H1 & H2 & H3 & Hr).
      cbn [pass C34_Filter.suite_match existsb]. rewrite Hf.
      destruct (glob p file) eqn:G; cbn [negb andb]; [|reflexivity].
      destruct (l <? 0) eqn:L0.
      + rewrite (IH _ _ _ _ p l (s :: ranc) Hr). rewrite Hf, G, L0. reflexivity.
      + destruct (l =? lfirst (sloc s)) eqn:E.
        * rewrite pass_true. cbn [orb]. rewrite orb_true_r. reflexivity.
        * cbn [orb]. destruct (in_span l (sloc s)) eqn:S.
          -- rewrite (IH _ _ _ _ p l (s :: ranc) Hr). rewrite Hf, G, L0. reflexivity.
          -- symmetry. apply not_true_is_false. intro Hin. cbn [orb] in Hin.
             pose proof (chain_span _ _ _ _ _ l Hr Hin) as Hs. unfold in_span in S. lia.
  Qed.

  Lemma pass_grep : forall path c r ranc,
    pass (FGrep r) false ranc path c = rematch r (cfull (rev path ++ ranc) c).
  Proof.
    induction path as [|s rest IH]; intros c r ranc.
    - reflexivity.
    - cbn [pass C34_Filter.suite_match rev]. rewrite IH, <- app_assoc. reflexivity.
  Qed.

  Lemma pass_satisfies : forall f path file lo hi c,
    chain_ok file lo hi path c ->
    pass f false [] path c = satisfies f (path, c).
  Proof.
    intros [p l|r] path file lo hi c H.
    - rewrite (pass_path _ _ _ _ _ p l [] H). unfold C34_Filter.satisfies. cbn [fst snd].
      std. rewrite (chain_file _ _ _ _ _ H). reflexivity.
    - rewrite pass_grep, app_nil_r. unfold C34_Filter.satisfies. cbn [fst snd]. std. reflexivity.
  Qed.

  Lemma pass_all_selected : forall fs path file lo hi c,
    chain_ok file lo hi path c ->
    pass_all (init_state fs) [] (path, c) = selected fs (path, c).
  Proof.
    intros fs path file lo hi c H. unfold pass_all, C34_Filter.selected, init_state.
    std. cbn [fst snd].
    induction fs as [|f fs IH]; [reflexivity|].
    cbn [map forallb fst snd]. rewrite IH, (pass_satisfies f _ _ _ _ _ H). reflexivity.
  Qed.

  (* well-formed trees give well-formed chains *)
  Lemma wf_in_chain : forall t file lo hi,
    wf_in file lo hi t = true -> Forall (fun pc => chain_ok file lo hi (fst pc) (snd pc)) (cases_rel t).
  Proof.
    induction t as [c|s kids IH] using tree_ind'; intros file lo hi H.
    - cbn [wf_in] in H. cbn [cases_rel]. constructor; [|constructor]. cbn [fst snd chain_ok].
      apply andb_prop in H. destruct H as [H H3]. apply andb_prop in H. destruct H as [H1 H2].
      apply str_eqb_eq in H1. split; [exact H1|lia].
    - cbn [wf_in] in H. cbn [cases_rel]. std.
      apply andb_prop in H. destruct H as [H H5]. apply andb_prop in H. destruct H as [H H4].
      apply andb_prop in H. destruct H as [H H3]. apply andb_prop in H. destruct H as [H1 H2].
      apply str_eqb_eq in H1. std.
      apply Forall_forall. intros pc Hin. apply in_map_iff in Hin. destruct Hin as ([p c] & <- & Hin).
      cbn [fst snd chain_ok]. repeat split; try lia; try assumption.
      apply in_flat_map in Hin. destruct Hin as (k & Hk & Hin).
      rewrite forallb_forall in H5. specialize (H5 k Hk).
      rewrite Forall_forall in IH. specialize (IH k Hk _ _ _ H5).
      rewrite Forall_forall in IH. apply (IH (p, c) Hin).
  Qed.

  Lemma wf_top_chain : forall t,
    wf_top t = true -> Forall (fun pc => exists file lo hi, chain_ok file lo hi (fst pc) (snd pc)) (cases_rel t).
  Proof.
    intros [c|s kids] H.
    - cbn [cases_rel]. constructor; [|constructor]. cbn [fst snd].
      exists (lfile (cloc c)), (lfirst (cloc c)), (llast (cloc c)). cbn [chain_ok]. split; [reflexivity|lia].
    - unfold wf_top in H. apply wf_in_chain in H.
      eapply Forall_impl; [|exact H]. intros pc Hpc. do 3 eexists. exact Hpc.
  Qed.

  Lemma filter_ext_Forall : forall A (p q : A -> bool) l,
    Forall (fun x => p x = q x) l -> List.filter p l = List.filter q l.
  Proof.
    intros A p q l H. induction H as [|x r Hx _ IH]; [reflexivity|].
    cbn [List.filter]. rewrite Hx, IH. reflexivity.
  Qed.

  (* registration keeps exactly the selected cases, once each, in source order *)
  Lemma registered_selected : forall fs kids,
    forallb wf_top kids = true ->
    flat_map rcases_rel (flat_map (register (init_state fs) []) kids) = List.filter (selected fs) (cases kids).
  Proof.
    intros fs kids H. unfold cases. std.
    rewrite flat_map_flat_map, filter_flat_map.
    apply flat_map_ext_Forall. apply Forall_forall. intros k Hk.
    rewrite register_cases. apply filter_ext_Forall.
    rewrite forallb_forall in H. specialize (H k Hk). apply wf_top_chain in H.
    eapply Forall_impl; [|exact H]. intros [p c] (file & lo & hi & Hc). cbn [fst snd] in Hc.
    apply (pass_all_selected fs _ _ _ _ _ Hc).
  Qed.
End Oracles.

(* ================= the run ================= *)

Definition be_bad (s : sinfo) : bool := hook_bad (h_be s).
Definition ok_status (s : status) : Prop := s = SSuccess \/ s = SFailed \/ s = SError \/ s = SSkipped.
Definition live_status (s : status) : Prop := s = SRunning \/ s = SSuccess \/ s = SFailed \/ s = SError.

Lemma exec_ids_app : forall a b, exec_ids (a ++ b) = exec_ids a ++ exec_ids b.
Proof. intros. unfold exec_ids. std. apply flat_map_app. Qed.

Lemma be_loop_spec : forall hk,
  exec_ids (fst (be_loop hk)) = [] /\
  (snd (be_loop hk) = None <-> existsb be_bad hk = false) /\
  (forall o, snd (be_loop hk) = Some o -> bad o = true) /\
  existsb ev_bad (fst (be_loop hk)) = existsb be_bad hk.
Proof.
  induction hk as [|s up IH]; cbn [be_loop existsb].
  - cbn. repeat split; intros; try discriminate; reflexivity.
  - unfold be_bad at 1 3. destruct (h_be s) as [o|] eqn:E; cbn [hook_bad].
    + destruct (bad o) eqn:B.
      * cbn [fst snd orb existsb ev_bad]. rewrite B. cbn. repeat split; intros; try discriminate.
        inversion H. subst. exact B.
      * destruct (be_loop up) as [ev r]. cbn [fst snd orb] in *. destruct IH as (I1 & I2 & I3 & I4).
        cbn [existsb ev_bad]. rewrite B. cbn [orb]. repeat split; try tauto;
        try (unfold exec_ids in *; cbn; exact I1).
    + cbn [orb]. exact IH.
Qed.

Lemma ae_loop_spec : forall hk st,
  exec_ids (fst (ae_loop hk st)) = [] /\
  (live_status st -> live_status (snd (ae_loop hk st))) /\
  (live_status st -> is_fail (snd (ae_loop hk st)) = is_fail st || existsb ev_bad (fst (ae_loop hk st))).
Proof.
  induction hk as [|s up IH]; intros st; cbn [ae_loop].
  - cbn. repeat split; auto. intros. rewrite orb_false_r. reflexivity.
  - destruct (h_ae s) as [o|]; [|apply IH].
    specialize (IH (st_of o st)). destruct (ae_loop up (st_of o st)) as [ev r]. cbn [fst snd] in *.
    destruct IH as (I1 & I2 & I3).
    assert (L : live_status st -> live_status (st_of o st)).
    { intros Hl. destruct o; cbn; [exact Hl| |]; unfold live_status; tauto. }
    repeat split.
    + unfold exec_ids in *. cbn. exact I1.
    + intros Hl. auto.
    + intros Hl. rewrite (I3 (L Hl)). cbn [existsb ev_bad].
      destruct o; cbn [st_of bad is_fail orb]; try reflexivity;
      destruct (is_fail st); reflexivity.
Qed.

Lemma run_case_spec : forall hk c,
  exec_ids (fst (run_case hk c)) = (if existsb be_bad hk then [] else [cid c]) /\
  ok_status (snd (run_case hk c)) /\ snd (run_case hk c) <> SSkipped /\
  is_fail (snd (run_case hk c)) = existsb ev_bad (fst (run_case hk c)).
Proof.
  intros hk c. unfold run_case.
  destruct (be_loop_spec hk) as (B1 & B2 & B3 & B4).
  destruct (be_loop hk) as [ev_be fl]. cbn [fst snd] in *.
  destruct fl as [o|].
  - assert (Hb : existsb be_bad hk = true).
    { destruct (existsb be_bad hk); [reflexivity|]. destruct B2 as [_ B2]. discriminate (B2 eq_refl). }
    rewrite Hb. specialize (B3 o eq_refl).
    assert (Hl : live_status (st_of o SRunning)) by (destruct o; cbn; unfold live_status; tauto).
    assert (Hf : is_fail (st_of o SRunning) = true) by (destruct o; [discriminate B3| |]; reflexivity).
    destruct (ae_loop_spec hk (st_of o SRunning)) as (A1 & A2 & A3).
    destruct (ae_loop hk (st_of o SRunning)) as [ev_ae st]. cbn [fst snd] in *.
    specialize (A2 Hl). specialize (A3 Hl). rewrite Hf in A3. cbn [orb] in A3.
    repeat split.
    + rewrite exec_ids_app, B1, A1. reflexivity.
    + destruct st; try discriminate A3; unfold ok_status; tauto.
    + intro E. rewrite E in A3. discriminate.
    + rewrite A3, existsb_app, B4, Hb. reflexivity.
  - assert (Hb : existsb be_bad hk = false) by (apply B2; reflexivity).
    rewrite Hb.
    assert (Hl : live_status (st_of (cout c) SRunning)) by (destruct (cout c); cbn; unfold live_status; tauto).
    destruct (ae_loop_spec hk (st_of (cout c) SRunning)) as (A1 & A2 & A3).
    destruct (ae_loop hk (st_of (cout c) SRunning)) as [ev_ae st]. cbn [fst snd] in *.
    specialize (A2 Hl). specialize (A3 Hl).
    repeat split.
    + rewrite exec_ids_app, B1. unfold exec_ids in *. cbn. rewrite A1. reflexivity.
    + destruct A2 as [-> | [-> | [-> | ->]]]; cbn; unfold ok_status; tauto.
    + destruct A2 as [-> | [-> | [-> | ->]]]; cbn; discriminate.
    + rewrite existsb_app, B4, Hb. cbn [orb existsb ev_bad].
      assert (E : is_fail (update st SSuccess) = is_fail st) by (destruct st; reflexivity).
      rewrite E, A3. destruct (cout c); reflexivity.
Qed.

Lemma fold_update_spec : forall sts cur,
  Forall ok_status sts -> live_status cur ->
  live_status (fold_left update sts cur) /\
  is_fail (fold_left update sts cur) = is_fail cur || existsb is_fail sts.
Proof.
  induction sts as [|s sts IH]; intros cur Hs Hc; cbn [fold_left existsb].
  - split; [exact Hc|]. rewrite orb_false_r. reflexivity.
  - inversion Hs as [|? ? Hs1 Hs2]; subst.
    assert (Hl : live_status (update cur s)).
    { destruct Hs1 as [-> | [-> | [-> | ->]]], Hc as [-> | [-> | [-> | ->]]]; cbn; unfold live_status; tauto. }
    destruct (IH _ Hs2 Hl) as [I1 I2]. split; [exact I1|].
    rewrite I2, orb_assoc. f_equal.
    destruct Hs1 as [-> | [-> | [-> | ->]]], Hc as [-> | [-> | [-> | ->]]]; reflexivity.
Qed.

Lemma existsb_concat : forall A (p : A -> bool) ll,
  existsb p (concat ll) = existsb (existsb p) ll.
Proof.
  intros A p ll. induction ll as [|l r IH]; [reflexivity|].
  cbn [concat existsb]. rewrite existsb_app, IH. reflexivity.
Qed.

Lemma rcount_length : forall r, rcount r = length (rcases_rel r).
Proof.
  induction r as [c|s kids IH] using rtree_ind'; [reflexivity|].
  cbn [rcount rcases_rel]. std. rewrite map_length.
  induction IH as [|k ks Hk _ IHks]; [reflexivity|].
  cbn [map flat_map]. rewrite app_length.
  change (list_sum (rcount k :: map rcount ks)) with (rcount k + list_sum (map rcount ks))%nat.
  rewrite Hk, IHks. reflexivity.
Qed.

(* the status and the events of a run *)
Lemma run_status : forall r hk,
  ok_status (snd (run hk r)) /\
  is_fail (snd (run hk r)) = existsb ev_bad (fst (run hk r)) /\
  (snd (run hk r) = SSkipped <-> rcount r = 0%nat) /\
  (rcount r = 0%nat -> fst (run hk r) = []).
Proof.
  induction r as [c|s kids IH] using rtree_ind'; intros hk.
  - cbn [run rcount]. destruct (run_case_spec hk c) as (_ & R2 & R3 & R4).
    repeat split; auto; intros; try lia; try contradiction.
  - cbn [run rcount]. destruct (Nat.eqb (lsum (lmap rcount kids)) 0) eqn:E.
    + apply Nat.eqb_eq in E. cbn [fst snd]. unfold ok_status. repeat split; auto.
    + apply Nat.eqb_neq in E.
      set (rs := lmap (run (s :: hk)) kids).
      assert (Hok : Forall ok_status (map snd rs)).
      { unfold rs. std. apply Forall_forall. intros x Hx. apply in_map_iff in Hx.
        destruct Hx as (y & <- & Hy). apply in_map_iff in Hy. destruct Hy as (k & <- & Hk).
        rewrite Forall_forall in IH. apply (IH k Hk). }
      assert (Hev : existsb is_fail (map snd rs) = existsb ev_bad (concat (map fst rs))).
      { rewrite existsb_concat. unfold rs. std. clear -IH.
        induction IH as [|k ks Hk _ IHks]; [reflexivity|].
        cbn [map existsb]. rewrite IHks. f_equal. apply Hk. }
      assert (Hrun : live_status SRunning) by (unfold live_status; tauto).
      destruct (fold_update_spec (map snd rs) SRunning Hok Hrun) as [F1 F2].
      cbn [is_fail orb] in F2. rewrite Hev in F2.
      set (st := lfold_left update (lmap snd rs) SRunning) in *.
      change (fold_left update (map snd rs) SRunning) with st in F1, F2.
      (* the tail shared by both branches *)
      assert (Tail : forall pre, existsb ev_bad pre = false ->
        let '(ev_aa, st') := match h_aa s with
                             | Some oa => ([EvHook HAfterAll (sid s) oa], st_of oa st)
                             | None => ([], st) end in
        ok_status (update st' SSuccess) /\
        is_fail (update st' SSuccess) = existsb ev_bad (pre ++ lconcat (lmap fst rs) ++ ev_aa) /\
        update st' SSuccess <> SSkipped).
      { intros pre Hpre. std.
        destruct (h_aa s) as [oa|].
        - rewrite !existsb_app, Hpre, <- F2. cbn [orb existsb ev_bad].
          destruct oa; cbn [st_of bad]; rewrite ?orb_false_r, ?orb_true_r;
            destruct F1 as [-> | [-> | [-> | ->]]]; cbn; unfold ok_status; repeat split; auto; discriminate.
        - rewrite !existsb_app, Hpre, <- F2. cbn [orb existsb]. rewrite orb_false_r.
          destruct F1 as [-> | [-> | [-> | ->]]]; cbn; unfold ok_status; repeat split; auto; discriminate. }
      destruct (h_ba s) as [o|].
      * destruct (bad o) eqn:B.
        -- cbn [fst snd existsb ev_bad]. rewrite B.
           destruct o; [discriminate B| |]; cbn; unfold ok_status; repeat split; auto; intros; try discriminate; contradiction.
        -- specialize (Tail [EvHook HBeforeAll (sid s) o]). cbn [existsb ev_bad orb] in Tail.
           rewrite B in Tail. specialize (Tail eq_refl).
           destruct (match h_aa s with Some oa => _ | None => _ end) as [ev_aa st'].
           cbn [fst snd]. destruct Tail as (T1 & T2 & T3). cbn [app] in T2.
           repeat split; auto; intros; try contradiction.
      * specialize (Tail [] eq_refl).
        destruct (match h_aa s with Some oa => _ | None => _ end) as [ev_aa st'].
        cbn [fst snd]. destruct Tail as (T1 & T2 & T3). cbn [app] in T2.
        repeat split; auto; intros; try contradiction.
Qed.

(* which bodies run *)
Definition startable (hk : list sinfo) (pc : ccase) : bool :=
  negb (existsb be_bad hk) && negb (existsb babe_bad (fst pc)).

Lemma startable_step : forall s hk pc,
  hook_bad (h_ba s) = false ->
  startable hk (s :: fst pc, snd pc) = startable (s :: hk) pc.
Proof.
  intros s hk [p c] Hba. unfold startable. cbn [fst snd existsb].
  unfold babe_bad at 1. unfold be_bad at 2. rewrite Hba. cbn [orb].
  rewrite !negb_orb. rewrite andb_assoc. f_equal. apply andb_comm.
Qed.

Lemma kids_exec : forall s hk kids,
  Forall (fun k => forall hk', exec_ids (fst (run hk' k)) =
                   map (fun pc : ccase => cid (snd pc)) (List.filter (startable hk') (rcases_rel k))) kids ->
  hook_bad (h_ba s) = false ->
  exec_ids (concat (map fst (map (run (s :: hk)) kids))) =
  map (fun pc : ccase => cid (snd pc))
      (List.filter (startable hk) (map (fun pc : ccase => (s :: fst pc, snd pc)) (flat_map rcases_rel kids))).
Proof.
  intros s hk kids IH Hba. induction IH as [|k ks Hk _ IHks]; [reflexivity|].
  cbn [map concat flat_map]. rewrite exec_ids_app.
  rewrite (map_app (fun pc : ccase => (s :: fst pc, snd pc))), filter_app, map_app.
  rewrite IHks. f_equal.
  rewrite (Hk (s :: hk)), filter_map_comm, map_map. cbn [snd]. f_equal.
  apply filter_ext. intros pc. symmetry. apply startable_step. exact Hba.
Qed.

Lemma run_exec : forall r hk,
  exec_ids (fst (run hk r)) = map (fun pc : ccase => cid (snd pc)) (List.filter (startable hk) (rcases_rel r)).
Proof.
  induction r as [c|s kids IH] using rtree_ind'; intros hk.
  - cbn [run rcases_rel List.filter]. destruct (run_case_spec hk c) as (R1 & _). rewrite R1.
    unfold startable. cbn [fst existsb negb andb]. rewrite andb_true_r.
    destruct (existsb be_bad hk); reflexivity.
  - assert (Kids : forall pre post, exec_ids pre = [] -> exec_ids post = [] -> hook_bad (h_ba s) = false ->
        exec_ids (pre ++ lconcat (lmap fst (lmap (run (s :: hk)) kids)) ++ post) =
        map (fun pc : ccase => cid (snd pc)) (List.filter (startable hk) (rcases_rel (RSuite s kids)))).
    { intros pre post Hpre Hpost Hba. rewrite !exec_ids_app, Hpre, Hpost, app_nil_r. cbn [app].
      cbn [rcases_rel]. std. apply kids_exec; assumption. }
    cbn [run]. destruct (Nat.eqb (lsum (lmap rcount kids)) 0) eqn:E.
    + apply Nat.eqb_eq in E. cbn [fst].
      assert (L : rcount (RSuite s kids) = 0%nat) by exact E.
      rewrite rcount_length in L. destruct (rcases_rel (RSuite s kids)); [reflexivity|discriminate].
    + destruct (h_ba s) as [o|] eqn:Hba.
      * destruct (bad o) eqn:B.
        -- cbn [fst]. cbn [rcases_rel]. rewrite filter_map_comm.
           rewrite filter_all_false; [reflexivity|]. intros [p c]. unfold startable. cbn [fst existsb].
           unfold babe_bad at 1. rewrite Hba. cbn [hook_bad]. rewrite B. cbn [orb negb]. apply andb_false_r.
        -- specialize (Kids [EvHook HBeforeAll (sid s) o]).
           destruct (h_aa s) as [oa|]; cbn [fst].
           ++ apply (Kids [EvHook HAfterAll (sid s) oa]); try reflexivity. cbn [hook_bad]. exact B.
           ++ apply (Kids []); try reflexivity. cbn [hook_bad]. exact B.
      * specialize (Kids []). cbn [app] in Kids.
        destruct (h_aa s) as [oa|]; cbn [fst].
        ++ apply (Kids [EvHook HAfterAll (sid s) oa]); reflexivity.
        ++ apply (Kids []); reflexivity.
Qed.

(* ================= the statements ================= *)
Section Main.
  Variable glob : str -> str -> bool.
  Variable rematch : str -> str -> bool.

  Lemma root_cases : forall fs root kids,
    forallb wf_top kids = true ->
    rcases_rel (register_root glob rematch fs root kids) =
    map (fun pc => (root :: fst pc, snd pc)) (List.filter (selected glob rematch fs) (cases kids)).
  Proof.
    intros fs root kids H. unfold register_root. cbn [rcases_rel]. std.
    rewrite (registered_selected glob rematch fs kids H). reflexivity.
  Qed.

  Lemma exact : forall fs root kids,
    forallb wf_top kids = true ->
    exec_ids (fst (run_tests glob rematch fs root kids)) =
    map (fun cc => cid (snd cc))
        (List.filter (fun cc => selected glob rematch fs cc && negb (blocked root cc)) (cases kids)).
  Proof.
    intros fs root kids H. unfold run_tests.
    pose proof (run_exec (register_root glob rematch fs root kids) []) as R.
    destruct (run [] (register_root glob rematch fs root kids)) as [evs st]. cbn [fst] in *.
    rewrite R, (root_cases fs root kids H), filter_map_comm, map_map, filter_filter. cbn [snd].
    f_equal; try (apply filter_ext; intros [p c]; unfold startable, blocked; cbn [fst existsb negb andb];
                  std; reflexivity).
  Qed.

  Lemma exact_nohooks : forall fs root kids,
    forallb wf_top kids = true ->
    (forall cc, In cc (cases kids) -> blocked root cc = false) ->
    exec_ids (fst (run_tests glob rematch fs root kids)) =
    map (fun cc => cid (snd cc)) (List.filter (selected glob rematch fs) (cases kids)).
  Proof.
    intros fs root kids H Hb. rewrite (exact fs root kids H). f_equal.
    apply filter_ext_Forall. apply Forall_forall. intros cc Hin. rewrite (Hb cc Hin). apply andb_true_r.
  Qed.

  Lemma root_count : forall fs root kids,
    forallb wf_top kids = true ->
    rcount (register_root glob rematch fs root kids) = length (List.filter (selected glob rematch fs) (cases kids)).
  Proof.
    intros fs root kids H. rewrite rcount_length, (root_cases fs root kids H), map_length. reflexivity.
  Qed.

  Lemma exit_partial : forall fs root kids,
    forallb wf_top kids = true ->
    existsb (selected glob rematch fs) (cases kids) = true ->
    (snd (run_tests glob rematch fs root kids) = 1 <->
     existsb ev_bad (fst (run_tests glob rematch fs root kids)) = true).
  Proof.
    intros fs root kids H Hsel. unfold run_tests.
    pose proof (run_status (register_root glob rematch fs root kids) []) as (S1 & S2 & S3 & _).
    pose proof (root_count fs root kids H) as Hc.
    destruct (run [] (register_root glob rematch fs root kids)) as [evs st]. cbn [fst snd] in *.
    assert (Hn : st <> SSkipped).
    { intro E. apply S3 in E. rewrite E in Hc. apply existsb_exists in Hsel. destruct Hsel as (x & Hx & Hs).
      assert (Hin : In x (List.filter (selected glob rematch fs) (cases kids))) by (apply filter_In; auto).
      destruct (List.filter (selected glob rematch fs) (cases kids)); [contradiction|discriminate]. }
    rewrite <- S2. destruct S1 as [-> | [-> | [-> | ->]]]; cbn; split; intro; try reflexivity; try discriminate; try lia.
    contradiction.
  Qed.

  Lemma exit_empty : forall fs root kids,
    forallb wf_top kids = true ->
    existsb (selected glob rematch fs) (cases kids) = false ->
    run_tests glob rematch fs root kids = ([], 1).
  Proof.
    intros fs root kids H Hsel. unfold run_tests.
    pose proof (run_status (register_root glob rematch fs root kids) []) as (S1 & S2 & S3 & S4).
    pose proof (root_count fs root kids H) as Hc.
    assert (Hz : rcount (register_root glob rematch fs root kids) = 0%nat).
    { rewrite Hc, (filter_none _ _ _ Hsel). reflexivity. }
    destruct (run [] (register_root glob rematch fs root kids)) as [evs st]. cbn [fst snd] in *.
    rewrite (S4 Hz). apply S3 in Hz. rewrite Hz. reflexivity.
  Qed.

  (* the specification in propositional form *)
  Lemma satisfies_path_iff : forall p l cc,
    satisfies glob rematch (FPath p l) cc = true <->
    glob p (lfile (cloc (snd cc))) = true /\
    (l < 0 \/ lfirst (cloc (snd cc)) <= l <= llast (cloc (snd cc)) \/
     exists s, In s (fst cc) /\ l = lfirst (sloc s)).
  Proof.
    intros p l [path c]. unfold satisfies. cbn [fst snd]. std.
    rewrite andb_true_iff, !orb_true_iff, existsb_exists. unfold in_span.
    split; intros [G H]; (split; [exact G|]).
    - destruct H as [[H|H]|(s & Hs & E)]; [left; lia|right; left; lia|right; right; exists s; split; [exact Hs|lia]].
    - destruct H as [H|[H|(s & Hs & E)]]; [left; left; lia|left; right; lia|right; exists s; split; [exact Hs|lia]].
  Qed.

  Lemma satisfies_grep_iff : forall r cc,
    satisfies glob rematch (FGrep r) cc = true <-> rematch r (cfull (rev (fst cc)) (snd cc)) = true.
  Proof. intros r [path c]. unfold satisfies. cbn [fst snd]. std. tauto. Qed.

  Lemma selected_iff : forall fs cc,
    selected glob rematch fs cc = true <-> forall f, In f fs -> satisfies glob rematch f cc = true.
  Proof. intros fs cc. unfold selected. std. apply forallb_forall. Qed.
End Main.
