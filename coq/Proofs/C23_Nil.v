(* C23 — the nilable-element instance agrees with the list model (corollary of ops_finite). *)
From Coq Require Import ZArith List Bool Lia.
From Elk Require Import Base.GoSem Model.C23_Iter Model.C23_Nil Proofs.C23_Iter.
Import ListNotations.
Open Scope Z_scope.

Lemma run_nagree : forall St (nx : St -> step elem St) fuel fuel' s l o,
  unroll fuel nx s = Some (l, TStop) -> (fuel <= fuel')%nat ->
  run_nimpl fuel' nx s o = run_nlist l o.
Proof.
  intros St nx fuel fuel' s l o Hu Hle.
  destruct (ops_finite elem St nx elem_eqb fuel fuel' s l Hu Hle) as
    (H1 & H2 & H3 & H4 & H5 & H6 & H7 & H8 & H9 & H10 & H11 & H12 & H13 & H14 & H15 & H16 & H17 & H18 & H19 & H20 & H21 & H22 & H23 & H24).
  destruct o; cbn [run_nimpl run_nlist]; f_equal; auto.
Qed.

(* a list-backed iterator yields its list and stops *)
Lemma list_unroll {V} : forall (l : list V), unroll (S (length l)) list_next l = Some (l, TStop).
Proof.
  induction l as [|v l IH]; [reflexivity|].
  change (unroll (S (length (v :: l))) list_next (v :: l))
    with (match unroll (S (length l)) list_next l with Some (l0, t) => Some (v :: l0, t) | None => None end).
  rewrite IH. reflexivity.
Qed.

Lemma run_nlistiter_agree : forall l o fuel, (length l < fuel)%nat -> run_nlistiter fuel l o = run_nlist l o.
Proof.
  intros l o fuel H. unfold run_nlistiter.
  eapply run_nagree; [apply list_unroll|lia].
Qed.

(* list facts *)
Lemma last_opt_snoc {V} (v : V) : forall r, last_opt (r ++ [v]) = Some v.
Proof.
  induction r as [|a r IH]; [reflexivity|].
  cbn [app last_opt]. destruct (r ++ [v]) eqn:Er; [destruct r; discriminate|exact IH].
Qed.
Lemma search_first_hit {V} (p : V -> res bool) (v : V) r' : forall r,
  p v = Val true -> (forall x, In x r -> p x = Val false) ->
  search_list true p (r ++ v :: r') = Val (Some v).
Proof.
  induction r as [|a r IH]; intros Hp Hr; cbn [app search_list].
  - rewrite Hp. reflexivity.
  - rewrite (Hr a (or_introl eq_refl)). cbn [Bool.eqb]. apply IH; [exact Hp|].
    intros x Hx. apply Hr. right. exact Hx.
Qed.

(* a selected nil element is a value, an absent element is NotFoundError: never the same result *)
Lemma nil_is_not_absent : forall St (nx : St -> step elem St) fuel fuel' s l,
  unroll fuel nx s = Some (l, TStop) -> (fuel <= fuel')%nat ->
  (forall r, l = None :: r -> first_impl nx fuel' s = Val None) /\
  (forall r, l = r ++ [None] -> last_impl nx fuel' s = Val None) /\
  (forall p r r', l = r ++ None :: r' -> p None = Val true -> (forall v, In v r -> p v = Val false) ->
     find_impl nx fuel' p s = Val None) /\
  (l = [] -> first_impl nx fuel' s = Thrown E_NF /\ last_impl nx fuel' s = Thrown E_NF /\
             forall p, find_impl nx fuel' p s = Thrown E_NF).
Proof.
  intros St nx fuel fuel' s l Hu Hle.
  destruct (ops_finite elem St nx elem_eqb fuel fuel' s l Hu Hle) as
    (H1 & H2 & H3 & H4 & H5 & H6 & H7 & H8 & H9 & H10 & H11 & H12 & H13 & H14 & H15 & H16 & H17 & H18 & H19 & H20 & H21 & H22 & H23 & H24).
  repeat split.
  - intros r ->. rewrite H3. reflexivity.
  - intros r ->. rewrite H5. unfold last_list.
    rewrite last_opt_snoc. reflexivity.
  - intros p r r' -> Hp Hr. rewrite H13. unfold find_list.
    pose proof (search_first_hit p None r' r Hp Hr) as E. unfold elem in *. rewrite E. reflexivity.
  - subst l. rewrite H3. reflexivity.
  - subst l. rewrite H5. reflexivity.
  - intros p. subst l. rewrite H13. reflexivity.
Qed.
