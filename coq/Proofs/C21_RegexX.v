(* C21 - extended mode with inline flag groups (second pass): on every tree in which no `#`
   character node stands where x is on, transpiling under the literal's flags emits the text of
   the x-erased, whitespace-stripped tree (Model/C21_RegexExt.v) transpiled without x. *)
From Coq Require Import ZArith List Bool Arith Lia.
From Elk Require Import Model.C21_RegexSyntax Model.C21_RegexExt Proofs.C21_Regex.
Import ListNotations.
Open Scope Z_scope.

(* ---------------------------------------------------------------- the nested fixpoints, named *)

Fixpoint strip_fx_list (x : bool) (l : list re) : list re * bool :=
  match l with
  | [] => ([], x)
  | e :: t =>
      if x && is_ws e then strip_fx_list x t
      else let '(e', x1) := strip_fx x e in let '(t', x2) := strip_fx_list x1 t in (e' :: t', x2)
  end.
Lemma strip_fx_concat : forall x l,
  strip_fx x (RConcat l) = let '(l', x') := strip_fx_list x l in (RConcat l', x').
Proof. reflexivity. Qed.

Fixpoint live_hash_list (x : bool) (l : list re) : bool * bool :=
  match l with
  | [] => (false, x)
  | e :: t => let '(h1, x1) := live_hash x e in let '(h2, x2) := live_hash_list x1 t in (h1 || h2, x2)
  end.
Lemma live_hash_concat : forall x l, live_hash x (RConcat l) = live_hash_list x l.
Proof. reflexivity. Qed.

(* ---------------------------------------------------------------- flag algebra *)

Lemma fx_erase : forall f, fx (erase_x f) = false.
Proof. reflexivity. Qed.

Lemma fa_erase : forall f, fa (erase_x f) = fa f.
Proof. reflexivity. Qed.

Lemma vis_erase : forall f, vis (erase_x f) = vis f.
Proof. reflexivity. Qed.

Lemma apply_erase : forall f st un,
  apply_flags (erase_x f) (erase_x st) (erase_x un) = erase_x (apply_flags f st un).
Proof. intros. unfold apply_flags, erase_x, set_x. simpl. reflexivity. Qed.

Lemma fx_apply_after : forall f st un, fx (apply_flags f st un) = x_after (fx f) st un.
Proof. reflexivity. Qed.

Lemma erase_idem : forall f, erase_x (erase_x f) = erase_x f.
Proof. reflexivity. Qed.

Lemma tr_atom_top_erase : forall f a,
  (forall c, a = AChar c -> fx f && is_space c = false) ->
  tr_atom_top (erase_x f) a = tr_atom_top f a.
Proof.
  intros f a H. destruct a as [c| | | | | | |]; try reflexivity.
  simpl. rewrite (H c eq_refl). destruct (fx f); reflexivity.
Qed.

Lemma tr_class_erase : forall f neg items, tr_class (erase_x f) neg items = tr_class f neg items.
Proof. reflexivity. Qed.

(* a whitespace element under x emits nothing and leaves the flags alone (ws_tr), and has no hash *)
Lemma ws_live : forall x e, is_ws e = true -> live_hash x e = (false, x).
Proof.
  intros x e H. destruct e as [a| | | | | | | |txt|neg items|l|a1 a2|k b|q alt r]; try discriminate.
  destruct a as [c| | | | | | |]; try discriminate. simpl in *.
  destruct (c =? 35) eqn:E; [|rewrite andb_false_r; reflexivity].
  apply Z.eqb_eq in E. subst c. discriminate.
Qed.

Lemma live_is_char : forall e, fst (live_hash true e) = false -> is_char e 35 = false.
Proof.
  intros e H. destruct e as [a| | | | | | | |txt|neg items|l|a1 a2|k b|q alt r]; try reflexivity.
  destruct a; try reflexivity. simpl in *. exact H.
Qed.

(* ---------------------------------------------------------------- the invariant *)

Definition extx_at (a : re) : Prop :=
  forall f, fst (live_hash (fx f) a) = false ->
    pr2 (fst (tr f a)) = pr2 (fst (tr (erase_x f) (fst (strip_fx (fx f) a))))
    /\ has_err (fst (tr f a)) = has_err (fst (tr (erase_x f) (fst (strip_fx (fx f) a))))
    /\ snd (tr (erase_x f) (fst (strip_fx (fx f) a))) = erase_x (snd (tr f a))
    /\ snd (strip_fx (fx f) a) = fx (snd (tr f a))
    /\ snd (live_hash (fx f) a) = fx (snd (tr f a)).

Lemma concat_extx : forall l, Forall extx_at l -> forall f,
  fst (live_hash_list (fx f) l) = false ->
    pr2_list (fst (tr_list false f l))
      = pr2_list (fst (tr_list false (erase_x f) (fst (strip_fx_list (fx f) l))))
    /\ has_err_list (fst (tr_list false f l))
      = has_err_list (fst (tr_list false (erase_x f) (fst (strip_fx_list (fx f) l))))
    /\ snd (tr_list false (erase_x f) (fst (strip_fx_list (fx f) l))) = erase_x (snd (tr_list false f l))
    /\ snd (strip_fx_list (fx f) l) = fx (snd (tr_list false f l))
    /\ snd (live_hash_list (fx f) l) = fx (snd (tr_list false f l)).
Proof.
  intros l H. induction H as [|e t He _ IH]; intros f Hh.
  - simpl. auto.
  - cbn [live_hash_list] in Hh.
    destruct (live_hash (fx f) e) as [h1 x1] eqn:El.
    destruct (live_hash_list x1 t) as [h2 x2] eqn:Elt.
    cbn [fst] in Hh. apply orb_false_iff in Hh. destruct Hh as [Hh1 Hh2]. subst h1 h2.
    destruct (fx f && is_ws e) eqn:Ews.
    + (* whitespace where x is on: dropped on both sides *)
      apply andb_true_iff in Ews. destruct Ews as [Ex Ew].
      rewrite (ws_live (fx f) e Ew) in El. inversion El; subst x1.
      specialize (IH f). rewrite Elt in IH. specialize (IH eq_refl).
      destruct IH as (A1 & A2 & A3 & A4 & A5).
      cbn [strip_fx_list live_hash_list tr_list]. rewrite Ex, Ew. cbn [andb].
      assert (Hc : is_char e 35 = false).
      { destruct e as [a| | | | | | | |txt|neg items|l0|a1 a2|k b|q alt r]; try discriminate.
        destruct a as [c| | | | | | |]; try discriminate. simpl in *.
        destruct (c =? 35) eqn:E; [|reflexivity]. apply Z.eqb_eq in E. subst c. discriminate. }
      rewrite Hc. rewrite (ws_tr f e Ew Ex).
      rewrite Ex in A1, A2, A3, A4.
      destruct (tr_list false f t) as [ys f2] eqn:Et.
      rewrite (ws_live true e Ew). rewrite Ex in Elt. rewrite Elt.
      cbn [fst snd pr2_list has_err_list pr2 has_err app orb] in *. auto.
    + (* any other element *)
      assert (Hc : fx f = true -> is_char e 35 = false).
      { intro Ex. apply live_is_char. rewrite <- Ex, El. reflexivity. }
      assert (Hl : tr_list false f (e :: t)
                   = let '(y, f1) := tr f e in let '(ys, f2) := tr_list false f1 t in (y :: ys, f2)).
      { cbn [tr_list]. destruct (fx f) eqn:Ex; [rewrite (Hc eq_refl)|]; reflexivity. }
      rewrite Hl. clear Hl.
      cbn [strip_fx_list live_hash_list]. rewrite Ews, El, Elt.
      specialize (He f). rewrite El in He. specialize (He eq_refl).
      destruct He as (B1 & B2 & B3 & B4 & B5).
      destruct (strip_fx (fx f) e) as [e' xe] eqn:Es.
      destruct (tr f e) as [y f1] eqn:E1.
      cbn [fst snd] in B1, B2, B3, B4, B5. subst xe x1.
      specialize (IH f1). rewrite Elt in IH. specialize (IH eq_refl).
      destruct IH as (A1 & A2 & A3 & A4 & A5).
      destruct (strip_fx_list (fx f1) t) as [t' xt] eqn:Est.
      destruct (tr_list false f1 t) as [ys f2] eqn:Et.
      cbn [fst snd] in A1, A2, A3, A4, A5.
      cbn [fst snd tr_list]. rewrite fx_erase.
      destruct (tr (erase_x f) e') as [y' f1'] eqn:E2.
      cbn [fst snd] in B1, B2, B3. subst f1'.
      destruct (tr_list false (erase_x f1) t') as [ys' f2'] eqn:Et'.
      cbn [fst snd] in A1, A2, A3 |- *.
      cbn [pr2_list has_err_list]. rewrite B1, B2, A1, A2. auto.
Qed.

Lemma any_erase_of_vis : forall g, any_gflag (vis g) = true -> any_flag (erase_x g) = true.
Proof.
  intros g H. unfold any_gflag, vis, any_flag, erase_x, set_x in *. cbn [gi gm gs gU fi fm fs fU fx fa] in *.
  destruct (fi g), (fm g), (fs g), (fU g); try discriminate; reflexivity.
Qed.

Lemma any_of_erase : forall g, any_flag (erase_x g) = true -> any_flag g = true.
Proof.
  intros g H. unfold any_flag, erase_x, set_x in *. cbn [fi fm fs fU fx fa] in *.
  destruct (fi g), (fm g), (fs g), (fU g), (fa g); try discriminate; try reflexivity;
    rewrite ?orb_true_r; reflexivity.
Qed.

Lemma erase_none : forall g, any_flag (erase_x g) = false ->
  fi g = false /\ fm g = false /\ fs g = false /\ fU g = false /\ fa g = false.
Proof.
  intros g H. unfold any_flag, erase_x, set_x in *. cbn [fi fm fs fU fx fa] in *.
  destruct (fi g), (fm g), (fs g), (fU g), (fa g); try discriminate; auto.
Qed.

Lemma any_flag_erase_vis : forall st un,
  any_gflag (vis st) || any_gflag (vis un) = true ->
  any_flag (erase_x st) || any_flag (erase_x un) = true.
Proof.
  intros st un H. apply orb_true_iff in H. apply orb_true_iff.
  destruct H as [H|H]; [left|right]; apply any_erase_of_vis; exact H.
Qed.

Theorem extx_sound : forall a, extx_at a.
Proof.
  induction a as [a| | | | | | | |txt|neg items|l H|a1 a2 IHa1 IHa2|k b H|k|q alt a IHa] using re_ind2;
    unfold extx_at; intros f Hh.
  - (* atom *)
    destruct a as [c| | | | | | |]; try (simpl; auto; fail).
    simpl in Hh. simpl strip_fx. destruct (fx f && is_space c) eqn:E.
    + apply andb_true_iff in E. destruct E as [Ex Es]. simpl. rewrite Ex, Es. simpl. auto.
    + cbn [fst snd]. simpl tr. rewrite E.
      destruct (fx f) eqn:Ex; simpl in E; rewrite ?E; simpl; auto.
  - simpl. auto.
  - simpl. auto.
  - simpl. auto.
  - simpl. auto.
  - simpl. auto.
  - simpl. auto.
  - simpl. auto.
  - simpl. auto.
  - simpl strip_fx. simpl tr. rewrite tr_class_erase. simpl. auto.
  - (* concat *)
    rewrite live_hash_concat in *. rewrite strip_fx_concat.
    destruct (concat_extx l H f Hh) as (A1 & A2 & A3 & A4 & A5).
    destruct (strip_fx_list (fx f) l) as [l' x'] eqn:Es.
    cbn [fst snd] in *. rewrite !tr_concat.
    destruct (tr_list false f l) as [out f1]. destruct (tr_list false (erase_x f) l') as [out' f1'].
    cbn [fst snd] in *. rewrite !pr2_cat, !has_err_cat. auto.
  - (* union *)
    simpl in Hh.
    destruct (live_hash (fx f) a1) as [h1 x1] eqn:El1.
    specialize (IHa1 f). rewrite El1 in IHa1.
    destruct (live_hash x1 a2) as [h2 x2] eqn:El2.
    cbn [fst] in Hh. apply orb_false_iff in Hh. destruct Hh as [Hh1 Hh2]. subst h1 h2.
    destruct (IHa1 eq_refl) as (B1 & B2 & B3 & B4 & B5).
    simpl strip_fx. simpl live_hash. rewrite El1.
    destruct (strip_fx (fx f) a1) as [a1' xs1] eqn:Es1.
    simpl tr.
    destruct (tr f a1) as [y f1] eqn:E1.
    cbn [fst snd] in B1, B2, B3, B4, B5. subst xs1 x1.
    specialize (IHa2 f1). rewrite El2 in IHa2.
    destruct (IHa2 eq_refl) as (A1 & A2 & A3 & A4 & A5).
    rewrite El2.
    destruct (strip_fx (fx f1) a2) as [a2' xs2] eqn:Es2.
    cbn [fst snd] in A1, A2, A3, A4, A5 |- *. simpl tr.
    destruct (tr (erase_x f) a1') as [y' f1'] eqn:E1'.
    cbn [fst snd] in B1, B2, B3. subst f1'.
    destruct (tr f1 a2) as [z f2] eqn:E2.
    destruct (tr (erase_x f1) a2') as [z' f2'] eqn:E2'.
    cbn [fst snd] in A1, A2, A3, A4, A5 |- *.
    subst f2' xs2 x2. simpl. rewrite B1, B2, A1, A2. auto.
  - (* group with content *)
    destruct k as [| |name|st un].
    1-3: simpl in Hh; destruct (H f Hh) as (B1 & B2 & B3 & B4 & B5);
         simpl strip_fx; simpl live_hash; simpl tr;
         destruct (tr f b) as [y f1]; destruct (tr (erase_x f) (fst (strip_fx (fx f) b))) as [y' f1'];
         cbn [fst snd] in *; simpl; rewrite B1, B2; auto.
    simpl in Hh. rewrite <- fx_apply_after in Hh.
    destruct (H (apply_flags f st un) Hh) as (B1 & B2 & B3 & B4 & B5).
    simpl strip_fx. simpl live_hash. rewrite <- fx_apply_after.
    cbn [fst snd].
    assert (Htr : tr f (RGroup (GFlags st un) (Some b))
                  = if any_gflag (vis st) || any_gflag (vis un)
                    then (R2Group (G2Flags (vis st) (vis un)) (fst (tr (apply_flags f st un) b)), f)
                    else (R2Group (if any_flag st || any_flag un then G2NonCapture else G2Capture)
                                  (fst (tr (apply_flags f st un) b)), f)).
    { simpl tr. destruct (tr (apply_flags f st un) b) as [y f1].
      destruct (any_gflag (vis st) || any_gflag (vis un)); reflexivity. }
    rewrite Htr. clear Htr.
    set (b' := fst (strip_fx (fx (apply_flags f st un)) b)) in *.
    unfold kind_nox.
    destruct (any_gflag (vis st) || any_gflag (vis un)) eqn:Ev.
    + rewrite (any_flag_erase_vis st un Ev).
      simpl tr. rewrite !vis_erase, Ev, apply_erase.
      destruct (tr (erase_x (apply_flags f st un)) b') as [y' f1'] eqn:E2.
      cbn [fst snd] in *. simpl. rewrite B1, B2. auto.
    + destruct (any_flag (erase_x st) || any_flag (erase_x un)) eqn:Ea.
      * assert (Ha : any_flag st || any_flag un = true).
        { apply orb_true_iff in Ea. apply orb_true_iff.
          destruct Ea as [Ea'|Ea']; [left|right]; apply any_of_erase; exact Ea'. }
        rewrite Ha. simpl tr. rewrite !vis_erase, Ev, apply_erase, Ea.
        destruct (tr (erase_x (apply_flags f st un)) b') as [y' f1'] eqn:E2.
        cbn [fst snd] in *. simpl. rewrite B1, B2. auto.
      * destruct (any_flag st || any_flag un) eqn:Ha.
        -- (* only x was mentioned: `(?x:..)` becomes `(?:..)`; the content runs under apply_flags f st un,
              whose x-erasure is the x-erasure of f *)
           assert (Hap : erase_x (apply_flags f st un) = erase_x f).
           { apply orb_false_iff in Ea. destruct Ea as [Es Eu].
             destruct (erase_none st Es) as (S1 & S2 & S3 & S4 & S5).
             destruct (erase_none un Eu) as (U1 & U2 & U3 & U4 & U5).
             unfold erase_x, set_x, apply_flags. cbn [fi fm fs fU fx fa].
             rewrite S1, S2, S3, S4, S5, U1, U2, U3, U4, U5. cbn [negb].
             rewrite !orb_false_r, !andb_true_r. reflexivity. }
           simpl tr. rewrite <- Hap.
           destruct (tr (erase_x (apply_flags f st un)) b') as [y' f1'] eqn:E2.
           cbn [fst snd] in *. simpl. rewrite B1, B2. rewrite Hap. auto.
        -- simpl tr. rewrite !vis_erase, Ev, apply_erase, Ea.
           destruct (tr (erase_x (apply_flags f st un)) b') as [y' f1'] eqn:E2.
           cbn [fst snd] in *. simpl. rewrite B1, B2. auto.
  - (* group without content *)
    destruct k as [| |name|st un]; try (simpl; auto; fail).
    simpl strip_fx. simpl live_hash. simpl tr. rewrite !vis_erase, apply_erase.
    destruct (any_gflag (vis st) || any_gflag (vis un)); simpl; auto.
  - (* quantifier *)
    simpl in Hh. destruct (IHa f Hh) as (B1 & B2 & B3 & B4 & B5).
    simpl strip_fx. simpl live_hash.
    destruct (strip_fx (fx f) a) as [a' xs] eqn:Es.
    cbn [fst snd] in B1, B2, B3, B4, B5 |- *.
    simpl tr.
    destruct (tr f a) as [y f1]. destruct (tr (erase_x f) a') as [y' f1'].
    cbn [fst snd] in *. simpl. rewrite B1, B2. auto.
Qed.

(* regex.Transpile = regex.Transpile of the x-erased, stripped tree under the flags without x *)
Theorem extended_flags_text : forall f a, comment_free f a = true ->
  transpile_text f a = transpile_text (erase_x f) (strip_x f a).
Proof.
  intros f a Hc. unfold comment_free in Hc. apply negb_true_iff in Hc.
  destruct (extx_sound a f Hc) as (B1 & B2 & _).
  unfold transpile_text, transpile, strip_x. rewrite vis_erase.
  destruct (any_gflag (vis f)).
  - rewrite !has_err_cat, !pr2_cat. simpl. rewrite B1, B2. reflexivity.
  - rewrite B1, B2. reflexivity.
Qed.

(* the stripped tree is free of x: no flag group of it mentions x, and the final flags have x off *)
Lemma strip_fx_nox : forall a x, mentions_x (fst (strip_fx x a)) = false.
Proof.
  induction a as [a| | | | | | | |txt|neg items|l H|a1 a2 IHa1 IHa2|k b H|k|q alt a IHa] using re_ind2; intro x;
    try reflexivity.
  - destruct a; try reflexivity. simpl. destruct (x && is_space c); reflexivity.
  - rewrite strip_fx_concat.
    assert (G : forall x, mentions_x_list (fst (strip_fx_list x l)) = false).
    { induction H as [|e t He _ IH]; intro x0; [reflexivity|].
      cbn [strip_fx_list]. destruct (x0 && is_ws e); [apply IH|].
      specialize (He x0). destruct (strip_fx x0 e) as [e' x1]. specialize (IH x1).
      destruct (strip_fx_list x1 t) as [t' x2]. cbn [fst] in *. simpl. rewrite He, IH. reflexivity. }
    specialize (G x). destruct (strip_fx_list x l) as [l' x']. cbn [fst] in *.
    change (mentions_x (RConcat l')) with (mentions_x_list l'). exact G.
  - simpl. specialize (IHa1 x). destruct (strip_fx x a1) as [a1' x1]. specialize (IHa2 x1).
    destruct (strip_fx x1 a2) as [a2' x2]. cbn [fst] in *. simpl. rewrite IHa1, IHa2. reflexivity.
  - destruct k as [| |name|st un]; simpl; try apply H.
    rewrite H. unfold kind_nox.
    destruct (any_flag (erase_x st) || any_flag (erase_x un)); [reflexivity|].
    destruct (any_flag st || any_flag un); reflexivity.
  - destruct k; reflexivity.
  - simpl. specialize (IHa x). destruct (strip_fx x a) as [a' x1]. cbn [fst] in *. simpl. exact IHa.
Qed.

Lemma mentions_sets : forall a, mentions_x a = false -> sets_x a = false.
Proof.
  induction a as [a| | | | | | | |txt|neg items|l H|a1 a2 IHa1 IHa2|k b H|k|q alt a IHa] using re_ind2; intro Hm;
    try reflexivity.
  - change (mentions_x (RConcat l)) with (mentions_x_list l) in Hm. rewrite sets_x_concat.
    induction H as [|e t He _ IH]; [reflexivity|].
    simpl in Hm. apply orb_false_iff in Hm. destruct Hm as [M1 M2].
    simpl. rewrite (He M1), (IH M2). reflexivity.
  - simpl in *. apply orb_false_iff in Hm. destruct Hm as [M1 M2]. rewrite (IHa1 M1), (IHa2 M2). reflexivity.
  - simpl in *. apply orb_false_iff in Hm. destruct Hm as [M1 M2]. rewrite (H M2).
    destruct k as [| |name|st un]; try reflexivity.
    apply orb_false_iff in M1. destruct M1 as [M1 _]. rewrite M1. reflexivity.
  - simpl in *. rewrite orb_false_r in *. destruct k as [| |name|st un]; try reflexivity.
    apply orb_false_iff in Hm. destruct Hm as [M1 _]. exact M1.
  - simpl in *. exact (IHa Hm).
Qed.

(* the meaning of a pattern with inline x groups and no live `#`: its text is the text of the stripped,
   x-free tree, and that tree's emitted term matches exactly what the stripped tree denotes *)
Theorem extended_flags_sound : forall orbit uni posix (s : list Z) f a,
  comment_free f a = true -> transpile_text f a <> None ->
  transpile_text f a = transpile_text (erase_x f) (strip_x f a)
  /\ Model.C21_RegexSem.matches_re2 orbit uni posix s (transpile (erase_x f) (strip_x f a))
     = Model.C21_RegexSem.matches_elk orbit uni posix s (erase_x f) (strip_x f a).
Proof.
  intros orbit uni posix s f a Hc Hn. pose proof (extended_flags_text f a Hc) as Ht.
  split; [exact Ht|].
  apply transpile_sound.
  - reflexivity.
  - apply mentions_sets. apply strip_fx_nox.
  - rewrite <- Ht. exact Hn.
Qed.
