(* C02 - proofs about the generic class / implicit interface fragment (Model/C02_Iface.v). *)
From Coq Require Import ZArith List Bool Lia.
From Elk Require Import Model.C02_Iface.
Import ListNotations.
Open Scope Z_scope.

(* ---------------------------------------------------------------- atoms *)
Lemma atom_eqb_eq : forall a b, atom_eqb a b = true <-> a = b.
Proof. intros a b; destruct a, b; cbn; split; intro H; try reflexivity; try discriminate. Qed.

Lemma ain_In : forall a l, ain a l = true <-> In a l.
Proof.
  intros a l; unfold ain; rewrite existsb_exists; split.
  - intros [x [Hin Heq]]. apply atom_eqb_eq in Heq. subst. exact Hin.
  - intro Hin. exists a. split; [exact Hin | apply atom_eqb_eq; reflexivity].
Qed.

Lemma ain_app : forall a l1 l2, ain a (l1 ++ l2) = ain a l1 || ain a l2.
Proof. intros; unfold ain; apply existsb_app. Qed.

Lemma asub_ain : forall xs ys a, asub xs ys = true -> ain a xs = true -> ain a ys = true.
Proof.
  intros xs ys a Hs Ha. unfold asub in Hs. rewrite forallb_forall in Hs.
  apply Hs. apply ain_In. exact Ha.
Qed.

Lemma bat_mono : forall s t b a, asub s t = true -> ain a (bat s b) = true -> ain a (bat t b) = true.
Proof.
  intros s t b a Hst. induction b as [x | | x IHx y IHy]; cbn [bat]; intro H.
  - exact H.
  - eapply asub_ain; eauto.
  - rewrite ain_app in *. apply orb_true_iff in H. apply orb_true_iff.
    destruct H as [H | H]; [left; apply IHx | right; apply IHy]; exact H.
Qed.

Lemma asub_nil : forall t, asub [] t = true.
Proof. reflexivity. Qed.

Lemma bat_nil_mono : forall s b a, ain a (bat [] b) = true -> ain a (bat s b) = true.
Proof. intros s b a; apply bat_mono; apply asub_nil. Qed.

Lemma has_var_incl : forall s b a, has_var b = true -> ain a s = true -> ain a (bat s b) = true.
Proof.
  intros s b a. induction b as [x | | x IHx y IHy]; cbn [has_var bat]; intros Hv Ha.
  - discriminate.
  - exact Ha.
  - rewrite ain_app. apply orb_true_iff. apply orb_true_iff in Hv.
    destruct Hv as [Hv | Hv]; [left; apply IHx | right; apply IHy]; assumption.
Qed.

Lemma bat_split : forall s b a, ain a (bat s b) = true ->
  ain a (bat [] b) = true \/ (has_var b = true /\ ain a s = true).
Proof.
  intros s b a. induction b as [x | | x IHx y IHy]; cbn [has_var bat]; intro H.
  - left; exact H.
  - right; split; [reflexivity | exact H].
  - rewrite ain_app in H. apply orb_true_iff in H. destruct H as [H | H].
    + destruct (IHx H) as [H1 | [H1 H2]].
      * left. rewrite ain_app, H1. reflexivity.
      * right. split; [rewrite H1; reflexivity | exact H2].
    + destruct (IHy H) as [H1 | [H1 H2]].
      * left. rewrite ain_app, H1. apply orb_true_r.
      * right. split; [rewrite H1; apply orb_true_r | exact H2].
Qed.

(* ---------------------------------------------------------------- tables *)
Lemma zfind_In : forall (A : Type) k (l : list (Z * A)) a, zfind k l = Some a -> In (k, a) l.
Proof.
  intros A k l. induction l as [| [j x] r IH]; cbn [zfind]; intros a H.
  - discriminate.
  - destruct (j =? k) eqn:E.
    + apply Z.eqb_eq in E. inversion H. subst. left; reflexivity.
    + right. apply IH. exact H.
Qed.

Lemma zfind_csigs : forall ms m sg,
  zfind m (map (fun x : cmeth => (fst x, fst (snd x))) ms) = Some sg ->
  exists b, zfind m ms = Some (sg, b).
Proof.
  induction ms as [| [j [sg0 b0]] r IH]; cbn [map zfind fst snd]; intros m sg H.
  - discriminate.
  - destruct (j =? m) eqn:E.
    + inversion H. subst. exists b0. reflexivity.
    + apply IH. exact H.
Qed.

Lemma cmeths_body_ok : forall ct c m sg b,
  ctab_ok ct = true -> zfind m (cmeths ct c) = Some (sg, b) -> body_ok sg b = true.
Proof.
  intros ct c m sg b Hok Hf. unfold cmeths in Hf.
  destruct (zfind c ct) as [ms |] eqn:Ec; [| discriminate].
  apply zfind_In in Ec. apply zfind_In in Hf.
  unfold ctab_ok in Hok. rewrite forallb_forall in Hok. specialize (Hok _ Ec). cbn [snd] in Hok.
  rewrite forallb_forall in Hok. specialize (Hok _ Hf). exact Hok.
Qed.

(* a body that fits its signature returns a value of the return type, for EVERY type argument *)
Lemma body_sound : forall S sg b item arg,
  body_ok sg b = true ->
  ain (fst item) S = true ->
  match fst sg with
  | None => arg = None
  | Some p => exists a, arg = Some a /\ bmem S p a = true
  end ->
  exists r, run_body b item arg = Some r /\ bmem S (snd sg) r = true.
Proof.
  intros S [p R] b item arg Hok Hitem Harg. cbn [fst snd] in *.
  destruct b as [| k |]; cbn [body_ok run_body fst snd] in *.
  - exists item. split; [reflexivity |]. unfold bmem. apply has_var_incl; assumption.
  - exists k. split; [reflexivity |]. unfold bmem. apply bat_nil_mono. exact Hok.
  - destruct p as [p |]; [| discriminate].
    destruct Harg as [a [Ha Hm]]. subst arg. exists a. split; [reflexivity |].
    apply andb_true_iff in Hok. destruct Hok as [Hs Hv].
    unfold bmem in *. destruct (bat_split _ _ _ Hm) as [H0 | [Hpv HaS]].
    + apply bat_nil_mono. eapply asub_ain; eauto.
    + rewrite Hpv in Hv. cbn in Hv. apply has_var_incl; assumption.
Qed.

(* ---------------------------------------------------------------- structural rule *)
Lemma impl_ok_find : forall s t impls absts am,
  impl_ok s t impls absts = true -> In am absts ->
  exists sg, zfind (fst am) impls = Some sg /\ compat s t sg (snd am) = true.
Proof.
  intros s t impls absts am H Hin. unfold impl_ok in H. rewrite forallb_forall in H.
  specialize (H _ Hin). destruct (zfind (fst am) impls) as [sg |]; [| discriminate].
  exists sg. split; [reflexivity | exact H].
Qed.

(* the implementation responds under s  ==>  the abstract signature is honoured under t *)
Lemma compat_responds : forall ct s t c item m sg asg,
  compat s t sg asg = true ->
  responds ct s c item (m, sg) ->
  responds ct t c item (m, asg).
Proof.
  intros ct s t c item m [p' R'] [p R] Hc Hr. unfold compat in Hc. cbn [fst snd] in Hc.
  apply andb_true_iff in Hc. destruct Hc as [Hp HR].
  unfold responds in *. cbn [fst snd] in *.
  destruct p as [p |], p' as [p' |]; try discriminate.
  - intros a Ha. unfold bmem in *.
    destruct (Hr a (asub_ain _ _ _ Hp Ha)) as [r [Hcall Hm]].
    exists r. split; [exact Hcall | eapply asub_ain; eauto].
  - destruct Hr as [r [Hcall Hm]]. exists r. split; [exact Hcall |].
    unfold bmem in *. eapply asub_ain; eauto.
Qed.

(* an object of class c with a well-typed item responds to every method its class defines *)
Lemma class_responds : forall ct c sarg item m sg b,
  ctab_ok ct = true ->
  zfind m (cmeths ct c) = Some (sg, b) ->
  bmem [] sarg item = true ->
  responds ct (bat [] sarg) c item (m, sg).
Proof.
  intros ct c sarg item m [p R] b Hok Hf Hitem.
  pose proof (cmeths_body_ok _ _ _ _ _ Hok Hf) as Hb.
  unfold responds. cbn [fst snd]. destruct p as [p |].
  - intros a Ha.
    destruct (body_sound (bat [] sarg) (Some p, R) b item (Some a) Hb Hitem) as [r [Hr Hm]].
    { cbn [fst]. exists a. split; [reflexivity | exact Ha]. }
    exists r. split; [| exact Hm]. unfold gcall. rewrite Hf. exact Hr.
  - destruct (body_sound (bat [] sarg) (None, R) b item None Hb Hitem) as [r [Hr Hm]].
    { reflexivity. }
    exists r. split; [| exact Hm]. unfold gcall. rewrite Hf. exact Hr.
Qed.

Lemma invariant_responds : forall ct s t c item am,
  invariant s t = true -> responds ct s c item am -> responds ct t c item am.
Proof.
  intros ct s t c item [m [p R]] Hinv Hr. unfold invariant in Hinv.
  apply andb_true_iff in Hinv. destruct Hinv as [Hst Hts].
  unfold responds in *. cbn [fst snd] in *. destruct p as [p |].
  - intros a Ha. unfold bmem in *.
    destruct (Hr a (bat_mono _ _ _ _ Hts Ha)) as [r [Hcall Hm]].
    exists r. split; [exact Hcall | eapply bat_mono; eauto].
  - destruct Hr as [r [Hcall Hm]]. exists r. split; [exact Hcall |].
    unfold bmem in *. eapply bat_mono; eauto.
Qed.

(* ---------------------------------------------------------------- soundness of subtyping *)
Lemma iface_subtype_sound : forall ct it a b v,
  ctab_ok ct = true -> isub ct it a b = true -> gmem ct it a v -> gmem ct it b v.
Proof.
  intros ct it a b v Hok Hs Hm.
  destruct a as [x | c s | j s], b as [y | d t | i t]; cbn [isub] in Hs; try discriminate.
  - destruct v as [w | ? ?]; cbn [gmem] in *; [| contradiction].
    unfold bmem in *. eapply asub_ain; eauto.
  - destruct v as [w | e item]; cbn [gmem] in *; [contradiction |].
    apply andb_true_iff in Hs. destruct Hs as [Hcd Hinv]. apply Z.eqb_eq in Hcd.
    destruct Hm as [Hce Hitem]. split; [congruence |].
    unfold invariant in Hinv. apply andb_true_iff in Hinv. destruct Hinv as [Hst _].
    unfold bmem in *. eapply asub_ain; eauto.
  - destruct v as [w | e item]; cbn [gmem] in *; [contradiction |].
    destruct Hm as [Hce Hitem]. subst e. intros am Hin.
    destruct (impl_ok_find _ _ _ _ _ Hs Hin) as [sg [Hf Hc]].
    unfold csigs in Hf. destruct (zfind_csigs _ _ _ Hf) as [bd Hf2].
    destruct am as [m asg]. cbn [fst snd] in *.
    eapply compat_responds; [exact Hc |].
    eapply class_responds; eauto.
  - destruct v as [w | e item]; cbn [gmem] in *; [contradiction |].
    destruct (j =? i) eqn:E.
    + apply Z.eqb_eq in E. subst j. intros am Hin.
      eapply invariant_responds; [exact Hs | apply Hm; exact Hin].
    + intros am Hin.
      destruct (impl_ok_find _ _ _ _ _ Hs Hin) as [sg [Hf Hc]].
      destruct am as [m asg]. cbn [fst snd] in *.
      eapply compat_responds; [exact Hc |].
      apply Hm. apply zfind_In. exact Hf.
Qed.

(* ---------------------------------------------------------------- calls through an interface type *)
Definition arg_fits (t : list atom) (p : option bty) (arg : option bval) : Prop :=
  match p with
  | None => arg = None
  | Some p0 => exists a, arg = Some a /\ bmem t p0 a = true
  end.

Lemma iface_call_preservation : forall ct it i t d item m p R arg,
  gmem ct it (GI i t) (VO d item) ->
  In (m, (p, R)) (imeths it i) ->
  arg_fits (bat [] t) p arg ->
  exists r, gcall ct d item m arg = Some r /\ bmem (bat [] t) R r = true.
Proof.
  intros ct it i t d item m p R arg Hm Hin Ha. cbn [gmem] in Hm.
  specialize (Hm _ Hin). unfold responds in Hm. cbn [fst snd] in Hm.
  destruct p as [p |]; cbn [arg_fits] in Ha.
  - destruct Ha as [a [Ha Hb]]. subst arg. apply Hm. exact Hb.
  - subst arg. exact Hm.
Qed.

Lemma iface_pass_call_sound : forall ct it a i t v m p R arg,
  ctab_ok ct = true ->
  isub ct it a (GI i t) = true ->
  gmem ct it a v ->
  In (m, (p, R)) (imeths it i) ->
  arg_fits (bat [] t) p arg ->
  exists d item r, v = VO d item /\ gcall ct d item m arg = Some r /\ bmem (bat [] t) R r = true.
Proof.
  intros ct it a i t v m p R arg Hok Hs Hm Hin Ha.
  pose proof (iface_subtype_sound _ _ _ _ _ Hok Hs Hm) as Hv.
  destruct v as [w | d item]; [cbn in Hv; contradiction |].
  destruct (iface_call_preservation _ _ _ _ _ _ _ _ _ _ Hv Hin Ha) as [r [Hc Hr]].
  exists d, item, r. repeat split; assumption.
Qed.

(* ---------------------------------------------------------------- the executable membership *)
Lemma gcall_atom : forall ct c item m a a' r,
  gcall ct c item m (Some a) = Some r -> fst a = fst a' ->
  exists r', gcall ct c item m (Some a') = Some r' /\ fst r' = fst r.
Proof.
  intros ct c item m a a' r H Hf. unfold gcall in *.
  destruct (zfind m (cmeths ct c)) as [[[p R] b] |]; [| discriminate].
  destruct p as [p |]; [| discriminate].
  destruct b as [| k |]; cbn [run_body] in *.
  - exists r. split; [exact H | reflexivity].
  - exists r. split; [exact H | reflexivity].
  - inversion H. subst. exists a'. split; [reflexivity | symmetry; exact Hf].
Qed.

Lemma rep_of : forall a : bval, In (fst a, 0) reps.
Proof. intros [[ | | | ] z]; cbn; tauto. Qed.

Lemma responds_b_iff : forall ct t c item am, responds_b ct t c item am = true <-> responds ct t c item am.
Proof.
  intros ct t c item [m [p R]]. unfold responds_b, responds. cbn [fst snd].
  destruct p as [p |].
  - rewrite forallb_forall. split.
    + intros H a Ha. specialize (H _ (rep_of a)).
      assert (Hrep : bmem t p (fst a, 0) = true) by (unfold bmem in *; exact Ha).
      rewrite Hrep in H. cbn [negb orb] in H.
      match type of H with (match ?g with _ => _ end) = true => destruct g as [r0 |] eqn:E end; [| discriminate H].
      destruct (gcall_atom _ _ _ _ _ a _ E eq_refl) as [r' [Hc Hf]].
      exists r'. split; [exact Hc |]. unfold bmem in *. rewrite Hf. exact H.
    + intros H a _. destruct (bmem t p a) eqn:Ea; [| reflexivity]. cbn [negb orb].
      destruct (H a Ea) as [r [Hc Hm]]. rewrite Hc. exact Hm.
  - split.
    + destruct (gcall ct c item m None) as [r |]; intro H; [| discriminate H].
      exists r. split; [reflexivity | exact H].
    + intros [r [Hc Hm]]. rewrite Hc. exact Hm.
Qed.

Lemma gmem_b_iff : forall ct it ty v, gmem_b ct it ty v = true <-> gmem ct it ty v.
Proof.
  intros ct it ty v. destruct ty as [b | c s | i t], v as [x | d item]; cbn [gmem_b gmem];
    try (split; [discriminate | contradiction]).
  - tauto.
  - rewrite andb_true_iff, Z.eqb_eq. tauto.
  - rewrite forallb_forall. split.
    + intros H am Hin. apply responds_b_iff. apply H. exact Hin.
    + intros H am Hin. apply responds_b_iff. apply H. exact Hin.
Qed.

(* ---------------------------------------------------------------- histories *)
Lemma hist_independent : forall ct it pre q post,
  nth (length pre) (hist ct it (pre ++ q :: post)) false = isub ct it (fst q) (snd q).
Proof.
  intros ct it pre q post. unfold hist. rewrite map_app. cbn [map].
  rewrite app_nth2; rewrite map_length; [| lia].
  rewrite Nat.sub_diag. reflexivity.
Qed.

Lemma hist_length : forall ct it qs, length (hist ct it qs) = length qs.
Proof. intros; unfold hist; apply map_length. Qed.
