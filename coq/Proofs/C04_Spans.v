(* C04 - proofs about Model/C04_Spans.v. *)
From Coq Require Import ZifyBool ZifyNat.
From Elk Require Import Base.GoSem Base.Utf8 Model.C04_Spans Proofs.Utf8_Decode.
Open Scope Z_scope.

(* ------------------------------------------------------------------ lists *)

Lemma skipn_add {A} (a b : nat) (l : list A) : skipn (a + b) l = skipn b (skipn a l).
Proof.
  revert l. induction a as [|a IH]; intros l; [reflexivity|].
  destruct l as [|x l]; [cbn; rewrite skipn_nil; reflexivity|]. cbn [Nat.add skipn]. apply IH.
Qed.

Lemma len_app (a b : list Z) : len (a ++ b) = len a + len b.
Proof. unfold len. rewrite app_length. lia. Qed.

Lemma len_nonneg (s : list Z) : 0 <= len s.
Proof. unfold len. lia. Qed.

(* s[a:b] ++ s[b:] = s[a:] *)
Lemma slice_skipn s a b :
  0 <= a -> a <= b -> slice s a b ++ skipn (Z.to_nat b) s = skipn (Z.to_nat a) s.
Proof.
  intros Ha Hab. unfold slice.
  replace (Z.to_nat b) with (Z.to_nat a + Z.to_nat (b - a))%nat by lia.
  rewrite skipn_add. apply firstn_skipn.
Qed.

Lemma skipn_len s : skipn (Z.to_nat (len s)) s = [].
Proof. unfold len. rewrite Nat2Z.id. apply skipn_all. Qed.

Lemma slice_to_end s a : 0 <= a -> a <= len s -> slice s a (len s) = skipn (Z.to_nat a) s.
Proof.
  intros H0 H1. rewrite <- (slice_skipn s a (len s)) by lia. rewrite skipn_len, app_nil_r. reflexivity.
Qed.

Lemma forallb_firstn {A} (f : A -> bool) n l : forallb f l = true -> forallb f (firstn n l) = true.
Proof.
  revert l. induction n as [|n IH]; intros l H; [reflexivity|].
  destruct l as [|x l]; [reflexivity|]. cbn in *. apply andb_true_iff in H as [H1 H2].
  rewrite H1. cbn. apply IH, H2.
Qed.

Lemma forallb_skipn {A} (f : A -> bool) n l : forallb f l = true -> forallb f (skipn n l) = true.
Proof.
  revert l. induction n as [|n IH]; intros l H; [exact H|].
  destruct l as [|x l]; [reflexivity|]. cbn in *. apply andb_true_iff in H as [H1 H2]. apply IH, H2.
Qed.

Lemma no_esc_slice s a b : no_esc s = true -> no_esc (slice s a b) = true.
Proof. intros H. unfold no_esc, slice. apply forallb_firstn, forallb_skipn, H. Qed.

(* ------------------------------------------------------------------ strip *)

Lemma strip_noesc s r : no_esc s = true -> strip_aux SNorm (s ++ r) = s ++ strip_aux SNorm r.
Proof.
  induction s as [|b s IH]; intros H; [reflexivity|].
  cbn in H. apply andb_true_iff in H as [Hb Hs].
  cbn [app strip_aux]. destruct (b =? ESC) eqn:E; [discriminate|].
  rewrite IH by exact Hs. reflexivity.
Qed.

Lemma is_param_not_m : is_param 109 = false.
Proof. reflexivity. Qed.

Lemma strip_csi ps : forall acc r,
  forallb is_param ps = true -> strip_aux (SCsi acc) (ps ++ 109 :: r) = strip_aux SNorm r.
Proof.
  induction ps as [|b ps IH]; intros acc r H.
  - cbn [app strip_aux]. rewrite is_param_not_m. reflexivity.
  - cbn in H. apply andb_true_iff in H as [Hb Hps].
    cbn [app strip_aux]. rewrite Hb. apply IH, Hps.
Qed.

Lemma strip_pre t r :
  forallb is_param (t_sgr t) = true -> strip_aux SNorm (sgr_pre t ++ r) = strip_aux SNorm r.
Proof.
  intros H. unfold sgr_pre. cbn [app strip_aux]. rewrite Z.eqb_refl. cbn [strip_aux].
  change (91 =? 91) with true. cbv iota.
  rewrite <- app_assoc. cbn [app]. apply strip_csi, H.
Qed.

Lemma strip_suf r : strip_aux SNorm (sgr_suf ++ r) = strip_aux SNorm r.
Proof. reflexivity. Qed.

(* ------------------------------------------------------------------ the step condition, unfolded *)

Lemma pair_eqb_eq a b : pair_eqb a b = true -> a = b.
Proof.
  destruct a, b. unfold pair_eqb. cbn [fst snd]. intros H.
  apply andb_true_iff in H as [H1 H2]. f_equal; lia.
Qed.

Lemma step_ok_facts src prev t :
  step_ok src prev t = true ->
  prev <= t_start t /\ t_start t <= t_end t + 1 /\ t_end t + 1 <= len src /\
  pos_at src (t_start t) = Some (t_line t, t_col t) /\
  exists pe, pos_at src (t_end t + 1) = Some pe /\ end_expected t pe = (t_eline t, t_ecol t).
Proof.
  unfold step_ok, step_code. intros H.
  destruct (t_start t <? prev) eqn:E1; [discriminate|].
  destruct (t_end t + 1 <? t_start t) eqn:E2; [discriminate|].
  destruct (len src <? t_end t + 1) eqn:E3; [discriminate|].
  destruct (pos_at src (t_start t)) as [ps|] eqn:E4; [|discriminate].
  destruct (pair_eqb ps (t_line t, t_col t)) eqn:E5; cbn [negb] in H; [|discriminate].
  destruct (pos_at src (t_end t + 1)) as [pe|] eqn:E6; [|discriminate].
  destruct (pair_eqb (end_expected t pe) (t_eline t, t_ecol t)) eqn:E7; cbn [negb] in H; [|discriminate].
  apply pair_eqb_eq in E5. apply pair_eqb_eq in E7. subst ps.
  repeat split; try lia. exists pe. split; [reflexivity|exact E7].
Qed.

Lemma chain_first_bad_ok src : forall toks prev i,
  chain_first_bad src prev toks i = None <-> chain_ok src prev toks = true.
Proof.
  induction toks as [|t r IH]; intros prev i; cbn [chain_first_bad chain_ok]; [tauto|].
  unfold step_ok. destruct (step_code src prev t =? 0) eqn:E; cbn [andb].
  - apply IH.
  - split; discriminate.
Qed.

(* ------------------------------------------------------------------ partition *)

Definition in_range (src : list Z) (t : tok) : Prop :=
  0 <= t_start t /\ t_start t <= t_end t + 1 /\ t_end t + 1 <= len src.

(* every byte of a precedes every byte of b *)
Definition before (a b : tok) : Prop := t_end a + 1 <= t_start b.

Definition disjoint (a b : tok) : Prop :=
  forall k, ~ (t_start a <= k <= t_end a /\ t_start b <= k <= t_end b).

Lemma FOP_impl {A} (R S : A -> A -> Prop) l :
  (forall a b, R a b -> S a b) -> ForallOrdPairs R l -> ForallOrdPairs S l.
Proof.
  intros H. induction 1 as [|a l Ha _ IH]; constructor; [|exact IH].
  eapply Forall_impl; [|exact Ha]. intros b. apply H.
Qed.

Lemma chain_partition src : forall toks prev,
  0 <= prev -> chain_ok src prev toks = true ->
  Forall (fun t => prev <= t_start t /\ in_range src t) toks /\ ForallOrdPairs before toks.
Proof.
  induction toks as [|t r IH]; intros prev Hp H; [split; constructor|].
  cbn [chain_ok] in H. apply andb_true_iff in H as [Ht Hr].
  apply step_ok_facts in Ht as (F1 & F2 & F3 & _).
  destruct (IH (t_end t + 1) ltac:(lia) Hr) as [IHa IHb].
  split.
  - constructor; [unfold in_range; lia|].
    eapply Forall_impl; [|exact IHa]. cbv beta. intros a [A1 A2]. split; [lia|exact A2].
  - constructor; [|exact IHb].
    eapply Forall_impl; [|exact IHa]. cbv beta. intros a [A1 _]. unfold before. lia.
Qed.

Lemma partition_all src toks :
  chain_ok src 0 toks = true ->
  Forall (in_range src) toks /\ ForallOrdPairs before toks /\ ForallOrdPairs disjoint toks.
Proof.
  intros H. destruct (chain_partition src toks 0 ltac:(lia) H) as [A B].
  split; [|split].
  - eapply Forall_impl; [|exact A]. cbv beta. tauto.
  - exact B.
  - eapply FOP_impl; [|exact B]. unfold before, disjoint. intros a b Hab k. lia.
Qed.

(* ------------------------------------------------------------------ colouring *)

Lemma go_slice_ok s a b : 0 <= a -> a <= b -> b <= len s -> go_slice s a b = Ok (slice s a b).
Proof.
  intros. unfold go_slice.
  replace ((0 <=? a) && (a <=? b) && (b <=? len s)) with true by lia. reflexivity.
Qed.

Lemma colorize_strip src :
  no_esc src = true ->
  forall toks prev, 0 <= prev -> prev <= len src ->
  chain_ok src prev toks = true -> sgr_ok toks = true ->
  exists out, colorize_from src prev toks = Ok out /\ strip out = skipn (Z.to_nat prev) src.
Proof.
  intros Hne. induction toks as [|t r IH]; intros prev Hp0 Hp1 Hc Hs.
  - cbn [colorize_from]. rewrite go_slice_ok by lia. eexists. split; [reflexivity|].
    rewrite slice_to_end by lia. unfold strip.
    rewrite <- (app_nil_r (skipn _ src)) at 1. rewrite strip_noesc; [cbn; apply app_nil_r|].
    apply forallb_skipn, Hne.
  - cbn [chain_ok] in Hc. apply andb_true_iff in Hc as [Ht Hr].
    cbn [sgr_ok forallb] in Hs. apply andb_true_iff in Hs as [Hst Hsr].
    apply step_ok_facts in Ht as (F1 & F2 & F3 & _).
    destruct (IH (t_end t + 1) ltac:(lia) F3 Hr Hsr) as (rest & Er & Sr).
    cbn [colorize_from]. rewrite !go_slice_ok by lia. cbn [bind]. rewrite Er. cbn [bind].
    eexists. split; [reflexivity|].
    unfold strip in *.
    rewrite strip_noesc by (apply no_esc_slice, Hne).
    rewrite strip_pre by exact Hst.
    rewrite strip_noesc by (apply no_esc_slice, Hne).
    rewrite strip_suf. rewrite Sr.
    rewrite slice_skipn by lia. apply slice_skipn; lia.
Qed.

Lemma colorize_id src toks :
  chain_ok src 0 toks = true -> no_esc src = true -> sgr_ok toks = true ->
  exists out, colorize src toks = Ok out /\ strip out = src.
Proof.
  intros Hc Hn Hs.
  destruct (colorize_strip src Hn toks 0 ltac:(lia) (len_nonneg src) Hc Hs) as (out & E & S).
  exists out. split; [exact E|exact S].
Qed.

(* without the no_esc premise: colouring never panics and always yields gaps and lexemes *)
Lemma colorize_total src : forall toks prev, 0 <= prev -> prev <= len src ->
  chain_ok src prev toks = true -> exists out, colorize_from src prev toks = Ok out.
Proof.
  induction toks as [|t r IH]; intros prev Hp0 Hp1 Hc.
  - cbn [colorize_from]. rewrite go_slice_ok by lia. eexists. reflexivity.
  - cbn [chain_ok] in Hc. apply andb_true_iff in Hc as [Ht Hr].
    apply step_ok_facts in Ht as (F1 & F2 & F3 & _).
    destruct (IH (t_end t + 1) ltac:(lia) F3 Hr) as (rest & Er).
    cbn [colorize_from]. rewrite !go_slice_ok by lia. cbn [bind]. rewrite Er. cbn [bind].
    eexists. reflexivity.
Qed.

(* ------------------------------------------------------------------ positions *)

(* n is a rune boundary of the decoding of src and p = (line, column) counted over the runes before it *)
Definition good (src : list Z) (n : Z) (p : Z * Z) : Prop :=
  exists pre post dpre,
    src = pre ++ post /\ len pre = n /\
    decode_steps src = dpre ++ decode_steps post /\ fold_left bump dpre (1, 1) = p.

Lemma good_zero src : good src 0 (1, 1).
Proof. exists [], src, []. repeat split. Qed.

Lemma skipn_len_app (pre post : list Z) : skipn (Z.to_nat (len pre)) (pre ++ post) = post.
Proof.
  unfold len. rewrite Nat2Z.id, skipn_app, skipn_all, Nat.sub_diag. reflexivity.
Qed.

Lemma firstn_len_app (pre post : list Z) : firstn (length pre) (pre ++ post) = pre.
Proof. rewrite firstn_app, firstn_all, Nat.sub_diag. cbn. apply app_nil_r. Qed.

Local Opaque decode_rune.

(* one decoding step from a good position *)
Lemma good_step src pre post dpre b t :
  src = pre ++ post -> post = b :: t -> decode_steps src = dpre ++ decode_steps post ->
  let d := decode_rune post in
  let x := mkStep (fst d) (snd d) b in
  let k := Z.to_nat (snd d) in
  src = (pre ++ firstn k post) ++ skipn k post /\
  len (pre ++ firstn k post) = len pre + snd d /\
  decode_steps src = (dpre ++ [x]) ++ decode_steps (skipn k post) /\
  decode_steps post = x :: decode_steps (skipn k post) /\
  1 <= snd d /\ snd d <= len post.
Proof.
  intros Hs Hp Hd. subst post. cbv zeta.
  pose proof (decode_rune_size_pos b t) as P1.
  pose proof (decode_rune_size_le (b :: t)) as P2.
  pose proof (decode_steps_cons b t) as C.
  repeat split.
  - rewrite <- app_assoc, firstn_skipn. exact Hs.
  - rewrite len_app. f_equal. unfold len. rewrite firstn_length_le; lia.
  - rewrite Hd, C, <- app_assoc. reflexivity.
  - exact C.
  - lia.
  - unfold len. lia.
Qed.

Lemma find_pos_sound src : forall l post pre dpre p n q,
  src = pre ++ post -> decode_steps post = l -> decode_steps src = dpre ++ l ->
  fold_left bump dpre (1, 1) = p ->
  find_pos l (len pre) p n = Some q -> good src n q.
Proof.
  induction l as [|x r IH]; intros post pre dpre p n q Hs Hl Hd Hp Hf.
  - cbn [find_pos] in Hf. destruct (len pre =? n) eqn:E; [|discriminate].
    injection Hf as <-. exists pre, post, dpre. rewrite Hl. repeat split; try assumption. lia.
  - cbn [find_pos] in Hf. destruct (len pre =? n) eqn:E.
    + injection Hf as <-. exists pre, post, dpre. rewrite Hl. repeat split; try assumption. lia.
    + destruct (n <? len pre + st_size x) eqn:E2; [discriminate|].
      destruct post as [|b t]; [discriminate|].
      assert (Hd' : decode_steps src = dpre ++ decode_steps (b :: t)) by (rewrite Hl; exact Hd).
      destruct (good_step src pre (b :: t) dpre b t Hs eq_refl Hd') as (G1 & G2 & G3 & G4 & _ & _).
      rewrite Hl in G4. injection G4 as Gx Gr.
      eapply (IH _ _ (dpre ++ [x]) (bump p x)); [exact G1|symmetry; exact Gr| | |].
      * rewrite G3, <- Gx, <- Gr. reflexivity.
      * rewrite fold_left_app, Hp. reflexivity.
      * rewrite G2. rewrite Gx in Hf at 1. cbn [st_size] in Hf. exact Hf.
Qed.

Lemma pos_at_sound src n q : pos_at src n = Some q -> good src n q.
Proof.
  unfold pos_at. intros H.
  apply (find_pos_sound src (decode_steps src) src [] [] (1, 1) n q); try reflexivity. exact H.
Qed.

Lemma good_unique src n p q : good src n p -> good src n q -> p = q.
Proof.
  intros (pre & post & dpre & S1 & L1 & D1 & F1) (pre' & post' & dpre' & S2 & L2 & D2 & F2).
  assert (Hpre : pre = pre').
  { rewrite <- (firstn_len_app pre post), <- (firstn_len_app pre' post'), <- S1, <- S2.
    f_equal. unfold len in *. lia. }
  subst pre'. rewrite S1 in S2. apply app_inv_head in S2. subst post'.
  rewrite D1 in D2. apply app_inv_tail in D2. subst dpre'. congruence.
Qed.

Lemma zsum_app a b : zsum (a ++ b) = zsum a + zsum b.
Proof. induction a as [|x a IH]; cbn; [reflexivity|]. unfold zsum in *. cbn. lia. Qed.

Lemma find_pos_complete : forall dpre l o p,
  Forall (fun x => 1 <= st_size x) dpre ->
  find_pos (dpre ++ l) o p (o + zsum (map st_size dpre)) = Some (fold_left bump dpre p).
Proof.
  induction dpre as [|x d IH]; intros l o p HF.
  - cbn. destruct l; cbn [find_pos]; replace (o =? o + 0) with true by lia; reflexivity.
  - inversion HF as [|x' d' Hx Hd]; subst.
    assert (0 <= zsum (map st_size d)).
    { clear -Hd. induction Hd as [|y d Hy _ IHd]; cbn; [lia|]. unfold zsum in *. cbn. lia. }
    cbn [app map find_pos fold_left].
    assert (E : zsum (st_size x :: map st_size d) = st_size x + zsum (map st_size d)) by reflexivity.
    rewrite E.
    replace (o =? o + (st_size x + zsum (map st_size d))) with false by lia.
    replace (o + (st_size x + zsum (map st_size d)) <? o + st_size x) with false by lia.
    replace (o + (st_size x + zsum (map st_size d))) with ((o + st_size x) + zsum (map st_size d)) by lia.
    apply IH, Hd.
Qed.

Lemma pos_at_complete src n p : good src n p -> pos_at src n = Some p.
Proof.
  intros (pre & post & dpre & S & L & D & F).
  pose proof (step_sizes_bounds src) as B. rewrite D in B. apply Forall_app in B as [B _].
  pose proof (sizes_sum src) as Z1. pose proof (sizes_sum post) as Z2.
  unfold sizes in Z1, Z2. rewrite D, map_app, zsum_app, Z2 in Z1.
  rewrite S, app_length in Z1. unfold len in L.
  assert (Hn : n = 0 + zsum (map st_size dpre)) by lia.
  unfold pos_at. rewrite D, Hn, find_pos_complete.
  - rewrite F. reflexivity.
  - eapply Forall_impl; [|exact B]. cbv beta. intros; lia.
Qed.

(* advancing by the rune decoded at a good position gives a good position *)
Lemma good_adv src n p :
  good src n p -> n < len src ->
  let d := decode_rune (skipn (Z.to_nat n) src) in
  good src (n + snd d) (if fst d =? 10 then (fst p + 1, 1) else (fst p, snd p + 1)) /\
  1 <= snd d /\ n + snd d <= len src.
Proof.
  intros (pre & post & dpre & S & L & D & F) Hn.
  assert (Hpost : skipn (Z.to_nat n) src = post) by (rewrite S, <- L; apply skipn_len_app).
  rewrite Hpost. cbv zeta.
  destruct post as [|b t].
  { exfalso. rewrite S, len_app in Hn. unfold len in *. cbn in Hn. lia. }
  destruct (good_step src pre (b :: t) dpre b t S eq_refl D) as (G1 & G2 & G3 & G4 & G5 & G6).
  split; [|split; [exact G5|]].
  - eexists _, _, _. split; [exact G1|]. split; [rewrite G2; lia|]. split; [exact G3|].
    rewrite fold_left_app, F. cbn [fold_left]. unfold bump. cbn [st_rune]. reflexivity.
  - rewrite S, len_app. lia.
Qed.

(* ------------------------------------------------------------------ cursor invariant *)

Fixpoint trail_ok (src : list Z) (start c : Z) (p : Z * Z) (trail : list Z) : Prop :=
  start <= c /\
  match trail with
  | [] => True
  | sz :: r => good src (c - sz) (fst p, snd p - 1) /\ trail_ok src start (c - sz) (fst p, snd p - 1) r
  end.

Definition pos_inv (src : list Z) (start : Z) (q : cpos) : Prop :=
  p_cur q <= len src /\
  good src (p_cur q) (p_line q, p_col q) /\
  trail_ok src start (p_cur q) (p_line q, p_col q) (p_trail q).

Definition inv (src : list Z) (st : cstate) : Prop :=
  0 <= s_start st /\ (exists q, good src (s_start st) q) /\
  pos_inv src (s_start st) (s_pos st) /\
  match s_saved st with None => True | Some q => pos_inv src (s_start st) q end.

Lemma trail_ok_start src start c p trail : trail_ok src start c p trail -> start <= c.
Proof. destruct trail; cbn; tauto. Qed.

Lemma inv_init src : inv src cinit.
Proof.
  unfold inv, cinit, pos_inv. cbn.
  repeat split; try lia; try apply good_zero; try apply len_nonneg. exists (1, 1). apply good_zero.
Qed.

Lemma adv_inv src start raw q :
  pos_inv src start q ->
  (raw = true -> ~ (p_cur q < len src /\ fst (next_rune src q) = 10)) ->
  pos_inv src start (adv src raw q).
Proof.
  intros (H1 & H2 & H3) Hraw. unfold adv.
  destruct (p_cur q <? len src) eqn:E; [|repeat split; assumption].
  assert (Hlt : p_cur q < len src) by lia.
  destruct (good_adv src (p_cur q) _ H2 Hlt) as (G1 & G2 & G3).
  unfold next_rune in *. destruct (decode_rune (skipn (Z.to_nat (p_cur q)) src)) as [r sz] eqn:Ed.
  cbn [fst snd] in *. pose proof (trail_ok_start _ _ _ _ _ H3) as Hst.
  destruct ((r =? 10) && negb raw) eqn:Enl.
  - apply andb_true_iff in Enl as [Er _]. rewrite Er in G1.
    unfold pos_inv. cbn [p_cur p_line p_col p_trail trail_ok]. repeat split; try lia. exact G1.
  - assert (Er : (r =? 10) = false).
    { destruct raw; cbn in Enl; [|rewrite andb_true_r in Enl; exact Enl].
      destruct (r =? 10) eqn:Er; [|reflexivity]. exfalso. apply (Hraw eq_refl). split; [lia|lia]. }
    rewrite Er in G1.
    unfold pos_inv. cbn [p_cur p_line p_col p_trail trail_ok fst snd]. repeat split; try lia.
    + exact G1.
    + replace (p_cur q + sz - sz) with (p_cur q) by lia.
      replace (p_col q + 1 - 1) with (p_col q) by lia. exact H2.
    + replace (p_cur q + sz - sz) with (p_cur q) by lia.
      replace (p_col q + 1 - 1) with (p_col q) by lia. exact H3.
Qed.

Lemma back_ok src start : forall (n : nat) trail c p,
  trail_ok src start c p trail -> good src c p ->
  (n <= length trail)%nat -> forallb (Z.eqb 1) (firstn n trail) = true ->
  good src (c - Z.of_nat n) (fst p, snd p - Z.of_nat n) /\
  trail_ok src start (c - Z.of_nat n) (fst p, snd p - Z.of_nat n) (skipn n trail).
Proof.
  induction n as [|n IH]; intros trail c p Ht Hg Hl Hf.
  - destruct p as [l k]. cbn [Z.of_nat fst snd skipn].
    replace (c - 0) with c by lia. replace (k - 0) with k by lia. split; assumption.
  - destruct trail as [|sz r]; [cbn in Hl; lia|].
    cbn [firstn forallb] in Hf. apply andb_true_iff in Hf as [Hsz Hf].
    assert (sz = 1) by lia. subst sz.
    cbn [trail_ok] in Ht. destruct Ht as (_ & Hg1 & Ht1).
    cbn [length] in Hl.
    destruct (IH r (c - 1) (fst p, snd p - 1) Ht1 Hg1 ltac:(lia) Hf) as [A B].
    cbn [fst snd] in A, B. cbn [skipn].
    replace (c - Z.of_nat (S n)) with (c - 1 - Z.of_nat n) by lia.
    replace (snd p - Z.of_nat (S n)) with (snd p - 1 - Z.of_nat n) by lia.
    split; assumption.
Qed.

Lemma cstep_inv src st o : inv src st -> guard src st o = true -> inv src (cstep src st o).
Proof.
  intros (I1 & I2 & I3 & I4) G. destruct o; cbn [cstep].
  - (* Adv *) unfold inv. cbn [s_start s_pos s_saved].
    split; [exact I1|split; [exact I2|split; [|exact I4]]].
    apply adv_inv; [exact I3|discriminate].
  - (* AdvRaw *) unfold inv. cbn [s_start s_pos s_saved].
    split; [exact I1|split; [exact I2|split; [|exact I4]]].
    apply adv_inv; [exact I3|]. intros _ [A B]. cbn [guard] in G.
    apply negb_true_iff in G. apply andb_false_iff in G. lia.
  - (* Back *) cbn [guard] in G. apply andb_true_iff in G as [G1 G2].
    destruct I3 as (P1 & P2 & P3).
    destruct (back_ok src (s_start st) n _ _ _ P3 P2 ltac:(lia) G2) as [A B]. cbn [fst snd] in A, B.
    unfold inv. cbn [s_start s_pos s_saved].
    split; [exact I1|split; [exact I2|split; [|exact I4]]].
    unfold pos_inv. cbn [p_cur p_line p_col p_trail].
    split; [lia|split; [exact A|exact B]].
  - (* Save *) unfold inv. cbn [s_start s_pos s_saved].
    split; [exact I1|split; [exact I2|split; [exact I3|exact I3]]].
  - (* Restore *) destruct (s_saved st) as [q|] eqn:E.
    + unfold inv. cbn [s_start s_pos s_saved].
      split; [exact I1|split; [exact I2|split; [exact I4|exact I4]]].
    + unfold inv. rewrite E. split; [exact I1|split; [exact I2|split; [exact I3|exact I]]].
  - (* Emit *) destruct I3 as (P1 & P2 & P3). pose proof (trail_ok_start _ _ _ _ _ P3) as Hs.
    unfold inv, pos_inv. cbn [s_start s_pos s_saved p_cur p_line p_col p_trail trail_ok].
    split; [lia|split; [eexists; exact P2|split; [|exact I]]].
    split; [exact P1|split; [exact P2|split; [lia|exact I]]].
Qed.

Lemma crun_inv src : forall ops st, inv src st -> safe src st ops = true -> inv src (crun src st ops).
Proof.
  induction ops as [|o r IH]; intros st I S; [exact I|].
  cbn [safe] in S. apply andb_true_iff in S as [G S']. cbn [crun fold_left].
  apply IH; [apply cstep_inv; assumption|exact S'].
Qed.

Lemma cursor_inv src ops :
  safe src cinit ops = true ->
  let st := crun src cinit ops in
  0 <= s_start st /\ s_start st <= p_cur (s_pos st) /\ p_cur (s_pos st) <= len src /\
  pos_at src (p_cur (s_pos st)) = Some (p_line (s_pos st), p_col (s_pos st)) /\
  pos_at src (s_start st) <> None.
Proof.
  intros S st. destruct (crun_inv src ops cinit (inv_init src) S) as (I1 & (q & I2) & (P1 & P2 & P3) & _).
  fold st in I1, I2, P1, P2, P3. pose proof (trail_ok_start _ _ _ _ _ P3).
  repeat split; try assumption.
  - apply pos_at_complete, P2.
  - rewrite (pos_at_complete _ _ _ I2). discriminate.
Qed.

Lemma cursor_inv_bool src ops : safe src cinit ops = true -> cur_ok src (crun src cinit ops) = true.
Proof.
  intros S. destruct (cursor_inv src ops S) as (A & B & C & D & _).
  unfold cur_ok. rewrite D. unfold pair_eqb. cbn [fst snd]. lia.
Qed.

(* every position the monitor accepts is a rune boundary with the recounted line/column, and
   a cursor reached by a safe run that stands at a token's start carries exactly that position *)
Lemma chain_positions src : forall toks prev,
  chain_ok src prev toks = true ->
  Forall (fun t => good src (t_start t) (t_line t, t_col t) /\
                   exists pe, good src (t_end t + 1) pe /\ end_expected t pe = (t_eline t, t_ecol t)) toks.
Proof.
  induction toks as [|t r IH]; intros prev H; [constructor|].
  cbn [chain_ok] in H. apply andb_true_iff in H as [Ht Hr].
  apply step_ok_facts in Ht as (_ & _ & _ & F4 & pe & F5 & F6).
  constructor; [|eapply IH; exact Hr].
  split; [apply pos_at_sound, F4|]. exists pe. split; [apply pos_at_sound, F5|exact F6].
Qed.
