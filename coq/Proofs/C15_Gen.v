(* C15 — proofs: the resumable continuation machine (generator / async wrapping) emits exactly what the
   big-step reference interpreter S says, for every body and all sufficient fuel. *)
From Coq Require Import ZArith List Bool Lia Arith.
From Elk Require Import Model.C15_Gen.
Import ListNotations.
Open Scope nat_scope.

(* behaviour of a machine configuration as a function of the fuel it is given *)
Definition beh := nat -> option (gres * gstate).

(* from (env, k), successive `next` calls yield ys (one per call) and then behave like b;
   every segment is stated with its exact step count c *)
Inductive emits : list Z -> list stmt -> list Z -> beh -> Prop :=
| em_done env k c b :
    (forall F, run (c + F) env k = b F) -> emits env k [] b
| em_yield env k c y env1 k1 ys b :
    (forall F, run (c + F) env k = Some (GYield y, GRun env1 k1)) ->
    emits env1 k1 ys b -> emits env k (y :: ys) b.

Lemma emits_app : forall env k ys1 b1,
  emits env k ys1 b1 -> forall env1 k1 ys2 b,
  b1 = (fun F => run F env1 k1) -> emits env1 k1 ys2 b -> emits env k (ys1 ++ ys2) b.
Proof.
  induction 1 as [env k c b1 H | env k c y e1 k1' ys b1 H Hrest IH]; intros env1 k1 ys2 b Hb H2.
  - subst b1. simpl. inversion H2 as [e k' c2 b' H3 | e k' c2 y2 e2 k2 ys' b' H3 H4]; subst.
    + apply em_done with (c := c + c2). intros F.
      rewrite <- Nat.add_assoc. rewrite H. apply H3.
    + apply em_yield with (c := c + c2) (env1 := e2) (k1 := k2).
      * intros F. rewrite <- Nat.add_assoc. rewrite H. apply H3.
      * exact H4.
  - simpl. apply em_yield with (c := c) (env1 := e1) (k1 := k1').
    + exact H.
    + eapply IH; eauto.
Qed.

(* c silent steps in front *)
Lemma emits_silent : forall c env k env2 k2 ys b,
  (forall F, run (c + F) env k = run F env2 k2) -> emits env2 k2 ys b -> emits env k ys b.
Proof.
  intros c env k env2 k2 ys b H H2.
  change ys with ([] ++ ys).
  eapply emits_app with (b1 := fun F => run F env2 k2); [ | reflexivity | exact H2 ].
  apply em_done with (c := c). exact H.
Qed.

Definition after (x : exit) (env' : list Z) (k : list stmt) : beh :=
  match x with
  | XNormal => fun F => run F env' k
  | XRet v => fun _ => Some (GFinish v, GDone)
  | XThr t => fun _ => Some (GError t, GDone)
  end.

Lemma after_abrupt : forall x env' k k', x <> XNormal -> after x env' k = after x env' k'.
Proof. intros x env' k k' H. destruct x; [ congruence | reflexivity | reflexivity ]. Qed.

(* the simulation: S's result for s is what the machine does on (s :: k) *)
Lemma exec_emits : forall fuel s env env' ys x,
  exec fuel s env = Some (env', ys, x) ->
  forall k, emits env (s :: k) ys (after x env' k).
Proof.
  induction fuel as [| f IH]; intros s env env' ys x H k; [ discriminate | ].
  destruct s as [ | v e | v e | a b | c a b | c b | e | e | t ]; simpl in H.
  - (* skip *)
    inversion H; subst. apply em_done with (c := 1). intros F. reflexivity.
  - (* assign *)
    destruct (eval env e) as [w | t] eqn:He; inversion H; subst.
    + apply em_done with (c := 1). intros F. simpl. rewrite He. reflexivity.
    + apply em_done with (c := 1). intros F. simpl. rewrite He. reflexivity.
  - (* bump *)
    destruct (eval env e) as [w | t] eqn:He; inversion H; subst.
    + apply em_done with (c := 1). intros F. simpl. rewrite He. reflexivity.
    + apply em_done with (c := 1). intros F. simpl. rewrite He. reflexivity.
  - (* seq *)
    destruct (exec f a env) as [[[e1 y1] x1] |] eqn:Ha; [ | discriminate ].
    apply emits_silent with (c := 1) (env2 := env) (k2 := a :: b :: k); [ intros F; reflexivity | ].
    destruct x1 as [ | rv | rt ].
    + destruct (exec f b e1) as [[[e2 y2] x2] |] eqn:Hb; [ | discriminate ].
      inversion H; subst.
      eapply emits_app; [ apply (IH _ _ _ _ _ Ha (b :: k)) | reflexivity | apply (IH _ _ _ _ _ Hb k) ].
    + inversion H; subst. apply (IH _ _ _ _ _ Ha (b :: k)).
    + inversion H; subst. apply (IH _ _ _ _ _ Ha (b :: k)).
  - (* if *)
    destruct (evalc env c) as [[|] | t] eqn:Hc.
    + apply emits_silent with (c := 1) (env2 := env) (k2 := a :: k);
        [ intros F; simpl; rewrite Hc; reflexivity | apply (IH _ _ _ _ _ H k) ].
    + apply emits_silent with (c := 1) (env2 := env) (k2 := b :: k);
        [ intros F; simpl; rewrite Hc; reflexivity | apply (IH _ _ _ _ _ H k) ].
    + inversion H; subst. apply em_done with (c := 1). intros F. simpl. rewrite Hc. reflexivity.
  - (* while *)
    destruct (evalc env c) as [[|] | t] eqn:Hc.
    + destruct (exec f b env) as [[[e1 y1] x1] |] eqn:Hb; [ | discriminate ].
      apply emits_silent with (c := 1) (env2 := env) (k2 := b :: SWhile c b :: k);
        [ intros F; simpl; rewrite Hc; reflexivity | ].
      destruct x1 as [ | rv | rt ].
      * destruct (exec f (SWhile c b) e1) as [[[e2 y2] x2] |] eqn:Hw; [ | discriminate ].
        inversion H; subst.
        eapply emits_app; [ apply (IH _ _ _ _ _ Hb (SWhile c b :: k)) | reflexivity | apply (IH _ _ _ _ _ Hw k) ].
      * inversion H; subst. apply (IH _ _ _ _ _ Hb (SWhile c b :: k)).
      * inversion H; subst. apply (IH _ _ _ _ _ Hb (SWhile c b :: k)).
    + inversion H; subst. apply em_done with (c := 1). intros F. simpl. rewrite Hc. reflexivity.
    + inversion H; subst. apply em_done with (c := 1). intros F. simpl. rewrite Hc. reflexivity.
  - (* yield *)
    destruct (eval env e) as [w | t] eqn:He; inversion H; subst.
    + apply em_yield with (c := 1) (env1 := env') (k1 := k).
      * intros F. simpl. rewrite He. reflexivity.
      * apply em_done with (c := 0). intros F. reflexivity.
    + apply em_done with (c := 1). intros F. simpl. rewrite He. reflexivity.
  - (* return *)
    destruct (eval env e) as [w | t] eqn:He; inversion H; subst.
    + apply em_done with (c := 1). intros F. simpl. rewrite He. reflexivity.
    + apply em_done with (c := 1). intros F. simpl. rewrite He. reflexivity.
  - (* throw *)
    inversion H; subst. apply em_done with (c := 1). intros F. reflexivity.
Qed.

(* a function body never falls off its end: fbody ends with `return final` *)
Lemma fbody_not_normal : forall fuel f env env' ys,
  exec fuel (fbody f) env = Some (env', ys, XNormal) -> False.
Proof.
  intros fuel f env env' ys H. unfold fbody in H.
  destruct fuel as [| n]; [ discriminate | ]. simpl in H.
  destruct (exec n (body f) env) as [[[e1 y1] x1] |]; [ | discriminate ].
  destruct x1; try discriminate.
  destruct n as [| m]; [ discriminate | ]. simpl in H.
  destruct (eval e1 (final f)); discriminate.
Qed.

Lemma plain_emits : forall fuel f args ys out,
  plain fuel f args = Some (ys, out) ->
  emits (init_env f args) [fbody f] ys (fun _ => Some (gres_of out, GDone)).
Proof.
  intros fuel f args ys out H. unfold plain in H.
  destruct (exec fuel (fbody f) (init_env f args)) as [[[e1 y1] x1] |] eqn:He; [ | discriminate ].
  pose proof (exec_emits _ _ _ _ _ _ He []) as Hem.
  destruct x1 as [ | v | t ].
  - exfalso. eapply fbody_not_normal; eauto.
  - inversion H; subst. exact Hem.
  - inversion H; subst. exact Hem.
Qed.

(* ---- from the trace predicate to the `next`-by-`next` drivers ---- *)

Lemma drive_done : forall n F, drive n F GDone = Some (repeat GStop n).
Proof.
  induction n as [| n IH]; intros F; [ reflexivity | ].
  simpl. rewrite IH. reflexivity.
Qed.

Lemma emits_drive : forall env k ys b, emits env k ys b -> forall r, b = (fun _ => Some (r, GDone)) ->
  exists F0, forall F, (F0 <= F)%nat -> forall n,
    drive (length ys + 1 + n) F (GRun env k) = Some (map GYield ys ++ [r] ++ repeat GStop n).
Proof.
  induction 1 as [env k c b H | env k c y e1 k1 ys b H Hrest IH]; intros r Hb.
  - subst b. exists c. intros F HF n.
    replace F with (c + (F - c))%nat by lia.
    simpl. rewrite H. rewrite drive_done. reflexivity.
  - destruct (IH r Hb) as [F1 HF1]. exists (Nat.max c F1). intros F HF n.
    assert (Hc : (F = c + (F - c))%nat) by lia.
    simpl. rewrite Hc at 1. rewrite H. rewrite (HF1 F ltac:(lia) n). reflexivity.
Qed.

Definition forin_expect (ys : list Z) (o : outcome) : list Z * option Z :=
  match o with ORet v => (ys ++ [v], None) | OThr t => (ys, Some t) end.

Lemma emits_forin : forall env k ys b, emits env k ys b -> forall out, b = (fun _ => Some (gres_of out, GDone)) ->
  exists F0, forall F, (F0 <= F)%nat -> forall R, (length ys + 2 <= R)%nat ->
    forin R F (GRun env k) = Some (forin_expect ys out).
Proof.
  induction 1 as [env k c b H | env k c y e1 k1 ys b H Hrest IH]; intros out Hb.
  - subst b. exists c. intros F HF R HR.
    destruct R as [| [| R']]; try (simpl in HR; lia).
    replace F with (c + (F - c))%nat by lia.
    cbn [forin next]. rewrite H. destruct out as [v | t]; reflexivity.
  - destruct (IH out Hb) as [F1 HF1]. exists (Nat.max c F1). intros F HF R HR.
    destruct R as [| R']; [ simpl in HR; lia | ].
    assert (Hc : (F = c + (F - c))%nat) by lia.
    cbn [forin next]. rewrite Hc at 1. rewrite H.
    rewrite (HF1 F ltac:(lia) R' ltac:(simpl in HR; lia)).
    destruct out as [v | t]; reflexivity.
Qed.

(* ---- the statements used by Props/C15.v ---- *)

Theorem yield_sequence : forall f args fuel ys out,
  plain fuel f args = Some (ys, out) ->
  exists F0, forall F, (F0 <= F)%nat -> forall n,
    drive (length ys + 1 + n) F (gen_init f args)
    = Some (map GYield ys ++ [gres_of out] ++ repeat GStop n).
Proof.
  intros f args fuel ys out H.
  exact (emits_drive _ _ _ _ (plain_emits _ _ _ _ _ H) _ eq_refl).
Qed.

Theorem forin_collects : forall f args fuel ys out,
  plain fuel f args = Some (ys, out) ->
  exists F0, forall F, (F0 <= F)%nat -> forall R, (length ys + 2 <= R)%nat ->
    forin R F (gen_init f args) = Some (forin_expect ys out).
Proof.
  intros f args fuel ys out H.
  exact (emits_forin _ _ _ _ (plain_emits _ _ _ _ _ H) _ eq_refl).
Qed.

Theorem error_then_stop : forall f args fuel ys t,
  plain fuel f args = Some (ys, OThr t) ->
  exists F0, forall F, (F0 <= F)%nat -> forall n,
    drive (length ys + 1 + n) F (gen_init f args)
    = Some (map GYield ys ++ [GError t] ++ repeat GStop n).
Proof. intros f args fuel ys t H. exact (yield_sequence _ _ _ _ _ H). Qed.

Lemma no_yield_nil : forall fuel s env env' ys x,
  no_yield s = true -> exec fuel s env = Some (env', ys, x) -> ys = [].
Proof.
  induction fuel as [| f IH]; intros s env env' ys x Hn H; [ discriminate | ].
  destruct s as [ | v e | v e | a b | c a b | c b | e | e | t ]; simpl in H, Hn.
  - inversion H; reflexivity.
  - destruct (eval env e); inversion H; reflexivity.
  - destruct (eval env e); inversion H; reflexivity.
  - apply andb_true_iff in Hn. destruct Hn as [Hna Hnb].
    destruct (exec f a env) as [[[e1 y1] x1] |] eqn:Ha; [ | discriminate ].
    pose proof (IH _ _ _ _ _ Hna Ha) as Hy1.
    destruct x1.
    + destruct (exec f b e1) as [[[e2 y2] x2] |] eqn:Hb; [ | discriminate ].
      pose proof (IH _ _ _ _ _ Hnb Hb) as Hy2. inversion H; subst. reflexivity.
    + inversion H; subst. reflexivity.
    + inversion H; subst. reflexivity.
  - apply andb_true_iff in Hn. destruct Hn as [Hna Hnb].
    destruct (evalc env c) as [[|] | t].
    + exact (IH _ _ _ _ _ Hna H).
    + exact (IH _ _ _ _ _ Hnb H).
    + inversion H; reflexivity.
  - destruct (evalc env c) as [[|] | t].
    + destruct (exec f b env) as [[[e1 y1] x1] |] eqn:Hb; [ | discriminate ].
      pose proof (IH _ _ _ _ _ Hn Hb) as Hy1.
      destruct x1.
      * destruct (exec f (SWhile c b) e1) as [[[e2 y2] x2] |] eqn:Hw; [ | discriminate ].
        assert (Hy2 : y2 = []) by (eapply (IH (SWhile c b)); [ exact Hn | exact Hw ]).
        inversion H; subst. reflexivity.
      * inversion H; subst. reflexivity.
      * inversion H; subst. reflexivity.
    + inversion H; reflexivity.
    + inversion H; reflexivity.
  - discriminate.
  - destruct (eval env e); inversion H; reflexivity.
  - inversion H; reflexivity.
Qed.

Theorem wrap_equiv : forall f args fuel ys out,
  no_yield (body f) = true ->
  plain fuel f args = Some (ys, out) ->
  ys = [] /\
  exists F0, forall F, (F0 <= F)%nat ->
    (forall R, (2 <= R)%nat -> forin R F (gen_init f args) = Some (forin_expect [] out)) /\
    (forall n, drive (1 + n) F (gen_init f args) = Some (gres_of out :: repeat GStop n)) /\
    await_async F f args = Some out.
Proof.
  intros f args fuel ys out Hn H.
  assert (Hys : ys = []).
  { unfold plain in H.
    destruct (exec fuel (fbody f) (init_env f args)) as [[[e1 y1] x1] |] eqn:He; [ | discriminate ].
    assert (y1 = []) by (eapply (no_yield_nil fuel (fbody f)); [ simpl; rewrite Hn; reflexivity | exact He ]).
    destruct x1; inversion H; subst; reflexivity. }
  subst ys. split; [ reflexivity | ].
  destruct (forin_collects _ _ _ _ _ H) as [F1 H1].
  destruct (yield_sequence _ _ _ _ _ H) as [F2 H2].
  pose proof (plain_emits _ _ _ _ _ H) as Hem.
  inversion Hem as [e k c b H3 | ]; subst.
  exists (Nat.max c (Nat.max F1 F2)). intros F HF. split; [ | split ].
  - intros R HR. apply H1; [ lia | simpl; lia ].
  - intros n. exact (H2 F ltac:(lia) n).
  - unfold await_async, async_run, gen_init. cbn [next].
    replace F with (c + (F - c))%nat by lia. rewrite H3.
    destruct out; reflexivity.
Qed.

(* S does not depend on the fuel once it is sufficient *)
Lemma exec_mono1 : forall f s env r, exec f s env = Some r -> exec (S f) s env = Some r.
Proof.
  induction f as [| f IH]; intros s env r H; [ discriminate | ].
  destruct s as [ | v e | v e | a b | c a b | c b | e | e | t ];
    try (simpl in H |- *; exact H).
  - (* seq *)
    simpl in H.
    destruct (exec f a env) as [[[e1 y1] x1] |] eqn:Ha; [ | discriminate ].
    pose proof (IH _ _ _ Ha) as Ha'.
    destruct x1.
    + destruct (exec f b e1) as [[[e2 y2] x2] |] eqn:Hb; [ | discriminate ].
      pose proof (IH _ _ _ Hb) as Hb'.
      set (g := S f) in *. cbn [exec]. rewrite Ha'. rewrite Hb'. exact H.
    + set (g := S f) in *. cbn [exec]. rewrite Ha'. exact H.
    + set (g := S f) in *. cbn [exec]. rewrite Ha'. exact H.
  - (* if *)
    simpl in H.
    destruct (evalc env c) as [[|] | t] eqn:Hc.
    + pose proof (IH _ _ _ H) as H'. set (g := S f) in *. cbn [exec]. rewrite Hc. exact H'.
    + pose proof (IH _ _ _ H) as H'. set (g := S f) in *. cbn [exec]. rewrite Hc. exact H'.
    + set (g := S f) in *. cbn [exec]. rewrite Hc. exact H.
  - (* while *)
    simpl in H.
    destruct (evalc env c) as [[|] | t] eqn:Hc.
    + destruct (exec f b env) as [[[e1 y1] x1] |] eqn:Hb; [ | discriminate ].
      pose proof (IH _ _ _ Hb) as Hb'.
      destruct x1.
      * destruct (exec f (SWhile c b) e1) as [[[e2 y2] x2] |] eqn:Hw; [ | discriminate ].
        pose proof (IH _ _ _ Hw) as Hw'.
        set (g := S f) in *. cbn [exec]. rewrite Hc. rewrite Hb'. rewrite Hw'. exact H.
      * set (g := S f) in *. cbn [exec]. rewrite Hc. rewrite Hb'. exact H.
      * set (g := S f) in *. cbn [exec]. rewrite Hc. rewrite Hb'. exact H.
    + set (g := S f) in *. cbn [exec]. rewrite Hc. exact H.
    + set (g := S f) in *. cbn [exec]. rewrite Hc. exact H.
Qed.

Theorem plain_fuel_independent : forall f args fuel fuel' r,
  plain fuel f args = Some r -> (fuel <= fuel')%nat -> plain fuel' f args = Some r.
Proof.
  intros f args fuel fuel' r H Hle.
  induction Hle as [| m Hle IH]; [ exact H | ].
  unfold plain in *.
  destruct (exec m (fbody f) (init_env f args)) as [[[e1 y1] x1] |] eqn:He; [ | discriminate ].
  rewrite (exec_mono1 _ _ _ _ He). exact IH.
Qed.
