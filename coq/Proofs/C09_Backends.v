(* C09 — proofs about the helper model and the observation relation (Model/C09_Backends.v).
   Depends on C06 only through: ival/Small/Big, den, canonical, impl, spec, binop, refines,
   impl_refines_spec. *)
From Elk Require Import Base.GoSem Model.C06_Int Proofs.C06_Int Model.C09_Backends.
From Coq Require Import ZArith List String Bool ZifyBool Lia.
Open Scope Z_scope.

Lemma c9_fits64_b z : fits64 z = true <-> - 2 ^ 63 <= z < 2 ^ 63.
Proof. rewrite fits64_iff. unfold min64, max64. lia. Qed.

Lemma c9_fits64_false z : fits64 z = false <-> (z < - 2 ^ 63 \/ 2 ^ 63 <= z).
Proof.
  split; intros H.
  - destruct (Z_lt_ge_dec z (- 2 ^ 63)); [left; lia|].
    destruct (Z_lt_ge_dec z (2 ^ 63)); [|right; lia].
    assert (fits64 z = true) by (apply c9_fits64_b; lia). congruence.
  - destruct (fits64 z) eqn:E; [|reflexivity]. apply c9_fits64_b in E. lia.
Qed.

Lemma h_norm_den z : den (h_norm z) = z.
Proof. unfold h_norm. destruct (fits64 z); reflexivity. Qed.

Lemma h_norm_canonical z : canonical (h_norm z) = true.
Proof. unfold h_norm. destruct (fits64 z) eqn:E; simpl; rewrite E; reflexivity. Qed.

Lemma c9_canonical_unique x y : canonical x = true -> canonical y = true -> den x = den y -> x = y.
Proof.
  destruct x as [a|a], y as [b|b]; simpl; intros Cx Cy E; subst; try reflexivity.
  - rewrite Cx in Cy. discriminate.
  - rewrite Cy in Cx. discriminate.
Qed.

Ltac w64 z := let k := fresh "k" in let Hk := fresh "Hk" in
  destruct (wrap64_cong z) as [k Hk];
  let Hr := fresh "Hr" in pose proof (wrap64_range z) as Hr; apply c9_fits64_b in Hr.

Lemma small_add_small_ok a b :
  fits64 a = true -> fits64 b = true ->
  den (small_add_small a b) = a + b /\ canonical (small_add_small a b) = true.
Proof.
  intros Ha Hb. apply c9_fits64_b in Ha, Hb.
  unfold small_add_small, h_add_overflow.
  w64 (a + b). set (c := wrap64 (a + b)) in *.
  assert (P64 : 2 ^ 64 = 2 * 2 ^ 63) by reflexivity.
  destruct (Bool.eqb (c >? a) (b >? 0)) eqn:E.
  - assert (k = 0) by (destruct (c >? a) eqn:E1, (b >? 0) eqn:E2; simpl in E; try discriminate; lia).
    subst k. simpl. split; [lia|]. apply c9_fits64_b. lia.
  - simpl. split; [reflexivity|]. apply Bool.negb_true_iff, c9_fits64_false.
    destruct (c >? a) eqn:E1, (b >? 0) eqn:E2; simpl in E; try discriminate; lia.
Qed.

Lemma small_sub_small_ok a b :
  fits64 a = true -> fits64 b = true ->
  den (small_sub_small a b) = a - b /\ canonical (small_sub_small a b) = true.
Proof.
  intros Ha Hb. apply c9_fits64_b in Ha, Hb.
  unfold small_sub_small, h_sub_overflow.
  w64 (a - b). set (c := wrap64 (a - b)) in *.
  assert (P64 : 2 ^ 64 = 2 * 2 ^ 63) by reflexivity.
  destruct (Bool.eqb (c <? a) (b >? 0)) eqn:E.
  - assert (k = 0) by (destruct (c <? a) eqn:E1, (b >? 0) eqn:E2; simpl in E; try discriminate; lia).
    subst k. simpl. split; [lia|]. apply c9_fits64_b. lia.
  - simpl. split; [reflexivity|]. apply Bool.negb_true_iff, c9_fits64_false.
    destruct (c <? a) eqn:E1, (b >? 0) eqn:E2; simpl in E; try discriminate; lia.
Qed.

Lemma c9_quot_abs_mul_le a b : b <> 0 -> Z.abs (Z.quot a b) * Z.abs b <= Z.abs a.
Proof.
  intros Zb. rewrite <- Z.quot_abs by assumption.
  pose proof (Z.mul_quot_le (Z.abs a) (Z.abs b) ltac:(lia) ltac:(lia)). lia.
Qed.

Lemma small_mul_small_ok a b :
  fits64 a = true -> fits64 b = true ->
  den (small_mul_small a b) = a * b /\ canonical (small_mul_small a b) = true.
Proof.
  intros Ha Hb. pose proof Ha as Ha'. pose proof Hb as Hb'. apply c9_fits64_b in Ha, Hb.
  unfold small_mul_small, h_mul_overflow.
  destruct ((a =? 0) || (b =? 0)) eqn:Z0.
  { simpl. split; [|reflexivity]. apply orb_prop in Z0. destruct Z0 as [Z0|Z0]; apply Z.eqb_eq in Z0; subst; lia. }
  apply orb_false_elim in Z0. destruct Z0 as [Za Zb]. apply Z.eqb_neq in Za, Zb.
  w64 (a * b). set (c := wrap64 (a * b)) in *.
  assert (P64 : 2 ^ 64 = 2 * 2 ^ 63) by reflexivity.
  destruct (fits64 (a * b)) eqn:F.
  - assert (Ec : c = a * b) by (unfold c; apply wrap64_id; assumption).
    assert (S : Bool.eqb (c <? 0) (xorb (a <? 0) (b <? 0)) = true).
    { rewrite Ec. destruct (a <? 0) eqn:A, (b <? 0) eqn:B; simpl; apply Bool.eqb_true_iff; nia. }
    rewrite S. rewrite Ec, Z.quot_mul by assumption. rewrite wrap64_id by assumption.
    rewrite Z.eqb_refl. simpl. split; [reflexivity|]. exact F.
  - assert (NF : canonical (Big (a * b)) = true) by (simpl; rewrite F; reflexivity).
    destruct (Bool.eqb (c <? 0) (xorb (a <? 0) (b <? 0))) eqn:S; [|simpl; split; [reflexivity|exact NF]].
    destruct (wrap64 (Z.quot c b) =? a) eqn:Q; [|simpl; split; [reflexivity|exact NF]].
    exfalso. apply Z.eqb_eq in Q. apply c9_fits64_false in F.
    destruct (fits64 (Z.quot c b)) eqn:FQ.
    + rewrite wrap64_id in Q by assumption.
      pose proof (Z.quot_rem' c b) as QR. pose proof (Z.rem_bound_abs c b Zb) as RB.
      rewrite Q in QR.
      assert (Hk0 : k * 2 ^ 64 = Z.rem c b) by lia.
      assert (k = 0) by lia. subst k. lia.
    + apply c9_fits64_false in FQ.
      pose proof (Z.quot_rem' c b) as QR. pose proof (Z.rem_bound_abs c b Zb) as RB.
      pose proof (c9_quot_abs_mul_le c b Zb) as A1.
      assert (b = -1 /\ c = - 2 ^ 63) by nia.
      destruct H as [-> ->].
      destruct (a <? 0) eqn:A; simpl in S; try discriminate.
      change (Z.quot (- 2 ^ 63) (-1)) with (2 ^ 63) in Q.
      change (wrap64 (2 ^ 63)) with (- 2 ^ 63) in Q. lia.
Qed.

Lemma c9_quot_fits a b : fits64 a = true -> fits64 b = true -> b <> 0 ->
  ~ (a = min64 /\ b = -1) -> fits64 (Z.quot a b) = true.
Proof.
  intros Ha Hb Zb NO. apply c9_fits64_b in Ha, Hb. apply c9_fits64_b. unfold min64 in NO.
  pose proof (Z.quot_rem' a b) as QR. pose proof (Z.rem_bound_abs a b Zb) as RB.
  destruct (Z.eq_dec b 1) as [->|B1]; [rewrite Z.quot_1_r; lia|].
  destruct (Z.eq_dec b (-1)) as [->|B2].
  { pose proof (Z.quot_opp_r a 1 ltac:(lia)) as Q1. rewrite Z.quot_1_r in Q1. change (- (1)) with (-1) in Q1. rewrite Q1. lia. }
  assert (Z.abs (Z.quot a b) * 2 <= Z.abs a); [|lia].
  pose proof (c9_quot_abs_mul_le a b Zb) as A1.
  nia.
Qed.

Lemma c9_rem_fits a b : fits64 a = true -> b <> 0 -> fits64 (Z.rem a b) = true.
Proof.
  intros Ha Zb. apply c9_fits64_b in Ha. apply c9_fits64_b.
  destruct (Z.eq_dec (Z.rem a b) 0) as [R0|R0]; [rewrite R0; lia|].
  assert (Z.abs (Z.rem a b) <= Z.abs a).
  { rewrite <- (Z.rem_abs a b) by assumption. apply Z.rem_le; lia. }
  pose proof (Z.rem_sign_nz a b Zb R0) as SG.
  lia.
Qed.

Lemma ok_h_norm z : exists v, Ok (h_norm z) = Ok v /\ den v = z /\ canonical v = true.
Proof. exists (h_norm z). split; [reflexivity|]. split; [apply h_norm_den|apply h_norm_canonical]. Qed.

(* every helper returns the canonical representation of the exact result *)
Theorem helper_refines_spec o x y :
  canonical x = true -> canonical y = true ->
  refines (helper o x y) (spec o (den x) (den y)).
Proof.
  intros Cx Cy. destruct o; simpl.
  - destruct x as [a|a], y as [b|b]; simpl; try apply ok_h_norm.
    destruct (small_add_small_ok a b Cx Cy) as [D C]. eexists; split; [reflexivity|]. split; assumption.
  - destruct x as [a|a], y as [b|b]; simpl; try apply ok_h_norm.
    destruct (small_sub_small_ok a b Cx Cy) as [D C]. eexists; split; [reflexivity|]. split; assumption.
  - destruct x as [a|a], y as [b|b]; simpl; try apply ok_h_norm.
    destruct (small_mul_small_ok a b Cx Cy) as [D C]. eexists; split; [reflexivity|]. split; assumption.
  - destruct x as [a|a], y as [b|b]; simpl.
    + unfold small_div_small.
      destruct (b =? 0) eqn:Zb; simpl; [reflexivity|]. apply Z.eqb_neq in Zb.
      unfold h_div_overflow. rewrite (proj2 (Z.eqb_neq b 0) Zb).
      destruct ((a =? min64) && (b =? -1)) eqn:MO.
      * apply andb_prop in MO. destruct MO as [A B]. apply Z.eqb_eq in A, B. subst.
        eexists; split; [reflexivity|]. split; reflexivity.
      * eexists; split; [reflexivity|]. split; [reflexivity|]. simpl.
        apply c9_quot_fits; try assumption. intros [A B]. subst. discriminate.
    + unfold small_div_big. destruct (b =? 0) eqn:Zb; simpl; [reflexivity|apply ok_h_norm].
    + unfold big_div_small. destruct (b =? 0) eqn:Zb; simpl; [reflexivity|apply ok_h_norm].
    + unfold big_div_big. destruct (b =? 0) eqn:Zb; simpl; [reflexivity|apply ok_h_norm].
  - destruct x as [a|a], y as [b|b]; simpl.
    + unfold small_mod_small. destruct (b =? 0) eqn:Zb; simpl; [reflexivity|]. apply Z.eqb_neq in Zb.
      eexists; split; [reflexivity|]. split; [reflexivity|]. simpl. apply c9_rem_fits; assumption.
    + unfold small_mod_big. destruct (b =? 0) eqn:Zb; simpl; [reflexivity|]. apply Z.eqb_neq in Zb.
      pose proof (c9_rem_fits a b Cx Zb) as RF.
      destruct (fits64 b) eqn:Fb.
      * eexists; split; [reflexivity|]. split; [reflexivity|]. exact RF.
      * eexists; split; [reflexivity|]. simpl. rewrite (wrap64_id _ RF). split; [reflexivity|exact RF].
    + unfold big_mod_small. destruct (b =? 0) eqn:Zb; simpl; [reflexivity|apply ok_h_norm].
    + unfold big_mod_big. destruct (b =? 0) eqn:Zb; simpl; [reflexivity|apply ok_h_norm].
Qed.

(* the helpers and the VM's operations return the same value, representation included *)
Theorem helpers_eq o x y :
  canonical x = true -> canonical y = true -> helper o x y = impl o x y.
Proof.
  intros Cx Cy.
  pose proof (helper_refines_spec o x y Cx Cy) as H.
  pose proof (impl_refines_spec o x y Cx Cy) as I.
  unfold refines in *. destruct (spec o (den x) (den y)) as [z|].
  - destruct H as [v [Hv [Dv Cv]]]. destruct I as [w [Hw [Dw Cw]]].
    rewrite Hv, Hw. f_equal. apply c9_canonical_unique; congruence.
  - congruence.
Qed.

Lemma h_bigcmp_cases a b :
  (a < b /\ h_bigcmp a b = -1) \/ (a = b /\ h_bigcmp a b = 0) \/ (a > b /\ h_bigcmp a b = 1).
Proof.
  unfold h_bigcmp. destruct (Z.compare_spec a b); [right; left|left|right; right]; split; lia.
Qed.

Theorem h_cmp_exact o x y : h_cmp o x y = hcmp_spec o (den x) (den y).
Proof.
  destruct x as [a|a], y as [b|b]; simpl; try reflexivity;
    destruct (h_bigcmp_cases a b) as [[L E]|[[L E]|[L E]]]; rewrite E; destruct o; simpl; lia.
Qed.

(* one arithmetic step of S (exact integers) is what the helper returns on the canonical
   representations: same integer, or ZeroDivisionError on both sides *)
Theorem S_step_matches_helper o x y :
  canonical x = true -> canonical y = true ->
  match helper o x y with
  | Ok v => spec o (den x) (den y) = Some (den v) /\ canonical v = true
  | Err e => spec o (den x) (den y) = None /\ e = E_ZERO_DIV
  | _ => False
  end.
Proof.
  intros Cx Cy. pose proof (helper_refines_spec o x y Cx Cy) as H. unfold refines in H.
  destruct (spec o (den x) (den y)) as [z|].
  - destruct H as [v [Hv [Dv Cv]]]. rewrite Hv. split; [congruence|assumption].
  - rewrite H. split; reflexivity.
Qed.

(* ---------------------------------------------------------------- observations *)

Lemma obs_equiv_refl a : obs_equiv a a.
Proof. unfold obs_equiv. tauto. Qed.

Lemma obs_equiv_sym a b : obs_equiv a b -> obs_equiv b a.
Proof. unfold obs_equiv. intros [H1 [H2 H3]]. split; [|split]; [congruence|congruence|tauto]. Qed.

Lemma obs_equiv_trans a b c : obs_equiv a b -> obs_equiv b c -> obs_equiv a c.
Proof.
  unfold obs_equiv. intros [H1 [H2 H3]] [G1 [G2 G3]]. split; [|split]; [congruence|congruence|tauto].
Qed.

Theorem obs_equiv_equivalence :
  (forall a, obs_equiv a a) /\
  (forall a b, obs_equiv a b -> obs_equiv b a) /\
  (forall a b c, obs_equiv a b -> obs_equiv b c -> obs_equiv a c).
Proof. split; [|split]; [exact obs_equiv_refl|exact obs_equiv_sym|exact obs_equiv_trans]. Qed.

Theorem backends_agree fuel (b1 b2 : backend) p :
  agrees_with_S fuel b1 p -> agrees_with_S fuel b2 p ->
  exists o1 o2, b1 p = Some o1 /\ b2 p = Some o2 /\ obs_equiv o1 o2.
Proof.
  intros [o1 [s1 [B1 [S1 E1]]]] [o2 [s2 [B2 [S2 E2]]]].
  exists o1, o2. split; [assumption|]. split; [assumption|].
  rewrite S1 in S2. injection S2 as <-.
  eapply obs_equiv_trans; [exact E1|apply obs_equiv_sym; exact E2].
Qed.

Lemma string_eqb_refl_iff a b : String.eqb a b = true <-> a = b.
Proof. apply String.eqb_eq. Qed.

Theorem obs_equivb_spec a b : obs_equivb a b = true <-> obs_equiv a b.
Proof.
  unfold obs_equivb, obs_equiv. destruct a as [oa ea sa], b as [ob eb sb]; simpl.
  split.
  - intros H. apply andb_prop in H. destruct H as [H H3]. apply andb_prop in H. destruct H as [H1 H2].
    destruct (list_eq_dec string_dec oa ob) as [E|E]; [|discriminate]. split; [assumption|].
    split.
    + destruct ea as [[c1 m1]|], eb as [[c2 m2]|]; simpl in H2; try discriminate; [|reflexivity].
      apply andb_prop in H2. destruct H2 as [A B]. apply String.eqb_eq in A, B. subst. reflexivity.
    + apply Bool.eqb_prop in H3. split; intros Z0; lia.
  - intros [H1 [H2 H3]]. subst ob eb.
    destruct (list_eq_dec string_dec oa oa) as [_|N]; [|contradiction]. simpl.
    assert (P : opt_pair_eqb ea ea = true).
    { destruct ea as [[c m]|]; simpl; [|reflexivity]. rewrite !String.eqb_refl. reflexivity. }
    rewrite P. simpl. apply Bool.eqb_true_iff. destruct (sa =? 0) eqn:A, (sb =? 0) eqn:B; try reflexivity; lia.
Qed.
