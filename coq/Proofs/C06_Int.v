From Elk Require Import Base.GoSem Model.C06_Int.
From Coq Require Import ZifyBool.
Open Scope Z_scope.

Lemma fits64_b z : fits64 z = true <-> - 2 ^ 63 <= z < 2 ^ 63.
Proof. rewrite fits64_iff. unfold min64, max64. lia. Qed.

Lemma fits64_false z : fits64 z = false <-> (z < - 2 ^ 63 \/ 2 ^ 63 <= z).
Proof.
  split; intros H.
  - destruct (Z_lt_ge_dec z (- 2 ^ 63)); [left; lia|].
    destruct (Z_lt_ge_dec z (2 ^ 63)); [|right; lia].
    assert (fits64 z = true) by (apply fits64_b; lia). congruence.
  - destruct (fits64 z) eqn:E; [|reflexivity]. apply fits64_b in E. lia.
Qed.

Lemma norm_den z : den (norm z) = z.
Proof. unfold norm. destruct (fits64 z); reflexivity. Qed.

Lemma norm_canonical z : canonical (norm z) = true.
Proof. unfold norm. destruct (fits64 z) eqn:E; simpl; rewrite E; reflexivity. Qed.

Ltac w64 z := let k := fresh "k" in let Hk := fresh "Hk" in
  destruct (wrap64_cong z) as [k Hk];
  let Hr := fresh "Hr" in pose proof (wrap64_range z) as Hr; apply fits64_b in Hr.

Lemma add_small_small_ok a b :
  fits64 a = true -> fits64 b = true ->
  den (add_small_small a b) = a + b /\ canonical (add_small_small a b) = true.
Proof.
  intros Ha Hb. apply fits64_b in Ha, Hb.
  unfold add_small_small, add_overflow.
  w64 (a + b). set (c := wrap64 (a + b)) in *.
  assert (P64 : 2 ^ 64 = 2 * 2 ^ 63) by reflexivity.
  destruct (Bool.eqb (c >? a) (b >? 0)) eqn:E.
  - assert (k = 0) by (destruct (c >? a) eqn:E1, (b >? 0) eqn:E2; simpl in E; try discriminate; lia).
    subst k. simpl. split; [lia|]. apply fits64_b. lia.
  - simpl. split; [reflexivity|]. apply Bool.negb_true_iff, fits64_false.
    destruct (c >? a) eqn:E1, (b >? 0) eqn:E2; simpl in E; try discriminate; lia.
Qed.

Lemma sub_small_small_ok a b :
  fits64 a = true -> fits64 b = true ->
  den (sub_small_small a b) = a - b /\ canonical (sub_small_small a b) = true.
Proof.
  intros Ha Hb. apply fits64_b in Ha, Hb.
  unfold sub_small_small, sub_overflow.
  w64 (a - b). set (c := wrap64 (a - b)) in *.
  assert (P64 : 2 ^ 64 = 2 * 2 ^ 63) by reflexivity.
  destruct (Bool.eqb (c <? a) (b >? 0)) eqn:E.
  - assert (k = 0) by (destruct (c <? a) eqn:E1, (b >? 0) eqn:E2; simpl in E; try discriminate; lia).
    subst k. simpl. split; [lia|]. apply fits64_b. lia.
  - simpl. split; [reflexivity|]. apply Bool.negb_true_iff, fits64_false.
    destruct (c <? a) eqn:E1, (b >? 0) eqn:E2; simpl in E; try discriminate; lia.
Qed.

Lemma quot_mul_exact a b : b <> 0 -> Z.quot (a * b) b = a.
Proof. intros. apply Z.quot_mul. assumption. Qed.

Lemma quot_abs_mul_le a b : b <> 0 -> Z.abs (Z.quot a b) * Z.abs b <= Z.abs a.
Proof.
  intros Zb. rewrite <- Z.quot_abs by assumption.
  pose proof (Z.mul_quot_le (Z.abs a) (Z.abs b) ltac:(lia) ltac:(lia)). lia.
Qed.

Lemma mul_small_small_ok a b :
  fits64 a = true -> fits64 b = true ->
  den (mul_small_small a b) = a * b /\ canonical (mul_small_small a b) = true.
Proof.
  intros Ha Hb. pose proof Ha as Ha'. pose proof Hb as Hb'. apply fits64_b in Ha, Hb.
  unfold mul_small_small, mul_overflow.
  destruct ((a =? 0) || (b =? 0)) eqn:Z0.
  { simpl. split; [|reflexivity]. apply orb_prop in Z0. destruct Z0 as [Z0|Z0]; apply Z.eqb_eq in Z0; subst; lia. }
  apply orb_false_elim in Z0. destruct Z0 as [Za Zb]. apply Z.eqb_neq in Za, Zb.
  w64 (a * b). set (c := wrap64 (a * b)) in *.
  assert (P64 : 2 ^ 64 = 2 * 2 ^ 63) by reflexivity.
  destruct (fits64 (a * b)) eqn:F.
  - (* product fits: flag must be true *)
    assert (Ec : c = a * b) by (unfold c; apply wrap64_id; assumption).
    assert (S : Bool.eqb (c <? 0) (xorb (a <? 0) (b <? 0)) = true).
    { rewrite Ec. destruct (a <? 0) eqn:A, (b <? 0) eqn:B; simpl; apply Bool.eqb_true_iff; nia. }
    rewrite S. rewrite Ec, quot_mul_exact by assumption. rewrite wrap64_id by assumption.
    rewrite Z.eqb_refl. simpl. split; [reflexivity|]. exact F.
  - (* product does not fit: flag must be false *)
    assert (NF : canonical (Big (a * b)) = true) by (simpl; rewrite F; reflexivity).
    destruct (Bool.eqb (c <? 0) (xorb (a <? 0) (b <? 0))) eqn:S; [|simpl; split; [reflexivity|exact NF]].
    destruct (wrap64 (Z.quot c b) =? a) eqn:Q; [|simpl; split; [reflexivity|exact NF]].
    exfalso. apply Z.eqb_eq in Q. apply fits64_false in F.
    (* c quot b = a or the MinInt/-1 wrap *)
    destruct (fits64 (Z.quot c b)) eqn:FQ.
    + rewrite wrap64_id in Q by assumption.
      pose proof (Z.quot_rem' c b) as QR. pose proof (Z.rem_bound_abs c b Zb) as RB.
      rewrite Q in QR.
      assert (Hk0 : k * 2 ^ 64 = Z.rem c b) by lia.
      assert (k = 0) by lia. subst k. lia.
    + apply fits64_false in FQ.
      (* |c quot b| <= |c| <= 2^63, so c = min64 and b = -1 *)
      pose proof (Z.quot_rem' c b) as QR. pose proof (Z.rem_bound_abs c b Zb) as RB.
      pose proof (quot_abs_mul_le c b Zb) as A1.
      assert (b = -1 /\ c = - 2 ^ 63) by nia.
      destruct H as [-> ->].
      destruct (a <? 0) eqn:A; simpl in S; try discriminate.
      change (Z.quot (- 2 ^ 63) (-1)) with (2 ^ 63) in Q.
      change (wrap64 (2 ^ 63)) with (- 2 ^ 63) in Q. lia.
Qed.

Definition refines (r : outcome ival) (s : option Z) : Prop :=
  match s with
  | Some z => exists v, r = Ok v /\ den v = z /\ canonical v = true
  | None => r = Err E_ZERO_DIV
  end.

Lemma canonical_small a : canonical (Small a) = true -> fits64 a = true.
Proof. simpl. auto. Qed.

Lemma ok_norm z : exists v, Ok (norm z) = Ok v /\ den v = z /\ canonical v = true.
Proof. exists (norm z). split; [reflexivity|]. split; [apply norm_den|apply norm_canonical]. Qed.

Lemma quot_fits a b : fits64 a = true -> fits64 b = true -> b <> 0 ->
  ~ (a = min64 /\ b = -1) -> fits64 (Z.quot a b) = true.
Proof.
  intros Ha Hb Zb NO. apply fits64_b in Ha, Hb. apply fits64_b. unfold min64 in NO.
  pose proof (Z.quot_rem' a b) as QR. pose proof (Z.rem_bound_abs a b Zb) as RB.
  destruct (Z.eq_dec b 1) as [->|B1]; [rewrite Z.quot_1_r; lia|].
  destruct (Z.eq_dec b (-1)) as [->|B2].
  { pose proof (Z.quot_opp_r a 1 ltac:(lia)) as Q1. rewrite Z.quot_1_r in Q1. change (- (1)) with (-1) in Q1. rewrite Q1. lia. }
  assert (Z.abs (Z.quot a b) * 2 <= Z.abs a); [|lia].
  pose proof (quot_abs_mul_le a b Zb) as A1.
  nia.
Qed.

Lemma rem_fits a b : fits64 a = true -> b <> 0 -> fits64 (Z.rem a b) = true.
Proof.
  intros Ha Zb. apply fits64_b in Ha. apply fits64_b.
  pose proof (Z.rem_bound_abs a b Zb) as RB.
  destruct (Z.eq_dec (Z.rem a b) 0) as [R0|R0]; [rewrite R0; lia|].
  destruct (Z.eq_dec a 0) as [->|A0]; [rewrite Z.rem_0_l in R0 by assumption; lia|].
  pose proof (Z.rem_sign_nz a b Zb R0) as SG.
  pose proof (Z.rem_abs_l a b) as AL.
  assert (Z.abs (Z.rem a b) <= Z.abs a).
  { rewrite <- (Z.rem_abs a b) by assumption.
    apply Z.rem_le; lia. }
  lia.
Qed.

Lemma rem_fits_r a b : fits64 b = true -> b <> 0 -> fits64 (Z.rem a b) = true.
Proof.
  intros Hb Zb. apply fits64_b in Hb. apply fits64_b.
  pose proof (Z.rem_bound_abs a b Zb) as RB. lia.
Qed.

Theorem impl_refines_spec o x y :
  canonical x = true -> canonical y = true ->
  refines (impl o x y) (spec o (den x) (den y)).
Proof.
  intros Cx Cy. destruct o; simpl.
  - (* add *) destruct x as [a|a], y as [b|b]; simpl; try apply ok_norm.
    destruct (add_small_small_ok a b Cx Cy) as [D C]. eexists; split; [reflexivity|]. split; assumption.
  - destruct x as [a|a], y as [b|b]; simpl; try apply ok_norm.
    destruct (sub_small_small_ok a b Cx Cy) as [D C]. eexists; split; [reflexivity|]. split; assumption.
  - destruct x as [a|a], y as [b|b]; simpl; try apply ok_norm.
    destruct (mul_small_small_ok a b Cx Cy) as [D C]. eexists; split; [reflexivity|]. split; assumption.
  - (* div *)
    destruct x as [a|a], y as [b|b]; simpl;
      try (destruct (b =? 0) eqn:Zb; simpl; [reflexivity|apply ok_norm]).
    destruct (b =? 0) eqn:Zb; simpl; [reflexivity|]. apply Z.eqb_neq in Zb.
    unfold div_overflow. rewrite (proj2 (Z.eqb_neq b 0) Zb).
    destruct ((a =? min64) && (b =? -1)) eqn:MO.
    + apply andb_prop in MO. destruct MO as [A B]. apply Z.eqb_eq in A, B. subst.
      eexists; split; [reflexivity|]. split; reflexivity.
    + eexists; split; [reflexivity|]. split; [reflexivity|]. simpl.
      apply quot_fits; try assumption. intros [A B]. subst. discriminate.
  - (* mod *)
    destruct x as [a|a], y as [b|b]; simpl.
    + destruct (b =? 0) eqn:Zb; simpl; [reflexivity|]. apply Z.eqb_neq in Zb.
      eexists; split; [reflexivity|]. split; [reflexivity|]. simpl. apply rem_fits; assumption.
    + destruct (b =? 0) eqn:Zb; simpl; [reflexivity|]. apply Z.eqb_neq in Zb.
      destruct (fits64 b) eqn:Fb; [|apply ok_norm].
      eexists; split; [reflexivity|]. split; [reflexivity|]. simpl. apply rem_fits; assumption.
    + destruct (b =? 0) eqn:Zb; simpl; [reflexivity|]. apply ok_norm.
    + destruct (b =? 0) eqn:Zb; simpl; [reflexivity|]. apply ok_norm.
Qed.

(* representation independence: a canonical value is determined by the integer it denotes *)
Lemma canonical_unique x y : canonical x = true -> canonical y = true -> den x = den y -> x = y.
Proof.
  destruct x as [a|a], y as [b|b]; simpl; intros Cx Cy E; subst; try reflexivity.
  - rewrite Cx in Cy. discriminate.
  - rewrite Cy in Cx. discriminate.
Qed.
