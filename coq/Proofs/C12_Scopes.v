(* C12 — proofs about Model/C12_Scopes.v (the checker model with catch scopes) *)
From Coq Require Import ZArith NArith List Bool Lia.
From Elk Require Import Model.C12_Scopes.
Import ListNotations.

Scheme expr_mut := Induction for expr Sort Prop
  with block_mut := Induction for block Sort Prop.
Combined Scheme expr_block_ind from expr_mut, block_mut.

Scheme ins_b_mut := Induction for ins_b Sort Prop
  with ins_e_mut := Induction for ins_e Sort Prop.
Combined Scheme ins_ind from ins_b_mut, ins_e_mut.

Ltac dletg :=
  match goal with
  | |- context [let (_, _) := ?X in _] => let E := fresh "E" in destruct X as [? ?] eqn:E
  end.

Lemma st_eta : forall s, mkSt (sregs s) (slocals s) (serrs s) (sthrown s) = s.
Proof. destruct s; reflexivity. Qed.

Lemma lookup_app : forall (A : Type) (l1 l2 : list (name * A)) x,
  lookup (l1 ++ l2) x = match lookup l1 x with Some t => Some t | None => lookup l2 x end.
Proof.
  induction l1 as [|[y t] l1 IH]; intros l2 x; cbn; [reflexivity|].
  destruct (N.eqb x y); auto.
Qed.

(* ------------------------------------------------------------------ the registers are restored *)

Lemma check_throw_regs : forall s u, sregs (check_throw s u) = sregs s.
Proof.
  intros s u. unfold check_throw. destruct u; [reflexivity|].
  destruct (covered _ _); [reflexivity|]. destruct (rinft _); reflexivity.
Qed.

Lemma check_throw_locals : forall s u, slocals (check_throw s u) = slocals s.
Proof.
  intros s u. unfold check_throw. destruct u; [reflexivity|].
  destruct (covered _ _); [reflexivity|]. destruct (rinft _); reflexivity.
Qed.

Lemma with_catch_tl : forall r u, with_catch (with_catch r (u :: rcatch r)) (tl (u :: rcatch r)) = r.
Proof. destruct r; reflexivity. Qed.

(* with the fix, checking any expression or block - closure literals and do/catch included - leaves
   returnType, throwType, mode, the flags and the catch-scope stack as they were *)
Lemma regs_restored : forall sigs,
  (forall e s, sregs (fst (check_expr true sigs s e)) = sregs s) /\
  (forall b s t0, sregs (fst (check_block true sigs s t0 b)) = sregs s).
Proof.
  intro sigs. apply expr_block_ind.
  - reflexivity.
  - intros x s. cbn. destruct (lookup (slocals s) x); reflexivity.
  - intros e IH s. cbn. apply IH.
  - intros e IH s. cbn [check_expr]. specialize (IH s). dletg. cbn in IH.
    destruct t; cbn [fst err sregs]; auto. destruct (N.eqb np 0); cbn [fst err sregs]; auto. now rewrite check_throw_regs.
  - intros m s. cbn [check_expr]. destruct (lookup sigs m) as [[t u]|]; cbn [fst]; auto. apply check_throw_regs.
  - intros ps rt th body IH s. cbn [check_expr]. dletg. reflexivity.
  - intros x e IH s. cbn [check_expr]. specialize (IH s). dletg. cbn in IH.
    destruct (lookup (slocals s0) x); [destruct (assignable t t0)|]; cbn; auto.
  - intros x e IH s. cbn [check_expr]. specialize (IH s). dletg. cbn in IH.
    destruct (lookup (slocals s0) x); [destruct (assignable t t0)|]; cbn; auto.
  - intros e IH s. cbn [check_expr]. specialize (IH s). dletg. cbn in IH.
    destruct (rinfr (sregs s0)); cbn; auto.
    destruct (rret (sregs s0)); [destruct (assignable t t0)|]; cbn; auto.
  - intros c s. cbn [check_expr fst]. apply check_throw_regs.
  - intros body IHb ct handler IHh s. cbn [check_expr].
    pose proof (IHh s TNil) as H1. dletg. cbn in H1.
    pose proof (IHb (push_scope (set_locals s0 (slocals s)) ct) TNil) as H2. dletg. cbn in H2.
    cbn. rewrite H2, H1. destruct (sregs s); reflexivity.
  - reflexivity.
  - intros e IHe b IHb s t0. cbn [check_block]. specialize (IHe s). dletg. cbn in IHe.
    rewrite IHb. exact IHe.
Qed.

(* ------------------------------------------------------------------ the inserted initialiser is inert *)

Lemma ctype_lookup : forall (env l : list (name * ty)) x t, lookup env x = Some t -> lookup (env ++ l) x = Some t.
Proof. intros. rewrite lookup_app, H. reflexivity. Qed.

Lemma covered_throw : forall s u, covered u (rcatch (sregs s)) = true -> check_throw s u = s.
Proof. intros s u H. unfold check_throw. destruct u; [reflexivity|]. now rewrite H. Qed.

Lemma closed_inert : forall sigs,
  (forall e env sc s l, cexpr env sc e = true -> slocals s = env ++ l -> rcatch (sregs s) = sc ->
     fst (check_expr true sigs s e) = s /\
     (forall t, ctype_e env e = Some t -> snd (check_expr true sigs s e) = t)) /\
  (forall b env sc s l t0 ot0, cblock env sc b = true -> slocals s = env ++ l -> rcatch (sregs s) = sc ->
     (forall t, ot0 = Some t -> t0 = t) ->
     fst (check_block true sigs s t0 b) = s /\
     (forall t, ctype_b env ot0 b = Some t -> snd (check_block true sigs s t0 b) = t)).
Proof.
  intro sigs. apply expr_block_ind.
  - intros t env sc s l _ _ _. cbn. split; [reflexivity|]. intros t' H. now inversion H.
  - intros x env sc s l Hc Hl _. cbn in *. destruct (lookup env x) as [t|] eqn:E; [|discriminate].
    rewrite Hl, (ctype_lookup env l x t E). cbn. split; [reflexivity|]. intros t' H. now inversion H.
  - intros e IH env sc s l Hc Hl Hs. cbn in *. eapply IH; eauto.
  - intros e _ env sc s l Hc. discriminate.
  - intros m env sc s l Hc. discriminate.
  - intros ps rt th body IH env sc s l Hc Hl _. cbn [cexpr] in Hc. apply andb_true_iff in Hc. destruct Hc as [Hb Hr].
    cbn [check_expr ctype_e]. split; [|intros t H; discriminate].
    set (decl := match th with Some u => u | None => [] end) in *.
    set (s1 := mkSt _ (ps ++ slocals s) (serrs s) decl).
    assert (Hl1 : slocals s1 = (ps ++ env) ++ l) by (subst s1; cbn; rewrite Hl; apply app_assoc).
    assert (Hs1 : rcatch (sregs s1) = scopes_of decl) by reflexivity.
    destruct (IH (ps ++ env) (scopes_of decl) s1 l TNil (Some TNil) Hb Hl1 Hs1) as [H1 H2].
    { intros t H. now inversion H. }
    destruct (check_block true sigs s1 TNil body) as [s2 bt]. cbn in H1, H2. subst s2.
    cbn [fst]. unfold exit_method, leave.
    assert (He : serrs (match rt with
                        | Some r => if match rt with None => true | Some _ => rinfr (sregs s) end then s1
                                    else if assignable bt r then s1 else err s1
                        | None => s1 end) = serrs s).
    { destruct rt as [r|]; [|reflexivity].
      destruct (rinfr (sregs s)); [reflexivity|].
      destruct (ctype_b (ps ++ env) (Some TNil) body) as [t|] eqn:Et; [|discriminate].
      rewrite (H2 t eq_refl), Hr. reflexivity. }
    rewrite He. apply st_eta.
  - intros x e _ env sc s l Hc. discriminate.
  - intros x e _ env sc s l Hc. discriminate.
  - intros e _ env sc s l Hc. discriminate.
  - intros c env sc s l Hc _ Hs. cbn [cexpr check_expr ctype_e fst snd] in *. subst sc. rewrite (covered_throw s [c] Hc).
    split; [reflexivity|]. intros t H. now inversion H.
  - intros body IHb ct handler IHh env sc s l Hc Hl Hs. cbn [cexpr] in Hc. apply andb_true_iff in Hc.
    destruct Hc as [Hh Hb]. cbn [check_expr ctype_e]. split; [|intros t H; discriminate].
    destruct (IHh env sc s l TNil None Hh Hl Hs) as [H1 _]; [intros t H; discriminate|].
    destruct (check_block true sigs s TNil handler) as [s1 th]. cbn in H1. subst s1.
    set (s2 := push_scope (set_locals s (slocals s)) ct).
    assert (Hl2 : slocals s2 = env ++ l) by (subst s2; cbn; exact Hl).
    assert (Hs2 : rcatch (sregs s2) = ct :: sc) by (subst s2; cbn; now rewrite Hs).
    destruct (IHb env (ct :: sc) s2 l TNil None Hb Hl2 Hs2) as [H3 _]; [intros t H; discriminate|].
    destruct (check_block true sigs s2 TNil body) as [s3 tb]. cbn in H3. subst s3.
    cbn [fst]. subst s2. unfold pop_scope, push_scope, set_locals, set_regs. cbn.
    destruct s as [[? ? ? ? ? ?] ? ? ?]; reflexivity.
  - intros env sc s l t0 ot0 _ _ _ H0. cbn. split; [reflexivity|]. exact H0.
  - intros e IHe b IHb env sc s l t0 ot0 Hc Hl Hs H0. cbn [cblock] in Hc. apply andb_true_iff in Hc.
    destruct Hc as [He Hb]. cbn [check_block ctype_b].
    destruct (IHe env sc s l He Hl Hs) as [H1 H2].
    destruct (check_expr true sigs s e) as [s1 t1]. cbn in H1, H2. subst s1.
    apply (IHb env sc s l t1 (ctype_e env e) Hb Hl Hs). exact H2.
Qed.

(* the scope stack handed to cexpr is irrelevant for a closure literal (checkMethod installs its own) *)
Lemma cexpr_clos_sc : forall env sc sc' ps rt th body,
  cexpr env sc (EClos ps rt th body) = cexpr env sc' (EClos ps rt th body).
Proof. reflexivity. Qed.

Lemma closed_value_check : forall sigs e s,
  closed_value e = true -> fst (check_expr true sigs s e) = s.
Proof.
  intros sigs. induction e; intros s H; cbn [closed_value] in H; try discriminate.
  - reflexivity.
  - cbn. auto.
  - rewrite (cexpr_clos_sc [] [] (rcatch (sregs s))) in H.
    destruct (proj1 (closed_inert sigs) (EClos ps rt th body) [] (rcatch (sregs s)) s (slocals s) H) as [H1 _]; auto.
Qed.

(* ------------------------------------------------------------------ an unused local does not matter *)

Definition agree (x : name) (s s' : st) : Prop :=
  sregs s = sregs s' /\ serrs s = serrs s' /\ sthrown s = sthrown s' /\
  forall y, y <> x -> lookup (slocals s) y = lookup (slocals s') y.

Lemma agree_refl : forall x s, agree x s s.
Proof. intros. repeat split; auto. Qed.

Lemma agree_err : forall x s s', agree x s s' -> agree x (err s) (err s').
Proof. intros x s s' (H1 & H2 & H3 & H4). repeat split; cbn; auto. Qed.

Lemma agree_add : forall x s s' y t, agree x s s' -> agree x (add_local s y t) (add_local s' y t).
Proof.
  intros x s s' y t (H1 & H2 & H3 & H4). repeat split; cbn; auto.
  intros z Hz. destruct (N.eqb z y); auto.
Qed.

Lemma agree_throw : forall x s s' u, agree x s s' -> agree x (check_throw s u) (check_throw s' u).
Proof.
  intros x s s' u Ha. pose proof Ha as (H1 & H2 & H3 & H4). unfold check_throw. destruct u; [assumption|].
  rewrite H1. destruct (covered _ _); [assumption|]. destruct (rinft _); [|now apply agree_err].
  repeat split; cbn; auto. now rewrite H3.
Qed.

Lemma agree_fresh : forall x s t, agree x s (add_local s x t).
Proof.
  intros. repeat split; cbn; auto. intros y Hy. apply N.eqb_neq in Hy. now rewrite Hy.
Qed.

Lemma weak : forall fx sigs x,
  (forall e s s', agree x s s' -> ~ In x (expr_names e) ->
     agree x (fst (check_expr fx sigs s e)) (fst (check_expr fx sigs s' e)) /\
     snd (check_expr fx sigs s e) = snd (check_expr fx sigs s' e)) /\
  (forall b s s' t0 t0', agree x s s' -> ~ In x (block_names b) -> (b <> BNil \/ t0 = t0') ->
     agree x (fst (check_block fx sigs s t0 b)) (fst (check_block fx sigs s' t0' b)) /\
     snd (check_block fx sigs s t0 b) = snd (check_block fx sigs s' t0' b)).
Proof.
  intros fx sigs x. apply expr_block_ind.
  - intros t s s' Ha _. cbn. auto.
  - intros y s s' Ha Hn. cbn in *. assert (Hy : y <> x) by (intro; subst; apply Hn; left; reflexivity).
    pose proof Ha as (H1 & H2 & H3 & H4). rewrite (H4 _ Hy).
    destruct (lookup (slocals s') y); cbn; auto using agree_err.
  - intros e IH s s' Ha Hn. cbn in *. auto.
  - intros e IH s s' Ha Hn. cbn [check_expr expr_names] in *.
    destruct (IH _ _ Ha Hn) as [Hb Ht]. do 2 dletg. cbn in Hb, Ht. subst.
    destruct t0; cbn; auto using agree_err.
    destruct (N.eqb np 0); cbn [fst snd]; auto using agree_err, agree_throw.
  - intros m s s' Ha _. cbn [check_expr]. destruct (lookup sigs m) as [[t u]|]; cbn [fst snd]; auto using agree_err, agree_throw.
  - intros ps rt th body IH s s' Ha Hn. cbn [check_expr expr_names] in *.
    pose proof Ha as (H1 & H2 & H3 & H4). rewrite <- H1, <- H2.
    set (r1 := mkRegs rt th MethodMode _ _ _).
    set (decl := match th with Some u => u | None => [] end).
    assert (Ha1 : agree x (mkSt r1 (ps ++ slocals s) (serrs s) decl) (mkSt r1 (ps ++ slocals s') (serrs s) decl)).
    { repeat split; cbn; auto. intros y Hy. rewrite !lookup_app. destruct (lookup ps y); auto. }
    assert (Hnb : ~ In x (block_names body)) by (intro; apply Hn; apply in_or_app; right; assumption).
    assert (Hne : body <> BNil \/ TNil = TNil) by (right; reflexivity).
    destruct (IH _ _ TNil TNil Ha1 Hnb Hne) as [(G1 & G2 & G3 & G4) Ht]. do 2 dletg. cbn in G1, G2, G3, G4, Ht. subst.
    rewrite G3.
    assert (Herr : forall r, serrs (if assignable t0 r then s0 else err s0) = serrs (if assignable t0 r then s1 else err s1))
      by (intro r; destruct (assignable t0 r); cbn; congruence).
    split.
    + unfold exit_method. rewrite <- H1, <- H3. repeat split; cbn; auto.
      destruct rt as [r|]; [destruct (rinfr (sregs s))|]; auto.
    + reflexivity.
  - intros y e IH s s' Ha Hn. cbn [check_expr expr_names] in *.
    assert (Hy : y <> x) by (intro; subst; apply Hn; left; reflexivity).
    assert (He : ~ In x (expr_names e)) by (intro; apply Hn; right; assumption).
    destruct (IH _ _ Ha He) as [Hb Ht]. do 2 dletg. cbn in Hb, Ht. subst.
    pose proof Hb as (H1 & H2 & H3 & H4). rewrite (H4 _ Hy).
    destruct (lookup (slocals s1) y); [destruct (assignable t0 t)|]; cbn; auto using agree_err, agree_add.
  - intros y e IH s s' Ha Hn. cbn [check_expr expr_names] in *.
    assert (Hy : y <> x) by (intro; subst; apply Hn; left; reflexivity).
    assert (He : ~ In x (expr_names e)) by (intro; apply Hn; right; assumption).
    destruct (IH _ _ Ha He) as [Hb Ht]. do 2 dletg. cbn in Hb, Ht. subst.
    pose proof Hb as (H1 & H2 & H3 & H4). rewrite (H4 _ Hy).
    destruct (lookup (slocals s1) y); [destruct (assignable t0 t)|]; cbn; auto using agree_err.
  - intros e IH s s' Ha Hn. cbn [check_expr expr_names] in *.
    destruct (IH _ _ Ha Hn) as [Hb Ht]. do 2 dletg. cbn in Hb, Ht. subst.
    pose proof Hb as (H1 & H2 & H3 & H4). rewrite H1.
    destruct (rinfr (sregs s1)); cbn; auto.
    destruct (rret (sregs s1)); [destruct (assignable t0 t)|]; cbn; auto using agree_err.
  - intros c s s' Ha _. cbn [check_expr fst snd]. auto using agree_throw.
  - intros body IHb ct handler IHh s s' Ha Hn. cbn [check_expr expr_names] in *.
    assert (Hnb : ~ In x (block_names body)) by (intro; apply Hn; apply in_or_app; left; assumption).
    assert (Hnh : ~ In x (block_names handler)) by (intro; apply Hn; apply in_or_app; right; assumption).
    pose proof Ha as (A1 & A2 & A3 & A4).
    destruct (IHh s s' TNil TNil Ha Hnh (or_intror eq_refl)) as [(H1 & H2 & H3 & H4) Ht].
    destruct (check_block fx sigs s TNil handler) as [sa ta].
    destruct (check_block fx sigs s' TNil handler) as [sb tb].
    cbn [fst snd] in H1, H2, H3, H4, Ht. subst tb.
    assert (Ha2 : agree x (push_scope (set_locals sa (slocals s)) ct) (push_scope (set_locals sb (slocals s')) ct)).
    { repeat split; cbn; auto. now rewrite H1. }
    destruct (IHb _ _ TNil TNil Ha2 Hnb (or_intror eq_refl)) as [(G1 & G2 & G3 & G4) Ht2].
    destruct (check_block fx sigs (push_scope (set_locals sa (slocals s)) ct) TNil body) as [sc tc].
    destruct (check_block fx sigs (push_scope (set_locals sb (slocals s')) ct) TNil body) as [sd td].
    cbn [fst snd] in G1, G2, G3, G4, Ht2. subst td.
    split; [|reflexivity]. repeat split; cbn; auto. now rewrite G1.
  - intros s s' t0 t0' Ha _ [H|H]; [contradiction|]. cbn. auto.
  - intros e IHe b IHb s s' t0 t0' Ha Hn _. cbn [check_block block_names] in *.
    assert (Hne : ~ In x (expr_names e)) by (intro; apply Hn; apply in_or_app; left; assumption).
    assert (Hnb : ~ In x (block_names b)) by (intro; apply Hn; apply in_or_app; right; assumption).
    destruct (IHe _ _ Ha Hne) as [Hb Ht]. do 2 dletg. cbn in Hb, Ht. subst.
    apply IHb; auto.
Qed.

(* a name that does not occur stays unbound *)
Lemma keeps_unbound : forall fx sigs x,
  (forall e s, ~ In x (expr_names e) -> lookup (slocals s) x = None ->
     lookup (slocals (fst (check_expr fx sigs s e))) x = None) /\
  (forall b s t0, ~ In x (block_names b) -> lookup (slocals s) x = None ->
     lookup (slocals (fst (check_block fx sigs s t0 b))) x = None).
Proof.
  intros fx sigs x. apply expr_block_ind.
  - intros t s _ H. exact H.
  - intros y s _ H. cbn. destruct (lookup (slocals s) y); exact H.
  - intros e IH s Hn H. cbn in *. auto.
  - intros e IH s Hn H. cbn [check_expr expr_names] in *. specialize (IH s Hn H). dletg. cbn in IH.
    destruct t; cbn [fst err slocals]; auto. destruct (N.eqb np 0); cbn [fst err slocals]; auto. now rewrite check_throw_locals.
  - intros m s _ H. cbn [check_expr]. destruct (lookup sigs m) as [[t u]|]; cbn [fst err slocals]; auto. now rewrite check_throw_locals.
  - intros ps rt th body IH s Hn H. cbn [check_expr]. dletg. cbn. exact H.
  - intros y e IH s Hn H. cbn [check_expr expr_names] in *.
    assert (Hy : N.eqb x y = false) by (apply N.eqb_neq; intro; subst; apply Hn; left; reflexivity).
    assert (He : ~ In x (expr_names e)) by (intro; apply Hn; right; assumption).
    specialize (IH s He H). dletg. cbn in IH.
    destruct (lookup (slocals s0) y); [destruct (assignable t t0)|]; cbn; auto. now rewrite Hy.
  - intros y e IH s Hn H. cbn [check_expr expr_names] in *.
    assert (He : ~ In x (expr_names e)) by (intro; apply Hn; right; assumption).
    specialize (IH s He H). dletg. cbn in IH.
    destruct (lookup (slocals s0) y); [destruct (assignable t t0)|]; cbn; auto.
  - intros e IH s Hn H. cbn [check_expr expr_names] in *. specialize (IH s Hn H). dletg. cbn in IH.
    destruct (rinfr (sregs s0)); cbn; auto.
    destruct (rret (sregs s0)); [destruct (assignable t t0)|]; cbn; auto.
  - intros c s _ H. cbn [check_expr fst]. now rewrite check_throw_locals.
  - intros body IHb ct handler IHh s Hn H. cbn [check_expr]. do 2 dletg. cbn. exact H.
  - intros s t0 _ H. exact H.
  - intros e IHe b IHb s t0 Hn H. cbn [check_block block_names] in *.
    assert (Hne : ~ In x (expr_names e)) by (intro; apply Hn; apply in_or_app; left; assumption).
    assert (Hnb : ~ In x (block_names b)) by (intro; apply Hn; apply in_or_app; right; assumption).
    specialize (IHe s Hne H). dletg. cbn in IHe. apply IHb; auto.
Qed.

(* the edit: `x := v` in front of any statement of any block, at any depth *)
Lemma insert_anywhere : forall sigs x v, closed_value v = true ->
  (forall b b', ins_b (ELet x v) b b' -> forall s s' t0,
     agree x s s' -> lookup (slocals s') x = None -> ~ In x (block_names b) ->
     agree x (fst (check_block true sigs s t0 b)) (fst (check_block true sigs s' t0 b')) /\
     snd (check_block true sigs s t0 b) = snd (check_block true sigs s' t0 b')) /\
  (forall e e', ins_e (ELet x v) e e' -> forall s s',
     agree x s s' -> lookup (slocals s') x = None -> ~ In x (expr_names e) ->
     agree x (fst (check_expr true sigs s e)) (fst (check_expr true sigs s' e')) /\
     snd (check_expr true sigs s e) = snd (check_expr true sigs s' e')).
Proof.
  intros sigs x v Hv.
  apply (ins_ind (ELet x v)
    (fun b b' _ => forall s s' t0,
       agree x s s' -> lookup (slocals s') x = None -> ~ In x (block_names b) ->
       agree x (fst (check_block true sigs s t0 b)) (fst (check_block true sigs s' t0 b')) /\
       snd (check_block true sigs s t0 b) = snd (check_block true sigs s' t0 b'))
    (fun e e' _ => forall s s',
       agree x s s' -> lookup (slocals s') x = None -> ~ In x (expr_names e) ->
       agree x (fst (check_expr true sigs s e)) (fst (check_expr true sigs s' e')) /\
       snd (check_expr true sigs s e) = snd (check_expr true sigs s' e'))).
  - (* here *)
    intros e b s s' t0 Ha Hl Hn.
    change (check_block true sigs s' t0 (BCons (ELet x v) (BCons e b)))
      with (let (s1, t) := check_expr true sigs s' (ELet x v) in check_block true sigs s1 t (BCons e b)).
    cbn [check_expr]. pose proof (closed_value_check sigs v s' Hv) as Hc.
    destruct (check_expr true sigs s' v) as [s1 tv]. cbn in Hc. subst s1. rewrite Hl.
    apply (proj2 (weak true sigs x)); auto.
    + destruct Ha as (H1 & H2 & H3 & H4). repeat split; cbn; auto.
      intros y Hy. rewrite (H4 y Hy). apply N.eqb_neq in Hy. now rewrite Hy.
    + left. discriminate.
  - (* later *)
    intros e b b' _ IH s s' t0 Ha Hl Hn. cbn [check_block block_names] in *.
    assert (Hne : ~ In x (expr_names e)) by (intro; apply Hn; apply in_or_app; left; assumption).
    assert (Hnb : ~ In x (block_names b)) by (intro; apply Hn; apply in_or_app; right; assumption).
    destruct (proj1 (weak true sigs x) e s s' Ha Hne) as [Hb Ht].
    pose proof (proj1 (keeps_unbound true sigs x) e s' Hne Hl) as Hl'.
    do 2 dletg. cbn in Hb, Ht, Hl'. subst. apply IH; auto.
  - (* inside the first statement *)
    intros e e' b _ IH s s' t0 Ha Hl Hn. cbn [check_block block_names] in *.
    assert (Hne : ~ In x (expr_names e)) by (intro; apply Hn; apply in_or_app; left; assumption).
    assert (Hnb : ~ In x (block_names b)) by (intro; apply Hn; apply in_or_app; right; assumption).
    destruct (IH s s' Ha Hl Hne) as [Hb Ht]. do 2 dletg. cbn in Hb, Ht. subst.
    destruct b as [|e2 b2].
    + cbn. auto.
    + apply (proj2 (weak true sigs x)); auto; left; discriminate.
  - (* do body *)
    intros b b' ct h _ IH s s' Ha Hl Hn. cbn [check_expr expr_names] in *.
    assert (Hnb : ~ In x (block_names b)) by (intro; apply Hn; apply in_or_app; left; assumption).
    assert (Hnh : ~ In x (block_names h)) by (intro; apply Hn; apply in_or_app; right; assumption).
    pose proof Ha as (A1 & A2 & A3 & A4).
    destruct (proj2 (weak true sigs x) h s s' TNil TNil Ha Hnh (or_intror eq_refl)) as [(H1 & H2 & H3 & H4) Ht].
    destruct (check_block true sigs s TNil h) as [sa ta].
    destruct (check_block true sigs s' TNil h) as [sb tb].
    cbn [fst snd] in H1, H2, H3, H4, Ht. subst tb.
    assert (Ha2 : agree x (push_scope (set_locals sa (slocals s)) ct) (push_scope (set_locals sb (slocals s')) ct)).
    { repeat split; cbn; auto. now rewrite H1. }
    destruct (IH _ _ TNil Ha2 Hl Hnb) as [(G1 & G2 & G3 & G4) Ht2].
    destruct (check_block true sigs (push_scope (set_locals sa (slocals s)) ct) TNil b) as [sc tc].
    destruct (check_block true sigs (push_scope (set_locals sb (slocals s')) ct) TNil b') as [sd td].
    cbn [fst snd] in G1, G2, G3, G4, Ht2. subst td.
    split; [|reflexivity]. repeat split; cbn; auto. now rewrite G1.
  - (* catch handler *)
    intros b ct h h' _ IH s s' Ha Hl Hn. cbn [check_expr expr_names] in *.
    assert (Hnb : ~ In x (block_names b)) by (intro; apply Hn; apply in_or_app; left; assumption).
    assert (Hnh : ~ In x (block_names h)) by (intro; apply Hn; apply in_or_app; right; assumption).
    pose proof Ha as (A1 & A2 & A3 & A4).
    destruct (IH s s' TNil Ha Hl Hnh) as [(H1 & H2 & H3 & H4) Ht].
    destruct (check_block true sigs s TNil h) as [sa ta].
    destruct (check_block true sigs s' TNil h') as [sb tb].
    cbn [fst snd] in H1, H2, H3, H4, Ht. subst tb.
    assert (Ha2 : agree x (push_scope (set_locals sa (slocals s)) ct) (push_scope (set_locals sb (slocals s')) ct)).
    { repeat split; cbn; auto. now rewrite H1. }
    destruct (proj2 (weak true sigs x) b _ _ TNil TNil Ha2 Hnb (or_intror eq_refl)) as [(G1 & G2 & G3 & G4) Ht2].
    destruct (check_block true sigs (push_scope (set_locals sa (slocals s)) ct) TNil b) as [sc tc].
    destruct (check_block true sigs (push_scope (set_locals sb (slocals s')) ct) TNil b) as [sd td].
    cbn [fst snd] in G1, G2, G3, G4, Ht2. subst td.
    split; [|reflexivity]. repeat split; cbn; auto. now rewrite G1.
  - (* closure body *)
    intros ps rt th b b' _ IH s s' Ha Hl Hn. cbn [check_expr expr_names] in *.
    pose proof Ha as (H1 & H2 & H3 & H4). rewrite <- H1, <- H2.
    set (r1 := mkRegs rt th MethodMode _ _ _).
    set (decl := match th with Some u => u | None => [] end).
    assert (Hnp : ~ In x (map fst ps)) by (intro; apply Hn; apply in_or_app; left; assumption).
    assert (Hnb : ~ In x (block_names b)) by (intro; apply Hn; apply in_or_app; right; assumption).
    assert (Ha1 : agree x (mkSt r1 (ps ++ slocals s) (serrs s) decl) (mkSt r1 (ps ++ slocals s') (serrs s) decl)).
    { repeat split; cbn; auto. intros y Hy. rewrite !lookup_app. destruct (lookup ps y); auto. }
    assert (Hl1 : lookup (slocals (mkSt r1 (ps ++ slocals s') (serrs s) decl)) x = None).
    { cbn. rewrite lookup_app, Hl. clear - Hnp. induction ps as [|[y t] ps IHp]; cbn in *; auto.
      destruct (N.eqb x y) eqn:E; [apply N.eqb_eq in E; subst; exfalso; apply Hnp; left; reflexivity|].
      apply IHp. intro. apply Hnp. right. assumption. }
    destruct (IH _ _ TNil Ha1 Hl1 Hnb) as [(G1 & G2 & G3 & G4) Ht]. do 2 dletg. cbn in G1, G2, G3, G4, Ht. subst.
    rewrite G3.
    assert (Herr : forall r, serrs (if assignable t0 r then s0 else err s0) = serrs (if assignable t0 r then s1 else err s1))
      by (intro r; destruct (assignable t0 r); cbn; congruence).
    split; [|reflexivity].
    unfold exit_method. rewrite <- H1, <- H3. repeat split; cbn; auto.
    destruct rt as [r|]; [destruct (rinfr (sregs s))|]; auto.
  - (* parentheses *)
    intros e e' _ IH s s' Ha Hl Hn. cbn in *. auto.
  - (* f.() *)
    intros e e' _ IH s s' Ha Hl Hn. cbn [check_expr expr_names] in *.
    destruct (IH _ _ Ha Hl Hn) as [Hb Ht]. do 2 dletg. cbn in Hb, Ht. subst.
    destruct t0; cbn; auto using agree_err.
    destruct (N.eqb np 0); cbn [fst snd]; auto using agree_err, agree_throw.
  - (* y := closure *)
    intros y e e' _ IH s s' Ha Hl Hn. cbn [check_expr expr_names] in *.
    assert (Hy : y <> x) by (intro; subst; apply Hn; left; reflexivity).
    assert (He : ~ In x (expr_names e)) by (intro; apply Hn; right; assumption).
    destruct (IH _ _ Ha Hl He) as [Hb Ht]. do 2 dletg. cbn in Hb, Ht. subst.
    pose proof Hb as (H1 & H2 & H3 & H4). rewrite (H4 _ Hy).
    destruct (lookup (slocals s1) y); [destruct (assignable t0 t)|]; cbn; auto using agree_err, agree_add.
  - (* y = closure *)
    intros y e e' _ IH s s' Ha Hl Hn. cbn [check_expr expr_names] in *.
    assert (Hy : y <> x) by (intro; subst; apply Hn; left; reflexivity).
    assert (He : ~ In x (expr_names e)) by (intro; apply Hn; right; assumption).
    destruct (IH _ _ Ha Hl He) as [Hb Ht]. do 2 dletg. cbn in Hb, Ht. subst.
    pose proof Hb as (H1 & H2 & H3 & H4). rewrite (H4 _ Hy).
    destruct (lookup (slocals s1) y); [destruct (assignable t0 t)|]; cbn; auto using agree_err.
  - (* return closure *)
    intros e e' _ IH s s' Ha Hl Hn. cbn [check_expr expr_names] in *.
    destruct (IH _ _ Ha Hl Hn) as [Hb Ht]. do 2 dletg. cbn in Hb, Ht. subst.
    pose proof Hb as (H1 & H2 & H3 & H4). rewrite H1.
    destruct (rinfr (sregs s1)); cbn; auto.
    destruct (rret (sregs s1)); [destruct (assignable t0 t)|]; cbn; auto using agree_err.
Qed.

Lemma sigs_of_app_body : forall ms1 n rt u b b' ms2,
  sigs_of (ms1 ++ (n, rt, u, b') :: ms2) = sigs_of (ms1 ++ (n, rt, u, b) :: ms2).
Proof. intros. unfold sigs_of. rewrite !map_app. reflexivity. Qed.

Lemma insert_method : forall sigs s n rt u body body' x v,
  closed_value v = true -> ~ In x (block_names body) -> ins_b (ELet x v) body body' ->
  check_method true sigs s (n, rt, u, body') = check_method true sigs s (n, rt, u, body).
Proof.
  intros sigs s n rt u body body' x v Hv Hn Hi. unfold check_method.
  set (s1 := mkSt _ [] (serrs s) u).
  destruct (proj1 (insert_anywhere sigs x v Hv) body body' Hi s1 s1 TNil (agree_refl x s1) eq_refl Hn)
    as [(H1 & H2 & H3 & H4) Ht].
  destruct (check_block true sigs s1 TNil body) as [sa ta].
  destruct (check_block true sigs s1 TNil body') as [sb tb].
  cbn [fst snd] in H1, H2, H3, H4, Ht. subst tb. unfold exit_method.
  destruct (assignable ta rt); cbn; congruence.
Qed.

Theorem unused_local_method : forall ms1 n rt u body body' ms2 mn x v,
  closed_value v = true -> ~ In x (block_names body) -> ins_b (ELet x v) body body' ->
  check_prog true (mkProg (ms1 ++ (n, rt, u, body') :: ms2) mn) =
  check_prog true (mkProg (ms1 ++ (n, rt, u, body) :: ms2) mn).
Proof.
  intros. unfold check_prog. cbn [methods main]. rewrite (sigs_of_app_body ms1 n rt u body).
  rewrite !fold_left_app. cbn [fold_left]. rewrite (insert_method _ _ n rt u body body' x v); auto.
Qed.

Lemma fold_methods_locals : forall fx sg l s0,
  slocals (fold_left (check_method fx sg) l s0) = slocals s0.
Proof.
  induction l as [|a l IHl]; intros s0; cbn; auto. rewrite IHl.
  destruct a as [[[? ?] ?] ?]. unfold check_method. dletg. reflexivity.
Qed.

(* top-level statements: before any statement at any depth, or at the very end *)
Theorem unused_local_main : forall ms mn mn' x v,
  closed_value v = true -> ~ In x (block_names mn) ->
  (ins_b (ELet x v) mn mn' \/ mn' = insert_at (block_len mn) (ELet x v) mn) ->
  errors true (mkProg ms mn') = errors true (mkProg ms mn).
Proof.
  intros ms mn mn' x v Hv Hn Hi. unfold errors, check_prog. cbn [methods main].
  set (s := fold_left (check_method true (sigs_of ms)) ms top).
  assert (Hl : lookup (slocals s) x = None) by (subst s; rewrite fold_methods_locals; reflexivity).
  destruct Hi as [Hi|Hi].
  - destruct (proj1 (insert_anywhere (sigs_of ms) x v Hv) mn mn' Hi s s TNil (agree_refl x s) Hl Hn)
      as [(H1 & H2 & H3 & H4) _]. now rewrite H2.
  - subst mn'. clearbody s. generalize TNil as t0. revert s Hl Hn.
    induction mn as [|e b IH]; intros s Hl Hn t0; cbn [block_len insert_at check_block block_names] in *.
    + cbn [check_expr]. pose proof (closed_value_check (sigs_of ms) v s Hv) as Hc.
      destruct (check_expr true (sigs_of ms) s v) as [s1 tv]. cbn in Hc. subst s1. rewrite Hl. reflexivity.
    + assert (Hne : ~ In x (expr_names e)) by (intro; apply Hn; apply in_or_app; left; assumption).
      assert (Hnb : ~ In x (block_names b)) by (intro; apply Hn; apply in_or_app; right; assumption).
      pose proof (proj1 (keeps_unbound true (sigs_of ms) x) e s Hne Hl) as Hl'.
      destruct (check_expr true (sigs_of ms) s e) as [s1 t1]. cbn in Hl'. apply IH; auto.
Qed.

(* ------------------------------------------------------------------ parentheses *)

Lemma strip_ok : forall fx sigs,
  (forall e s, check_expr fx sigs s (strip_expr e) = check_expr fx sigs s e) /\
  (forall b s t0, check_block fx sigs s t0 (strip_block b) = check_block fx sigs s t0 b).
Proof.
  intros fx sigs. apply expr_block_ind.
  - reflexivity.
  - reflexivity.
  - intros e IH s. cbn [strip_expr check_expr]. apply IH.
  - intros e IH s. cbn [strip_expr check_expr]. now rewrite IH.
  - reflexivity.
  - intros ps rt th body IH s. cbn [strip_expr check_expr]. now rewrite IH.
  - intros x e IH s. cbn [strip_expr check_expr]. now rewrite IH.
  - intros x e IH s. cbn [strip_expr check_expr]. now rewrite IH.
  - intros e IH s. cbn [strip_expr check_expr]. now rewrite IH.
  - reflexivity.
  - intros body IHb ct handler IHh s. cbn [strip_expr check_expr]. rewrite IHh.
    destruct (check_block fx sigs s TNil handler) as [s1 th]. now rewrite IHb.
  - reflexivity.
  - intros e IHe b IHb s t0. cbn [strip_block check_block]. rewrite IHe.
    destruct (check_expr fx sigs s e) as [s1 t1]. apply IHb.
Qed.

Lemma strip_fold : forall fx sg ms s0,
  fold_left (check_method fx sg) (map strip_method ms) s0 = fold_left (check_method fx sg) ms s0.
Proof.
  induction ms as [|m ms IH]; intros s0; cbn; [reflexivity|].
  rewrite IH. f_equal. destruct m as [[[n rt] u] b]. unfold strip_method, check_method.
  now rewrite (proj2 (strip_ok fx sg)).
Qed.

Theorem parens_prog : forall fx p, check_prog fx (strip_prog p) = check_prog fx p.
Proof.
  intros fx [ms mn]. unfold check_prog, strip_prog. cbn [methods main].
  assert (Hs : sigs_of (map strip_method ms) = sigs_of ms).
  { unfold sigs_of. rewrite map_map. apply map_ext. intros [[[? ?] ?] ?]. reflexivity. }
  rewrite Hs, strip_fold, (proj2 (strip_ok fx (sigs_of ms))). reflexivity.
Qed.

(* ------------------------------------------------------------------ alpha-renaming *)

Section Ren.
Variable f : name -> name.
Hypothesis f_inj : forall x y, f x = f y -> x = y.

Definition renrel (s s' : st) : Prop :=
  sregs s' = sregs s /\ serrs s' = serrs s /\ sthrown s' = sthrown s /\ slocals s' = ren_params f (slocals s).

Lemma f_eqb : forall x y, N.eqb (f x) (f y) = N.eqb x y.
Proof.
  intros x y. destruct (N.eqb x y) eqn:E.
  - apply N.eqb_eq in E. subst. apply N.eqb_refl.
  - apply N.eqb_neq. intro H. apply f_inj in H. apply N.eqb_neq in E. contradiction.
Qed.

Lemma lookup_ren : forall (l : list (name * ty)) x, lookup (ren_params f l) (f x) = lookup l x.
Proof.
  induction l as [|[y t] l IH]; intros x; cbn; [reflexivity|]. rewrite f_eqb. destruct (N.eqb x y); auto.
Qed.

Lemma renrel_err : forall s s', renrel s s' -> renrel (err s) (err s').
Proof. intros s s' (H1 & H2 & H3 & H4). repeat split; cbn; auto. Qed.

Lemma renrel_throw : forall s s' u, renrel s s' -> renrel (check_throw s u) (check_throw s' u).
Proof.
  intros s s' u Hr. pose proof Hr as (H1 & H2 & H3 & H4). unfold check_throw. destruct u; [assumption|].
  rewrite H1. destruct (covered _ _); [assumption|]. destruct (rinft _); [|now apply renrel_err].
  repeat split; cbn; auto. now rewrite H3.
Qed.

Lemma ren_ok : forall fx sigs,
  (forall e s s', renrel s s' ->
     renrel (fst (check_expr fx sigs s e)) (fst (check_expr fx sigs s' (ren_expr f e))) /\
     snd (check_expr fx sigs s' (ren_expr f e)) = snd (check_expr fx sigs s e)) /\
  (forall b s s' t0, renrel s s' ->
     renrel (fst (check_block fx sigs s t0 b)) (fst (check_block fx sigs s' t0 (ren_block f b))) /\
     snd (check_block fx sigs s' t0 (ren_block f b)) = snd (check_block fx sigs s t0 b)).
Proof.
  intros fx sigs. apply expr_block_ind.
  - intros t s s' Hr. cbn. auto.
  - intros x s s' Hr. cbn [check_expr ren_expr]. pose proof Hr as (H1 & H2 & H3 & H4). rewrite H4, lookup_ren.
    destruct (lookup (slocals s) x); cbn; auto using renrel_err.
  - intros e IH s s' Hr. cbn [check_expr ren_expr]. auto.
  - intros e IH s s' Hr. cbn [check_expr ren_expr].
    destruct (IH _ _ Hr) as [Hb Ht].
    destruct (check_expr fx sigs s e) as [sa ta]. destruct (check_expr fx sigs s' (ren_expr f e)) as [sb tb].
    cbn [fst snd] in Hb, Ht. subst tb.
    destruct ta; cbn [fst snd]; auto using renrel_err.
    destruct (N.eqb np 0); cbn [fst snd]; auto using renrel_err, renrel_throw.
  - intros m s s' Hr. cbn [check_expr ren_expr]. destruct (lookup sigs m) as [[t u]|]; cbn [fst snd]; auto using renrel_err, renrel_throw.
  - intros ps rt th body IH s s' Hr. cbn [check_expr ren_expr].
    pose proof Hr as (H1 & H2 & H3 & H4). rewrite H1, H2.
    set (r1 := mkRegs rt th MethodMode _ _ _).
    set (decl := match th with Some u => u | None => [] end).
    assert (Hr1 : renrel (mkSt r1 (ps ++ slocals s) (serrs s) decl) (mkSt r1 (ren_params f ps ++ slocals s') (serrs s) decl)).
    { repeat split; cbn; auto. rewrite H4. unfold ren_params. now rewrite map_app. }
    destruct (IH _ _ TNil Hr1) as [(G1 & G2 & G3 & G4) Ht].
    destruct (check_block fx sigs (mkSt r1 (ps ++ slocals s) (serrs s) decl) TNil body) as [sa ta].
    destruct (check_block fx sigs (mkSt r1 (ren_params f ps ++ slocals s') (serrs s) decl) TNil (ren_block f body)) as [sb tb].
    cbn [fst snd] in G1, G2, G3, G4, Ht. subst tb. rewrite G3.
    assert (Herr : forall r, serrs (if assignable ta r then sb else err sb) = serrs (if assignable ta r then sa else err sa))
      by (intro r; destruct (assignable ta r); cbn; congruence).
    unfold ren_params at 2. rewrite map_length.
    split; [|reflexivity].
    unfold exit_method. rewrite H1, H3. repeat split; cbn; auto.
    destruct rt as [r|]; [destruct (rinfr (sregs s))|]; auto.
  - intros y e IH s s' Hr. cbn [check_expr ren_expr].
    destruct (IH _ _ Hr) as [Hb Ht].
    destruct (check_expr fx sigs s e) as [sa ta]. destruct (check_expr fx sigs s' (ren_expr f e)) as [sb tb].
    cbn [fst snd] in Hb, Ht. subst tb. pose proof Hb as (H1 & H2 & H3 & H4). rewrite H4, lookup_ren.
    destruct (lookup (slocals sa) y); [destruct (assignable ta t)|]; cbn [fst snd]; auto using renrel_err.
    split; auto. repeat split; cbn; auto. now rewrite H4.
  - intros y e IH s s' Hr. cbn [check_expr ren_expr].
    destruct (IH _ _ Hr) as [Hb Ht].
    destruct (check_expr fx sigs s e) as [sa ta]. destruct (check_expr fx sigs s' (ren_expr f e)) as [sb tb].
    cbn [fst snd] in Hb, Ht. subst tb. pose proof Hb as (H1 & H2 & H3 & H4). rewrite H4, lookup_ren.
    destruct (lookup (slocals sa) y); [destruct (assignable ta t)|]; cbn [fst snd]; auto using renrel_err.
  - intros e IH s s' Hr. cbn [check_expr ren_expr].
    destruct (IH _ _ Hr) as [Hb Ht].
    destruct (check_expr fx sigs s e) as [sa ta]. destruct (check_expr fx sigs s' (ren_expr f e)) as [sb tb].
    cbn [fst snd] in Hb, Ht. subst tb. pose proof Hb as (H1 & H2 & H3 & H4). rewrite H1.
    destruct (rinfr (sregs sa)); cbn [fst snd]; auto.
    destruct (rret (sregs sa)); [destruct (assignable ta t)|]; cbn [fst snd]; auto using renrel_err.
  - intros c s s' Hr. cbn [check_expr ren_expr fst snd]. auto using renrel_throw.
  - intros body IHb ct handler IHh s s' Hr. cbn [check_expr ren_expr].
    pose proof Hr as (A1 & A2 & A3 & A4).
    destruct (IHh s s' TNil Hr) as [(H1 & H2 & H3 & H4) Ht].
    destruct (check_block fx sigs s TNil handler) as [sa ta].
    destruct (check_block fx sigs s' TNil (ren_block f handler)) as [sb tb].
    cbn [fst snd] in H1, H2, H3, H4, Ht. subst tb.
    assert (Hr2 : renrel (push_scope (set_locals sa (slocals s)) ct) (push_scope (set_locals sb (slocals s')) ct)).
    { repeat split; cbn; auto. now rewrite H1. }
    destruct (IHb _ _ TNil Hr2) as [(G1 & G2 & G3 & G4) Ht2].
    destruct (check_block fx sigs (push_scope (set_locals sa (slocals s)) ct) TNil body) as [sc tc].
    destruct (check_block fx sigs (push_scope (set_locals sb (slocals s')) ct) TNil (ren_block f body)) as [sd td].
    cbn [fst snd] in G1, G2, G3, G4, Ht2. subst td.
    split; [|reflexivity]. repeat split; cbn; auto. now rewrite G1.
  - intros s s' t0 Hr. cbn. auto.
  - intros e IHe b IHb s s' t0 Hr. cbn [check_block ren_block].
    destruct (IHe _ _ Hr) as [Hb Ht].
    destruct (check_expr fx sigs s e) as [sa ta]. destruct (check_expr fx sigs s' (ren_expr f e)) as [sb tb].
    cbn [fst snd] in Hb, Ht. subst tb. apply IHb. exact Hb.
Qed.

Lemma ren_method : forall fx sigs s n rt u body,
  check_method fx sigs s (n, rt, u, ren_block f body) = check_method fx sigs s (n, rt, u, body).
Proof.
  intros. unfold check_method.
  set (s1 := mkSt _ [] (serrs s) u).
  assert (Hr : renrel s1 s1) by (repeat split; reflexivity).
  destruct (proj2 (ren_ok fx sigs) body s1 s1 TNil Hr) as [(H1 & H2 & H3 & H4) Ht].
  destruct (check_block fx sigs s1 TNil body) as [sa ta].
  destruct (check_block fx sigs s1 TNil (ren_block f body)) as [sb tb].
  cbn [fst snd] in H1, H2, H3, H4, Ht. subst tb. unfold exit_method.
  destruct (assignable ta rt); cbn; congruence.
Qed.

Theorem rename_method : forall fx ms1 n rt u body ms2 mn,
  check_prog fx (mkProg (ms1 ++ (n, rt, u, ren_block f body) :: ms2) mn) =
  check_prog fx (mkProg (ms1 ++ (n, rt, u, body) :: ms2) mn).
Proof.
  intros. unfold check_prog. cbn [methods main]. rewrite (sigs_of_app_body ms1 n rt u body).
  rewrite !fold_left_app. cbn [fold_left]. rewrite ren_method. reflexivity.
Qed.

End Ren.

Lemma swap_inj : forall x y a b, swap x y a = swap x y b -> a = b.
Proof.
  intros x y a b. unfold swap.
  destruct (N.eqb a x) eqn:E1; destruct (N.eqb b x) eqn:E2;
    destruct (N.eqb a y) eqn:E3; destruct (N.eqb b y) eqn:E4;
    repeat match goal with H : N.eqb _ _ = true |- _ => apply N.eqb_eq in H
                      | H : N.eqb _ _ = false |- _ => apply N.eqb_neq in H end;
    intros; subst; try congruence.
Qed.

(* ------------------------------------------------------------------ reordering method definitions *)
From Coq Require Import Permutation.

Definition bump (k : nat) (s : st) : st := mkSt (sregs s) (slocals s) (serrs s + k) (sthrown s).

Lemma bump_throw : forall s u k, check_throw (bump k s) u = bump k (check_throw s u).
Proof.
  intros. unfold check_throw. destruct u; [reflexivity|]. cbn [bump sregs].
  destruct (covered _ _); [reflexivity|]. destruct (rinft _); reflexivity.
Qed.

Lemma bump_ok : forall fx sigs,
  (forall e s k, check_expr fx sigs (bump k s) e =
     (bump k (fst (check_expr fx sigs s e)), snd (check_expr fx sigs s e))) /\
  (forall b s k t0, check_block fx sigs (bump k s) t0 b =
     (bump k (fst (check_block fx sigs s t0 b)), snd (check_block fx sigs s t0 b))).
Proof.
  intros fx sigs. apply expr_block_ind.
  - reflexivity.
  - intros x s k. cbn [check_expr bump slocals]. destruct (lookup (slocals s) x); reflexivity.
  - intros e IH s k. cbn [check_expr]. apply IH.
  - intros e IH s k. cbn [check_expr]. rewrite IH. destruct (check_expr fx sigs s e) as [s1 t]. cbn [fst snd].
    destruct t; try reflexivity. destruct (N.eqb np 0); [rewrite bump_throw|]; reflexivity.
  - intros m s k. cbn [check_expr]. destruct (lookup sigs m) as [[t u]|]; [rewrite bump_throw|]; reflexivity.
  - intros ps rt th body IH s k. cbn [check_expr]. cbn [bump sregs slocals serrs sthrown].
    set (r1 := mkRegs rt th MethodMode _ _ _).
    set (decl := match th with Some u => u | None => [] end).
    change (mkSt r1 (ps ++ slocals s) (serrs s + k) decl) with (bump k (mkSt r1 (ps ++ slocals s) (serrs s) decl)).
    rewrite IH. destruct (check_block fx sigs (mkSt r1 (ps ++ slocals s) (serrs s) decl) TNil body) as [s2 bt].
    cbn [fst snd]. unfold exit_method, bump. cbn [sregs slocals serrs sthrown]. f_equal. f_equal.
    destruct rt as [r|]; [|reflexivity]. destruct (rinfr (sregs s)); [reflexivity|].
    destruct (assignable bt r); reflexivity.
  - intros x e IH s k. cbn [check_expr]. rewrite IH. destruct (check_expr fx sigs s e) as [s1 t]. cbn [fst snd bump slocals].
    destruct (lookup (slocals s1) x); [destruct (assignable t t0)|]; reflexivity.
  - intros x e IH s k. cbn [check_expr]. rewrite IH. destruct (check_expr fx sigs s e) as [s1 t]. cbn [fst snd bump slocals].
    destruct (lookup (slocals s1) x); [destruct (assignable t t0)|]; reflexivity.
  - intros e IH s k. cbn [check_expr]. rewrite IH. destruct (check_expr fx sigs s e) as [s1 t]. cbn [fst snd bump sregs].
    destruct (rinfr (sregs s1)); [reflexivity|].
    destruct (rret (sregs s1)); [destruct (assignable t t0)|]; reflexivity.
  - intros c s k. cbn [check_expr]. rewrite bump_throw. reflexivity.
  - intros body IHb ct handler IHh s k. cbn [check_expr]. rewrite IHh.
    destruct (check_block fx sigs s TNil handler) as [s1 th]. cbn [fst snd].
    change (push_scope (set_locals (bump k s1) (slocals (bump k s))) ct)
      with (bump k (push_scope (set_locals s1 (slocals s)) ct)).
    rewrite IHb. destruct (check_block fx sigs (push_scope (set_locals s1 (slocals s)) ct) TNil body) as [s3 tb].
    reflexivity.
  - reflexivity.
  - intros e IHe b IHb s k t0. cbn [check_block]. rewrite IHe. destruct (check_expr fx sigs s e) as [s1 t1].
    cbn [fst snd]. apply IHb.
Qed.

Definition delta (sigs : sigs_t) (m : mdef) : nat := serrs (check_method true sigs top m).

Lemma method_delta : forall sigs s m,
  check_method true sigs s m = mkSt (sregs s) (slocals s) (delta sigs m + serrs s) (sthrown s).
Proof.
  intros sigs s [[[n rt] u] b]. unfold delta, check_method. cbn [top serrs].
  set (r1 := mkRegs (Some rt) (Some u) MethodMode (scopes_of u) false false).
  change (mkSt r1 [] (serrs s) u) with (bump (serrs s) (mkSt r1 [] 0 u)).
  rewrite (proj2 (bump_ok true sigs)).
  destruct (check_block true sigs (mkSt r1 [] 0 u) TNil b) as [s2 bt]. cbn [fst snd].
  unfold exit_method, leave. cbn [sregs slocals sthrown serrs top]. f_equal.
  destruct (assignable bt rt); reflexivity.
Qed.

Lemma fold_delta : forall sigs ms s,
  fold_left (check_method true sigs) ms s =
  mkSt (sregs s) (slocals s) (list_sum (map (delta sigs) ms) + serrs s) (sthrown s).
Proof.
  induction ms as [|m ms IH]; intros s; cbn [fold_left map list_sum fold_right].
  - destruct s; reflexivity.
  - rewrite IH, method_delta. cbn [sregs slocals serrs sthrown]. f_equal. unfold list_sum. cbn [fold_right]. lia.
Qed.

Lemma list_sum_perm : forall l l', Permutation l l' -> list_sum l = list_sum l'.
Proof. induction 1; unfold list_sum in *; cbn in *; lia. Qed.

Definition sigs_equiv (a b : sigs_t) : Prop := forall m, lookup a m = lookup b m.

Lemma sigs_ok : forall fx a b, sigs_equiv a b ->
  (forall e s, check_expr fx a s e = check_expr fx b s e) /\
  (forall bl s t0, check_block fx a s t0 bl = check_block fx b s t0 bl).
Proof.
  intros fx a b H. apply expr_block_ind.
  - reflexivity.
  - reflexivity.
  - intros e IH s. cbn [check_expr]. apply IH.
  - intros e IH s. cbn [check_expr]. now rewrite IH.
  - intros m s. cbn [check_expr]. now rewrite H.
  - intros ps rt th body IH s. cbn [check_expr]. now rewrite IH.
  - intros x e IH s. cbn [check_expr]. now rewrite IH.
  - intros x e IH s. cbn [check_expr]. now rewrite IH.
  - intros e IH s. cbn [check_expr]. now rewrite IH.
  - reflexivity.
  - intros body IHb ct handler IHh s. cbn [check_expr]. rewrite IHh.
    destruct (check_block fx b s TNil handler) as [s1 th]. now rewrite IHb.
  - reflexivity.
  - intros e IHe bl IHb s t0. cbn [check_block]. rewrite IHe. destruct (check_expr fx b s e) as [s1 t1]. apply IHb.
Qed.

Lemma sigs_method : forall fx a b, sigs_equiv a b -> forall s m, check_method fx a s m = check_method fx b s m.
Proof. intros fx a b H s [[[n rt] u] bd]. unfold check_method. now rewrite (proj2 (sigs_ok fx a b H)). Qed.

Lemma lookup_perm : forall (l l' : sigs_t), Permutation l l' -> NoDup (map fst l) -> sigs_equiv l l'.
Proof.
  induction 1; intros Hn m.
  - reflexivity.
  - destruct x as [y t]. cbn. inversion Hn; subst. destruct (N.eqb m y); auto. now apply IHPermutation.
  - destruct x as [a ta], y as [b tb]. cbn in *. inversion Hn as [|? ? Hin _]; subst.
    destruct (N.eqb m b) eqn:E1; destruct (N.eqb m a) eqn:E2; auto.
    apply N.eqb_eq in E1. apply N.eqb_eq in E2. subst. exfalso. apply Hin. left. reflexivity.
  - rewrite IHPermutation1; auto. apply IHPermutation2.
    eapply Permutation_NoDup; [apply Permutation_map; exact H | exact Hn].
Qed.

Theorem reorder_methods : forall ms ms' mn,
  Permutation ms ms' -> NoDup (map fst (sigs_of ms)) ->
  errors true (mkProg ms' mn) = errors true (mkProg ms mn).
Proof.
  intros ms ms' mn Hp Hn. unfold errors, check_prog. cbn [methods main].
  assert (He : sigs_equiv (sigs_of ms') (sigs_of ms)).
  { intro m. symmetry. apply (lookup_perm (sigs_of ms) (sigs_of ms')); auto.
    unfold sigs_of. now apply Permutation_map. }
  rewrite (proj2 (sigs_ok true _ _ He)).
  rewrite !fold_delta.
  assert (Hs : list_sum (map (delta (sigs_of ms')) ms') = list_sum (map (delta (sigs_of ms)) ms)).
  { rewrite (list_sum_perm _ _ (Permutation_map (delta (sigs_of ms')) (Permutation_sym Hp))).
    f_equal. apply map_ext. intro m. unfold delta. now rewrite (sigs_method true _ _ He). }
  now rewrite Hs.
Qed.
