(* C01 - proofs about the core language of Model/C01_Core.v: static lemmas of the checker. *)
From Coq Require Import ZArith List Bool Lia Arith.
From Elk Require Import Model.C01_Core.
Import ListNotations.
Local Open Scope nat_scope.

(* ---------------------------------------------------------------- types *)

Lemma in_all_tags g : In g all_tags.
Proof. destruct g; simpl; tauto. Qed.

Lemma sub_spec a b : sub a b = true <-> forall g, a g = true -> b g = true.
Proof.
  unfold sub. rewrite forallb_forall. split.
  - intros H g Hg. specialize (H g (in_all_tags g)). rewrite Hg in H. exact H.
  - intros H g _. destruct (a g) eqn:E; simpl; auto.
Qed.

Lemma sub_refl a : sub a a = true.
Proof. apply sub_spec. auto. Qed.

Lemma sub_trans a b c : sub a b = true -> sub b c = true -> sub a c = true.
Proof. rewrite !sub_spec. auto. Qed.

Lemma sub_has_type v a b : sub a b = true -> has_type v a = true -> has_type v b = true.
Proof. rewrite sub_spec. unfold has_type. auto. Qed.

Lemma non_falsy_sub t : sub (non_falsy t) t = true.
Proof. apply sub_spec. unfold non_falsy. intros g H. apply andb_prop in H. tauto. Qed.

Lemma non_truthy_sub t : sub (non_truthy t) t = true.
Proof. apply sub_spec. unfold non_truthy. intros g H. apply andb_prop in H. tauto. Qed.

Lemma narrow_ty_sub nv i t : sub (narrow_ty nv i t) t = true.
Proof.
  unfold narrow_ty. destruct nv as [[x q]|]; [|apply sub_refl].
  destruct (Nat.eqb x i); [|apply sub_refl].
  destruct q; [apply non_falsy_sub | apply non_truthy_sub].
Qed.

Lemma has_type_int v t : has_type v t = true -> sub t tInt = true -> exists z, v = VInt z.
Proof.
  intros H S. pose proof (sub_has_type _ _ _ S H) as H'.
  destruct v; try discriminate. eauto.
Qed.

(* ---------------------------------------------------------------- lists *)

Lemma nth_set_nth_eq {A} (l : list A) x a c :
  nth_error l x = Some c -> nth_error (set_nth l x a) x = Some a.
Proof.
  revert x. induction l as [|h r IH]; intros [|x] H; simpl in *; try discriminate; auto.
Qed.

Lemma nth_set_nth_neq {A} (l : list A) x y a :
  x <> y -> nth_error (set_nth l x a) y = nth_error l y.
Proof.
  revert x y. induction l as [|h r IH]; intros [|x] [|y] H; simpl in *; auto; try congruence.
Qed.

Lemma length_set_nth {A} (l : list A) x a : length (set_nth l x a) = length l.
Proof. revert x. induction l as [|h r IH]; intros [|x]; simpl; auto. Qed.

Lemma nth_push_from i G nv x :
  nth_error (push_from i G nv) x = option_map (push_chain nv (i + x)) (nth_error G x).
Proof.
  revert i x. induction G as [|ch r IH]; intros i [|x]; simpl; auto.
  - rewrite Nat.add_0_r. reflexivity.
  - rewrite IH. replace (S i + x) with (i + S x) by lia. reflexivity.
Qed.

Lemma length_push_from i G nv : length (push_from i G nv) = length G.
Proof. revert i. induction G; intros; simpl; auto. Qed.

Lemma nth_pop G x : nth_error (pop G) x = option_map pop_chain (nth_error G x).
Proof. unfold pop. apply nth_error_map. Qed.

Lemma length_pop G : length (pop G) = length G.
Proof. unfold pop. apply map_length. Qed.

Lemma memb_In x l : memb x l = true <-> In x l.
Proof.
  unfold memb. rewrite existsb_exists. split.
  - intros [y [Hy E]]. apply Nat.eqb_eq in E. subst. auto.
  - intros H. exists x. split; auto. apply Nat.eqb_refl.
Qed.

Lemma disjointb_spec a b : disjointb a b = true -> forall x, In x a -> ~ In x b.
Proof.
  unfold disjointb. rewrite forallb_forall. intros H x Hx Hb.
  specialize (H x Hx). apply memb_In in Hb. rewrite Hb in H. discriminate.
Qed.

(* ---------------------------------------------------------------- chains *)

Inductive chain_ok (d : ty) : chain -> Prop :=
| co_base : chain_ok d [d]
| co_cons t t' r : chain_ok d (t' :: r) -> sub t t' = true -> chain_ok d (t :: t' :: r).

Definition all_d (d : ty) (ch : chain) : Prop := Forall (eq d) ch.
Definition chain_le (a b : chain) : Prop := Forall2 (fun s t => sub s t = true) a b.

Lemma chain_le_refl a : chain_le a a.
Proof. induction a; constructor; auto using sub_refl. Qed.

Lemma chain_le_trans a b c : chain_le a b -> chain_le b c -> chain_le a c.
Proof.
  intros H. revert c. induction H as [|x y l l' Hxy H IH]; intros c H'; inversion H'; subst; constructor.
  - eapply sub_trans; eauto.
  - apply IH; auto.
Qed.

Lemma chain_ok_hd d t r : chain_ok d (t :: r) -> sub t d = true.
Proof.
  remember (t :: r) as ch. intros H. revert t r Heqch.
  induction H; intros; inversion Heqch; subst.
  - apply sub_refl.
  - eapply sub_trans; eauto.
Qed.

Lemma chain_ok_nonempty d ch : chain_ok d ch -> exists t r, ch = t :: r.
Proof. destruct 1; eauto. Qed.

Lemma chain_ok_pop d ch : chain_ok d ch -> chain_ok d (pop_chain ch).
Proof. destruct 1; simpl; auto. constructor. Qed.

Lemma chain_ok_push d nv i ch : chain_ok d ch -> chain_ok d (push_chain nv i ch).
Proof.
  intros H. destruct (chain_ok_nonempty _ _ H) as (t & r & ->). simpl.
  constructor; auto. apply narrow_ty_sub.
Qed.

Lemma pop_push nv i d ch : chain_ok d ch -> pop_chain (push_chain nv i ch) = ch.
Proof. intros H. destruct (chain_ok_nonempty _ _ H) as (t & r & ->). reflexivity. Qed.

(* after a scope: the popped chain is above the chain the scope was entered with *)
Lemma chain_le_pop nv i d ch b :
  chain_ok d ch -> chain_le (push_chain nv i ch) b -> chain_le ch (pop_chain b).
Proof.
  intros H L. destruct (chain_ok_nonempty _ _ H) as (t & r & ->). simpl in L.
  inversion L as [|? u ? b' _ L']; subst. inversion L'; subst. simpl. exact L'.
Qed.

Lemma all_d_push d nv i ch : all_d d ch -> narrow_ty nv i = (fun t => t) -> all_d d (push_chain nv i ch).
Proof.
  intros H E. destruct ch as [|t r]; simpl; auto. rewrite E. inversion H; subst. constructor; auto.
Qed.

Lemma all_d_pop d ch : all_d d ch -> all_d d (pop_chain ch).
Proof. intros H. destruct ch as [|t [|t' r]]; simpl; auto. inversion H; auto. Qed.

Lemma widen_cons te t rest :
  widen te (t :: rest) =
  if sub te t then Some (t :: rest)
  else match widen te rest with Some (r :: rest') => Some (r :: r :: rest') | _ => None end.
Proof. reflexivity. Qed.

Lemma widen_ok d te ch ch' :
  chain_ok d ch -> widen te ch = Some ch' ->
  chain_ok d ch' /\ chain_le ch ch' /\ (all_d d ch -> all_d d ch') /\
  exists t r, ch' = t :: r /\ sub te t = true.
Proof.
  intros H. revert ch'. induction H as [|t t' r H IH S]; intros ch' W; rewrite widen_cons in W.
  - simpl in W. destruct (sub te d) eqn:E.
    + inversion W; subst. repeat split; auto using chain_le_refl. constructor. eauto.
    + discriminate.
  - destruct (sub te t) eqn:E.
    + inversion W; subst. repeat split; auto using chain_le_refl. constructor; auto. eauto.
    + destruct (widen te (t' :: r)) as [[|u rest']|] eqn:W'; try discriminate.
      inversion W; subst. destruct (IH _ eq_refl) as (Hok & Hle & Hall & (t0 & r0 & E0 & S0)).
      inversion E0; subst. repeat split.
      * constructor; auto. apply sub_refl.
      * inversion Hle; subst. constructor; auto. eapply sub_trans; eauto.
      * intros A. inversion A; subst. specialize (Hall H3). inversion Hall; subst. constructor; auto.
      * eauto.
Qed.

(* ---------------------------------------------------------------- contexts *)

Section Static.
Variable ds : list ty.      (* declared types of the locals of the method *)
Variable N : list nat.      (* the locals some condition of the method narrows *)

Definition ctx_ok (G : ctx) : Prop :=
  length G = length ds /\
  forall x d ch, nth_error ds x = Some d -> nth_error G x = Some ch ->
    chain_ok d ch /\ (~ In x N -> all_d d ch).

Definition ctx_le (G G' : ctx) : Prop :=
  length G = length G' /\
  forall x a b, nth_error G x = Some a -> nth_error G' x = Some b -> chain_le a b.

Lemma ctx_le_refl G : ctx_le G G.
Proof. split; auto. intros x a b H1 H2. rewrite H1 in H2. inversion H2. apply chain_le_refl. Qed.

Lemma nth_some_of_len {A B} (l : list A) (l' : list B) x a :
  length l = length l' -> nth_error l x = Some a -> exists b, nth_error l' x = Some b.
Proof.
  intros L H. assert (x < length l') as Hx by (rewrite <- L; apply nth_error_Some; congruence).
  destruct (nth_error l' x) eqn:E; eauto. apply nth_error_None in E. lia.
Qed.

Lemma ctx_le_trans A B C : ctx_le A B -> ctx_le B C -> ctx_le A C.
Proof.
  intros [L1 H1] [L2 H2]. split; [congruence|]. intros x a c Ha Hc.
  destruct (nth_some_of_len A B x a L1 Ha) as [b Hb].
  eapply chain_le_trans; eauto.
Qed.

Lemma ctx0_ok : ctx_ok (ctx0 ds).
Proof.
  unfold ctx0. split; [apply map_length|]. intros x d ch Hd Hc.
  rewrite nth_error_map, Hd in Hc. inversion Hc; subst. split; [constructor|].
  intros _. constructor; auto.
Qed.

Lemma narrow_ok G c pos :
  ctx_ok G -> (forall x, In x (cond_subject c) -> In x N) -> ctx_ok (narrow G c pos).
Proof.
  intros [L H] HN. unfold narrow. split; [rewrite length_push_from; auto|].
  intros x d ch Hd Hc. rewrite nth_push_from in Hc. simpl in Hc.
  destruct (nth_error G x) as [ch0|] eqn:E; [|discriminate]. inversion Hc; subst.
  destruct (H x d ch0 Hd E) as [Hok Hall]. split; [apply chain_ok_push; auto|].
  intros Hn. apply all_d_push; auto.
  unfold narrow_ty. destruct (narrow_var c pos) as [[y q]|] eqn:V; auto.
  destruct (Nat.eqb y x) eqn:Ey; auto. apply Nat.eqb_eq in Ey. subst y.
  exfalso. apply Hn, HN. unfold cond_subject.
  assert (forall c p p', narrow_var c p = Some (x, q) -> exists q', narrow_var c p' = Some (x, q')) as Hs.
  { clear. induction c; simpl; intros p p' Hp; try discriminate; eauto.
    inversion Hp; eauto. }
  destruct (Hs _ _ true V) as [q' ->]. simpl. auto.
Qed.

Lemma pop_ok G : ctx_ok G -> ctx_ok (pop G).
Proof.
  intros [L H]. split; [rewrite length_pop; auto|]. intros x d ch Hd Hc.
  rewrite nth_pop in Hc. destruct (nth_error G x) as [ch0|] eqn:E; [|discriminate].
  inversion Hc; subst. destruct (H x d ch0 Hd E). split; auto using chain_ok_pop, all_d_pop.
Qed.

(* leaving the scope a statement was checked in *)
Lemma scope G c pos G1' (A : list nat) :
  ctx_ok G -> ctx_ok G1' -> ctx_le (narrow G c pos) G1' ->
  (forall x, ~ In x A -> nth_error G1' x = nth_error (narrow G c pos) x) ->
  ctx_ok (pop G1') /\ ctx_le G (pop G1') /\ (forall x, ~ In x A -> nth_error (pop G1') x = nth_error G x).
Proof.
  intros [L H] Hok1 [L1 Hle] Hsame. split; [apply pop_ok; auto|]. split.
  - split. { rewrite length_pop, <- L1. unfold narrow. rewrite length_push_from. auto. }
    intros x a b Ha Hb. rewrite nth_pop in Hb.
    destruct (nth_error G1' x) as [b0|] eqn:E; [|discriminate]. inversion Hb; subst.
    destruct (nth_some_of_len G ds x a L Ha) as [d Hd]. destruct (H x d a Hd Ha) as [Hok _].
    eapply chain_le_pop; eauto. eapply Hle; eauto.
    unfold narrow. rewrite nth_push_from, Ha. reflexivity.
  - intros x Hx. rewrite nth_pop, (Hsame x Hx). unfold narrow. rewrite nth_push_from.
    destruct (nth_error G x) as [a|] eqn:Ha; auto. simpl.
    destruct (nth_some_of_len G ds x a L Ha) as [d Hd]. destruct (H x d a Hd Ha) as [Hok _].
    erewrite pop_push; eauto.
Qed.

Lemma assign_ok G x te G' :
  ctx_ok G -> assign G x te = Some G' ->
  ctx_ok G' /\ ctx_le G G' /\ (forall y, y <> x -> nth_error G' y = nth_error G y) /\
  exists t r, nth_error G' x = Some (t :: r) /\ sub te t = true.
Proof.
  intros [L H] As. unfold assign in As.
  destruct (nth_error G x) as [ch|] eqn:E; [|discriminate].
  destruct (widen te ch) as [ch'|] eqn:W; [|discriminate]. inversion As; subst. clear As.
  destruct (nth_some_of_len G ds x ch L E) as [d Hd]. destruct (H x d ch Hd E) as [Hok Hall].
  destruct (widen_ok d te ch ch' Hok W) as (Hok' & Hle & Hall' & (t & r & -> & St)).
  repeat split.
  - rewrite length_set_nth; auto.
  - destruct (Nat.eq_dec x0 x) as [->|Ne].
    + rewrite (nth_set_nth_eq G x _ ch E) in H1. inversion H1; subst. congruence.
    + rewrite nth_set_nth_neq in H1 by auto. apply (H x0 d0 ch0 H0 H1).
  - destruct (Nat.eq_dec x0 x) as [->|Ne].
    + rewrite (nth_set_nth_eq G x _ ch E) in H1. inversion H1; subst.
      assert (d0 = d) by congruence. subst. auto.
    + rewrite nth_set_nth_neq in H1 by auto. apply (H x0 d0 ch0 H0 H1).
  - rewrite length_set_nth; auto.
  - intros y a b Ha Hb. destruct (Nat.eq_dec y x) as [->|Ne].
    + rewrite (nth_set_nth_eq G x _ ch E) in Hb. inversion Hb; subst. congruence.
    + rewrite nth_set_nth_neq in Hb by auto. rewrite Ha in Hb. inversion Hb. apply chain_le_refl.
  - intros y Ne. apply nth_set_nth_neq. auto.
  - exists t, r. split; auto. eapply nth_set_nth_eq; eauto.
Qed.

Variable ms : list msig.

(* the checker only widens, keeps the invariant and leaves locals it does not assign alone *)
Lemma chk_static s : forall nclo G G',
  ctx_ok G -> (forall x, In x (subjects s) -> In x N) -> chk ms nclo G s = Some G' ->
  ctx_ok G' /\ ctx_le G G' /\ (forall x, ~ In x (assigned s) -> nth_error G' x = nth_error G x).
Proof.
  induction s as [|x e|s1 IH1 s2 IH2|c s1 IH1 s2 IH2|c s1 IH1|e|k|x f args];
    intros nclo G G' Hok HN C; simpl in C.
  - inversion C; subst. auto using ctx_le_refl.
  - destruct (chkE G e) as [te|]; [|discriminate].
    destruct (assign_ok _ _ _ _ Hok C) as (A & B & S & _). split; [|split]; auto.
    intros y Hy. apply S. intros ->. apply Hy. simpl. auto.
  - destruct (chk ms nclo G s1) as [G1|] eqn:C1; [|discriminate].
    destruct (IH1 _ _ _ Hok (fun x Hx => HN x (in_or_app _ _ _ (or_introl Hx))) C1) as (A1 & B1 & S1).
    destruct (IH2 _ _ _ A1 (fun x Hx => HN x (in_or_app _ _ _ (or_intror Hx))) C) as (A2 & B2 & S2).
    split; [|split]; auto. { eapply ctx_le_trans; eauto. }
    intros x Hx. simpl in Hx. rewrite S2, S1; auto; intros Hi; apply Hx, in_or_app; auto.
  - destruct (chkC G c); [|discriminate].
    destruct (chk ms nclo (narrow G c true) s1) as [G1|] eqn:C1; [|discriminate].
    destruct (chk ms nclo (narrow (pop G1) c false) s2) as [G2|] eqn:C2; [|discriminate].
    inversion C; subst. clear C. simpl in HN.
    assert (forall x, In x (cond_subject c) -> In x N) as HNc by (intros; apply HN, in_or_app; auto).
    assert (forall x, In x (subjects s1) -> In x N) as HN1
      by (intros; apply HN, in_or_app; right; apply in_or_app; auto).
    assert (forall x, In x (subjects s2) -> In x N) as HN2
      by (intros; apply HN, in_or_app; right; apply in_or_app; auto).
    destruct (IH1 _ _ _ (narrow_ok _ _ _ Hok HNc) HN1 C1) as (A1 & B1 & S1).
    destruct (scope G c true G1 (assigned s1) Hok A1 B1 S1) as (Pa & Pb & Pc).
    destruct (IH2 _ _ _ (narrow_ok _ _ _ Pa HNc) HN2 C2) as (A2 & B2 & S2).
    destruct (scope (pop G1) c false G2 (assigned s2) Pa A2 B2 S2) as (Qa & Qb & Qc).
    split; [|split]; auto. { eapply ctx_le_trans; eauto. }
    intros x Hx. simpl in Hx. rewrite Qc, Pc; auto; intros Hi; apply Hx, in_or_app; auto.
  - destruct (chkC G c); [|discriminate].
    destruct (chk ms nclo (narrow G c true) s1) as [G1|] eqn:C1; [|discriminate].
    inversion C; subst. clear C. simpl in HN.
    assert (forall x, In x (cond_subject c) -> In x N) as HNc by (intros; apply HN, in_or_app; auto).
    assert (forall x, In x (subjects s1) -> In x N) as HN1 by (intros; apply HN, in_or_app; auto).
    destruct (IH1 _ _ _ (narrow_ok _ _ _ Hok HNc) HN1 C1) as (A1 & B1 & S1).
    destruct (scope G c true G1 (assigned s1) Hok A1 B1 S1) as (Pa & Pb & Pc). auto.
  - destruct (chkE G e); inversion C; subst. auto using ctx_le_refl.
  - destruct (Nat.ltb k nclo); inversion C; subst. auto using ctx_le_refl.
  - destruct (nth_error ms f) as [[ps rt]|]; [|discriminate].
    destruct (chk_args G args ps); [|discriminate].
    destruct (assign_ok _ _ _ _ Hok C) as (A & B & S & _). split; [|split]; auto.
    intros y Hy. apply S. intros ->. apply Hy. simpl. auto.
Qed.

End Static.
