(* C20 - proofs about the iterator protocol machines of Model/C20_Iter.v. *)
From Coq Require Import ZifyBool ZifyNat.
From Elk Require Import Base.GoSem Base.Utf8 Model.C20_String Model.C20_Iter
  Proofs.Utf8_Decode Proofs.Utf8_Encode Proofs.Utf8_Append Proofs.C20_String.
Open Scope Z_scope.

(* ---------------------------------------------------------------- list facts *)

Lemma skipn_nth_error_nil {A} : forall (l : list A) p, skipn p l = [] -> nth_error l p = None.
Proof.
  induction l as [|a l IH]; intros p H; [destruct p; reflexivity|].
  destruct p as [|p]; [discriminate|]. cbn [skipn] in H. cbn [nth_error]. apply IH. exact H.
Qed.

Lemma skipn_nth_error_cons {A} : forall (l : list A) p x t,
  skipn p l = x :: t -> nth_error l p = Some x /\ skipn (S p) l = t.
Proof.
  induction l as [|a l IH]; intros p x t H.
  - rewrite skipn_nil in H. discriminate.
  - destruct p as [|p].
    + cbn [skipn] in H. inversion H. subst. split; reflexivity.
    + cbn [skipn] in H. cbn [nth_error]. apply IH in H. exact H.
Qed.

(* ---------------------------------------------------------------- drain, one step at a time *)

Lemma drain_step {St A} (next : St -> option (A * St)) fuel st l :
  drain next fuel st = Some l ->
  match l with
  | [] => next st = None
  | a :: l' => exists st', next st = Some (a, st') /\ exists fuel', drain next fuel' st' = Some l'
  end.
Proof.
  destruct fuel as [|f]; [discriminate|]. cbn [drain].
  destruct (next st) as [[a st']|] eqn:N.
  - destruct (drain next f st') as [l0|] eqn:D; [|discriminate].
    intros H. inversion H. subst. exists st'. split; [reflexivity|]. exists f. exact D.
  - intros H. inversion H. reflexivity.
Qed.

(* ---------------------------------------------------------------- simulation of pools *)

Section Sim.
Context {K S1 S2 A : Type}.
Variables (init1 : K -> S1) (next1 : S1 -> option (A * S1)) (reset1 : S1 -> S1).
Variables (init2 : K -> S2) (next2 : S2 -> option (A * S2)) (reset2 : S2 -> S2).
Variable R : S1 -> S2 -> Prop.
Hypothesis R_init : forall k, R (init1 k) (init2 k).
Hypothesis R_next : forall a b, R a b ->
  match next1 a, next2 b with
  | Some (x, a'), Some (y, b') => x = y /\ R a' b'
  | None, None => True
  | _, _ => False
  end.
Hypothesis R_reset : forall a b, R a b -> R (reset1 a) (reset2 b).

Lemma F2_nth : forall p1 p2 i, Forall2 R p1 p2 ->
  match nth_error p1 i, nth_error p2 i with
  | Some a, Some b => R a b
  | None, None => True
  | _, _ => False
  end.
Proof.
  intros p1 p2 i H. revert i. induction H as [|a b p1 p2 Hab H IH]; intros i.
  - destruct i; exact I.
  - destruct i as [|i]; [exact Hab|]. cbn [nth_error]. apply IH.
Qed.

Lemma F2_upd : forall p1 p2 i a b, Forall2 R p1 p2 -> R a b -> Forall2 R (upd p1 i a) (upd p2 i b).
Proof.
  intros p1 p2 i a b H Hab. revert i. induction H as [|x y p1 p2 Hxy H IH]; intros i.
  - destruct i; constructor.
  - destruct i as [|i]; cbn [upd]; constructor; auto.
Qed.

Lemma F2_snoc : forall p1 p2 a b, Forall2 R p1 p2 -> R a b -> Forall2 R (p1 ++ [a]) (p2 ++ [b]).
Proof. intros p1 p2 a b H Hab. apply Forall2_app; [exact H|]. constructor; [exact Hab|constructor]. Qed.

Lemma pnext_sim p1 p2 i : Forall2 R p1 p2 ->
  Forall2 R (fst (pnext next1 p1 i)) (fst (pnext next2 p2 i)) /\
  snd (pnext next1 p1 i) = snd (pnext next2 p2 i).
Proof.
  intros H. unfold pnext. pose proof (F2_nth p1 p2 i H) as N.
  destruct (nth_error p1 i) as [a|]; destruct (nth_error p2 i) as [b|]; try contradiction.
  - pose proof (R_next a b N) as X.
    destruct (next1 a) as [[x a']|]; destruct (next2 b) as [[y b']|]; try contradiction.
    + destruct X as [E Rab]. subst y. cbn [fst snd]. split; [|reflexivity]. apply F2_upd; assumption.
    + cbn [fst snd]. split; [exact H|reflexivity].
  - cbn [fst snd]. split; [exact H|reflexivity].
Qed.

Lemma pdrain_sim : forall fuel p1 p2 i, Forall2 R p1 p2 ->
  Forall2 R (fst (pdrain next1 fuel p1 i)) (fst (pdrain next2 fuel p2 i)) /\
  snd (pdrain next1 fuel p1 i) = snd (pdrain next2 fuel p2 i).
Proof.
  induction fuel as [|f IH]; intros p1 p2 i H.
  - cbn [pdrain fst snd]. split; [exact H|reflexivity].
  - cbn [pdrain]. destruct (pnext_sim p1 p2 i H) as [HP HO].
    destruct (pnext next1 p1 i) as [q1 o1]. destruct (pnext next2 p2 i) as [q2 o2].
    cbn [fst snd] in HP, HO. subst o2.
    destruct o1 as [a| | |]; try (cbn [fst snd]; split; [exact HP|reflexivity]).
    destruct (IH q1 q2 i HP) as [HP' HO'].
    destruct (pdrain next1 f q1 i) as [r1 os1]. destruct (pdrain next2 f q2 i) as [r2 os2].
    cbn [fst snd] in *. subst os2. split; [exact HP'|reflexivity].
Qed.

Lemma pool_op_sim fuel p1 p2 o : Forall2 R p1 p2 ->
  Forall2 R (fst (pool_op init1 next1 reset1 fuel p1 o)) (fst (pool_op init2 next2 reset2 fuel p2 o)) /\
  snd (pool_op init1 next1 reset1 fuel p1 o) = snd (pool_op init2 next2 reset2 fuel p2 o).
Proof.
  intros H. destruct o as [k|i|i|i|i]; cbn [pool_op].
  - cbn [fst snd]. split; [|reflexivity]. apply F2_snoc; [exact H|apply R_init].
  - destruct (pnext_sim p1 p2 i H) as [HP HO].
    destruct (pnext next1 p1 i) as [q1 o1]. destruct (pnext next2 p2 i) as [q2 o2].
    cbn [fst snd] in *. subst o2. split; [exact HP|reflexivity].
  - pose proof (F2_nth p1 p2 i H) as N.
    destruct (nth_error p1 i) as [a|]; destruct (nth_error p2 i) as [b|]; try contradiction;
      cbn [fst snd]; (split; [|reflexivity]); [|exact H].
    apply F2_upd; [exact H|]. apply R_reset. exact N.
  - pose proof (F2_nth p1 p2 i H) as N.
    destruct (nth_error p1 i) as [a|]; destruct (nth_error p2 i) as [b|]; try contradiction;
      cbn [fst snd]; (split; [|reflexivity]); [|exact H].
    apply F2_snoc; assumption.
  - apply pdrain_sim. exact H.
Qed.

Lemma pool_run_sim fuel : forall h p1 p2, Forall2 R p1 p2 ->
  pool_run init1 next1 reset1 fuel p1 h = pool_run init2 next2 reset2 fuel p2 h.
Proof.
  induction h as [|o h IH]; intros p1 p2 H; [reflexivity|].
  cbn [pool_run]. destruct (pool_op_sim fuel p1 p2 o H) as [HP HO].
  destruct (pool_op init1 next1 reset1 fuel p1 o) as [q1 o1].
  destruct (pool_op init2 next2 reset2 fuel p2 o) as [q2 o2].
  cbn [fst snd] in *. subst o2. f_equal. apply IH. exact HP.
Qed.

End Sim.

(* ---------------------------------------------------------------- pool state after a history *)

Section State.
Context {K St A : Type}.
Variables (init : K -> St) (next : St -> option (A * St)) (reset : St -> St).

Fixpoint pool_state (fuel : nat) (pool : list St) (h : list (pop K)) : list St :=
  match h with
  | [] => pool
  | o :: h' => pool_state fuel (fst (pool_op init next reset fuel pool o)) h'
  end.

Lemma pool_run_app fuel : forall h1 h2 pool,
  pool_run init next reset fuel pool (h1 ++ h2) =
  pool_run init next reset fuel pool h1 ++ pool_run init next reset fuel (pool_state fuel pool h1) h2.
Proof.
  induction h1 as [|o h1 IH]; intros h2 pool; [reflexivity|].
  cbn [app pool_run pool_state].
  destruct (pool_op init next reset fuel pool o) as [q out]. cbn [fst]. rewrite IH. reflexivity.
Qed.

End State.

(* ---------------------------------------------------------------- the reference machine in closed form *)

Section SpecFacts.
Context {K A : Type}.
Variable L : K -> list A.

Lemma nth_error_upd_same {X} : forall (l : list X) i x y, nth_error l i = Some y -> nth_error (upd l i x) i = Some x.
Proof.
  induction l as [|a l IH]; intros i x y H; [destruct i; discriminate|].
  destruct i as [|i]; [reflexivity|]. cbn [upd nth_error] in *. eapply IH. exact H.
Qed.

Lemma upd_upd {X} : forall (l : list X) i x y, upd (upd l i x) i y = upd l i y.
Proof.
  induction l as [|a l IH]; intros i x y; [destruct i; reflexivity|].
  destruct i as [|i]; [reflexivity|]. cbn [upd]. rewrite IH. reflexivity.
Qed.

(* `for x in it` from position p: the remaining elements, then stop; the iterator ends at the end *)
Lemma spec_drain : forall fuel pool i k p,
  nth_error pool i = Some (k, p) -> (length (skipn p (L k)) < fuel)%nat ->
  pdrain (pos_next L) fuel pool i =
    (match skipn p (L k) with [] => pool | _ :: _ => upd pool i (k, (p + length (skipn p (L k)))%nat) end,
     map QElem (skipn p (L k)) ++ [QStop]).
Proof.
  induction fuel as [|f IH]; intros pool i k p N Hf; [lia|].
  assert (PN : pnext (pos_next L) pool i =
    match nth_error (L k) p with Some a => (upd pool i (k, S p), QElem a) | None => (pool, QStop) end).
  { unfold pnext. rewrite N. unfold pos_next. cbn [fst snd]. destruct (nth_error (L k) p); reflexivity. }
  cbn [pdrain]. rewrite PN.
  destruct (skipn p (L k)) as [|x t] eqn:Sk.
  - rewrite (skipn_nth_error_nil _ _ Sk). reflexivity.
  - destruct (skipn_nth_error_cons _ _ _ _ Sk) as [E Sk']. rewrite E.
    rewrite (IH (upd pool i (k, S p)) i k (S p)).
    + rewrite Sk'. cbn [map app length]. f_equal.
      destruct t as [|y t'].
      * cbn [length]. replace (p + 1)%nat with (S p) by lia. reflexivity.
      * rewrite upd_upd. f_equal. f_equal. cbn [length]. lia.
    + eapply nth_error_upd_same. exact N.
    + rewrite Sk'. cbn [length] in Hf. lia.
Qed.

(* after ANY state of the pool: reset then re-iterate yields the whole element list, then stop *)
Lemma spec_reset_drain fuel pool i k p :
  nth_error pool i = Some (k, p) -> (length (L k) < fuel)%nat ->
  pool_run (pos_init (K:=K)) (pos_next L) (pos_reset (K:=K)) fuel pool [PReset i; PDrain i] =
    [[QUnit]; map QElem (L k) ++ [QStop]].
Proof.
  intros N Hf. cbn [pool_run pool_op]. rewrite N. unfold pos_reset. cbn [fst snd].
  rewrite (spec_drain fuel (upd pool i (k, O)) i k O).
  - cbn [skipn]. reflexivity.
  - eapply nth_error_upd_same. exact N.
  - cbn [skipn]. exact Hf.
Qed.

(* positions never leave the kind's element list and kinds never change *)
End SpecFacts.

(* ---------------------------------------------------------------- the string iterators *)

Definition gstep_law (gstep : list Z -> Z -> list Z * list Z * Z) : Prop :=
  forall rest q c r q', rest <> [] -> gstep rest q = (c, r, q') -> c <> [] /\ rest = c ++ r.

Section Concrete.
Variable gstep : list Z -> Z -> list Z * list Z * Z.
Hypothesis gstep_progress : gstep_law gstep.

Lemma gr_drain : forall fuel rest q, (length rest < fuel)%nat ->
  exists l, drain (gr_next gstep) fuel (rest, q) = Some l /\ concat l = rest /\ (forall c, In c l -> c <> []).
Proof.
  induction fuel as [|f IH]; intros rest q Hf; [lia|].
  cbn [drain].
  destruct rest as [|b t] eqn:E.
  - exists []. repeat split. intros c [].
  - destruct (gstep (b :: t) q) as [[c r] q'] eqn:G.
    assert (GN : gr_next gstep (b :: t, q) = Some (c, (r, q'))).
    { unfold gr_next. cbn [fst snd]. rewrite G. reflexivity. }
    rewrite GN.
    destruct (gstep_progress (b :: t) q c r q') as [Hc Hr]; [discriminate|exact G|].
    assert (Hlen : (length r < f)%nat).
    { assert (X : length (b :: t) = length (c ++ r)) by (rewrite <- Hr; reflexivity).
      rewrite app_length in X. destruct c; [contradiction|]. cbn [length] in *. lia. }
    destruct (IH r q' Hlen) as [l [D [C N]]].
    rewrite D. exists (c :: l). split; [reflexivity|]. split.
    + cbn [concat]. rewrite C. symmetry. exact Hr.
    + intros c0 [<-|Hin]; [exact Hc|apply N; exact Hin].
Qed.

Lemma gseg_of_drain t :
  drain (gr_next gstep) (S (length t)) (t, G_INITIAL) = Some (gseg_of gstep t).
Proof.
  unfold gseg_of, gseg_run.
  destruct (gr_drain (S (length t)) t G_INITIAL) as [l [D _]]; [lia|]. rewrite D. reflexivity.
Qed.

(* the clusters defined from the step function satisfy the two laws C20_counts / C20_index assume *)
Lemma gseg_of_laws :
  (forall t, concat (gseg_of gstep t) = t) /\ (forall t c, In c (gseg_of gstep t) -> c <> []).
Proof.
  assert (X : forall t, concat (gseg_of gstep t) = t /\ (forall c, In c (gseg_of gstep t) -> c <> [])).
  { intros t. pose proof (gseg_of_drain t) as D.
    destruct (gr_drain (S (length t)) t G_INITIAL) as [l [D' [C N]]]; [lia|].
    rewrite D' in D. inversion D as [E]. rewrite <- E. split; assumption. }
  split; intros t; apply X.
Qed.

Variable s : list Z.

Lemma drain_it_char : forall fuel off,
  drain (it_next gstep s) fuel (SC off) = option_map (map EChar) (drain (char_iter_next s) fuel off).
Proof.
  induction fuel as [|f IH]; intros off; [reflexivity|].
  cbn [drain it_next]. destruct (char_iter_next s off) as [[c off']|]; [|reflexivity].
  rewrite IH. destruct (drain (char_iter_next s) f off'); reflexivity.
Qed.

Lemma drain_it_byte : forall fuel off,
  drain (it_next gstep s) fuel (SB off) = option_map (map EByte) (drain (byte_iter_next s) fuel off).
Proof.
  induction fuel as [|f IH]; intros off; [reflexivity|].
  cbn [drain it_next]. destruct (byte_iter_next s off) as [[c off']|]; [|reflexivity].
  rewrite IH. destruct (drain (byte_iter_next s) f off'); reflexivity.
Qed.

Lemma drain_it_gr : forall fuel rest q,
  drain (it_next gstep s) fuel (SG rest q) = option_map (map EStr) (drain (gr_next gstep) fuel (rest, q)).
Proof.
  induction fuel as [|f IH]; intros rest q; [reflexivity|].
  cbn [drain it_next]. destruct (gr_next gstep (rest, q)) as [[c [r q']]|]; [|reflexivity].
  rewrite IH. destruct (drain (gr_next gstep) f (r, q')); reflexivity.
Qed.

(* a fresh iterator of kind k, run to the end, yields the element list of that kind *)
Lemma drain_init k :
  drain (it_next gstep s) (S (length s)) (it_init s k) = Some (elems gstep s k).
Proof.
  destruct k; cbn [it_init elems].
  - rewrite drain_it_char. pose proof (char_iter_all_chars s) as H. unfold char_iter_all in H.
    rewrite H. reflexivity.
  - rewrite drain_it_byte. pose proof (byte_iter_all_bytes s) as H. unfold byte_iter_all in H.
    rewrite H. reflexivity.
  - rewrite drain_it_gr, gseg_of_drain. reflexivity.
Qed.

Lemma it_next_kind st a st' : it_next gstep s st = Some (a, st') -> kind_of st' = kind_of st.
Proof.
  destruct st as [off|off|rest q]; cbn [it_next].
  - destruct (char_iter_next s off) as [[c o]|]; [|discriminate]. intros H. inversion H. reflexivity.
  - destruct (byte_iter_next s off) as [[c o]|]; [|discriminate]. intros H. inversion H. reflexivity.
  - destruct (gr_next gstep (rest, q)) as [[c [r q']]|]; [|discriminate]. intros H. inversion H. reflexivity.
Qed.

(* the simulation relation: an iterator object is at position p of its kind's element list *)
Definition at_pos (st : ist) (kp : ikind * nat) : Prop :=
  kind_of st = fst kp /\
  exists fuel, drain (it_next gstep s) fuel st = Some (skipn (snd kp) (elems gstep s (fst kp))).

Lemma at_pos_init k : at_pos (it_init s k) (pos_init k).
Proof.
  split; [destruct k; reflexivity|]. exists (S (length s)). cbn [pos_init fst snd skipn]. apply drain_init.
Qed.

Lemma at_pos_next a b : at_pos a b ->
  match it_next gstep s a, pos_next (elems gstep s) b with
  | Some (x, a'), Some (y, b') => x = y /\ at_pos a' b'
  | None, None => True
  | _, _ => False
  end.
Proof.
  intros [Hk [fuel D]]. destruct b as [k p]. cbn [fst snd] in *. unfold pos_next. cbn [fst snd].
  pose proof (drain_step _ _ _ _ D) as X.
  destruct (skipn p (elems gstep s k)) as [|x t] eqn:Sk.
  - rewrite X. rewrite (skipn_nth_error_nil _ _ Sk). exact I.
  - destruct X as [a' [N [fuel' D']]]. rewrite N.
    destruct (skipn_nth_error_cons _ _ _ _ Sk) as [E Sk']. rewrite E.
    split; [reflexivity|]. split; cbn [fst snd].
    + rewrite (it_next_kind _ _ _ N). exact Hk.
    + exists fuel'. rewrite Sk'. exact D'.
Qed.

Lemma it_reset_init st : it_reset s st = it_init s (kind_of st).
Proof. destruct st; reflexivity. Qed.

Lemma at_pos_reset a b : at_pos a b -> at_pos (it_reset s a) (pos_reset b).
Proof.
  intros [Hk _]. rewrite it_reset_init, Hk. destruct b as [k p]. apply at_pos_init.
Qed.

(* MAIN: for any history of create/next/reset/copy/drain operations on a pool of iterators over s,
   the implementation machine yields exactly what the position machine over the element lists yields *)
Theorem iter_history h : iter_run gstep s h = iter_spec gstep s h.
Proof.
  unfold iter_run, iter_spec, spec_run.
  apply (pool_run_sim _ _ _ _ _ _ at_pos at_pos_init at_pos_next at_pos_reset).
  constructor.
Qed.

(* element lists are never longer than the string, so S (length s) is enough fuel for every `for` *)
Lemma elems_length k : (length (elems gstep s k) <= length s)%nat.
Proof.
  destruct k; cbn [elems]; rewrite map_length.
  - pose proof (utf8_sizes_all s) as [_ [_ [H _]]]. unfold rune_count in H.
    unfold chars. rewrite map_length. lia.
  - lia.
  - destruct gseg_of_laws as [C N].
    pose proof (grapheme_count_le_bytes (gseg_of gstep) C N s) as H.
    unfold grapheme_count, byte_count in H. lia.
Qed.

(* positions of the reference pool after a history *)
Definition spec_state (h : list (pop ikind)) : list (ikind * nat) :=
  pool_state (pos_init (K:=ikind)) (pos_next (elems gstep s)) (pos_reset (K:=ikind)) (S (length s)) [] h.

(* after ANY history h, if iterator i exists (of kind k), `it.reset` followed by `for x in it`
   yields exactly the whole element list of kind k and then stops *)
Theorem iter_reiterate h i k p :
  nth_error (spec_state h) i = Some (k, p) ->
  iter_run gstep s (h ++ [PReset i; PDrain i]) =
    iter_run gstep s h ++ [[QUnit]; map QElem (elems gstep s k) ++ [QStop]].
Proof.
  intros N. rewrite !iter_history. unfold iter_spec, spec_run. rewrite pool_run_app. f_equal.
  apply (spec_reset_drain (elems gstep s) (S (length s)) _ i k p N).
  pose proof (elems_length k). lia.
Qed.

End Concrete.

Lemma iter_elems_all gstep (H : gstep_law gstep) s :
  elems gstep s KChar = map EChar (chars s) /\
  elems gstep s KByte = map EByte s /\
  elems gstep s KGr = map EStr (gseg_of gstep s) /\
  Z.of_nat (length (elems gstep s KChar)) = char_count s /\
  Z.of_nat (length (elems gstep s KByte)) = byte_count s /\
  Z.of_nat (length (elems gstep s KGr)) = grapheme_count (gseg_of gstep) s.
Proof.
  repeat split; cbn [elems]; rewrite map_length.
  - apply chars_length.
  - reflexivity.
  - reflexivity.
Qed.

Lemma iter_grapheme_at gstep (H : gstep_law gstep) s i : byte_count s <= max64 ->
  let n := Z.of_nat (length (gseg_of gstep s)) in
  (- n <= i < n ->
     exists c, nth_error (gseg_of gstep s) (Z.to_nat (norm_index n i)) = Some c /\
               grapheme_at (gseg_of gstep) s i = Ok c) /\
  (~ (- n <= i < n) -> grapheme_at (gseg_of gstep) s i = Err E_INDEX).
Proof.
  intros Hs. destruct (gseg_of_laws gstep H) as [C N].
  exact (proj2 (proj2 (index_all (gseg_of gstep) C N s i Hs))).
Qed.

(* ---------------------------------------------------------------- witnesses *)

Lemma gstep_crlf_law : gstep_law gstep_crlf.
Proof.
  intros rest q c r q' Hne H. unfold gstep_crlf in H.
  destruct rest as [|b t]; [contradiction|].
  destruct t as [|b2 t2].
  - inversion H. subst. split; [discriminate|reflexivity].
  - destruct ((b =? 13) && (b2 =? 10) && negb (q =? 0)); inversion H; subst; split; try discriminate; reflexivity.
Qed.
