(* C18 — proofs about the equality / ordering / hashing model. *)
From Coq Require Import ZArith List Bool Lia ZifyBool.
From Elk Require Import Base.GoSem Model.C18_Num.
Open Scope Z_scope.

(* ---------------------------------------------------------------- the reference order *)
Ltac zc :=
  repeat match goal with
         | H : context [Z.compare ?a ?b] |- _ => destruct (Z.compare_spec a b)
         | |- context [Z.compare ?a ?b] => destruct (Z.compare_spec a b)
         end.

Lemma xcompare_refl x : xcompare x x = Eq.
Proof. destruct x; simpl; auto. apply Z.compare_refl. Qed.

Lemma xcompare_eq x y : xcompare x y = Eq -> x = y.
Proof. destruct x, y; simpl; intros H; try discriminate; auto. apply Z.compare_eq in H. congruence. Qed.

Lemma xcompare_antisym x y : xcompare y x = CompOpp (xcompare x y).
Proof. destruct x, y; simpl; auto. apply Z.compare_antisym. Qed.

Lemma xcompare_le_trans x y z :
  xcompare x y <> Gt -> xcompare y z <> Gt -> xcompare x z <> Gt.
Proof. destruct x, y, z; simpl; intros H1 H2; try congruence; zc; try congruence; lia. Qed.

Lemma xcompare_lt_le_trans x y z :
  xcompare x y = Lt -> xcompare y z <> Gt -> xcompare x z = Lt.
Proof. destruct x, y, z; simpl; intros H1 H2; try congruence; zc; try congruence; lia. Qed.

Lemma xcompare_le_lt_trans x y z :
  xcompare x y <> Gt -> xcompare y z = Lt -> xcompare x z = Lt.
Proof. destruct x, y, z; simpl; intros H1 H2; try congruence; zc; try congruence; lia. Qed.

Definition xc (ox oy : option xv) : option comparison :=
  match ox, oy with Some x, Some y => Some (xcompare x y) | _, _ => None end.

Lemma SCALE_pos : 0 < SCALE.
Proof. unfold SCALE. apply Z.pow_pos_nonneg; lia. Qed.

(* ---------------------------------------------------------------- the exact helpers *)
Lemma ifcmp_spec lo hi i f :
  lo <= i < hi -> ifcmp lo hi i f = xc (Some (XFin (i * SCALE))) (xv_of_fl f).
Proof.
  intros Hr. pose proof SCALE_pos as HS.
  destruct f as [| [|] | s]; simpl; auto.
  destruct (hi * SCALE <=? s) eqn:E1.
  { f_equal. symmetry. apply Z.compare_lt_iff. nia. }
  destruct (s <? lo * SCALE) eqn:E2.
  { f_equal. symmetry. apply Z.compare_gt_iff. nia. }
  pose proof (Z.quot_rem' s SCALE) as Hq.
  pose proof (Z.rem_bound_abs s SCALE) as Hb.
  assert (Hrem : Z.abs (Z.rem s SCALE) < SCALE) by (rewrite (Z.abs_eq SCALE) in Hb; lia).
  assert (Hsgn : 0 <= s -> 0 <= Z.rem s SCALE) by (intros; apply Z.rem_nonneg; lia).
  assert (Hsgn' : s <= 0 -> Z.rem s SCALE <= 0) by (intros; apply Z.rem_nonpos; lia).
  set (t := Z.quot s SCALE) in *. set (r := Z.rem s SCALE) in *.
  destruct (i <? t) eqn:E3.
  { f_equal. symmetry. apply Z.compare_lt_iff.
    assert (i * SCALE <= (t - 1) * SCALE) by (apply Z.mul_le_mono_nonneg_r; lia). lia. }
  destruct (t <? i) eqn:E4.
  { f_equal. symmetry. apply Z.compare_gt_iff.
    assert ((t + 1) * SCALE <= i * SCALE) by (apply Z.mul_le_mono_nonneg_r; lia). lia. }
  assert (i = t) by lia. subst i. reflexivity.
Qed.

Lemma bfcmp_spec i f : bfcmp i f = xc (Some (XFin (i * SCALE))) (xv_of_fl f).
Proof. destruct f as [| [|] | s]; reflexivity. Qed.

Lemma int_flt_cmp_spec k z f :
  match k with KI => True | KS _ => - 2 ^ 63 <= z < 2 ^ 63 | KU _ => 0 <= z < 2 ^ 64 end ->
  int_flt_cmp k z f = xc (Some (XFin (z * SCALE))) (xv_of_fl f).
Proof.
  intros H. destruct k; simpl.
  - destruct (fits64 z) eqn:E.
    + apply ifcmp_spec. apply fits64_iff in E. unfold min64, max64 in E. lia.
    + apply bfcmp_spec.
  - apply ifcmp_spec; lia.
  - apply ifcmp_spec; lia.
Qed.

(* ---------------------------------------------------------------- views *)
Lemma view_int_range a k z :
  wf a = true -> view a = NVInt k z ->
  match k with KI => True | KS _ => - 2 ^ 63 <= z < 2 ^ 63 | KU _ => 0 <= z < 2 ^ 64 end.
Proof.
  destruct a; simpl; intros W V; inversion V; subst; auto.
  - unfold fits_s in W. destruct k0; simpl in W; lia.
  - unfold fits_u in W. destruct k0; simpl in W; lia.
Qed.

Lemma xc_opp ox oy : option_map CompOpp (xc ox oy) = xc oy ox.
Proof. destruct ox, oy; simpl; auto. now rewrite <- xcompare_antisym. Qed.

Lemma num_cmp_spec a b :
  wf a = true -> wf b = true -> numeric a = true -> numeric b = true ->
  num_cmp a b = Some (xc (xval a) (xval b)).
Proof.
  intros Wa Wb Na Nb. unfold num_cmp, xval, numeric in *.
  destruct (view a) as [ka x | ka f |] eqn:Va; try discriminate;
    destruct (view b) as [kb y | kb g |] eqn:Vb; try discriminate; simpl.
  - do 2 f_equal. apply Zmult_compare_compat_r. apply Z.lt_gt. apply SCALE_pos.
  - f_equal. apply int_flt_cmp_spec. exact (view_int_range a ka x Wa Va).
  - f_equal. rewrite (int_flt_cmp_spec kb y f (view_int_range b kb y Wb Vb)). apply xc_opp.
  - reflexivity.
Qed.

Lemma num_cmp_none a b :
  numeric a = false \/ numeric b = false -> num_cmp a b = None.
Proof.
  unfold num_cmp, numeric. destruct (view a), (view b); intros [H | H]; try discriminate; auto.
Qed.

Lemma num_cmp_some a b r : num_cmp a b = Some r -> numeric a = true /\ numeric b = true.
Proof.
  unfold num_cmp, numeric. destruct (view a), (view b); intros H; try discriminate; auto.
Qed.

Lemma xval_nan a : numeric a = true -> (xval a = None <-> is_nan a = true).
Proof.
  unfold numeric, xval, is_nan. destruct (view a) as [| k f |]; try discriminate; intros _.
  - split; discriminate.
  - destruct f as [| [|] |]; simpl; split; try discriminate; auto.
Qed.

(* ---------------------------------------------------------------- small equalities *)
Lemma skind_eqb_eq a b : skind_eqb a b = true <-> a = b.
Proof. destruct a, b; simpl; split; intros H; try discriminate; auto. Qed.
Lemma ukind_eqb_eq a b : ukind_eqb a b = true <-> a = b.
Proof. destruct a, b; simpl; split; intros H; try discriminate; auto. Qed.
Lemma skind_eqb_sym a b : skind_eqb a b = skind_eqb b a.
Proof. destruct a, b; reflexivity. Qed.
Lemma ukind_eqb_sym a b : ukind_eqb a b = ukind_eqb b a.
Proof. destruct a, b; reflexivity. Qed.
Lemma list_eqb_eq a : forall b, list_eqb a b = true <-> a = b.
Proof.
  induction a as [| x a IH]; destruct b as [| y b]; simpl; split; intros H; try discriminate; auto.
  - apply andb_true_iff in H. destruct H as [H1 H2]. apply Z.eqb_eq in H1. apply IH in H2. congruence.
  - inversion H; subst. rewrite Z.eqb_refl. simpl. now apply IH.
Qed.
Lemma list_eqb_sym a : forall b, list_eqb a b = list_eqb b a.
Proof. induction a as [| x a IH]; destruct b as [| y b]; simpl; auto. now rewrite Z.eqb_sym, IH. Qed.

Lemma feq_sym f g : feq f g = feq g f.
Proof.
  unfold feq, ffcmp. destruct (xv_of_fl f) as [x |], (xv_of_fl g) as [y |]; auto.
  rewrite (xcompare_antisym x y). destruct (xcompare x y); reflexivity.
Qed.

Lemma feq_true f g : feq f g = true <-> exists x, xv_of_fl f = Some x /\ xv_of_fl g = Some x.
Proof.
  unfold feq, ffcmp. destruct (xv_of_fl f) as [x |], (xv_of_fl g) as [y |]; split; intros H;
    try discriminate; try (destruct H as [z [H1 H2]]; discriminate).
  - destruct (xcompare x y) eqn:E; try discriminate. apply xcompare_eq in E. subst. eauto.
  - destruct H as [z [H1 H2]]. inversion H1; inversion H2; subst. now rewrite xcompare_refl.
Qed.

(* ---------------------------------------------------------------- IEEE encodings are injective *)
Lemma mag_bounds P ex fr :
  0 < P -> 0 <= ex -> 0 <= fr < P ->
  (ex = 0 -> 0 <= mag P ex fr < P) /\
  (0 < ex -> P * 2 ^ (ex - 1) <= mag P ex fr < P * 2 ^ ex).
Proof.
  intros HP Hex Hfr. unfold mag. split; intros H.
  - subst. simpl. lia.
  - destruct (ex =? 0) eqn:E; [lia |].
    assert (HK : 0 < 2 ^ (ex - 1)) by (apply Z.pow_pos_nonneg; lia).
    replace (2 ^ ex) with (2 * 2 ^ (ex - 1)) by (rewrite <- Z.pow_succ_r by lia; f_equal; lia).
    nia.
Qed.

Lemma mag_lt P e1 f1 e2 f2 :
  0 < P -> 0 <= e1 < e2 -> 0 <= f1 < P -> 0 <= f2 < P -> mag P e1 f1 < mag P e2 f2.
Proof.
  intros HP He H1 H2.
  destruct (mag_bounds P e2 f2 HP ltac:(lia) H2) as [_ B2]. specialize (B2 ltac:(lia)).
  destruct (mag_bounds P e1 f1 HP ltac:(lia) H1) as [A1 B1].
  assert (Hm : 2 ^ e1 <= 2 ^ (e2 - 1)) by (apply Z.pow_le_mono_r; lia).
  assert (mag P e1 f1 < P * 2 ^ e1).
  { destruct (Z.eq_dec e1 0) as [-> | Hn]; [specialize (A1 eq_refl); change (2 ^ 0) with 1; lia | apply B1; lia]. }
  assert (P * 2 ^ e1 <= P * 2 ^ (e2 - 1)) by (apply Z.mul_le_mono_nonneg_l; lia).
  lia.
Qed.

Lemma mag_inj P e1 f1 e2 f2 :
  0 < P -> 0 <= e1 -> 0 <= e2 -> 0 <= f1 < P -> 0 <= f2 < P ->
  mag P e1 f1 = mag P e2 f2 -> e1 = e2 /\ f1 = f2.
Proof.
  intros HP He1 He2 H1 H2 E.
  destruct (Z.lt_trichotomy e1 e2) as [L | [-> | L]].
  - pose proof (mag_lt P e1 f1 e2 f2 HP ltac:(lia) H1 H2). lia.
  - split; auto. unfold mag in E. destruct (e2 =? 0) eqn:E0; auto.
    assert (HK : 0 < 2 ^ (e2 - 1)) by (apply Z.pow_pos_nonneg; lia).
    apply Z.mul_reg_r in E; lia.
  - pose proof (mag_lt P e2 f2 e1 f1 HP ltac:(lia) H2 H1). lia.
Qed.

Lemma mag_zero P ex fr :
  0 < P -> 0 <= ex -> 0 <= fr < P -> mag P ex fr = 0 -> ex = 0 /\ fr = 0.
Proof.
  intros HP Hex Hfr E.
  destruct (mag_bounds P ex fr HP Hex Hfr) as [A B].
  destruct (Z.eq_dec ex 0) as [-> | Hn].
  - unfold mag in E. simpl in E. auto.
  - specialize (B ltac:(lia)). assert (0 < 2 ^ (ex - 1)) by (apply Z.pow_pos_nonneg; lia). nia.
Qed.

Lemma mag_nonneg P ex fr : 0 < P -> 0 <= ex -> 0 <= fr < P -> 0 <= mag P ex fr.
Proof.
  intros HP Hex Hfr. destruct (mag_bounds P ex fr HP Hex Hfr) as [A B].
  destruct (Z.eq_dec ex 0) as [-> | Hn]; [specialize (A eq_refl); lia |].
  specialize (B ltac:(lia)). assert (0 < 2 ^ (ex - 1)) by (apply Z.pow_pos_nonneg; lia). nia.
Qed.

(* equal decoded values have equal canonical bit patterns — binary64 *)
Lemma decode64_canon x y :
  0 <= x < 2 ^ 64 -> 0 <= y < 2 ^ 64 ->
  feq (decode64 x) (decode64 y) = true -> canon64 x = canon64 y.
Proof.
  intros Hx Hy H. apply feq_true in H. destruct H as [v [H1 H2]].
  unfold decode64 in H1, H2. unfold canon64.
  set (ex := (x / 2 ^ 52) mod 2 ^ 11) in *. set (fx := x mod 2 ^ 52) in *.
  set (ey := (y / 2 ^ 52) mod 2 ^ 11) in *. set (fy := y mod 2 ^ 52) in *.
  set (nx := 2 ^ 63 <=? x) in *. set (ny := 2 ^ 63 <=? y) in *.
  assert (Bex : 0 <= ex < 2 ^ 11) by (apply Z.mod_pos_bound; lia).
  assert (Bey : 0 <= ey < 2 ^ 11) by (apply Z.mod_pos_bound; lia).
  assert (Bfx : 0 <= fx < 2 ^ 52) by (apply Z.mod_pos_bound; lia).
  assert (Bfy : 0 <= fy < 2 ^ 52) by (apply Z.mod_pos_bound; lia).
  assert (Rx : x = (if nx then 2 ^ 63 else 0) + ex * 2 ^ 52 + fx).
  { subst nx ex fx. change (2 ^ 63) with 9223372036854775808. change (2 ^ 52) with 4503599627370496.
    change (2 ^ 11) with 2048. change (2 ^ 64) with 18446744073709551616 in Hx.
    destruct (9223372036854775808 <=? x) eqn:E; Z.div_mod_to_equations; lia. }
  assert (Ry : y = (if ny then 2 ^ 63 else 0) + ey * 2 ^ 52 + fy).
  { subst ny ey fy. change (2 ^ 63) with 9223372036854775808. change (2 ^ 52) with 4503599627370496.
    change (2 ^ 11) with 2048. change (2 ^ 64) with 18446744073709551616 in Hy.
    destruct (9223372036854775808 <=? y) eqn:E; Z.div_mod_to_equations; lia. }
  assert (Zx : x mod 2 ^ 63 = (ex * 2 ^ 52 + fx)).
  { rewrite Rx at 1. change (2 ^ 63) with 9223372036854775808 in *. change (2 ^ 52) with 4503599627370496 in *.
    change (2 ^ 11) with 2048 in *.
    destruct nx; Z.div_mod_to_equations; lia. }
  assert (Zy : y mod 2 ^ 63 = (ey * 2 ^ 52 + fy)).
  { rewrite Ry at 1. change (2 ^ 63) with 9223372036854775808 in *. change (2 ^ 52) with 4503599627370496 in *.
    change (2 ^ 11) with 2048 in *.
    destruct ny; Z.div_mod_to_equations; lia. }
  rewrite Zx, Zy.
  clearbody nx ny ex fx ey fy.
  assert (HP : 0 < 2 ^ 52) by lia.
  pose proof (mag_nonneg (2 ^ 52) ex fx HP ltac:(lia) Bfx) as Mx.
  pose proof (mag_nonneg (2 ^ 52) ey fy HP ltac:(lia) Bfy) as My.
  destruct (ex =? 2047) eqn:E1; destruct (ey =? 2047) eqn:E2.
  - (* both special *)
    destruct (fx =? 0) eqn:F1; [| discriminate]. destruct (fy =? 0) eqn:F2; [| discriminate].
    assert (ex = ey) by lia. assert (fx = fy) by lia.
    assert (nx = ny).
    { destruct nx, ny; cbn [xv_of_fl] in H1, H2; congruence. }
    assert (x = y) by (rewrite Rx, Ry; subst; reflexivity). subst. reflexivity.
  - destruct (fx =? 0); [| discriminate]. destruct nx, ny; cbn [xv_of_fl] in H1, H2; congruence.
  - destruct (fy =? 0); [| discriminate]. destruct nx, ny; cbn [xv_of_fl] in H1, H2; congruence.
  - cbn [xv_of_fl] in H1, H2.
    assert (S : (if nx then - mag (2 ^ 52) ex fx else mag (2 ^ 52) ex fx) =
                (if ny then - mag (2 ^ 52) ey fy else mag (2 ^ 52) ey fy)) by congruence.
    destruct nx; destruct ny.
    + assert (M : mag (2 ^ 52) ex fx = mag (2 ^ 52) ey fy) by lia.
      apply mag_inj in M; try lia. destruct M; subst. reflexivity.
    + assert (M1 : mag (2 ^ 52) ex fx = 0) by lia. assert (M2 : mag (2 ^ 52) ey fy = 0) by lia.
      apply mag_zero in M1; try lia. apply mag_zero in M2; try lia.
      destruct M1, M2; subst. reflexivity.
    + assert (M1 : mag (2 ^ 52) ex fx = 0) by lia. assert (M2 : mag (2 ^ 52) ey fy = 0) by lia.
      apply mag_zero in M1; try lia. apply mag_zero in M2; try lia.
      destruct M1, M2; subst. reflexivity.
    + assert (M : mag (2 ^ 52) ex fx = mag (2 ^ 52) ey fy) by lia.
      apply mag_inj in M; try lia. destruct M; subst. reflexivity.
Qed.

(* the same for binary32 *)
Lemma decode32_canon x y :
  0 <= x < 2 ^ 32 -> 0 <= y < 2 ^ 32 ->
  feq (decode32 x) (decode32 y) = true -> canon32 x = canon32 y.
Proof.
  intros Hx Hy H. apply feq_true in H. destruct H as [v [H1 H2]].
  unfold decode32 in H1, H2. unfold canon32.
  set (ex := (x / 2 ^ 23) mod 2 ^ 8) in *. set (fx := x mod 2 ^ 23) in *.
  set (ey := (y / 2 ^ 23) mod 2 ^ 8) in *. set (fy := y mod 2 ^ 23) in *.
  set (nx := 2 ^ 31 <=? x) in *. set (ny := 2 ^ 31 <=? y) in *.
  assert (Bex : 0 <= ex < 2 ^ 8) by (apply Z.mod_pos_bound; lia).
  assert (Bey : 0 <= ey < 2 ^ 8) by (apply Z.mod_pos_bound; lia).
  assert (Bfx : 0 <= fx < 2 ^ 23) by (apply Z.mod_pos_bound; lia).
  assert (Bfy : 0 <= fy < 2 ^ 23) by (apply Z.mod_pos_bound; lia).
  assert (Rx : x = (if nx then 2 ^ 31 else 0) + ex * 2 ^ 23 + fx).
  { subst nx ex fx. change (2 ^ 31) with 2147483648. change (2 ^ 23) with 8388608.
    change (2 ^ 8) with 256. change (2 ^ 32) with 4294967296 in Hx.
    destruct (2147483648 <=? x) eqn:E; Z.div_mod_to_equations; lia. }
  assert (Ry : y = (if ny then 2 ^ 31 else 0) + ey * 2 ^ 23 + fy).
  { subst ny ey fy. change (2 ^ 31) with 2147483648. change (2 ^ 23) with 8388608.
    change (2 ^ 8) with 256. change (2 ^ 32) with 4294967296 in Hy.
    destruct (2147483648 <=? y) eqn:E; Z.div_mod_to_equations; lia. }
  assert (Zx : x mod 2 ^ 31 = (ex * 2 ^ 23 + fx)).
  { rewrite Rx at 1. change (2 ^ 31) with 2147483648 in *. change (2 ^ 23) with 8388608 in *.
    change (2 ^ 8) with 256 in *.
    destruct nx; Z.div_mod_to_equations; lia. }
  assert (Zy : y mod 2 ^ 31 = (ey * 2 ^ 23 + fy)).
  { rewrite Ry at 1. change (2 ^ 31) with 2147483648 in *. change (2 ^ 23) with 8388608 in *.
    change (2 ^ 8) with 256 in *.
    destruct ny; Z.div_mod_to_equations; lia. }
  rewrite Zx, Zy.
  clearbody nx ny ex fx ey fy.
  assert (HP : 0 < 2 ^ 23) by lia.
  assert (HS : 0 < 2 ^ 925) by (apply Z.pow_pos_nonneg; lia).
  pose proof (mag_nonneg (2 ^ 23) ex fx HP ltac:(lia) Bfx) as Mx.
  pose proof (mag_nonneg (2 ^ 23) ey fy HP ltac:(lia) Bfy) as My.
  destruct (ex =? 255) eqn:E1; destruct (ey =? 255) eqn:E2.
  - destruct (fx =? 0) eqn:F1; [| discriminate]. destruct (fy =? 0) eqn:F2; [| discriminate].
    assert (ex = ey) by lia. assert (fx = fy) by lia.
    assert (nx = ny).
    { destruct nx, ny; cbn [xv_of_fl] in H1, H2; congruence. }
    assert (x = y) by (rewrite Rx, Ry; subst; reflexivity). subst. reflexivity.
  - destruct (fx =? 0); [| discriminate]. destruct nx, ny; cbn [xv_of_fl] in H1, H2; congruence.
  - destruct (fy =? 0); [| discriminate]. destruct nx, ny; cbn [xv_of_fl] in H1, H2; congruence.
  - cbn [xv_of_fl] in H1, H2.
    set (mx := mag (2 ^ 23) ex fx) in *. set (my := mag (2 ^ 23) ey fy) in *.
    assert (S : (if nx then - (mx * 2 ^ 925) else mx * 2 ^ 925) =
                (if ny then - (my * 2 ^ 925) else my * 2 ^ 925)) by congruence.
    destruct nx; destruct ny.
    + assert (M : mx = my) by nia. subst mx my.
      apply mag_inj in M; try lia. destruct M; subst. reflexivity.
    + assert (M1 : mx = 0) by nia. assert (M2 : my = 0) by nia. subst mx my.
      apply mag_zero in M1; try lia. apply mag_zero in M2; try lia.
      destruct M1, M2; subst. reflexivity.
    + assert (M1 : mx = 0) by nia. assert (M2 : my = 0) by nia. subst mx my.
      apply mag_zero in M1; try lia. apply mag_zero in M2; try lia.
      destruct M1, M2; subst. reflexivity.
    + assert (M : mx = my) by nia. subst mx my.
      apply mag_inj in M; try lia. destruct M; subst. reflexivity.
Qed.
