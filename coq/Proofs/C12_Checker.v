(* C12 — proofs about Model/C12_Checker.v *)
From Coq Require Import ZArith NArith List Bool Lia.
From Elk Require Import Model.C12_Checker.
Import ListNotations.

Ltac dlet H :=
  match type of H with
  | context [let (_, _) := ?X in _] => let E := fresh "E" in destruct X as [? ?] eqn:E
  end.
Ltac dletg :=
  match goal with
  | |- context [let (_, _) := ?X in _] => let E := fresh "E" in destruct X as [? ?] eqn:E
  end.

(* ------------------------------------------------------------------ the registers *)

Lemma check_expr_locals : forall fx sigs e s, slocals (fst (check_expr fx sigs s e)) = slocals s.
Proof.
  induction e; intros s; cbn [check_expr].
  - reflexivity.
  - destruct (lookup (slocals s) x); reflexivity.
  - specialize (IHe (set_regs s (mkRegs None None MethodMode))). dletg. cbn in *. exact IHe.
  - apply IHe.
  - specialize (IHe s). dletg. cbn in *. destruct t; cbn; exact IHe.
  - destruct (lookup sigs m); reflexivity.
Qed.

(* with the fix, checking any expression leaves returnType / throwType / mode as they were *)
Lemma check_expr_regs : forall sigs e s, sregs (fst (check_expr true sigs s e)) = sregs s.
Proof.
  induction e; intros s; cbn [check_expr].
  - reflexivity.
  - destruct (lookup (slocals s) x); reflexivity.
  - dletg. reflexivity.
  - apply IHe.
  - specialize (IHe s). dletg. cbn in *. destruct t; cbn; exact IHe.
  - destruct (lookup sigs m); reflexivity.
Qed.

Fixpoint ctype (e : expr) : ty :=
  match e with
  | ELit t => t
  | EClos b => TClos (ctype b)
  | EParen e' => ctype e'
  | _ => TErr
  end.

Lemma closed_value_check : forall sigs e s, closed_value e = true -> check_expr true sigs s e = (s, ctype e).
Proof.
  induction e; intros s H; cbn in *; try discriminate.
  - reflexivity.
  - rewrite (IHe _ H). destruct s; reflexivity.
  - auto.
Qed.

(* ------------------------------------------------------------------ an unused local does not matter *)

Definition agree (x : name) (s s' : st) : Prop :=
  sregs s = sregs s' /\ serrs s = serrs s' /\ forall y, y <> x -> lookup (slocals s) y = lookup (slocals s') y.

Lemma agree_err : forall x s s', agree x s s' -> agree x (err s) (err s').
Proof. intros x s s' (H1 & H2 & H3). repeat split; cbn; auto. Qed.

Lemma agree_set_regs : forall x s s' r, agree x s s' -> agree x (set_regs s r) (set_regs s' r).
Proof. intros x s s' r (H1 & H2 & H3). repeat split; cbn; auto. Qed.

Lemma agree_add : forall x s s' y t, agree x s s' -> agree x (add_local s y t) (add_local s' y t).
Proof.
  intros x s s' y t (H1 & H2 & H3). repeat split; cbn; auto.
  intros z Hz. destruct (N.eqb z y); auto.
Qed.

Lemma weak_expr : forall fx sigs x e s s',
  agree x s s' -> ~ In x (expr_names e) ->
  agree x (fst (check_expr fx sigs s e)) (fst (check_expr fx sigs s' e)) /\
  snd (check_expr fx sigs s e) = snd (check_expr fx sigs s' e).
Proof.
  induction e; intros s s' Ha Hn; cbn [check_expr expr_names] in *.
  - auto.
  - assert (x0 <> x) by (intro; subst; apply Hn; left; reflexivity).
    destruct Ha as (H1 & H2 & H3). rewrite (H3 _ H).
    destruct (lookup (slocals s') x0); cbn; split; auto; try (repeat split; cbn; auto).
  - destruct (IHe _ _ (agree_set_regs x s s' (mkRegs None None MethodMode) Ha) Hn) as [Hb Ht].
    destruct Ha as (H1 & H2 & H3). rewrite H1.
    do 2 dletg. cbn in *. split; [apply agree_set_regs; exact Hb | congruence].
  - apply IHe; auto.
  - destruct (IHe _ _ Ha Hn) as [Hb Ht]. do 2 dletg. cbn in *. subst.
    destruct t0; cbn; auto using agree_err.
  - destruct (lookup sigs m); cbn; auto using agree_err.
Qed.

Lemma weak_stmt : forall fx sigs x c s s',
  agree x s s' -> ~ In x (stmt_names c) ->
  agree x (fst (check_stmt fx sigs s c)) (fst (check_stmt fx sigs s' c)) /\
  snd (check_stmt fx sigs s c) = snd (check_stmt fx sigs s' c).
Proof.
  intros fx sigs x c s s' Ha Hn.
  destruct c as [y e|y e|e|e]; cbn [check_stmt stmt_names] in *.
  - assert (Hy : y <> x) by (intro; subst; apply Hn; left; reflexivity).
    assert (He : ~ In x (expr_names e)) by (intro; apply Hn; right; assumption).
    destruct (weak_expr fx sigs x e s s' Ha He) as [Hb Ht]. do 2 dletg. cbn in *. subst.
    pose proof Hb as (H1 & H2 & H3). rewrite (H3 _ Hy).
    destruct (lookup (slocals s1) y).
    + destruct (assignable t0 t); cbn; auto using agree_err.
    + cbn. auto using agree_add.
  - assert (Hy : y <> x) by (intro; subst; apply Hn; left; reflexivity).
    assert (He : ~ In x (expr_names e)) by (intro; apply Hn; right; assumption).
    destruct (weak_expr fx sigs x e s s' Ha He) as [Hb Ht]. do 2 dletg. cbn in *. subst.
    pose proof Hb as (H1 & H2 & H3). rewrite (H3 _ Hy).
    destruct (lookup (slocals s1) y).
    + destruct (assignable t0 t); cbn; auto using agree_err.
    + cbn. auto using agree_err.
  - apply weak_expr; auto.
  - destruct (weak_expr fx sigs x e s s' Ha Hn) as [Hb Ht]. do 2 dletg. cbn in *. subst.
    pose proof Hb as (H1 & H2 & H3). rewrite H1.
    destruct (rret (sregs s1)).
    + destruct (assignable t0 t); cbn; auto using agree_err.
    + cbn. auto using agree_err.
Qed.

Lemma weak_body : forall fx sigs x b s s' t0 t0',
  agree x s s' -> ~ In x (body_names b) -> (b <> [] \/ t0 = t0') ->
  agree x (fst (check_body fx sigs s t0 b)) (fst (check_body fx sigs s' t0' b)) /\
  snd (check_body fx sigs s t0 b) = snd (check_body fx sigs s' t0' b).
Proof.
  induction b as [|c b IH]; intros s s' t0 t0' Ha Hn Ht; cbn [check_body body_names flat_map] in *.
  - destruct Ht as [Ht|Ht]; [contradiction|]. cbn. auto.
  - assert (Hc : ~ In x (stmt_names c)) by (intro; apply Hn; apply in_or_app; left; assumption).
    assert (Hb : ~ In x (body_names b)) by (intro; apply Hn; apply in_or_app; right; assumption).
    destruct (weak_stmt fx sigs x c s s' Ha Hc) as [Ha1 Ht1]. do 2 dletg. cbn in *. subst.
    apply IH; auto.
Qed.

Lemma stmt_keeps_unbound : forall fx sigs x c s,
  ~ In x (stmt_names c) -> lookup (slocals s) x = None ->
  lookup (slocals (fst (check_stmt fx sigs s c))) x = None.
Proof.
  intros fx sigs x c s Hn Hl.
  destruct c as [y e|y e|e|e]; cbn [check_stmt stmt_names] in *.
  - pose proof (check_expr_locals fx sigs e s) as L. dletg. cbn in *.
    destruct (lookup (slocals s0) y).
    + destruct (assignable t t0); cbn; congruence.
    + cbn. destruct (N.eqb x y) eqn:Exy.
      * apply N.eqb_eq in Exy. subst. exfalso. apply Hn. left. reflexivity.
      * congruence.
  - pose proof (check_expr_locals fx sigs e s) as L. dletg. cbn in *.
    destruct (lookup (slocals s0) y).
    + destruct (assignable t t0); cbn; congruence.
    + cbn. congruence.
  - rewrite check_expr_locals. exact Hl.
  - pose proof (check_expr_locals fx sigs e s) as L. dletg. cbn in *.
    destruct (rret (sregs s0)).
    + destruct (assignable t t0); cbn; congruence.
    + cbn. congruence.
Qed.

Lemma insert_body : forall sigs x e b pos s t0,
  closed_value e = true -> ~ In x (body_names b) -> lookup (slocals s) x = None ->
  let r1 := check_body true sigs s t0 b in
  let r2 := check_body true sigs s t0 (insert_at pos (SLet x e) b) in
  serrs (fst r2) = serrs (fst r1) /\ sregs (fst r2) = sregs (fst r1) /\
  ((pos < length b)%nat -> snd r2 = snd r1).
Proof.
  intros sigs x e b pos. revert b. induction pos as [|n IH]; intros b s t0 Hc Hn Hl r1 r2; subst r1 r2.
  - cbn [insert_at check_body check_stmt]. rewrite (closed_value_check sigs e s Hc). rewrite Hl.
    assert (Ha : agree x s (add_local s x (ctype e))).
    { repeat split; cbn; auto. intros y Hy. apply N.eqb_neq in Hy. now rewrite Hy. }
    destruct b as [|c b].
    + cbn. repeat split; auto. intro H. inversion H.
    + assert (Hne : c :: b <> [] \/ t0 = ctype e) by (left; discriminate).
      destruct (weak_body true sigs x (c :: b) s (add_local s x (ctype e)) t0 (ctype e) Ha Hn Hne)
        as [(H1 & H2 & H3) Ht].
      repeat split; auto.
  - destruct b as [|c b]; cbn [insert_at].
    + cbn [check_body check_stmt]. rewrite (closed_value_check sigs e s Hc). rewrite Hl. cbn.
      repeat split; auto. intro H. inversion H.
    + cbn [check_body body_names flat_map] in *.
      assert (Hcn : ~ In x (stmt_names c)) by (intro; apply Hn; apply in_or_app; left; assumption).
      assert (Hb : ~ In x (body_names b)) by (intro; apply Hn; apply in_or_app; right; assumption).
      pose proof (stmt_keeps_unbound true sigs x c s Hcn Hl) as Hl'.
      destruct (check_stmt true sigs s c) as [s1 t1]. cbn in Hl'.
      destruct (IH b s1 t1 Hc Hb Hl') as (H1 & H2 & H3). repeat split; auto.
      intro Hp. apply H3. cbn in Hp. lia.
Qed.

Lemma sigs_of_app_body : forall ms1 n rt b b' ms2,
  sigs_of (ms1 ++ (n, rt, b') :: ms2) = sigs_of (ms1 ++ (n, rt, b) :: ms2).
Proof. intros. unfold sigs_of. rewrite !map_app. reflexivity. Qed.

Lemma insert_method : forall sigs s n rt body pos x e,
  closed_value e = true -> ~ In x (body_names body) -> (pos < length body)%nat ->
  check_method true sigs s (n, rt, insert_at pos (SLet x e) body) = check_method true sigs s (n, rt, body).
Proof.
  intros sigs s n rt body pos x e Hc Hn Hp. unfold check_method.
  destruct (insert_body sigs x e body pos (mkSt (mkRegs (Some rt) None MethodMode) [] (serrs s)) TNil Hc Hn eq_refl)
    as (H1 & H2 & H3). specialize (H3 Hp).
  do 2 dletg. cbn in *. subst. destruct (assignable t0 rt); cbn; congruence.
Qed.

Theorem unused_local_method : forall ms1 n rt body ms2 mn pos x e,
  closed_value e = true -> ~ In x (body_names body) -> (pos < length body)%nat ->
  check_prog true (mkProg (ms1 ++ (n, rt, insert_at pos (SLet x e) body) :: ms2) mn) =
  check_prog true (mkProg (ms1 ++ (n, rt, body) :: ms2) mn).
Proof.
  intros. unfold check_prog. cbn [methods main]. rewrite (sigs_of_app_body ms1 n rt body).
  rewrite !fold_left_app. cbn [fold_left]. rewrite insert_method; auto.
Qed.

Lemma fold_methods_locals : forall fx sg l s0,
  slocals (fold_left (check_method fx sg) l s0) = slocals s0.
Proof.
  induction l as [|a l IHl]; intros s0; cbn; auto. rewrite IHl.
  destruct a as [[? ?] ?]. unfold check_method. dletg. reflexivity.
Qed.

Theorem unused_local_main : forall ms mn pos x e,
  closed_value e = true -> ~ In x (body_names mn) ->
  errors true (mkProg ms (insert_at pos (SLet x e) mn)) = errors true (mkProg ms mn).
Proof.
  intros ms mn pos x e Hc Hn. unfold errors, check_prog. cbn [methods main].
  set (s := fold_left (check_method true (sigs_of ms)) ms top).
  assert (Hl : slocals s = []) by (subst s; apply fold_methods_locals).
  destruct (insert_body (sigs_of ms) x e mn pos s TNil Hc Hn) as (H1 & _ & _).
  - rewrite Hl. reflexivity.
  - exact H1.
Qed.

(* ------------------------------------------------------------------ alpha-renaming *)

Ltac dty := match goal with |- context [match ?T with TInt => _ | _ => _ end] => destruct T end.
Ltac dif := match goal with |- context [if ?B then _ else _] => destruct B end.
Ltac dopt := match goal with |- context [match ?O with Some _ => _ | None => _ end] => destruct O end.

Section Ren.
Variable f : name -> name.
Hypothesis f_inj : forall x y, f x = f y -> x = y.

Definition ren_locals (l : list (name * ty)) : list (name * ty) := map (fun p => (f (fst p), snd p)) l.

Definition renrel (s s' : st) : Prop :=
  sregs s' = sregs s /\ serrs s' = serrs s /\ slocals s' = ren_locals (slocals s).

Lemma f_eqb : forall x y, N.eqb (f x) (f y) = N.eqb x y.
Proof.
  intros x y. destruct (N.eqb x y) eqn:E.
  - apply N.eqb_eq in E. subst. apply N.eqb_refl.
  - apply N.eqb_neq. intro H. apply f_inj in H. apply N.eqb_neq in E. contradiction.
Qed.

Lemma lookup_ren : forall l x, lookup (ren_locals l) (f x) = lookup l x.
Proof.
  induction l as [|[y t] l IH]; intros x; cbn; [reflexivity|]. rewrite f_eqb. destruct (N.eqb x y); auto.
Qed.

Lemma renrel_err : forall s s', renrel s s' -> renrel (err s) (err s').
Proof. intros s s' (H1 & H2 & H3). repeat split; cbn; auto. Qed.

Lemma renrel_set_regs : forall s s' r, renrel s s' -> renrel (set_regs s r) (set_regs s' r).
Proof. intros s s' r (H1 & H2 & H3). repeat split; cbn; auto. Qed.

Lemma ren_expr_ok : forall fx sigs e s s',
  renrel s s' ->
  renrel (fst (check_expr fx sigs s e)) (fst (check_expr fx sigs s' (ren_expr f e))) /\
  snd (check_expr fx sigs s' (ren_expr f e)) = snd (check_expr fx sigs s e).
Proof.
  induction e; intros s s' Hr; cbn [check_expr ren_expr].
  - auto.
  - pose proof Hr as (H1 & H2 & H3). rewrite H3, lookup_ren.
    destruct (lookup (slocals s) x); cbn; auto using renrel_err.
  - destruct (IHe _ _ (renrel_set_regs s s' (mkRegs None None MethodMode) Hr)) as [Hb Ht].
    destruct Hr as (H1 & H2 & H3). rewrite H1. do 2 dletg. cbn in *.
    split; [apply renrel_set_regs; exact Hb | congruence].
  - apply IHe; auto.
  - destruct (IHe _ _ Hr) as [Hb Ht]. do 2 dletg. cbn in *. subst.
    dty; cbn; auto using renrel_err.
  - destruct (lookup sigs m); cbn; auto using renrel_err.
Qed.

Lemma ren_stmt_ok : forall fx sigs c s s',
  renrel s s' ->
  renrel (fst (check_stmt fx sigs s c)) (fst (check_stmt fx sigs s' (ren_stmt f c))) /\
  snd (check_stmt fx sigs s' (ren_stmt f c)) = snd (check_stmt fx sigs s c).
Proof.
  intros fx sigs c s s' Hr.
  destruct c as [y e|y e|e|e]; cbn [check_stmt ren_stmt].
  - destruct (ren_expr_ok fx sigs e s s' Hr) as [Hb Ht]. do 2 dletg. cbn in *. subst.
    pose proof Hb as (H1 & H2 & H3). rewrite H3, lookup_ren.
    dopt.
    + dif; cbn; auto using renrel_err.
    + cbn. split; auto. repeat split; cbn; auto. now rewrite H3.
  - destruct (ren_expr_ok fx sigs e s s' Hr) as [Hb Ht]. do 2 dletg. cbn in *. subst.
    pose proof Hb as (H1 & H2 & H3). rewrite H3, lookup_ren.
    dopt.
    + dif; cbn; auto using renrel_err.
    + cbn. auto using renrel_err.
  - apply ren_expr_ok; auto.
  - destruct (ren_expr_ok fx sigs e s s' Hr) as [Hb Ht]. do 2 dletg. cbn in *. subst.
    pose proof Hb as (H1 & H2 & H3). rewrite H1.
    dopt.
    + dif; cbn; auto using renrel_err.
    + cbn. auto using renrel_err.
Qed.

Lemma ren_body_ok : forall fx sigs b s s' t0,
  renrel s s' ->
  renrel (fst (check_body fx sigs s t0 b)) (fst (check_body fx sigs s' t0 (ren_body f b))) /\
  snd (check_body fx sigs s' t0 (ren_body f b)) = snd (check_body fx sigs s t0 b).
Proof.
  induction b as [|c b IH]; intros s s' t0 Hr; cbn [check_body ren_body map].
  - auto.
  - destruct (ren_stmt_ok fx sigs c s s' Hr) as [Hb Ht]. do 2 dletg. cbn in *. subst.
    apply IH. exact Hb.
Qed.

Lemma ren_method : forall fx sigs s n rt body,
  check_method fx sigs s (n, rt, ren_body f body) = check_method fx sigs s (n, rt, body).
Proof.
  intros. unfold check_method.
  set (s1 := mkSt (mkRegs (Some rt) None MethodMode) [] (serrs s)).
  assert (Hr : renrel s1 s1) by (repeat split; reflexivity).
  destruct (ren_body_ok fx sigs body s1 s1 TNil Hr) as [(H1 & H2 & H3) Ht].
  do 2 dletg. cbn in *. subst. dif; cbn; congruence.
Qed.

Theorem rename_method : forall fx ms1 n rt body ms2 mn,
  check_prog fx (mkProg (ms1 ++ (n, rt, ren_body f body) :: ms2) mn) =
  check_prog fx (mkProg (ms1 ++ (n, rt, body) :: ms2) mn).
Proof.
  intros. unfold check_prog. cbn [methods main]. rewrite (sigs_of_app_body ms1 n rt body).
  rewrite !fold_left_app. cbn [fold_left]. rewrite ren_method. reflexivity.
Qed.

End Ren.

Lemma swap_inj : forall x y a b, swap x y a = swap x y b -> a = b.
Proof.
  intros x y a b. unfold swap.
  destruct (N.eqb a x) eqn:E1; destruct (N.eqb b x) eqn:E2;
    destruct (N.eqb a y) eqn:E3; destruct (N.eqb b y) eqn:E4;
    repeat match goal with H : N.eqb _ _ = true |- _ => apply N.eqb_eq in H
                      | H : N.eqb _ _ = false |- _ => apply N.eqb_neq in H end;
    intros; subst; try congruence.
Qed.

(* ------------------------------------------------------------------ parentheses *)

Lemma strip_expr_ok : forall fx sigs e s, check_expr fx sigs s (strip_expr e) = check_expr fx sigs s e.
Proof.
  induction e; intros s; cbn [strip_expr check_expr]; auto.
  - now rewrite IHe.
  - now rewrite IHe.
Qed.

Lemma strip_stmt_ok : forall fx sigs c s, check_stmt fx sigs s (strip_stmt c) = check_stmt fx sigs s c.
Proof. intros fx sigs [y e|y e|e|e] s; cbn [strip_stmt check_stmt]; now rewrite strip_expr_ok. Qed.

Lemma strip_body_ok : forall fx sigs b s t0,
  check_body fx sigs s t0 (map strip_stmt b) = check_body fx sigs s t0 b.
Proof.
  induction b as [|c b IH]; intros s t0; cbn [map check_body]; [reflexivity|].
  rewrite strip_stmt_ok. dletg. apply IH.
Qed.

Lemma strip_fold : forall fx sg ms s0,
  fold_left (check_method fx sg) (map strip_method ms) s0 = fold_left (check_method fx sg) ms s0.
Proof.
  induction ms as [|m ms IH]; intros s0; cbn; [reflexivity|].
  rewrite IH. f_equal. destruct m as [[n rt] b]. unfold strip_method, check_method. cbn.
  now rewrite strip_body_ok.
Qed.

Theorem parens_prog : forall fx p, check_prog fx (strip_prog p) = check_prog fx p.
Proof.
  intros fx [ms mn]. unfold check_prog, strip_prog. cbn [methods main].
  assert (Hs : sigs_of (map strip_method ms) = sigs_of ms).
  { unfold sigs_of. rewrite map_map. apply map_ext. intros [[? ?] ?]. reflexivity. }
  rewrite Hs, strip_fold, strip_body_ok. reflexivity.
Qed.

(* ------------------------------------------------------------------ reordering method definitions *)
From Coq Require Import Permutation.

Definition bump (k : nat) (s : st) : st := mkSt (sregs s) (slocals s) (serrs s + k).

Lemma bump_expr : forall fx sigs e s k,
  check_expr fx sigs (bump k s) e = (bump k (fst (check_expr fx sigs s e)), snd (check_expr fx sigs s e)).
Proof.
  induction e; intros s k; cbn [check_expr].
  - reflexivity.
  - cbn [bump slocals]. destruct (lookup (slocals s) x); reflexivity.
  - change (set_regs (bump k s) (mkRegs None None MethodMode)) with (bump k (set_regs s (mkRegs None None MethodMode))).
    rewrite IHe. destruct (check_expr fx sigs (set_regs s (mkRegs None None MethodMode)) e) as [s2 t]. reflexivity.
  - apply IHe.
  - rewrite IHe. destruct (check_expr fx sigs s e) as [s1 t]. cbn. destruct t; reflexivity.
  - destruct (lookup sigs m); reflexivity.
Qed.

Lemma bump_stmt : forall fx sigs c s k,
  check_stmt fx sigs (bump k s) c = (bump k (fst (check_stmt fx sigs s c)), snd (check_stmt fx sigs s c)).
Proof.
  intros fx sigs [y e|y e|e|e] s k; cbn [check_stmt]; try apply bump_expr;
    rewrite bump_expr; destruct (check_expr fx sigs s e) as [s1 t]; cbn.
  - destruct (lookup (slocals s1) y); [destruct (assignable t t0)|]; reflexivity.
  - destruct (lookup (slocals s1) y); [destruct (assignable t t0)|]; reflexivity.
  - destruct (rret (sregs s1)); [destruct (assignable t t0)|]; reflexivity.
Qed.

Lemma bump_body : forall fx sigs b s k t0,
  check_body fx sigs (bump k s) t0 b = (bump k (fst (check_body fx sigs s t0 b)), snd (check_body fx sigs s t0 b)).
Proof.
  induction b as [|c b IH]; intros s k t0; cbn [check_body]; [reflexivity|].
  rewrite bump_stmt. destruct (check_stmt fx sigs s c) as [s1 t]. cbn. apply IH.
Qed.

Definition delta (sigs : list (name * ty)) (m : mdef) : nat := serrs (check_method true sigs top m).

Lemma method_delta : forall sigs s m,
  check_method true sigs s m = mkSt (sregs s) (slocals s) (delta sigs m + serrs s).
Proof.
  intros sigs s [[n rt] b]. unfold delta, check_method. cbn [leave top serrs sregs slocals].
  change (mkSt (mkRegs (Some rt) None MethodMode) [] (serrs s))
    with (bump (serrs s) (mkSt (mkRegs (Some rt) None MethodMode) [] 0)).
  rewrite bump_body.
  destruct (check_body true sigs (mkSt (mkRegs (Some rt) None MethodMode) [] 0) TNil b) as [s2 bt]. cbn.
  destruct (assignable bt rt); reflexivity.
Qed.

Lemma fold_delta : forall sigs ms s,
  fold_left (check_method true sigs) ms s =
  mkSt (sregs s) (slocals s) (list_sum (map (delta sigs) ms) + serrs s).
Proof.
  induction ms as [|m ms IH]; intros s; cbn [fold_left map list_sum fold_right].
  - destruct s; reflexivity.
  - rewrite IH, method_delta. cbn [sregs slocals serrs]. f_equal. rewrite Nat.add_assoc, (Nat.add_comm (list_sum _) (delta sigs m)). reflexivity.
Qed.

Lemma list_sum_perm : forall l l', Permutation l l' -> list_sum l = list_sum l'.
Proof. induction 1; unfold list_sum in *; cbn in *; lia. Qed.

Definition sigs_equiv (a b : list (name * ty)) : Prop := forall m, lookup a m = lookup b m.

Lemma sigs_expr : forall fx a b, sigs_equiv a b -> forall e s, check_expr fx a s e = check_expr fx b s e.
Proof.
  intros fx a b H. induction e; intros s; cbn [check_expr]; auto.
  - now rewrite IHe.
  - now rewrite IHe.
  - now rewrite H.
Qed.

Lemma sigs_stmt : forall fx a b, sigs_equiv a b -> forall c s, check_stmt fx a s c = check_stmt fx b s c.
Proof. intros fx a b H [y e|y e|e|e] s; cbn [check_stmt]; now rewrite (sigs_expr fx a b H). Qed.

Lemma sigs_body : forall fx a b, sigs_equiv a b -> forall bd s t0, check_body fx a s t0 bd = check_body fx b s t0 bd.
Proof.
  intros fx a b H. induction bd as [|c bd IH]; intros s t0; cbn [check_body]; [reflexivity|].
  rewrite (sigs_stmt fx a b H). destruct (check_stmt fx b s c). apply IH.
Qed.

Lemma sigs_method : forall fx a b, sigs_equiv a b -> forall s m, check_method fx a s m = check_method fx b s m.
Proof. intros fx a b H s [[n rt] bd]. unfold check_method. now rewrite (sigs_body fx a b H). Qed.

Lemma lookup_perm : forall l l', Permutation l l' -> NoDup (map fst l) -> sigs_equiv l l'.
Proof.
  induction 1; intros Hn m.
  - reflexivity.
  - destruct x as [y t]. cbn. inversion Hn; subst. destruct (N.eqb m y); auto. now apply IHPermutation.
  - destruct x as [a ta], y as [b tb]. cbn in *. inversion Hn as [|? ? Hin _]; subst.
    destruct (N.eqb m b) eqn:E1; destruct (N.eqb m a) eqn:E2; auto.
    apply N.eqb_eq in E1. apply N.eqb_eq in E2. subst. exfalso. apply Hin. left. reflexivity.
  - rewrite IHPermutation1; auto. apply IHPermutation2.
    eapply Permutation_NoDup; [apply Permutation_map; exact H | exact Hn].
Qed.

Theorem reorder_methods : forall ms ms' mn,
  Permutation ms ms' -> NoDup (map fst (sigs_of ms)) ->
  errors true (mkProg ms' mn) = errors true (mkProg ms mn).
Proof.
  intros ms ms' mn Hp Hn. unfold errors, check_prog. cbn [methods main].
  assert (He : sigs_equiv (sigs_of ms') (sigs_of ms)).
  { intro m. symmetry. apply (lookup_perm (sigs_of ms) (sigs_of ms')); auto.
    unfold sigs_of. now apply Permutation_map. }
  rewrite (sigs_body true _ _ He).
  rewrite !fold_delta.
  assert (Hs : list_sum (map (delta (sigs_of ms')) ms') = list_sum (map (delta (sigs_of ms)) ms)).
  { rewrite (list_sum_perm _ _ (Permutation_map (delta (sigs_of ms')) (Permutation_sym Hp))).
    f_equal. apply map_ext. intro m. unfold delta. now rewrite (sigs_method true _ _ He). }
  now rewrite Hs.
Qed.
