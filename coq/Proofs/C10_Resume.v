(* C10 — generator resume across a stack reallocation (finite witness on the model). *)
From Elk Require Import Base.GoSem Model.C10_Stack Model.C10_Resume Proofs.C10_Stack.
Open Scope Z_scope.

(* Restoring the saved frame after a growth through the re-derived stack pointer gives the view of the
   restore without growth (capacity doubled); restoring it through the destination address taken BEFORE the
   growth does not: the saved slots land in the abandoned array and the generator resumes on whatever the
   new array holds there. *)
Lemma generator_resume_stale :
  exists s nb fr, GInv s /\
    abs (resume_frame (grow s nb) fr) = abs_resized (resume_frame s fr) /\
    abs (resume_frame_stale s nb fr) <> abs_resized (resume_frame s fr).
Proof.
  exists witness_two_frames, 50000, [41; 42]. split; [exact witness_two_frames_inv|].
  split.
  - vm_compute. reflexivity.
  - vm_compute. intro H. discriminate H.
Qed.
