(* C01 - proofs about the protocol machine of Model/C01_Proto.v *)
From Coq Require Import ZArith List Bool Lia.
From Elk Require Model.C15_Gen.
From Elk Require Import Model.C01_Proto.
Import ListNotations.
Open Scope Z_scope.

(* next keeps the kind of the object *)
Lemma step_next_kind : forall fuel o o' evs add,
  step_next fuel o = QOk o' evs add -> kind_of o' = kind_of o.
Proof.
  intros fuel o o' evs add H. destruct o as [f args st|l pos|lo pos|cap q closed|s|done n]; cbn in H.
  - destruct (C15_Gen.next fuel st) as [[r st']|]; [|discriminate].
    destruct r; inversion H; subst; reflexivity.
  - destruct (nth_error l pos); inversion H; subst; reflexivity.
  - inversion H; subst; reflexivity.
  - destruct q as [|v r]; [destruct closed; inversion H; subst; reflexivity|inversion H; subst; reflexivity].
  - discriminate.
  - discriminate.
Qed.

Lemma step_next_no_crash : forall fuel o,
  (kind_of o = KGen \/ kind_of o = KIter \/ kind_of o = KChan) -> step_next fuel o <> QCrash.
Proof.
  intros fuel o Hk. destruct o as [f args st|l pos|lo pos|cap q closed|s|done n]; cbn.
  - destruct (C15_Gen.next fuel st) as [[r st']|]; [destruct r|]; discriminate.
  - destruct (nth_error l pos); discriminate.
  - discriminate.
  - destruct q; [destruct closed|]; discriminate.
  - cbn in Hk. destruct Hk as [H|[H|H]]; discriminate.
  - cbn in Hk. destruct Hk as [H|[H|H]]; discriminate.
Qed.

Lemma forin_kind : forall rounds fuel o lim evs add o' evs' add',
  forin rounds fuel o lim evs add = QOk o' evs' add' -> kind_of o' = kind_of o.
Proof.
  induction rounds as [|r IH]; intros fuel o lim evs add o' evs' add' H; cbn [forin] in H; [discriminate|].
  destruct (lim_zero lim); [inversion H; subst; reflexivity|].
  destruct (step_next fuel o) as [o1 e a| | |] eqn:Hs; try discriminate.
  pose proof (step_next_kind _ _ _ _ _ Hs) as Hk1.
  destruct (single_val e).
  - destruct (lim_dec lim) as [lim'|].
    + apply IH in H. congruence.
    + inversion H; subst; exact Hk1.
  - inversion H; subst; exact Hk1.
Qed.

Lemma forin_no_crash : forall rounds fuel o lim evs add,
  (kind_of o = KGen \/ kind_of o = KIter \/ kind_of o = KChan) -> forin rounds fuel o lim evs add <> QCrash.
Proof.
  induction rounds as [|r IH]; intros fuel o lim evs add Hk; cbn [forin]; [discriminate|].
  destruct (lim_zero lim); [discriminate|].
  destruct (step_next fuel o) as [o1 e a| | |] eqn:Hs; try discriminate.
  - pose proof (step_next_kind _ _ _ _ _ Hs) as Hk1.
    destruct (single_val e); [|discriminate].
    destruct (lim_dec lim) as [lim'|]; [|discriminate].
    apply IH. rewrite Hk1. exact Hk.
  - exfalso. exact (step_next_no_crash fuel o Hk Hs).
Qed.

(* every operation keeps the kind of its receiver *)
Lemma step_kind : forall fuel o p o' evs add,
  step fuel o p = QOk o' evs add -> kind_of o' = kind_of o.
Proof.
  intros fuel o p o' evs add H. destruct p; cbn [step] in H.
  - exact (step_next_kind _ _ _ _ _ H).
  - destruct o; inversion H; subst; reflexivity.
  - destruct o; try discriminate; exact (forin_kind _ _ _ _ _ _ _ _ _ H).
  - destruct o as [| | |cap q closed| |]; try discriminate.
    destruct closed; [inversion H; subst; reflexivity|].
    destruct (Nat.ltb (length q) cap); inversion H; subst; reflexivity.
  - destruct o as [| | |cap q closed| |]; try discriminate.
    destruct q; [destruct closed|]; inversion H; subst; reflexivity.
  - destruct o as [| | |cap q closed| |]; try discriminate.
    destruct closed; inversion H; subst; reflexivity.
  - destruct o; inversion H; subst; reflexivity.
  - destruct o as [| | | |s|]; try discriminate. destruct s; inversion H; subst; reflexivity.
  - destruct o as [| | | | |done n]; try discriminate. destruct done; inversion H; subst; reflexivity.
Qed.

(* an operation the checker accepts for the kind of the slot never meets another representation *)
Lemma step_no_crash : forall fuel o p, op_ok (kind_of o) p = true -> step fuel o p <> QCrash.
Proof.
  intros fuel o p Hok. destruct p; cbn [step].
  - apply step_next_no_crash. destruct o; cbn in *; try discriminate; auto.
  - destruct o; cbn in *; discriminate.
  - destruct o; cbn in Hok; try discriminate; apply forin_no_crash; cbn; auto.
  - destruct o as [| | |cap q closed| |]; cbn in Hok; try discriminate.
    destruct closed; [discriminate|]. destruct (Nat.ltb (length q) cap); discriminate.
  - destruct o as [| | |cap q closed| |]; cbn in Hok; try discriminate.
    destruct q; [destruct closed|]; discriminate.
  - destruct o as [| | |cap q closed| |]; cbn in Hok; try discriminate. destruct closed; discriminate.
  - destruct o; cbn in Hok; discriminate.
  - destruct o as [| | | |s|]; cbn in Hok; try discriminate. destruct s; discriminate.
  - destruct o as [| | | | |done n]; cbn in Hok; try discriminate. destruct done; discriminate.
Qed.

Lemma set_slot_kinds : forall h i o o',
  nth_error h i = Some o -> kind_of o' = kind_of o -> map kind_of (set_slot h i o') = map kind_of h.
Proof.
  induction h as [|a r IH]; intros i o o' Hn Hk; destruct i; cbn in *; try discriminate.
  - inversion Hn; subst. rewrite Hk. reflexivity.
  - f_equal. exact (IH _ _ _ Hn Hk).
Qed.

Theorem proto_sound : forall ops h,
  wt_ops (map kind_of h) ops = true ->
  forall fuel acc out, run_ops fuel h ops acc out <> PCrash.
Proof.
  induction ops as [|p r IH]; intros h Hwt fuel acc out; cbn; [discriminate|].
  cbn in Hwt. apply andb_true_iff in Hwt. destruct Hwt as [Hp Hr].
  unfold wt_op in Hp. rewrite nth_error_map in Hp.
  destruct (nth_error h (op_slot p)) as [o|] eqn:Hn; cbn in Hp; [|discriminate].
  destruct (step fuel o p) as [o' evs add| | |] eqn:Hs.
  - apply IH. rewrite (set_slot_kinds _ _ _ _ Hn (step_kind _ _ _ _ _ _ Hs)). exact Hr.
  - exfalso. exact (step_no_crash fuel o p Hp Hs).
  - discriminate.
  - discriminate.
Qed.

(* reset = start over: the rest of a history after `reset` is the history of a fresh object *)
Theorem proto_reset_restarts : forall fuel h i o ops acc out,
  nth_error h i = Some o -> (kind_of o = KGen \/ kind_of o = KIter) ->
  run_ops fuel h (PReset i :: ops) acc out = run_ops fuel (set_slot h i (fresh o)) ops acc ([EOk] :: out).
Proof.
  intros fuel h i o ops acc out Hn Hk. cbn [run_ops op_slot]. rewrite Hn.
  destruct o; cbn in Hk; destruct Hk as [Hk|Hk]; try discriminate; cbn [step]; rewrite Z.add_0_r; reflexivity.
Qed.

(* fresh is idempotent and forgets the position: two resets = one, reset of a fresh object = nothing *)
Lemma fresh_idem : forall o, fresh (fresh o) = fresh o.
Proof. destruct o; reflexivity. Qed.
