(* C07 — proofs about the fixed-width integer model (Model/C07_Strict.v). *)
From Elk Require Import Base.GoSem Model.C07_Strict.
From Coq Require Import ZifyBool Lia.
Open Scope Z_scope.

(* ------------------------------------------------------------------ powers of two *)
Lemma pow2_pos w : 0 <= w -> 0 < 2 ^ w.
Proof. intros. apply Z.pow_pos_nonneg; lia. Qed.

Lemma pow2_split w : 0 < w -> 2 ^ w = 2 * 2 ^ (w - 1).
Proof.
  intros Hw. replace w with (Z.succ (w - 1)) at 1 by lia.
  rewrite Z.pow_succ_r by lia. reflexivity.
Qed.

Lemma pow2_le a b : 0 <= a <= b -> 2 ^ a <= 2 ^ b.
Proof. intros. apply Z.pow_le_mono_r; lia. Qed.

(* ------------------------------------------------------------------ wrap *)
Lemma fits_s_iff w z : fits_s w z = true <-> - 2 ^ (w - 1) <= z < 2 ^ (w - 1).
Proof. unfold fits_s. rewrite andb_true_iff, Z.leb_le, Z.ltb_lt. tauto. Qed.

Lemma fits_u_iff w z : fits_u w z = true <-> 0 <= z < 2 ^ w.
Proof. unfold fits_u. rewrite andb_true_iff, Z.leb_le, Z.ltb_lt. tauto. Qed.

Lemma wrap_u_range w z : 0 <= w -> fits_u w (wrap_u w z) = true.
Proof.
  intros Hw. apply fits_u_iff. unfold wrap_u.
  apply Z.mod_pos_bound. apply pow2_pos; lia.
Qed.

Lemma wrap_u_id w z : fits_u w z = true -> wrap_u w z = z.
Proof. intros H. apply fits_u_iff in H. unfold wrap_u. apply Z.mod_small. lia. Qed.

Lemma wrap_u_cong w z : 0 <= w -> exists k, wrap_u w z = z + k * 2 ^ w.
Proof.
  intros Hw. unfold wrap_u. exists (- (z / 2 ^ w)).
  pose proof (pow2_pos w Hw) as P.
  pose proof (Z.div_mod z (2 ^ w) ltac:(lia)) as D. lia.
Qed.

Lemma wrap_range s w z : 0 < w -> fits s w (wrap s w z) = true.
Proof.
  intros Hw. destruct s; cbn [fits wrap].
  - apply wrap_s_range; lia.
  - apply wrap_u_range; lia.
Qed.

Lemma wrap_id s w z : 0 < w -> fits s w z = true -> wrap s w z = z.
Proof.
  intros Hw H. destruct s; cbn [fits wrap] in *.
  - apply wrap_s_id; assumption.
  - apply wrap_u_id; assumption.
Qed.

Lemma wrap_cong s w z : 0 < w -> exists k, wrap s w z = z + k * 2 ^ w.
Proof.
  intros Hw. destruct s; cbn [wrap].
  - apply wrap_s_cong; lia.
  - apply wrap_u_cong; lia.
Qed.

(* wrap depends only on the residue modulo 2^w *)
Lemma wrap_eqm s w x y k : 0 < w -> x = y + k * 2 ^ w -> wrap s w x = wrap s w y.
Proof.
  intros Hw E. subst x. destruct s; cbn [wrap]; unfold wrap_s, wrap_u.
  - replace (y + k * 2 ^ w + 2 ^ (w - 1)) with (y + 2 ^ (w - 1) + k * 2 ^ w) by lia.
    rewrite Z_mod_plus_full. reflexivity.
  - rewrite Z_mod_plus_full. reflexivity.
Qed.

Lemma wrap_mult0 s w k : 0 < w -> wrap s w (k * 2 ^ w) = 0.
Proof.
  intros Hw. rewrite (wrap_eqm s w (k * 2 ^ w) 0 k Hw) by reflexivity.
  apply wrap_id; [assumption|].
  pose proof (pow2_pos (w - 1) ltac:(lia)). pose proof (pow2_pos w ltac:(lia)).
  destruct s; cbn [fits]; [apply fits_s_iff | apply fits_u_iff]; lia.
Qed.

Lemma wrap_wrap_mul s w x y : 0 < w -> wrap s w (wrap s w x * y) = wrap s w (x * y).
Proof.
  intros Hw. destruct (wrap_cong s w x Hw) as [k E]. rewrite E.
  apply (wrap_eqm s w _ _ (k * y) Hw). lia.
Qed.

(* every value of a sized type lies strictly between -2^w and 2^w *)
Lemma fits_bound s w a : 0 < w -> fits s w a = true -> - 2 ^ w < a < 2 ^ w.
Proof.
  intros Hw H. pose proof (pow2_split w Hw). pose proof (pow2_pos (w - 1) ltac:(lia)).
  destruct s; cbn [fits] in H; [apply fits_s_iff in H | apply fits_u_iff in H]; lia.
Qed.

Lemma fits_u_nonneg w a : fits false w a = true -> 0 <= a.
Proof. cbn [fits]. intros H. apply fits_u_iff in H. lia. Qed.

(* low bits are those of the unwrapped integer *)
Lemma wrap_testbit s w z i : 0 < w -> 0 <= i < w -> Z.testbit (wrap s w z) i = Z.testbit z i.
Proof.
  intros Hw Hi. destruct (wrap_cong s w z Hw) as [k E].
  rewrite <- (Z.mod_pow2_bits_low (wrap s w z) w i) by lia.
  rewrite <- (Z.mod_pow2_bits_low z w i) by lia.
  rewrite E, Z_mod_plus_full. reflexivity.
Qed.

(* ------------------------------------------------------------------ arithmetic *)
Lemma pow_loop_spec s w a n acc : 0 < w ->
  wrap s w (pow_loop s w a n acc) = wrap s w (acc * a ^ Z.of_nat n).
Proof.
  intros Hw. revert acc. induction n as [|n IH]; intros acc.
  - cbn [pow_loop]. change (Z.of_nat 0) with 0. rewrite Z.pow_0_r, Z.mul_1_r. reflexivity.
  - cbn [pow_loop]. rewrite IH.
    rewrite Nat2Z.inj_succ, Z.pow_succ_r by lia.
    replace (acc * (a * a ^ Z.of_nat n)) with (acc * a * a ^ Z.of_nat n) by lia.
    apply wrap_wrap_mul. assumption.
Qed.

Lemma pow_loop_fits s w a n acc : 0 < w -> fits s w acc = true ->
  fits s w (pow_loop s w a n acc) = true.
Proof.
  intros Hw. revert acc. induction n as [|n IH]; intros acc H; cbn [pow_loop].
  - assumption.
  - apply IH. apply wrap_range. assumption.
Qed.

Lemma fits_one s w : 1 < w -> fits s w 1 = true.
Proof.
  intros Hw. pose proof (pow2_le 1 (w - 1) ltac:(lia)) as L. change (2 ^ 1) with 2 in L.
  pose proof (pow2_split w ltac:(lia)).
  destruct s; cbn [fits]; [apply fits_s_iff | apply fits_u_iff]; lia.
Qed.

Lemma ipow_spec s w a b : 1 < w -> fits s w a = true ->
  ipow s w a b = wrap s w (if b <=? 0 then 1 else a ^ b).
Proof.
  intros Hw1 Ha. assert (Hw : 0 < w) by lia. unfold ipow. destruct (b <=? 0) eqn:Eb.
  - symmetry. apply wrap_id; [assumption|]. apply fits_one. assumption.
  - rewrite <- (wrap_id s w (pow_loop s w a (Z.to_nat (b - 1)) a) Hw)
      by (apply pow_loop_fits; assumption).
    rewrite pow_loop_spec by assumption.
    rewrite Z2Nat.id by lia.
    replace (a * a ^ (b - 1)) with (a ^ b); [reflexivity|].
    replace b with (Z.succ (b - 1)) at 1 by lia. rewrite Z.pow_succ_r by lia. reflexivity.
Qed.

Definition is_divmod (o : binop) : bool := match o with ODiv | OMod => true | _ => false end.

(* every operator except / and % : the wrap of the exact result *)
Lemma bin_impl_wrap o s w a b : 1 < w -> is_divmod o = false ->
  fits s w a = true ->
  bin_impl o s w a b = Ok (wrap s w (bin_exact o a b)).
Proof.
  intros Hw Ho Ha. destruct o; try discriminate Ho; cbn [bin_impl bin_exact]; try reflexivity.
  rewrite ipow_spec by assumption. reflexivity.
Qed.

Lemma un_impl_wrap o s w a : un_impl o s w a = wrap s w (un_exact o a).
Proof. destruct o; reflexivity. Qed.

Lemma arith_mod o s w a b : 1 < w -> is_divmod o = false ->
  fits s w a = true -> fits s w b = true ->
  exists r, bin_impl o s w a b = Ok r /\ fits s w r = true /\
            exists k, r = bin_exact o a b + k * 2 ^ w.
Proof.
  intros Hw Ho Ha Hb. exists (wrap s w (bin_exact o a b)). split; [|split].
  - apply bin_impl_wrap; assumption.
  - apply wrap_range; lia.
  - apply wrap_cong; lia.
Qed.

Lemma unary_mod o s w a : 0 < w ->
  fits s w (un_impl o s w a) = true /\ exists k, un_impl o s w a = un_exact o a + k * 2 ^ w.
Proof.
  intros Hw. rewrite un_impl_wrap. split; [apply wrap_range | apply wrap_cong]; assumption.
Qed.

(* ---- division *)
Lemma quot_abs_le a b : b <> 0 -> Z.abs (Z.quot a b) <= Z.abs a.
Proof.
  intros Hb. rewrite <- Z.quot_abs by assumption.
  rewrite Z.quot_div_nonneg by lia.
  apply Z.div_le_upper_bound; [lia|]. nia.
Qed.

Lemma quot_abs_half a b : 2 <= Z.abs b -> 2 * Z.abs (Z.quot a b) <= Z.abs a.
Proof.
  intros Hb. rewrite <- Z.quot_abs by lia.
  rewrite Z.quot_div_nonneg by lia.
  pose proof (Z.mul_div_le (Z.abs a) (Z.abs b) ltac:(lia)) as M.
  pose proof (Z.div_pos (Z.abs a) (Z.abs b) ltac:(lia) ltac:(lia)) as P. nia.
Qed.

Definition div_overflows (s : bool) (w a b : Z) : bool :=
  s && (a =? - 2 ^ (w - 1)) && (b =? -1).

Lemma idiv_spec s w a b : 0 < w -> fits s w a = true -> fits s w b = true -> b <> 0 ->
  idiv s w a b = Ok (if div_overflows s w a b then a else Z.quot a b) /\
  (div_overflows s w a b = false -> fits s w (Z.quot a b) = true).
Proof.
  intros Hw Ha Hb Hb0. unfold idiv. destruct (b =? 0) eqn:E0; [lia|].
  pose proof (pow2_pos (w - 1) ltac:(lia)) as P. pose proof (pow2_split w Hw) as S2.
  assert (F : div_overflows s w a b = false -> fits s w (Z.quot a b) = true).
  { unfold div_overflows. intros Hov.
    pose proof (quot_abs_le a b Hb0) as Q.
    destruct s; cbn [fits] in *.
    - apply fits_s_iff in Ha. apply fits_s_iff in Hb. apply fits_s_iff.
      destruct (Z.eq_dec b 1) as [->|N1]; [rewrite Z.quot_1_r; lia|].
      destruct (Z.eq_dec b (-1)) as [->|N2].
      + change (-1) with (- (1)). rewrite Z.quot_opp_r, Z.quot_1_r by lia.
        cbn [andb] in Hov. lia.
      + pose proof (quot_abs_half a b ltac:(lia)). lia.
    - apply fits_u_iff in Ha. apply fits_u_iff in Hb. apply fits_u_iff.
      pose proof (Z.quot_pos a b ltac:(lia) ltac:(lia)). lia. }
  split; [|exact F].
  destruct (div_overflows s w a b) eqn:Hov.
  - unfold div_overflows in Hov. destruct s; [|discriminate Hov]. cbn [andb] in Hov.
    assert (a = - 2 ^ (w - 1)) by lia. assert (b = -1) by lia. subst a b.
    f_equal. change (-1) with (- (1)). rewrite Z.quot_opp_r, Z.quot_1_r by lia.
    rewrite Z.opp_involutive. cbn [wrap]. unfold wrap_s.
    replace (2 ^ (w - 1) + 2 ^ (w - 1)) with (2 ^ w) by lia.
    rewrite Z.mod_same by lia. lia.
  - f_equal. apply wrap_id; [assumption|]. apply F. reflexivity.
Qed.

Lemma imod_spec s w a b : 0 < w -> fits s w a = true -> fits s w b = true -> b <> 0 ->
  imod s w a b = Ok (Z.rem a b) /\ fits s w (Z.rem a b) = true.
Proof.
  intros Hw Ha Hb Hb0. unfold imod. destruct (b =? 0) eqn:E0; [lia|].
  pose proof (pow2_pos (w - 1) ltac:(lia)) as P. pose proof (pow2_split w Hw) as S2.
  assert (F : fits s w (Z.rem a b) = true).
  { pose proof (Z.rem_bound_abs a b Hb0) as B.
    destruct s; cbn [fits] in *.
    - apply fits_s_iff in Ha. apply fits_s_iff in Hb. apply fits_s_iff. lia.
    - apply fits_u_iff in Ha. apply fits_u_iff in Hb. apply fits_u_iff.
      pose proof (Z.rem_nonneg a b Hb0 ltac:(lia)). lia. }
  split; [|exact F]. f_equal. apply wrap_id; assumption.
Qed.

Lemma div_zero s w a : idiv s w a 0 = Err E_ZERO_DIV /\ imod s w a 0 = Err E_ZERO_DIV.
Proof. split; reflexivity. Qed.

(* ---- bitwise *)
Lemma bitwise_bits s w a b i : 0 < w -> 0 <= i < w ->
  Z.testbit (iand s w a b) i = Z.testbit a i && Z.testbit b i /\
  Z.testbit (ior s w a b) i = Z.testbit a i || Z.testbit b i /\
  Z.testbit (ixor s w a b) i = xorb (Z.testbit a i) (Z.testbit b i) /\
  Z.testbit (iandnot s w a b) i = Z.testbit a i && negb (Z.testbit b i) /\
  Z.testbit (inot s w a) i = negb (Z.testbit a i).
Proof.
  intros Hw Hi. unfold iand, ior, ixor, iandnot, inot.
  rewrite !wrap_testbit by assumption.
  rewrite Z.land_spec, Z.lor_spec, Z.lxor_spec, Z.ldiff_spec, Z.lnot_spec by lia.
  repeat split; reflexivity.
Qed.

(* ------------------------------------------------------------------ shifts *)
Lemma go_shl_spec s w a n : 0 < w -> 0 <= n -> go_shl s w a n = wrap s w (a * 2 ^ n).
Proof.
  intros Hw Hn. unfold go_shl. destruct (n >=? w) eqn:E.
  - replace n with ((n - w) + w) at 1 by lia.
    rewrite Z.pow_add_r by lia. rewrite Z.mul_assoc. symmetry. apply wrap_mult0. assumption.
  - rewrite Z.shiftl_mul_pow2 by lia. reflexivity.
Qed.

Lemma go_shr_spec w a n : 0 < w -> 0 <= n -> - 2 ^ w < a < 2 ^ w -> go_shr w a n = a / 2 ^ n.
Proof.
  intros Hw Hn Ha. unfold go_shr. destruct (n >=? w) eqn:E.
  - pose proof (pow2_le w n ltac:(lia)) as L.
    destruct (a <? 0) eqn:Es.
    + apply (Z.div_unique a (2 ^ n) (-1) (a + 2 ^ n)); lia.
    + symmetry. apply Z.div_small. lia.
  - apply Z.shiftr_div_pow2. lia.
Qed.

Lemma logical_shr_spec s w a n : 0 < w -> 0 <= n ->
  logical_shr s w a n = wrap s w (wrap_u w a / 2 ^ n).
Proof.
  intros Hw Hn. unfold logical_shr. f_equal. apply go_shr_spec; try assumption.
  pose proof (wrap_u_range w a ltac:(lia)) as R. apply fits_u_iff in R. lia.
Qed.

(* a count c computed for the mathematical amount m is adequate when it equals m or when
   both exceed the width (all bits are shifted out either way) *)
Definition adequate (w c m : Z) : Prop := c = m \/ (w <= c /\ w <= m).

Lemma go_shl_adequate s w a c m : 0 < w -> 0 <= m -> adequate w c m ->
  go_shl s w a c = wrap s w (a * 2 ^ m).
Proof.
  intros Hw Hm [->|[H1 H2]]; [apply go_shl_spec; assumption|].
  rewrite <- go_shl_spec by assumption. unfold go_shl.
  destruct (c >=? w) eqn:E1; [|lia]. destruct (m >=? w) eqn:E2; [|lia]. reflexivity.
Qed.

Lemma go_shr_adequate w a c m : 0 < w -> 0 <= m -> - 2 ^ w < a < 2 ^ w -> adequate w c m ->
  go_shr w a c = a / 2 ^ m.
Proof.
  intros Hw Hm Ha [->|[H1 H2]]; [apply go_shr_spec; assumption|].
  rewrite <- (go_shr_spec w a m) by assumption. unfold go_shr.
  destruct (c >=? w) eqn:E1; [|lia]. destruct (m >=? w) eqn:E2; [|lia]. reflexivity.
Qed.

Lemma logical_shr_adequate s w a c m : 0 < w -> 0 <= m -> adequate w c m ->
  logical_shr s w a c = wrap s w (wrap_u w a / 2 ^ m).
Proof.
  intros Hw Hm Hc. unfold logical_shr. f_equal. apply go_shr_adequate; try assumption.
  pose proof (wrap_u_range w a ltac:(lia)) as R. apply fits_u_iff in R. lia.
Qed.

(* uint64(-r) is adequate for -r: equal, except for the minimum of the kind, where both
   are at least 64 *)
Lemma neg_count_adequate kw r w : (kw = 8 \/ kw = 16 \/ kw = 32 \/ kw = 64) -> w <= 64 ->
  fits_s kw r = true -> r < 0 -> adequate w (neg_count kw r) (- r).
Proof.
  intros Hk Hw Hr Hneg. apply fits_s_iff in Hr. unfold adequate, neg_count, wrap_u, wrap_s.
  destruct Hk as [-> | [-> | [-> | -> ]]];
    [change (2 ^ (8 - 1)) with 128 in * | change (2 ^ (16 - 1)) with 32768 in *
     | change (2 ^ (32 - 1)) with 2147483648 in * | change (2 ^ (64 - 1)) with 9223372036854775808 in *];
    [change (2 ^ 8) with 256 | change (2 ^ 16) with 65536 | change (2 ^ 32) with 4294967296 | idtac];
    change (2 ^ 64) with 18446744073709551616;
    Z.div_mod_to_equations; lia.
Qed.

Lemma same_neg_count_adequate w r : 0 < w ->
  fits_s w r = true -> r < 0 -> adequate w (same_neg_count w r) (- r).
Proof.
  intros Hw Hr Hneg. apply fits_s_iff in Hr. unfold adequate, same_neg_count.
  pose proof (pow2_pos (w - 1) ltac:(lia)) as P. pose proof (pow2_split w Hw) as S2.
  assert (Wlt : w <= 2 ^ (w - 1)).
  { pose proof (Z.pow_gt_lin_r 2 (w - 1) ltac:(lia) ltac:(lia)). lia. }
  destruct (Z.eq_dec r (- 2 ^ (w - 1))) as [->|N].
  - right. rewrite Z.opp_involutive.
    assert (E : wrap_s w (2 ^ (w - 1)) = - 2 ^ (w - 1)).
    { unfold wrap_s. replace (2 ^ (w - 1) + 2 ^ (w - 1)) with (2 ^ w) by lia.
      rewrite Z.mod_same by lia. lia. }
    rewrite E. unfold wrap_u.
    replace (- 2 ^ (w - 1)) with (2 ^ (w - 1) + (-1) * 2 ^ w) by lia.
    rewrite Z_mod_plus_full, Z.mod_small by lia. lia.
  - left. rewrite wrap_s_id by (try apply fits_s_iff; lia).
    apply wrap_u_id. apply fits_u_iff. lia.
Qed.

Definition kind_signed_width (k : rkind) : option Z :=
  match k with
  | KSmallInt | KInt64 => Some 64 | KInt32 => Some 32 | KInt16 => Some 16 | KInt8 => Some 8
  | _ => None
  end.

(* the generic signed arm: forward for r >= 0, reverse with an adequate count for r < 0 *)
Lemma signed_arm_spec kw r w rev fwd (P N : Z -> Z) :
  (kw = 8 \/ kw = 16 \/ kw = 32 \/ kw = 64) -> w <= 64 -> fits_s kw r = true ->
  (forall n, 0 <= n -> fwd n = Ok (P n)) ->
  (forall c m, 0 <= m -> adequate w c m -> rev c = N m) ->
  signed_arm kw r rev fwd = Ok (if 0 <=? r then P r else N (- r)).
Proof.
  intros Hk Hw Hr Hf Hv. unfold signed_arm. destruct (r <? 0) eqn:E.
  - destruct (0 <=? r) eqn:E2; [lia|]. f_equal. apply Hv; [lia|].
    apply neg_count_adequate; try assumption. lia.
  - destruct (0 <=? r) eqn:E2; [|lia]. apply Hf. lia.
Qed.

Section ShiftHelpers.
  Variables (s : bool) (w a : Z).
  Hypothesis Hw : 0 < w <= 64.
  Hypothesis Ha : fits s w a = true.

  Let Hab : - 2 ^ w < a < 2 ^ w.
  Proof. apply (fits_bound s); [lia|exact Ha]. Qed.

  Lemma fwd_shl n : 0 <= n -> go_shl_sc s w a n = Ok (wrap s w (a * 2 ^ n)).
  Proof.
    intros Hn. unfold go_shl_sc. destruct (n <? 0) eqn:E; [lia|].
    rewrite go_shl_spec by lia. reflexivity.
  Qed.

  Lemma fwd_shr n : 0 <= n -> go_shr_sc w a n = Ok (a / 2 ^ n).
  Proof.
    intros Hn. unfold go_shr_sc. destruct (n <? 0) eqn:E; [lia|].
    rewrite go_shr_spec by (try assumption; lia). reflexivity.
  Qed.

  Lemma fwd_lshr n : 0 <= n ->
    (fun n => Ok (logical_shr s w a n)) n = Ok (wrap s w (wrap_u w a / 2 ^ n)).
  Proof. intros Hn. cbn beta. rewrite logical_shr_spec by lia. reflexivity. Qed.

  Lemma rev_shr c m : 0 <= m -> adequate w c m -> go_shr w a c = a / 2 ^ m.
  Proof. intros. apply go_shr_adequate; try assumption; lia. Qed.

  Lemma rev_shl c m : 0 <= m -> adequate w c m -> go_shl s w a c = wrap s w (a * 2 ^ m).
  Proof. intros. apply go_shl_adequate; try assumption; lia. Qed.

  Lemma rev_lshr c m : 0 <= m -> adequate w c m ->
    logical_shr s w a c = wrap s w (wrap_u w a / 2 ^ m).
  Proof. intros. apply logical_shr_adequate; try assumption; lia. Qed.

  (* an amount that does not fit 64 bits is at least 2^63 in magnitude *)
  Lemma big_amount r : fits64 r = false -> (r < 0 -> 64 <= - r) /\ (0 <= r -> 64 <= r).
  Proof.
    intros H. unfold fits64, fits_s in H. change (2 ^ (64 - 1)) with 9223372036854775808 in H. lia.
  Qed.

  Lemma shl_zero_big m : w <= m -> wrap s w (a * 2 ^ m) = 0.
  Proof.
    intros Hm. rewrite <- go_shl_spec by lia. unfold go_shl.
    destruct (m >=? w) eqn:E; [reflexivity|lia].
  Qed.

  Lemma lshr_zero_big m : w <= m -> wrap s w (wrap_u w a / 2 ^ m) = 0.
  Proof.
    intros Hm. pose proof (wrap_u_range w a ltac:(lia)) as R. apply fits_u_iff in R.
    rewrite Z.div_small.
    - apply (wrap_mult0 s w 0). lia.
    - pose proof (pow2_le w m ltac:(lia)). lia.
  Qed.

  Ltac unsigned_kind Hk :=
    cbn [kind_fits] in Hk; apply fits_u_iff in Hk.

  Lemma left_bitshift_spec k r : admitted k = true -> kind_fits k r = true ->
    left_bitshift s w a k r = Ok (shift_spec Shl s w a r).
  Proof.
    intros Hadm Hk. cbn [shift_spec].
    destruct k; try discriminate Hadm; cbn [left_bitshift];
      try (apply (signed_arm_spec _ r w _ _ (fun n => wrap s w (a * 2 ^ n)) (fun m => a / 2 ^ m));
           [tauto | lia | exact Hk | exact fwd_shl | exact rev_shr]);
      try (unsigned_kind Hk; destruct (0 <=? r) eqn:E; [|lia]; rewrite go_shl_spec by lia; reflexivity).
    (* BigInt *)
    destruct (fits64 r) eqn:F.
    - apply (signed_arm_spec _ r w _ _ (fun n => wrap s w (a * 2 ^ n)) (fun m => a / 2 ^ m));
        [tauto | lia | exact F | exact fwd_shl | exact rev_shr].
    - destruct (big_amount r F) as [B1 B2]. destruct (r <? 0) eqn:E.
      + destruct (0 <=? r) eqn:E2; [lia|]. f_equal. apply rev_shr; [lia|].
        right. unfold sat_count. change (2 ^ 64 - 1) with 18446744073709551615. lia.
      + destruct (0 <=? r) eqn:E2; [|lia]. f_equal. symmetry. apply shl_zero_big. lia.
  Qed.

  Lemma right_bitshift_spec k r : admitted k = true -> kind_fits k r = true ->
    right_bitshift s w a k r = Ok (shift_spec Shr s w a r).
  Proof.
    intros Hadm Hk. cbn [shift_spec].
    destruct k; try discriminate Hadm; cbn [right_bitshift];
      try (apply (signed_arm_spec _ r w _ _ (fun n => a / 2 ^ n) (fun m => wrap s w (a * 2 ^ m)));
           [tauto | lia | exact Hk | exact fwd_shr | exact rev_shl]);
      try (unsigned_kind Hk; destruct (0 <=? r) eqn:E; [|lia];
           rewrite go_shr_spec by (try assumption; lia); reflexivity).
    destruct (fits64 r) eqn:F.
    - apply (signed_arm_spec _ r w _ _ (fun n => a / 2 ^ n) (fun m => wrap s w (a * 2 ^ m)));
        [tauto | lia | exact F | exact fwd_shr | exact rev_shl].
    - destruct (big_amount r F) as [B1 B2]. destruct (r <? 0) eqn:E.
      + destruct (0 <=? r) eqn:E2; [lia|]. f_equal. symmetry. apply shl_zero_big. lia.
      + destruct (0 <=? r) eqn:E2; [|lia]. f_equal. apply rev_shr; [lia|].
        right. unfold sat_count. change (2 ^ 64 - 1) with 18446744073709551615. lia.
  Qed.

  Lemma logical_left_bitshift_spec k r : admitted k = true -> kind_fits k r = true ->
    logical_left_bitshift s w a k r = Ok (shift_spec LShl s w a r).
  Proof.
    intros Hadm Hk. cbn [shift_spec].
    destruct k; try discriminate Hadm; cbn [logical_left_bitshift];
      try (apply (signed_arm_spec _ r w _ _ (fun n => wrap s w (a * 2 ^ n))
                                         (fun m => wrap s w (wrap_u w a / 2 ^ m)));
           [tauto | lia | exact Hk | exact fwd_shl | exact rev_lshr]);
      try (unsigned_kind Hk; destruct (0 <=? r) eqn:E; [|lia]; rewrite go_shl_spec by lia; reflexivity).
    destruct (fits64 r) eqn:F.
    - apply (signed_arm_spec _ r w _ _ (fun n => wrap s w (a * 2 ^ n))
                                      (fun m => wrap s w (wrap_u w a / 2 ^ m)));
        [tauto | lia | exact F | exact fwd_shl | exact rev_lshr].
    - destruct (big_amount r F) as [B1 B2]. f_equal. symmetry.
      destruct (0 <=? r) eqn:E2; [apply shl_zero_big | apply lshr_zero_big]; lia.
  Qed.

  Lemma logical_right_bitshift_spec k r : admitted k = true -> kind_fits k r = true ->
    logical_right_bitshift s w a k r = Ok (shift_spec LShr s w a r).
  Proof.
    intros Hadm Hk. cbn [shift_spec].
    destruct k; try discriminate Hadm; cbn [logical_right_bitshift];
      try (apply (signed_arm_spec _ r w _ _ (fun n => wrap s w (wrap_u w a / 2 ^ n))
                                         (fun m => wrap s w (a * 2 ^ m)));
           [tauto | lia | exact Hk | exact fwd_lshr | exact rev_shl]);
      try (unsigned_kind Hk; destruct (0 <=? r) eqn:E; [|lia];
           rewrite logical_shr_spec by lia; reflexivity).
    destruct (fits64 r) eqn:F.
    - apply (signed_arm_spec _ r w _ _ (fun n => wrap s w (wrap_u w a / 2 ^ n))
                                      (fun m => wrap s w (a * 2 ^ m)));
        [tauto | lia | exact F | exact fwd_lshr | exact rev_shl].
    - destruct (big_amount r F) as [B1 B2]. f_equal. symmetry.
      destruct (0 <=? r) eqn:E2; [apply lshr_zero_big | apply shl_zero_big]; lia.
  Qed.
End ShiftHelpers.

(* for unsigned values logical and arithmetic right shifts coincide *)
Lemma unsigned_logical w a m : 0 < w -> fits false w a = true -> 0 <= m ->
  wrap false w (wrap_u w a / 2 ^ m) = a / 2 ^ m.
Proof.
  intros Hw Ha Hm. cbn [fits] in Ha. rewrite (wrap_u_id w a Ha).
  apply fits_u_iff in Ha. apply wrap_id; [assumption|]. cbn [fits]. apply fits_u_iff.
  pose proof (pow2_pos m Hm) as P. split.
  - apply Z.div_pos; lia.
  - apply Z.div_lt_upper_bound; [lia|]. nia.
Qed.

Theorem shift_sem o s w a k r : 0 < w <= 64 -> fits s w a = true ->
  admitted k = true -> kind_fits k r = true ->
  shift_impl o s w a k r = Ok (shift_spec o s w a r).
Proof.
  intros Hw Ha Hadm Hk. destruct o; cbn [shift_impl].
  - apply left_bitshift_spec; assumption.
  - apply right_bitshift_spec; assumption.
  - destruct s.
    + apply logical_left_bitshift_spec; assumption.
    + rewrite left_bitshift_spec by assumption. f_equal. cbn [shift_spec].
      destruct (0 <=? r) eqn:E; [reflexivity|].
      symmetry. apply unsigned_logical; [lia | assumption | lia].
  - destruct s.
    + apply logical_right_bitshift_spec; assumption.
    + rewrite right_bitshift_spec by assumption. f_equal. cbn [shift_spec].
      destruct (0 <=? r) eqn:E; [|reflexivity].
      symmetry. apply unsigned_logical; [lia | assumption | lia].
Qed.

(* the meaning is always a value of the type *)
Lemma shift_spec_fits o s w a n : 0 < w -> fits s w a = true -> fits s w (shift_spec o s w a n) = true.
Proof.
  intros Hw Ha.
  assert (D : forall m, 0 <= m -> fits s w (a / 2 ^ m) = true).
  { intros m Hm. pose proof (pow2_pos m Hm) as P.
    pose proof (pow2_pos (w - 1) ltac:(lia)) as P1.
    destruct s; cbn [fits] in *.
    - apply fits_s_iff in Ha. apply fits_s_iff. split.
      + apply Z.div_le_lower_bound; [lia|]. nia.
      + apply Z.div_lt_upper_bound; [lia|]. nia.
    - apply fits_u_iff in Ha. apply fits_u_iff. split.
      + apply Z.div_pos; lia.
      + apply Z.div_lt_upper_bound; [lia|]. nia. }
  destruct o; cbn [shift_spec]; destruct (0 <=? n) eqn:E;
    try (apply wrap_range; assumption); apply D; lia.
Qed.

Theorem operand_total o s w a k r : 0 < w <= 64 -> fits s w a = true ->
  admitted k = true -> kind_fits k r = true ->
  exists v, shift_impl o s w a k r = Ok v /\ fits s w v = true.
Proof.
  intros Hw Ha Hadm Hk. exists (shift_spec o s w a r). split.
  - apply shift_sem; assumption.
  - apply shift_spec_fits; [lia|assumption].
Qed.

(* consequences spelled out *)
Lemma shl_out_of_width s w a n : 0 < w -> w <= n -> wrap s w (a * 2 ^ n) = 0.
Proof.
  intros Hw Hn. replace n with ((n - w) + w) by lia.
  rewrite Z.pow_add_r by lia. rewrite Z.mul_assoc. apply wrap_mult0. assumption.
Qed.

Lemma ashr_out_of_width s w a n : 0 < w -> fits s w a = true -> w <= n ->
  a / 2 ^ n = if a <? 0 then -1 else 0.
Proof.
  intros Hw Ha Hn. pose proof (fits_bound s w a Hw Ha) as B.
  rewrite <- (go_shr_spec w a n) by lia. unfold go_shr.
  destruct (n >=? w) eqn:E; [reflexivity|lia].
Qed.

(* same-type helpers used by the Go backend *)
Lemma same_shift_spec s w a r : 0 < w -> fits s w a = true -> fits s w r = true ->
  same_left s w a r = Ok (shift_spec Shl s w a r) /\
  same_right s w a r = Ok (shift_spec Shr s w a r).
Proof.
  intros Hw Ha Hr. pose proof (fits_bound s w a Hw Ha) as B.
  unfold same_left, same_right. cbn [shift_spec]. destruct s.
  - cbn [fits] in Hr. destruct (r <? 0) eqn:E.
    + destruct (0 <=? r) eqn:E2; [lia|].
      pose proof (same_neg_count_adequate w r Hw Hr ltac:(lia)) as A.
      rewrite (go_shr_adequate w a _ (- r)) by (try assumption; lia).
      rewrite (go_shl_adequate true w a _ (- r)) by (try assumption; lia). split; reflexivity.
    + destruct (0 <=? r) eqn:E2; [|lia]. unfold go_shl_sc, go_shr_sc. rewrite E.
      rewrite go_shl_spec, go_shr_spec by (try assumption; lia). split; reflexivity.
  - apply fits_u_nonneg in Hr. destruct (0 <=? r) eqn:E2; [|lia].
    rewrite go_shl_spec, go_shr_spec by (try assumption; lia). split; reflexivity.
Qed.
