(* C09 — method lookup of the reference interpreter: a send is dispatched on the runtime class
   of the receiver: the class's own method when it defines the name (an override always wins),
   otherwise whatever its superclass dispatches to.  The walk bound S (length cs) suffices for
   every well-formed class table (superclasses precede their subclasses). *)
From Elk Require Import Base.GoSem Model.C06_Int Model.C09_Backends.
From Coq Require Import ZArith List String Bool Lia.
Import ListNotations.
Open Scope nat_scope.

Definition wf_classes (cs : list cls) : Prop :=
  forall c k q, nth_error cs c = Some k -> c_parent k = Some q -> q < c.

Lemma find_meth_enough cs name : wf_classes cs ->
  forall d c, c < d -> forall d', d <= d' -> find_meth d' cs c name = find_meth d cs c name.
Proof.
  intros WF. induction d as [|d IH]; intros c Hc d' Hd; [lia|].
  destruct d' as [|d']; [lia|]. cbn [find_meth].
  destruct (nth_error cs c) as [k|] eqn:Ek; [|reflexivity].
  destruct (assoc_nat name (c_meths k)) as [m|]; [reflexivity|].
  destruct (c_parent k) as [q|] eqn:Eq; [|reflexivity].
  pose proof (WF c k q Ek Eq) as Hq. apply IH; lia.
Qed.

Lemma find_meth_step d cs c name :
  find_meth (S d) cs c name =
  match nth_error cs c with
  | None => None
  | Some k =>
    match assoc_nat name (c_meths k) with
    | Some m => Some m
    | None => match c_parent k with Some q => find_meth d cs q name | None => None end
    end
  end.
Proof. reflexivity. Qed.

Lemma dispatch_own cs c k name m :
  nth_error cs c = Some k -> assoc_nat name (c_meths k) = Some m -> dispatch cs c name = Some m.
Proof.
  intros Ek Em. unfold dispatch. cbn [find_meth]. rewrite Ek, Em. reflexivity.
Qed.

Lemma dispatch_inherited cs c k q name : wf_classes cs ->
  nth_error cs c = Some k -> assoc_nat name (c_meths k) = None -> c_parent k = Some q ->
  dispatch cs c name = dispatch cs q name.
Proof.
  intros WF Ek Em Eq. unfold dispatch. rewrite (find_meth_step _ cs c). rewrite Ek, Em, Eq.
  assert (Hc : c < List.length cs) by (apply nth_error_Some; congruence).
  pose proof (WF c k q Ek Eq) as Hq.
  symmetry. apply (find_meth_enough cs name WF (List.length cs) q); lia.
Qed.

Lemma dispatch_root_missing cs c k name :
  nth_error cs c = Some k -> assoc_nat name (c_meths k) = None -> c_parent k = None ->
  dispatch cs c name = None.
Proof.
  intros Ek Em Eq. unfold dispatch. cbn [find_meth]. rewrite Ek, Em, Eq. reflexivity.
Qed.

(* a send evaluates the receiver first and then runs exactly the method `dispatch` selects for
   the receiver's runtime class - whatever was sent before (the interpreter has no call-site
   state): one unfolding of eval *)
Lemma send_unfold n p env out r name args :
  eval (S n) p env out (ESend r name args) =
  rbind (eval n p env out r) (fun vr out0 =>
    match vr with
    | VObj c _ =>
      match dispatch (p_classes p) c name with
      | None => RStuck out0
      | Some m =>
        rbind (map_eval (fun o e1 => eval n p env o e1) args out0) (fun vs out1 =>
          if negb (Nat.eqb (List.length vs) (m_params m)) then RStuck out1 else
          rbind (map_eval (fun o e1 => eval n p [] o e1) (m_locals m) out1) (fun ls out2 =>
            rbind (exec n p (vr :: vs ++ ls) out2 (m_body m)) (fun fl out3 =>
              match fl with
              | FReturn v => ROk v out3
              | FNormal env'' => eval n p env'' out3 (m_ret m)
              end)))
      end
    | _ => RStuck out0
    end).
Proof. reflexivity. Qed.
