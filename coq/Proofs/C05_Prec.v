(* C05 — proofs for the operator core: if the printer's tables and the parser's pair
   behaviour agree (compat), every well-formed tree of any depth round-trips. *)
From Coq Require Import NArith List Bool Lia ZifyBool ZifyNat ZifyN Arith.
From Elk Require Import Model.C05_Prec.
Import ListNotations.
Open Scope N_scope.

Section Proofs.
Variable T : Tables.

Notation prec_of := (prec_of T).
Notation lth := (lth T).
Notation rth := (rth T).
Notation operand := (operand T).
Notation loop := (loop T).

(* ---- token-level view of print *)
Definition wrapt (b : bool) (ts : list tok) : list tok := if b then TL :: ts ++ [TR] else ts.

Fixpoint ptoks (e : expr) : list tok :=
  match e with
  | Atom a => [TA a]
  | Un u x => TU u :: wrapt (uparen T u x) (ptoks x)
  | Bin o l r => wrapt (lparen T o l) (ptoks l) ++ TB o :: wrapt (rparen T o r) (ptoks r)
  end.

Lemma tokens_app : forall a b, tokens (a ++ b) = tokens a ++ tokens b.
Proof.
  induction a as [|p a IH]; intros b; [reflexivity|].
  destruct p as [t|]; cbn [tokens app]; rewrite IH; reflexivity.
Qed.

Lemma tokens_wrap : forall b ps, tokens (wrap b ps) = wrapt b (tokens ps).
Proof.
  intros [] ps; cbn [wrap wrapt tokens]; [|reflexivity].
  rewrite tokens_app. reflexivity.
Qed.

Lemma tokens_sep : forall o, tokens (sep T o) = [].
Proof. intros o. unfold sep. destruct (spaced T o); reflexivity. Qed.

Lemma tokens_print : forall e, tokens (print T e) = ptoks e.
Proof.
  induction e as [a|u x IHx|o l IHl r IHr]; cbn [print ptoks].
  - reflexivity.
  - cbn [tokens]. rewrite tokens_app, tokens_wrap, IHx.
    destruct (is_un x && negb (uparen T u x)); reflexivity.
  - rewrite !tokens_app, !tokens_wrap, !tokens_sep, IHl, IHr. reflexivity.
Qed.

(* ---- unfolding equations and fuel monotonicity *)
Lemma operand_S : forall f c ts,
  operand (S f) c ts =
    match ts with
    | TA a :: r => loop f c (Atom a) r
    | TL :: r =>
        match operand f CNone r with
        | Some (e, TR :: r') => loop f c e r'
        | _ => None
        end
    | TU u :: r =>
        if unary_ok T c u then
          match operand f (CUn u) r with
          | Some (x, r') => loop f c (Un u x) r'
          | None => None
          end
        else None
    | _ => None
    end.
Proof. reflexivity. Qed.

Lemma loop_S : forall f c lhs ts,
  loop (S f) c lhs ts =
    match ts with
    | TB o :: r =>
        match decide T c o with
        | Shift =>
            match operand f (CBin o) r with
            | Some (rhs, r') => loop f c (Bin o lhs rhs) r'
            | None => None
            end
        | Reduce => Some (lhs, ts)
        | Error => None
        end
    | _ => Some (lhs, ts)
    end.
Proof. reflexivity. Qed.

Lemma mono_S : forall f,
  (forall c ts r, operand f c ts = Some r -> operand (S f) c ts = Some r) /\
  (forall c l ts r, loop f c l ts = Some r -> loop (S f) c l ts = Some r).
Proof.
  induction f as [|f [IHo IHl]]; split.
  - intros c ts r H. cbn in H. discriminate.
  - intros c l ts r H. cbn in H. discriminate.
  - intros c ts r H. rewrite operand_S in H. rewrite operand_S.
    destruct ts as [|t ts']; [discriminate|].
    destruct t as [a|u|o| |].
    + apply IHl; exact H.
    + destruct (unary_ok T c u); [|discriminate].
      destruct (operand f (CUn u) ts') as [[x r0]|] eqn:E; [|discriminate].
      rewrite (IHo _ _ _ E). apply IHl; exact H.
    + discriminate.
    + destruct (operand f CNone ts') as [[e r0]|] eqn:E; [|discriminate].
      rewrite (IHo _ _ _ E).
      destruct r0 as [|t0 r0']; [discriminate|].
      destruct t0; try discriminate. apply IHl; exact H.
    + discriminate.
  - intros c l ts r H. rewrite loop_S in H. rewrite loop_S.
    destruct ts as [|t ts']; [exact H|].
    destruct t as [a|u|o| |]; try exact H.
    destruct (decide T c o).
    + destruct (operand f (CBin o) ts') as [[rhs r0]|] eqn:E; [|discriminate].
      rewrite (IHo _ _ _ E). apply IHl; exact H.
    + exact H.
    + discriminate.
Qed.

Lemma operand_mono : forall f g c ts r, (f <= g)%nat -> operand f c ts = Some r -> operand g c ts = Some r.
Proof.
  intros f g c ts r Hle H. induction Hle as [|g Hle IH]; [exact H|].
  apply (proj1 (mono_S g)); exact IH.
Qed.

Lemma loop_mono : forall f g c l ts r, (f <= g)%nat -> loop f c l ts = Some r -> loop g c l ts = Some r.
Proof.
  intros f g c l ts r Hle H. induction Hle as [|g Hle IH]; [exact H|].
  apply (proj2 (mono_S g)); exact IH.
Qed.

(* ---- what compat gives *)
Lemma range_In : forall n o, (N.to_nat o < n)%nat -> In o (range n).
Proof.
  induction n as [|m IH]; intros o H; [lia|].
  cbn [range]. apply in_or_app.
  destruct (Nat.eq_dec (N.to_nat o) m) as [E|NE].
  - right. left. rewrite <- E. apply N2Nat.id.
  - left. apply IH. lia.
Qed.

Lemma bops_In : forall o, o < nb T -> In o (bops T).
Proof. intros o H. apply range_In. lia. Qed.
Lemma uops_In : forall u, u < nu T -> In u (uops T).
Proof. intros u H. apply range_In. lia. Qed.

Hypothesis Hcompat : compat T = true.

Lemma compat_bb : forall o1 o2, o1 < nb T -> o2 < nb T -> ok_bb T o1 o2 = true.
Proof.
  intros o1 o2 H1 H2. unfold compat in Hcompat.
  apply andb_true_iff in Hcompat as [Hb _].
  rewrite forallb_forall in Hb. specialize (Hb o1 (bops_In _ H1)).
  apply andb_true_iff in Hb as [Hbb _].
  rewrite forallb_forall in Hbb. exact (Hbb o2 (bops_In _ H2)).
Qed.

Lemma compat_bu : forall o u, o < nb T -> u < nu T -> ok_bu T o u = true.
Proof.
  intros o u H1 H2. unfold compat in Hcompat.
  apply andb_true_iff in Hcompat as [Hb _].
  rewrite forallb_forall in Hb. specialize (Hb o (bops_In _ H1)).
  apply andb_true_iff in Hb as [_ Hbu].
  rewrite forallb_forall in Hbu. exact (Hbu u (uops_In _ H2)).
Qed.

Lemma compat_ub : forall u o, u < nu T -> o < nb T -> ok_ub T u o = true.
Proof.
  intros u o H1 H2. unfold compat in Hcompat.
  apply andb_true_iff in Hcompat as [_ Hu].
  rewrite forallb_forall in Hu. specialize (Hu u (uops_In _ H1)).
  apply andb_true_iff in Hu as [Hub _].
  rewrite forallb_forall in Hub. exact (Hub o (bops_In _ H2)).
Qed.

Lemma compat_uu : forall u1 u2, u1 < nu T -> u2 < nu T -> ok_uu T u1 u2 = true.
Proof.
  intros u1 u2 H1 H2. unfold compat in Hcompat.
  apply andb_true_iff in Hcompat as [_ Hu].
  rewrite forallb_forall in Hu. specialize (Hu u1 (uops_In _ H1)).
  apply andb_true_iff in Hu as [_ Huu].
  rewrite forallb_forall in Huu. exact (Huu u2 (uops_In _ H2)).
Qed.

Lemma is_shift_eq : forall a, is_shift a = true -> a = Shift.
Proof. intros []; cbn; congruence. Qed.
Lemma is_reduce_eq : forall a, is_reduce a = true -> a = Reduce.
Proof. intros []; cbn; congruence. Qed.

Lemma bb_shift : forall o1 o2, o1 < nb T -> o2 < nb T -> rth o1 <= 2 * bprec T o2 -> pm_bb T o1 o2 = Shift.
Proof.
  intros o1 o2 H1 H2 H. pose proof (compat_bb o1 o2 H1 H2) as C. unfold ok_bb in C.
  apply andb_true_iff in C as [C _].
  destruct (C05_Prec.rth T o1 <=? 2 * bprec T o2) eqn:E; [apply is_shift_eq; exact C|lia].
Qed.

Lemma bb_reduce : forall o1 o2, o1 < nb T -> o2 < nb T -> lth o2 <= 2 * bprec T o1 -> pm_bb T o1 o2 = Reduce.
Proof.
  intros o1 o2 H1 H2 H. pose proof (compat_bb o1 o2 H1 H2) as C. unfold ok_bb in C.
  apply andb_true_iff in C as [_ C].
  destruct (C05_Prec.lth T o2 <=? 2 * bprec T o1) eqn:E; [apply is_reduce_eq; exact C|lia].
Qed.

Lemma bu_ok : forall o u, o < nb T -> u < nu T -> rth o <= 2 * uprec T u -> pm_bu T o u = true.
Proof.
  intros o u H1 H2 H. pose proof (compat_bu o u H1 H2) as C. unfold ok_bu in C.
  destruct (C05_Prec.rth T o <=? 2 * uprec T u) eqn:E; [exact C|lia].
Qed.

Lemma ub_shift : forall u o, u < nu T -> o < nb T -> uprec T u <= bprec T o -> pm_ub T u o = Shift.
Proof.
  intros u o H1 H2 H. pose proof (compat_ub u o H1 H2) as C. unfold ok_ub in C.
  apply andb_true_iff in C as [C _].
  destruct (uprec T u <=? bprec T o) eqn:E; [apply is_shift_eq; exact C|lia].
Qed.

Lemma ub_reduce : forall u o, u < nu T -> o < nb T -> lth o <= 2 * uprec T u -> pm_ub T u o = Reduce.
Proof.
  intros u o H1 H2 H. pose proof (compat_ub u o H1 H2) as C. unfold ok_ub in C.
  apply andb_true_iff in C as [_ C].
  destruct (C05_Prec.lth T o <=? 2 * uprec T u) eqn:E; [apply is_reduce_eq; exact C|lia].
Qed.

Lemma uu_ok : forall u1 u2, u1 < nu T -> u2 < nu T -> uprec T u1 <= uprec T u2 -> pm_uu T u1 u2 = true.
Proof.
  intros u1 u2 H1 H2 H. pose proof (compat_uu u1 u2 H1 H2) as C. unfold ok_uu in C.
  destruct (uprec T u1 <=? uprec T u2) eqn:E; [exact C|lia].
Qed.

(* ---- invariants of the main induction *)
Definition ctx_th (c : ctx) : N :=
  match c with CNone => 0 | CBin o => rth o | CUn u => 2 * uprec T u end.
Definition ctx_wf (c : ctx) : Prop :=
  match c with CNone => True | CBin o => o < nb T | CUn u => u < nu T end.
Definition stop_ok (q : N) (rest : list tok) : Prop :=
  match rest with TB o' :: _ => o' < nb T /\ lth o' <= 2 * q | _ => True end.

Lemma stop_ok_mono : forall q q' rest, q <= q' -> stop_ok q rest -> stop_ok q' rest.
Proof.
  intros q q' rest Hq H. destruct rest as [|t rest']; [exact I|].
  destruct t; try exact I. cbn [stop_ok] in *. destruct H as [H1 H2]. split; [exact H1|lia].
Qed.

Lemma lth_ge : forall o, 2 * bprec T o <= lth o.
Proof. intros o. unfold C05_Prec.lth. destruct (brule T o); lia. Qed.
Lemma rth_ge : forall o, 2 * bprec T o <= rth o.
Proof. intros o. unfold C05_Prec.rth. destruct (brule T o); lia. Qed.

Lemma decide_shift : forall c o, ctx_wf c -> o < nb T -> ctx_th c <= 2 * bprec T o -> decide T c o = Shift.
Proof.
  intros c o Hc Ho H. destruct c as [|o1|u]; cbn [ctx_th ctx_wf decide] in *.
  - reflexivity.
  - apply bb_shift; assumption.
  - apply ub_shift; try assumption. lia.
Qed.

Lemma unary_ok_true : forall c u, ctx_wf c -> u < nu T -> ctx_th c <= 2 * uprec T u -> unary_ok T c u = true.
Proof.
  intros c u Hc Hu H. destruct c as [|o1|u1]; cbn [ctx_th ctx_wf unary_ok] in *.
  - reflexivity.
  - apply bu_ok; assumption.
  - apply uu_ok; try assumption. lia.
Qed.

Lemma loop_stop_bin : forall o rest f x, o < nb T -> stop_ok (bprec T o) rest ->
  loop (S f) (CBin o) x rest = Some (x, rest).
Proof.
  intros o rest f x Ho H. rewrite loop_S.
  destruct rest as [|t rest']; [reflexivity|].
  destruct t as [a|u|o'| |]; try reflexivity.
  cbn [stop_ok] in H. destruct H as [H1 H2]. cbn [decide].
  rewrite (bb_reduce o o' Ho H1 H2). reflexivity.
Qed.

Lemma loop_stop_un : forall u rest f x, u < nu T -> stop_ok (uprec T u) rest ->
  loop (S f) (CUn u) x rest = Some (x, rest).
Proof.
  intros u rest f x Hu H. rewrite loop_S.
  destruct rest as [|t rest']; [reflexivity|].
  destruct t as [a|u'|o'| |]; try reflexivity.
  cbn [stop_ok] in H. destruct H as [H1 H2]. cbn [decide].
  rewrite (ub_reduce u o' Hu H1 H2). reflexivity.
Qed.

Fixpoint cost (e : expr) : nat :=
  match e with
  | Atom _ => 1
  | Un _ x => cost x + 4
  | Bin _ l r => cost l + cost r + 6
  end.

Definition goal_for (x : expr) : Prop :=
  forall c rest f res,
    ctx_wf c -> ctx_th c <= 2 * prec_of x -> stop_ok (prec_of x) rest ->
    loop f c x rest = Some res ->
    forall g, (cost x + f <= g)%nat -> operand g c (ptoks x ++ rest) = Some res.

(* a child printed bare or in parentheses *)
Lemma child : forall x, goal_for x ->
  forall b c rest f res,
    ctx_wf c ->
    (b = false -> ctx_th c <= 2 * prec_of x /\ stop_ok (prec_of x) rest) ->
    loop f c x rest = Some res ->
    forall g, (cost x + f + 2 <= g)%nat -> operand g c (wrapt b (ptoks x) ++ rest) = Some res.
Proof.
  intros x IH b c rest f res Hc Hb Hl g Hg. destruct b; cbn [wrapt].
  - destruct g as [|g']; [lia|].
    cbn [app]. rewrite <- app_assoc. cbn [app]. rewrite operand_S.
    assert (E : operand g' CNone (ptoks x ++ TR :: rest) = Some (x, TR :: rest)).
    { apply (IH CNone (TR :: rest) 1%nat (x, TR :: rest)).
      - exact I.
      - cbn [ctx_th]. lia.
      - exact I.
      - reflexivity.
      - lia. }
    rewrite E. apply (loop_mono f g'); [lia|exact Hl].
  - destruct (Hb eq_refl) as [H1 H2].
    apply (IH c rest f res Hc H1 H2 Hl). lia.
Qed.

Lemma operand_print : forall e, wf T e = true -> goal_for e.
Proof.
  induction e as [a|u x IHx|o l IHl r IHr]; intros Hwf; unfold goal_for;
    intros c rest f res Hc Hth Hstop Hloop g Hg.
  - (* atom *)
    cbn [ptoks app cost] in *. destruct g as [|g']; [lia|].
    rewrite operand_S. apply (loop_mono f g'); [lia|exact Hloop].
  - (* unary *)
    cbn [wf] in Hwf. apply andb_true_iff in Hwf as [Hu Hwx]. apply N.ltb_lt in Hu.
    cbn [C05_Prec.prec_of] in Hth, Hstop.
    cbn [ptoks app cost] in *. destruct g as [|g']; [lia|].
    rewrite operand_S. rewrite (unary_ok_true c u Hc Hu Hth).
    assert (E : operand g' (CUn u) (wrapt (uparen T u x) (ptoks x) ++ rest) = Some (x, rest)).
    { apply (child x (IHx Hwx) (uparen T u x) (CUn u) rest 1%nat (x, rest)).
      - exact Hu.
      - intros Hb. unfold uparen in Hb. apply N.ltb_ge in Hb. split.
        + cbn [ctx_th]. lia.
        + apply (stop_ok_mono (uprec T u)); [exact Hb|exact Hstop].
      - apply loop_stop_un; assumption.
      - lia. }
    rewrite E. apply (loop_mono f g'); [lia|exact Hloop].
  - (* binary *)
    cbn [wf] in Hwf. apply andb_true_iff in Hwf as [Hwf Hwr].
    apply andb_true_iff in Hwf as [Ho Hwl]. apply N.ltb_lt in Ho.
    cbn [C05_Prec.prec_of] in Hth, Hstop.
    cbn [ptoks cost] in *. rewrite <- app_assoc. cbn [app].
    apply (child l (IHl Hwl) (lparen T o l) c
             (TB o :: wrapt (rparen T o r) (ptoks r) ++ rest) (cost r + 4 + f)%nat res).
    + exact Hc.
    + intros Hb. unfold lparen in Hb. apply N.ltb_ge in Hb.
      pose proof (lth_ge o) as Hl. split.
      * lia.
      * cbn [stop_ok]. split; [exact Ho|exact Hb].
    + replace (cost r + 4 + f)%nat with (S (cost r + 3 + f)) by lia.
      rewrite loop_S. rewrite (decide_shift c o Hc Ho Hth).
      assert (E : operand (cost r + 3 + f) (CBin o) (wrapt (rparen T o r) (ptoks r) ++ rest) = Some (r, rest)).
      { apply (child r (IHr Hwr) (rparen T o r) (CBin o) rest 1%nat (r, rest)).
        - exact Ho.
        - intros Hb. unfold rparen in Hb. apply N.ltb_ge in Hb.
          pose proof (rth_ge o) as Hr. split.
          + cbn [ctx_th]. exact Hb.
          + apply (stop_ok_mono (bprec T o)); [lia|exact Hstop].
        - apply loop_stop_bin; assumption.
        - lia. }
      rewrite E. apply (loop_mono f); [lia|exact Hloop].
    + lia.
Qed.

Lemma wrapt_length : forall b ts, (length ts <= length (wrapt b ts))%nat.
Proof. intros [] ts; cbn [wrapt length]; [rewrite app_length; cbn; lia|lia]. Qed.

Lemma cost_length : forall e, (cost e + 2 <= 4 * length (ptoks e))%nat.
Proof.
  induction e as [a|u x IHx|o l IHl r IHr]; cbn [cost ptoks length].
  - lia.
  - pose proof (wrapt_length (uparen T u x) (ptoks x)). lia.
  - rewrite app_length. cbn [length].
    pose proof (wrapt_length (lparen T o l) (ptoks l)).
    pose proof (wrapt_length (rparen T o r) (ptoks r)). lia.
Qed.

Theorem roundtrip : forall e, wf T e = true -> parse T (tokens (print T e)) = Some e.
Proof.
  intros e Hwf. rewrite tokens_print. unfold parse.
  pose proof (operand_print e Hwf) as G. unfold goal_for in G.
  specialize (G CNone [] 1%nat (e, []) I).
  rewrite app_nil_r in G. rewrite G.
  - reflexivity.
  - cbn [ctx_th]. lia.
  - exact I.
  - reflexivity.
  - pose proof (cost_length e). lia.
Qed.

End Proofs.
