From Elk Require Import Base.GoSem Model.C22_Civil.
From Coq Require Import ZArith List Lia ZifyBool. Import ListNotations. Open Scope Z_scope.

Lemma dby_decomp a b c e : 0 <= b <= 3 -> 0 <= c <= 24 -> 0 <= e <= 3 ->
  days_before_year (400 * a + 100 * b + 4 * c + e) = 146097 * a + 36524 * b + 1461 * c + 365 * e.
Proof.
  intros Hb Hc He. unfold days_before_year.
  assert (H4 : (400 * a + 100 * b + 4 * c + e) / 4 = 100 * a + 25 * b + c).
  { symmetry. apply Z.div_unique with (r := e); lia. }
  assert (H100 : (400 * a + 100 * b + 4 * c + e) / 100 = 4 * a + b).
  { symmetry. apply Z.div_unique with (r := 4 * c + e); lia. }
  assert (H400 : (400 * a + 100 * b + 4 * c + e) / 400 = a).
  { symmetry. apply Z.div_unique with (r := 100 * b + 4 * c + e); lia. }
  rewrite H4, H100, H400. lia.
Qed.

Lemma leap_decomp a b c e : 0 <= b <= 3 -> 0 <= c <= 24 -> 0 <= e <= 3 ->
  is_leap (400 * a + 100 * b + 4 * c + e + 1) = true <-> (e = 3 /\ (c < 24 \/ b = 3)).
Proof.
  intros Hb Hc He. unfold is_leap.
  set (Y := 400 * a + 100 * b + 4 * c + e + 1).
  assert (M4 : Y mod 4 = (e + 1) mod 4).
  { unfold Y. replace (400 * a + 100 * b + 4 * c + e + 1) with ((e + 1) + (100 * a + 25 * b + c) * 4) by lia.
    apply Z.mod_add. lia. }
  assert (M100 : Y mod 100 = (4 * c + e + 1) mod 100).
  { unfold Y. replace (400 * a + 100 * b + 4 * c + e + 1) with ((4 * c + e + 1) + (4 * a + b) * 100) by lia.
    apply Z.mod_add. lia. }
  assert (M400 : Y mod 400 = (100 * b + 4 * c + e + 1) mod 400).
  { unfold Y. replace (400 * a + 100 * b + 4 * c + e + 1) with ((100 * b + 4 * c + e + 1) + a * 400) by lia.
    apply Z.mod_add. lia. }
  rewrite M4, M100, M400.
  assert (E4 : (e + 1) mod 4 = if e =? 3 then 0 else e + 1).
  { destruct (e =? 3) eqn:E. - assert (e = 3) by lia. subst. reflexivity. - apply Z.mod_small. lia. }
  assert (E100 : (4 * c + e + 1) mod 100 = if (c =? 24) && (e =? 3) then 0 else 4 * c + e + 1).
  { destruct ((c =? 24) && (e =? 3)) eqn:E. - assert (c = 24 /\ e = 3) as [-> ->] by lia. reflexivity. - apply Z.mod_small. lia. }
  assert (E400 : (100 * b + 4 * c + e + 1) mod 400 = if (b =? 3) && (c =? 24) && (e =? 3) then 0 else 100 * b + 4 * c + e + 1).
  { destruct ((b =? 3) && (c =? 24) && (e =? 3)) eqn:E. - assert (b = 3 /\ c = 24 /\ e = 3) as (-> & -> & ->) by lia. reflexivity. - apply Z.mod_small. lia. }
  rewrite E4, E100, E400.
  destruct (e =? 3) eqn:Ee; destruct (c =? 24) eqn:Ec; destruct (b =? 3) eqn:Eb; cbn [andb negb orb]; lia.
Qed.

Definition tail (yp doy : Z) : Z * Z * Z :=
  let mp := (5 * doy + 2) / 153 in
  let d := doy - days_before_mp mp + 1 in
  let m := if mp <? 10 then mp + 3 else mp - 9 in
  ((if m <=? 2 then yp + 1 else yp), m, d).

(* structure of civil_from_days *)
Lemma cfd_struct z : exists a b c e doy,
  z + EPOCH_SHIFT = 146097 * a + 36524 * b + 1461 * c + 365 * e + doy /\
  0 <= b <= 3 /\ 0 <= c <= 24 /\ 0 <= e <= 3 /\ 0 <= doy <= 365 /\
  (doy = 365 -> e = 3 /\ (c < 24 \/ b = 3)) /\
  civil_from_days z = tail (400 * a + 100 * b + 4 * c + e) doy.
Proof.
  unfold civil_from_days, D400, D100, D4. cbv zeta.
  set (n := z + EPOCH_SHIFT).
  set (a := n / 146097). set (r0 := n mod 146097).
  set (b := Z.min (r0 / 36524) 3).
  set (r1 := r0 - b * 36524).
  set (c := r1 / 1461).
  set (r2 := r1 - c * 1461).
  set (e := Z.min (r2 / 365) 3).
  set (doy := r2 - e * 365).
  exists a, b, c, e, doy.
  assert (Hn : n = 146097 * a + r0) by (unfold a, r0; apply Z.div_mod; lia).
  assert (Hr0 : 0 <= r0 < 146097) by (unfold r0; apply Z.mod_pos_bound; lia).
  assert (Hb : 0 <= b <= 3) by (unfold b; pose proof (Z.div_pos r0 36524); lia).
  assert (Hr1 : 0 <= r1 <= 36524 /\ (b < 3 -> r1 < 36524)).
  { unfold r1, b. pose proof (Z.div_mod r0 36524 ltac:(lia)). pose proof (Z.mod_pos_bound r0 36524 ltac:(lia)).
    assert (r0 / 36524 < 5) by (apply Z.div_lt_upper_bound; lia).
    assert (0 <= r0 / 36524) by (apply Z.div_pos; lia). lia. }
  assert (Hc : 0 <= c <= 24 /\ (b < 3 -> r1 - c * 1461 < 1460 \/ c < 24)).
  { unfold c. pose proof (Z.div_mod r1 1461 ltac:(lia)). pose proof (Z.mod_pos_bound r1 1461 ltac:(lia)).
    assert (0 <= r1 / 1461) by (apply Z.div_pos; lia).
    assert (r1 / 1461 < 25) by (apply Z.div_lt_upper_bound; lia).
    split; [lia|]. intros Hb3. destruct Hr1 as [Hr1a Hr1b]. specialize (Hr1b Hb3). destruct (Z.eq_dec (r1 / 1461) 24) as [E|E]; [left|right]; lia. }
  assert (Hr2 : 0 <= r2 <= 1460).
  { unfold r2, c. pose proof (Z.div_mod r1 1461 ltac:(lia)). pose proof (Z.mod_pos_bound r1 1461 ltac:(lia)). lia. }
  assert (He : 0 <= e <= 3) by (unfold e; pose proof (Z.div_pos r2 365); lia).
  assert (Hdoy : 0 <= doy <= 365 /\ (doy = 365 -> e = 3 /\ r2 = 1460)).
  { unfold doy, e. pose proof (Z.div_mod r2 365 ltac:(lia)). pose proof (Z.mod_pos_bound r2 365 ltac:(lia)).
    assert (0 <= r2 / 365) by (apply Z.div_pos; lia).
    assert (r2 / 365 < 5) by (apply Z.div_lt_upper_bound; lia). lia. }
  fold r2 in Hc. repeat split; lia.
Qed.

Lemma mp_cases mp : 0 <= mp <= 11 ->
  mp = 0 \/ mp = 1 \/ mp = 2 \/ mp = 3 \/ mp = 4 \/ mp = 5 \/ mp = 6 \/ mp = 7 \/ mp = 8 \/ mp = 9 \/ mp = 10 \/ mp = 11.
Proof. lia. Qed.

(* the month/day part: from a day-of-March-based-year to (m, d) and back *)
Lemma tail_ok yp doy : 0 <= doy <= 365 ->
  let '(y, m, d) := tail yp doy in
  1 <= m <= 12 /\ yp_of y m = yp /\ days_before_mp (mp_of m) + (d - 1) = doy /\ 1 <= d /\
  (doy < 365 -> d <= days_in_month y m) /\ (is_leap (yp + 1) = true -> d <= days_in_month y m).
Proof.
  intros Hd. unfold tail. cbv zeta.
  set (mp := (5 * doy + 2) / 153).
  assert (Hmp : 0 <= mp <= 11).
  { unfold mp. split; [apply Z.div_pos; lia|]. assert ((5 * doy + 2) / 153 < 12) by (apply Z.div_lt_upper_bound; lia). lia. }
  assert (Hlo : 153 * mp <= 5 * doy + 2 < 153 * mp + 153).
  { unfold mp. pose proof (Z.div_mod (5 * doy + 2) 153 ltac:(lia)). pose proof (Z.mod_pos_bound (5 * doy + 2) 153 ltac:(lia)). lia. }
  clearbody mp.
  destruct (mp_cases mp Hmp) as [E|[E|[E|[E|[E|[E|[E|[E|[E|[E|[E|E]]]]]]]]]]]; subst mp;
    cbn [Z.ltb Z.leb Z.compare Z.add Z.sub Z.opp Z.pos_sub Pos.compare Pos.compare_cont Pos.add Pos.succ Pos.pred_double];
    unfold yp_of, mp_of, days_before_mp, days_in_month; cbn -[is_leap Z.add Z.sub Z.mul Z.div Z.le Z.lt];
    repeat match goal with |- context [(153 * ?k + 2) / 5] => let v := eval vm_compute in ((153 * k + 2) / 5) in change ((153 * k + 2) / 5) with v end;
    repeat split; try lia.
  all: destruct (is_leap (yp + 1)); lia.
Qed.

Theorem dfc_cfd z :
  let '(y, m, d) := civil_from_days z in days_from_civil y m d = z /\ valid_date y m d.
Proof.
  destruct (cfd_struct z) as (a & b & c & e & doy & Hz & Hb & Hc & He & Hd & H365 & ->).
  pose proof (tail_ok (400 * a + 100 * b + 4 * c + e) doy Hd) as T.
  destruct (tail (400 * a + 100 * b + 4 * c + e) doy) as [[y m] d].
  destruct T as (Hm & Hyp & Hdbm & Hd1 & Hlt & Hleap).
  split.
  - unfold days_from_civil. rewrite Hyp, dby_decomp by assumption. unfold EPOCH_SHIFT in *. lia.
  - split; [assumption|]. split; [assumption|].
    destruct (Z.eq_dec doy 365) as [E|E].
    + apply Hleap. apply leap_decomp; auto.
    + apply Hlt. lia.
Qed.

Lemma decomp_unique n a b c e doy :
  n = 146097 * a + 36524 * b + 1461 * c + 365 * e + doy ->
  0 <= b <= 3 -> 0 <= c <= 24 -> 0 <= e <= 3 -> 0 <= doy <= 365 ->
  (doy = 365 -> e = 3 /\ (c < 24 \/ b = 3)) ->
  civil_from_days (n - EPOCH_SHIFT) = tail (400 * a + 100 * b + 4 * c + e) doy.
Proof.
  intros Hn Hb Hc He Hd H365.
  unfold civil_from_days, D400, D100, D4. cbv zeta.
  replace (n - EPOCH_SHIFT + EPOCH_SHIFT) with n by lia.
  set (r0 := 36524 * b + 1461 * c + 365 * e + doy).
  assert (Hr0 : 0 <= r0 < 146097) by (unfold r0; lia).
  assert (Ha : n / 146097 = a) by (symmetry; apply Z.div_unique with (r := r0); unfold r0 in *; lia).
  assert (Hm0 : n mod 146097 = r0) by (symmetry; apply Z.mod_unique with (q := a); unfold r0 in *; lia).
  rewrite Ha, Hm0.
  set (r1 := 1461 * c + 365 * e + doy).
  assert (Hr1 : 0 <= r1 <= 36524 /\ (b < 3 -> r1 < 36524)) by (unfold r1; lia).
  assert (Hbq : Z.min (r0 / 36524) 3 = b).
  { destruct (Z.eq_dec b 3) as [E|E].
    - assert (3 <= r0 / 36524) by (apply Z.div_le_lower_bound; unfold r0; lia). lia.
    - assert (r0 / 36524 = b) by (symmetry; apply Z.div_unique with (r := r1); unfold r0, r1 in *; lia). lia. }
  rewrite Hbq.
  replace (r0 - b * 36524) with r1 by (unfold r0, r1; lia).
  set (r2 := 365 * e + doy).
  assert (Hr2 : 0 <= r2 <= 1460 /\ (e < 3 -> r2 < 365 * (e + 1))) by (unfold r2; lia).
  assert (Hcq : r1 / 1461 = c) by (symmetry; apply Z.div_unique with (r := r2); unfold r1, r2 in *; lia).
  rewrite Hcq.
  replace (r1 - c * 1461) with r2 by (unfold r1, r2; lia).
  assert (Heq : Z.min (r2 / 365) 3 = e).
  { destruct (Z.eq_dec e 3) as [E|E].
    - assert (3 <= r2 / 365) by (apply Z.div_le_lower_bound; unfold r2; lia). lia.
    - assert (r2 / 365 = e) by (symmetry; apply Z.div_unique with (r := doy); unfold r2 in *; lia). lia. }
  rewrite Heq.
  replace (r2 - e * 365) with doy by (unfold r2; lia).
  reflexivity.
Qed.

Lemma m_cases m : 1 <= m <= 12 ->
  m = 1 \/ m = 2 \/ m = 3 \/ m = 4 \/ m = 5 \/ m = 6 \/ m = 7 \/ m = 8 \/ m = 9 \/ m = 10 \/ m = 11 \/ m = 12.
Proof. lia. Qed.

Lemma triple_eq (a a' b b' c c' : Z) : a = a' -> b = b' -> c = c' -> (a, b, c) = (a', b', c').
Proof. intros -> -> ->. reflexivity. Qed.

Lemma tail_mp yp doy mp : 0 <= mp <= 11 -> 153 * mp <= 5 * doy + 2 < 153 * mp + 153 ->
  tail yp doy = ((if (if mp <? 10 then mp + 3 else mp - 9) <=? 2 then yp + 1 else yp),
                 (if mp <? 10 then mp + 3 else mp - 9), doy - days_before_mp mp + 1).
Proof.
  intros Hmp H. unfold tail. cbv zeta.
  assert (E : (5 * doy + 2) / 153 = mp) by (symmetry; apply Z.div_unique with (r := 5 * doy + 2 - 153 * mp); lia).
  rewrite E. reflexivity.
Qed.

Lemma tail_inv y m d : valid_date y m d ->
  let doy := days_before_mp (mp_of m) + (d - 1) in
  tail (yp_of y m) doy = (y, m, d) /\ 0 <= doy <= 365 /\ (doy = 365 -> is_leap (yp_of y m + 1) = true).
Proof.
  intros [Hm Hd]. cbv zeta.
  destruct (m_cases m Hm) as [E|[E|[E|[E|[E|[E|[E|[E|[E|[E|[E|E]]]]]]]]]]]; subst m;
    unfold days_in_month in Hd; cbn -[is_leap Z.le] in Hd;
    unfold mp_of, yp_of, days_before_mp; cbn -[is_leap Z.add Z.sub Z.mul Z.div Z.le Z.lt tail];
    repeat match goal with |- context [(153 * ?k + 2) / 5] => let v := eval vm_compute in ((153 * k + 2) / 5) in change ((153 * k + 2) / 5) with v end;
    (split; [|split; [|]]); try lia.
  all: try (replace (y - 1 + 1) with y by lia; destruct (is_leap y); lia).
  1: rewrite (tail_mp _ _ 10) by lia.
  2: rewrite (tail_mp _ _ 11) by (destruct (is_leap y); lia).
  3: rewrite (tail_mp _ _ 0) by lia.
  4: rewrite (tail_mp _ _ 1) by lia.
  5: rewrite (tail_mp _ _ 2) by lia.
  6: rewrite (tail_mp _ _ 3) by lia.
  7: rewrite (tail_mp _ _ 4) by lia.
  8: rewrite (tail_mp _ _ 5) by lia.
  9: rewrite (tail_mp _ _ 6) by lia.
  10: rewrite (tail_mp _ _ 7) by lia.
  11: rewrite (tail_mp _ _ 8) by lia.
  12: rewrite (tail_mp _ _ 9) by lia.
  all: apply triple_eq;
    [ first [reflexivity | (transitivity (y - 1 + 1); [reflexivity | lia])] | reflexivity | ];
    unfold days_before_mp;
    repeat match goal with |- context [(153 * ?k + 2) / 5] => let v := eval vm_compute in ((153 * k + 2) / 5) in change ((153 * k + 2) / 5) with v end;
    lia.
Qed.

Theorem cfd_dfc y m d : valid_date y m d -> civil_from_days (days_from_civil y m d) = (y, m, d).
Proof.
  intros V. destruct (tail_inv y m d V) as (T & Hdoy & Hleap).
  set (doy := days_before_mp (mp_of m) + (d - 1)) in *.
  set (yp := yp_of y m) in *.
  set (a := yp / 400). set (b := (yp mod 400) / 100). set (c := (yp mod 100) / 4). set (e := yp mod 4).
  assert (Hyp : yp = 400 * a + 100 * b + 4 * c + e /\ 0 <= b <= 3 /\ 0 <= c <= 24 /\ 0 <= e <= 3).
  { unfold a, b, c, e. clearbody yp. clear. 
    pose proof (Z.div_mod yp 400 ltac:(lia)). pose proof (Z.mod_pos_bound yp 400 ltac:(lia)).
    pose proof (Z.div_mod yp 100 ltac:(lia)). pose proof (Z.mod_pos_bound yp 100 ltac:(lia)).
    pose proof (Z.div_mod yp 4 ltac:(lia)). pose proof (Z.mod_pos_bound yp 4 ltac:(lia)).
    pose proof (Z.div_mod (yp mod 400) 100 ltac:(lia)). pose proof (Z.mod_pos_bound (yp mod 400) 100 ltac:(lia)).
    pose proof (Z.div_mod (yp mod 100) 4 ltac:(lia)). pose proof (Z.mod_pos_bound (yp mod 100) 4 ltac:(lia)).
    lia. }
  destruct Hyp as (Hyp & Hb & Hc & He). clearbody a b c e.
  assert (EQ : days_from_civil y m d = (146097 * a + 36524 * b + 1461 * c + 365 * e + doy) - EPOCH_SHIFT).
  { unfold days_from_civil. fold yp. rewrite Hyp at 1. rewrite dby_decomp by assumption. unfold doy. lia. }
  rewrite EQ.
  rewrite (decomp_unique _ a b c e doy eq_refl Hb Hc He Hdoy).
  - rewrite <- Hyp. exact T.
  - intros E. specialize (Hleap E). rewrite Hyp in Hleap. apply leap_decomp in Hleap; assumption.
Qed.

(* ------------------------------------------------------------------ bit packing *)

Lemma testbit_small b n : 0 <= b < 2 ^ n -> 0 <= n -> forall i, n <= i -> Z.testbit b i = false.
Proof.
  intros Hb Hn i Hi. apply Z.testbit_false; [lia|].
  rewrite Z.div_small; [reflexivity|]. split; [lia|].
  apply Z.lt_le_trans with (2 ^ n); [lia|]. apply Z.pow_le_mono_r; lia.
Qed.

Lemma lor_shift_add a k b : 0 <= k -> 0 <= b < 2 ^ k -> Z.lor (a * 2 ^ k) b = a * 2 ^ k + b.
Proof.
  intros Hk Hb.
  assert (L : Z.land (a * 2 ^ k) b = 0).
  { apply Z.bits_inj'. intros i Hi. rewrite Z.land_spec, Z.bits_0.
    destruct (Z.lt_ge_cases i k) as [Lt|Ge].
    - rewrite Z.mul_pow2_bits_low by lia. reflexivity.
    - rewrite (testbit_small b k Hb Hk i Ge). apply andb_false_r. }
  rewrite Z.add_nocarry_lxor by exact L. symmetry. apply Z.lxor_lor. exact L.
Qed.

(* what MakeDate followed by Year()/Month()/Day() yields, for any year *)
Lemma unpack_pack_gen y m d : 0 <= m <= 15 -> 0 <= d <= 31 ->
  unpack (pack y m d) = ((y + 2 ^ 22) mod 2 ^ 23 - 2 ^ 22, m, d).
Proof.
  intros Hm Hd. unfold pack, unpack, u32, YEAR_BIAS.
  set (Y := (y + 2 ^ 22) mod 2 ^ 23).
  assert (HY : 0 <= Y < 2 ^ 23) by (apply Z.mod_pos_bound; lia).
  assert (E1 : ((y + 2 ^ 22) mod 2 ^ 32 * 2 ^ 9) mod 2 ^ 32 = Y * 2 ^ 9).
  { unfold Y. change (2 ^ 32) with (2 ^ 23 * 2 ^ 9) at 2. rewrite Z.mul_mod_distr_r by lia.
    f_equal. change (2 ^ 32) with (2 ^ 23 * 2 ^ 9).
    rewrite Z.rem_mul_r by lia.
    rewrite Z.mul_comm, Z.mod_add by lia. apply Z.mod_mod. lia. }
  rewrite E1.
  rewrite (Z.mod_small m) by lia. rewrite (Z.mod_small (m * 2 ^ 5)) by lia. rewrite (Z.mod_small d) by lia.
  replace (Y * 2 ^ 9) with ((Y * 2 ^ 4) * 2 ^ 5) by lia.
  assert (E2 : Z.lor (Y * 2 ^ 4 * 2 ^ 5) (m * 2 ^ 5) = (Y * 2 ^ 4 + m) * 2 ^ 5).
  { rewrite <- (Z.shiftl_mul_pow2 (Y * 2 ^ 4) 5), <- (Z.shiftl_mul_pow2 m 5) by lia.
    rewrite <- Z.shiftl_lor. rewrite lor_shift_add by lia. rewrite Z.shiftl_mul_pow2 by lia. reflexivity. }
  rewrite E2.
  rewrite lor_shift_add by lia.
  set (B := (Y * 2 ^ 4 + m) * 2 ^ 5 + d).
  assert (S9 : Z.shiftr B 9 = Y).
  { rewrite Z.shiftr_div_pow2 by lia. unfold B. symmetry. apply Z.div_unique with (r := m * 2 ^ 5 + d); lia. }
  assert (S5 : Z.land (Z.shiftr B 5) 15 = m).
  { rewrite Z.shiftr_div_pow2 by lia. change 15 with (Z.ones 4). rewrite Z.land_ones by lia.
    assert (B / 2 ^ 5 = Y * 2 ^ 4 + m) by (unfold B; symmetry; apply Z.div_unique with (r := d); lia).
    rewrite H. rewrite Z.add_comm, Z.mod_add by lia. apply Z.mod_small. lia. }
  assert (S0 : Z.land B 31 = d).
  { change 31 with (Z.ones 5). rewrite Z.land_ones by lia. unfold B. rewrite Z.add_comm, Z.mod_add by lia. apply Z.mod_small. lia. }
  rewrite S9, S5, S0. reflexivity.
Qed.

Lemma unpack_pack y m d : 0 <= m <= 15 -> 0 <= d <= 31 ->
  (unpack (pack y m d) = (y, m, d) <-> - 2 ^ 22 <= y < 2 ^ 22).
Proof.
  intros Hm Hd. rewrite unpack_pack_gen by assumption.
  pose proof (Z.mod_pos_bound (y + 2 ^ 22) (2 ^ 23) ltac:(lia)) as B.
  split.
  - intros E. injection E as E. lia.
  - intros R. rewrite Z.mod_small by lia. f_equal. f_equal. lia.
Qed.

(* ------------------------------------------------------------------ Go normalisation and spans *)

Lemma dfc_day y m d k : days_from_civil y m d + k = days_from_civil y m (d + k).
Proof. unfold days_from_civil. lia. Qed.

Lemma go_date_dfc y m d : 1 <= m <= 12 ->
  go_date y m d = civil_from_days (days_from_civil y m d).
Proof.
  intros Hm. unfold go_date. cbv zeta.
  assert (E1 : (y * 12 + (m - 1)) / 12 = y) by (symmetry; apply Z.div_unique with (r := m - 1); lia).
  assert (E2 : (y * 12 + (m - 1)) mod 12 = m - 1) by (symmetry; apply Z.mod_unique with (q := y); lia).
  rewrite E1, E2. replace (m - 1 + 1) with m by lia. rewrite dfc_day. f_equal. f_equal. lia.
Qed.

Lemma go_date_valid y m d : valid_date y m d -> go_date y m d = (y, m, d).
Proof. intros V. rewrite go_date_dfc by apply V. apply cfd_dfc. exact V. Qed.

Lemma cfd_valid z : let '(y, m, d) := civil_from_days z in valid_date y m d.
Proof. pose proof (dfc_cfd z) as H. destruct (civil_from_days z) as [[y m] d]. apply H. Qed.

(* go_date in terms of a month index t = 12*year + (month-1) *)
Lemma go_date_t y m d :
  go_date y m d =
  civil_from_days (days_from_civil ((y * 12 + (m - 1)) / 12) ((y * 12 + (m - 1)) mod 12 + 1) d).
Proof. unfold go_date. cbv zeta. rewrite dfc_day. f_equal. f_equal. lia. Qed.

Lemma div4_step y : y / 4 - (y - 1) / 4 = if y mod 4 =? 0 then 1 else 0.
Proof.
  pose proof (Z.div_mod y 4 ltac:(lia)). pose proof (Z.mod_pos_bound y 4 ltac:(lia)).
  pose proof (Z.div_mod (y - 1) 4 ltac:(lia)). pose proof (Z.mod_pos_bound (y - 1) 4 ltac:(lia)).
  destruct (y mod 4 =? 0) eqn:E; lia.
Qed.
Lemma div100_step y : y / 100 - (y - 1) / 100 = if y mod 100 =? 0 then 1 else 0.
Proof.
  pose proof (Z.div_mod y 100 ltac:(lia)). pose proof (Z.mod_pos_bound y 100 ltac:(lia)).
  pose proof (Z.div_mod (y - 1) 100 ltac:(lia)). pose proof (Z.mod_pos_bound (y - 1) 100 ltac:(lia)).
  destruct (y mod 100 =? 0) eqn:E; lia.
Qed.
Lemma div400_step y : y / 400 - (y - 1) / 400 = if y mod 400 =? 0 then 1 else 0.
Proof.
  pose proof (Z.div_mod y 400 ltac:(lia)). pose proof (Z.mod_pos_bound y 400 ltac:(lia)).
  pose proof (Z.div_mod (y - 1) 400 ltac:(lia)). pose proof (Z.mod_pos_bound (y - 1) 400 ltac:(lia)).
  destruct (y mod 400 =? 0) eqn:E; lia.
Qed.

Lemma mod_4_100_400 y : (y mod 400 = 0 -> y mod 100 = 0) /\ (y mod 100 = 0 -> y mod 4 = 0).
Proof.
  pose proof (Z.div_mod y 4 ltac:(lia)). pose proof (Z.mod_pos_bound y 4 ltac:(lia)).
  pose proof (Z.div_mod y 100 ltac:(lia)). pose proof (Z.mod_pos_bound y 100 ltac:(lia)).
  pose proof (Z.div_mod y 400 ltac:(lia)). pose proof (Z.mod_pos_bound y 400 ltac:(lia)).
  lia.
Qed.

Lemma year_len y : days_before_year y - days_before_year (y - 1) = if is_leap y then 366 else 365.
Proof.
  unfold days_before_year, is_leap.
  pose proof (div4_step y). pose proof (div100_step y). pose proof (div400_step y).
  pose proof (mod_4_100_400 y) as [M1 M2].
  destruct (y mod 4 =? 0) eqn:E4; destruct (y mod 100 =? 0) eqn:E100; destruct (y mod 400 =? 0) eqn:E400;
    cbn [andb negb orb]; lia.
Qed.

Ltac closed_adds :=
  repeat match goal with
  | |- context [Z.add ?a ?b] =>
      match a with Zpos _ => idtac | Z0 => idtac end;
      match b with Zpos _ => idtac end;
      let v := eval vm_compute in (Z.add a b) in change (Z.add a b) with v
  end.

(* the first of the next month is days_in_month days after the first of this month *)
Lemma month_len t :
  days_from_civil ((t + 1) / 12) ((t + 1) mod 12 + 1) 1 =
  days_from_civil (t / 12) (t mod 12 + 1) 1 + days_in_month (t / 12) (t mod 12 + 1).
Proof.
  pose proof (Z.div_mod t 12 ltac:(lia)) as D. pose proof (Z.mod_pos_bound t 12 ltac:(lia)) as B.
  set (y := t / 12) in *. set (m0 := t mod 12) in *.
  assert (C : (m0 < 11 /\ (t + 1) / 12 = y /\ (t + 1) mod 12 = m0 + 1) \/
              (m0 = 11 /\ (t + 1) / 12 = y + 1 /\ (t + 1) mod 12 = 0)).
  { destruct (Z.eq_dec m0 11) as [E|E]; [right|left]; (split; [lia|]).
    - split; [symmetry; apply Z.div_unique with (r := 0); lia | symmetry; apply Z.mod_unique with (q := y + 1); lia].
    - split; [symmetry; apply Z.div_unique with (r := m0 + 1); lia | symmetry; apply Z.mod_unique with (q := y); lia]. }
  clearbody y m0.
  pose proof (year_len y) as YL.
  destruct C as [(Lt & -> & ->)|(-> & -> & ->)].
  - assert (Cs : m0 = 0 \/ m0 = 1 \/ m0 = 2 \/ m0 = 3 \/ m0 = 4 \/ m0 = 5 \/ m0 = 6 \/ m0 = 7 \/ m0 = 8 \/ m0 = 9 \/ m0 = 10) by lia.
    destruct Cs as [E|[E|[E|[E|[E|[E|[E|[E|[E|[E|E]]]]]]]]]]; subst m0;
      closed_adds;
      unfold days_from_civil, days_in_month, yp_of, mp_of, days_before_mp;
      cbn -[is_leap days_before_year Z.add Z.sub Z.mul Z.div];
      repeat match goal with |- context [(153 * ?k + 2) / 5] => let v := eval vm_compute in ((153 * k + 2) / 5) in change ((153 * k + 2) / 5) with v end;
      try lia.
    destruct (is_leap y); lia.
  - closed_adds. unfold days_from_civil, days_in_month, yp_of, mp_of, days_before_mp.
    cbn -[is_leap days_before_year Z.add Z.sub Z.mul Z.div].
    replace (y + 1 - 1) with y by lia.
    repeat match goal with |- context [(153 * ?k + 2) / 5] => let v := eval vm_compute in ((153 * k + 2) / 5) in change ((153 * k + 2) / 5) with v end.
    lia.
Qed.

Lemma days_in_month_pos y m : 28 <= days_in_month y m <= 31.
Proof. unfold days_in_month. destruct (m =? 2); [destruct (is_leap y); lia|]. destruct ((m =? 4) || (m =? 6) || (m =? 9) || (m =? 11)); lia. Qed.

(* the implementation's Date + span computation equals the mathematical add_spec, for every
   valid date and EVERY span (no bound on months/days) *)
Lemma add_span_ymd_spec y m d s : valid_date y m d -> add_span_ymd (y, m, d) s = add_spec (y, m, d) s.
Proof.
  intros V. destruct s as [months days]. unfold add_span_ymd, add_spec, go_add_days.
  rewrite go_date_dfc by apply V. rewrite <- dfc_day.
  replace (days_from_civil y m d + days) with (days_from_civil y m d + days) by reflexivity.
  pose proof (cfd_valid (days_from_civil y m d + days)) as V1.
  destruct (civil_from_days (days_from_civil y m d + days)) as [[y1 m1] d1].
  set (month0 := m1 + months).
  set (t := y1 * 12 + (m1 - 1) + months).
  assert (QR : month0 = 12 * Z.quot month0 12 + Z.rem month0 12) by (apply Z.quot_rem'; lia).
  assert (T1 : (y1 + Z.quot month0 12) * 12 + (Z.rem month0 12 - 1) = t) by (unfold t, month0 in *; lia).
  assert (T2 : (y1 + Z.quot month0 12) * 12 + (Z.rem month0 12 + 1 - 1) = t + 1) by lia.
  rewrite (go_date_t _ (Z.rem month0 12 + 1) 1). rewrite T2.
  rewrite month_len.
  set (Y2 := t / 12). set (M2 := t mod 12 + 1).
  assert (HM2 : 1 <= M2 <= 12) by (unfold M2; pose proof (Z.mod_pos_bound t 12 ltac:(lia)); lia).
  pose proof (days_in_month_pos Y2 M2) as DP.
  rewrite dfc_day.
  assert (VL : valid_date Y2 M2 (1 + days_in_month Y2 M2 + -1)) by (split; [exact HM2|lia]).
  pose proof (cfd_dfc _ _ _ VL) as CL.
  (* go_add_days of the (valid) first of next month by -1 *)
  pose proof (cfd_valid (days_from_civil Y2 M2 (1 + days_in_month Y2 M2))) as VN.
  destruct (civil_from_days (days_from_civil Y2 M2 (1 + days_in_month Y2 M2))) as [[y3 m3] d3] eqn:EN.
  rewrite go_date_dfc by apply VN.
  assert (EN' : days_from_civil y3 m3 d3 = days_from_civil Y2 M2 (1 + days_in_month Y2 M2)).
  { pose proof (dfc_cfd (days_from_civil Y2 M2 (1 + days_in_month Y2 M2))) as H. rewrite EN in H. apply H. }
  rewrite <- dfc_day. rewrite EN'. rewrite dfc_day. rewrite CL.
  rewrite go_date_t. rewrite T1. fold Y2 M2.
  replace (1 + days_in_month Y2 M2 + -1) with (days_in_month Y2 M2) by lia.
  apply cfd_dfc. split; [exact HM2|]. destruct V1 as [_ V1]. lia.
Qed.

Lemma valid_fields y m d : valid_date y m d -> 0 <= m <= 15 /\ 0 <= d <= 31.
Proof. intros [Hm Hd]. pose proof (days_in_month_pos y m). lia. Qed.

Lemma year_in_range_iff y : year_in_range y = true <-> - 2 ^ 22 <= y < 2 ^ 22.
Proof. unfold year_in_range, MIN_YEAR, MAX_YEAR. lia. Qed.

Lemma to_civil_pack y m d : valid_date y m d -> year_in_range y = true -> to_civil (pack y m d) = (y, m, d).
Proof.
  intros V R. unfold to_civil. destruct (valid_fields _ _ _ V) as [Hm Hd].
  assert (E : unpack (pack y m d) = (y, m, d)) by (apply unpack_pack; [assumption..|apply year_in_range_iff; exact R]).
  rewrite E. apply go_date_valid. exact V.
Qed.

Lemma add_spec_valid y m d s : let '(y2, m2, d2) := add_spec (y, m, d) s in valid_date y2 m2 d2.
Proof.
  destruct s as [months days]. unfold add_spec.
  pose proof (cfd_valid (days_from_civil y m d + days)) as V1.
  destruct (civil_from_days (days_from_civil y m d + days)) as [[y1 m1] d1].
  set (t := y1 * 12 + (m1 - 1) + months).
  pose proof (Z.mod_pos_bound t 12 ltac:(lia)).
  pose proof (days_in_month_pos (t / 12) (t mod 12 + 1)).
  destruct V1 as [_ V1]. split; lia.
Qed.

(* Date + span: whenever the exact result's year is representable, the implementation
   returns exactly the civil result *)
Theorem add_exact y m d s :
  valid_date y m d -> year_in_range y = true ->
  let '(y2, m2, d2) := add_spec (y, m, d) s in
  year_in_range y2 = true -> unpack (add_span (pack y m d) s) = (y2, m2, d2).
Proof.
  intros V R. pose proof (add_spec_valid y m d s) as V2.
  unfold add_span. rewrite to_civil_pack by assumption. rewrite add_span_ymd_spec by assumption.
  destruct (add_spec (y, m, d) s) as [[y2 m2] d2]. intros R2.
  destruct (valid_fields _ _ _ V2). apply unpack_pack; [assumption..|apply year_in_range_iff; exact R2].
Qed.

(* ... and outside the range the stored year is the exact year wrapped into 23 bits: no error *)
Theorem add_wraps y m d s :
  valid_date y m d -> year_in_range y = true ->
  let '(y2, m2, d2) := add_spec (y, m, d) s in
  unpack (add_span (pack y m d) s) = ((y2 + 2 ^ 22) mod 2 ^ 23 - 2 ^ 22, m2, d2).
Proof.
  intros V R. pose proof (add_spec_valid y m d s) as V2.
  unfold add_span. rewrite to_civil_pack by assumption. rewrite add_span_ymd_spec by assumption.
  destruct (add_spec (y, m, d) s) as [[y2 m2] d2].
  destruct (valid_fields _ _ _ V2). apply unpack_pack_gen; assumption.
Qed.

Lemma wrap32_id z : - 2 ^ 31 <= z < 2 ^ 31 -> wrap32 z = z.
Proof. intros H. unfold wrap32. apply wrap_s_id; [lia|]. unfold fits_s. change (2 ^ (32 - 1)) with (2 ^ 31). lia. Qed.

(* d1 + (d2 - d1) = d2 holds exactly when the day of d2 exists in the month of d1 *)
Theorem diff_add_partial y1 m1 a y2 m2 b :
  valid_date y1 m1 a -> valid_date y2 m2 b ->
  year_in_range y1 = true -> year_in_range y2 = true ->
  b <= days_in_month y1 m1 ->
  add_span (pack y1 m1 a) (diff (pack y2 m2 b) (pack y1 m1 a)) = pack y2 m2 b.
Proof.
  intros V1 V2 R1 R2 Hb.
  apply year_in_range_iff in R1 as R1'. apply year_in_range_iff in R2 as R2'.
  destruct (valid_fields _ _ _ V1) as [Hm1 Ha]. destruct (valid_fields _ _ _ V2) as [Hm2 Hb2].
  destruct V1 as [Vm1 Va]. destruct V2 as [Vm2 Vb].
  assert (D : diff (pack y2 m2 b) (pack y1 m1 a) = ((y2 * 12 + (m2 - 1)) - (y1 * 12 + (m1 - 1)), b - a)).
  { unfold diff. rewrite to_civil_pack by (try split; assumption).
    assert (E : unpack (pack y1 m1 a) = (y1, m1, a)) by (apply unpack_pack; assumption).
    rewrite E. unfold to_date_span, make_span, span_negate. cbn [fst snd].
    rewrite !(wrap32_id (_ - 1)) by lia.
    rewrite (wrap32_id (m2 - 1 + y2 * 12)), (wrap32_id (m1 - 1 + y1 * 12)) by lia.
    rewrite !(wrap32_id (- _)) by lia.
    rewrite !wrap32_id by lia. f_equal; lia. }
  rewrite D. unfold add_span. rewrite to_civil_pack by (try split; assumption).
  rewrite add_span_ymd_spec by (split; assumption).
  unfold add_spec. rewrite dfc_day. replace (a + (b - a)) with b by lia.
  rewrite cfd_dfc by (split; lia).
  replace (y1 * 12 + (m1 - 1) + (y2 * 12 + (m2 - 1) - (y1 * 12 + (m1 - 1)))) with (y2 * 12 + (m2 - 1)) by lia.
  assert (E1 : (y2 * 12 + (m2 - 1)) / 12 = y2) by (symmetry; apply Z.div_unique with (r := m2 - 1); lia).
  assert (E2 : (y2 * 12 + (m2 - 1)) mod 12 = m2 - 1) by (symmetry; apply Z.mod_unique with (q := y2); lia).
  rewrite E1, E2. replace (m2 - 1 + 1) with m2 by lia.
  rewrite Z.min_l by lia. reflexivity.
Qed.

Theorem span_rt s : - 2 ^ 31 <= fst s < 2 ^ 31 -> - 2 ^ 31 <= snd s < 2 ^ 31 ->
  span_of_parts (span_parts s) = s.
Proof.
  destruct s as [m d]. cbn [fst snd]. intros Hm Hd. unfold span_parts, span_of_parts. cbn [fst snd].
  pose proof (Z.quot_rem' m 12) as QR.
  assert (B : (0 <= m -> 0 <= Z.rem m 12 < 12) /\ (m <= 0 -> - 12 < Z.rem m 12 <= 0)).
  { split; intros.
    - apply Z.rem_bound_pos; lia.
    - pose proof (Z.rem_bound_pos (- m) 12 ltac:(lia) ltac:(lia)) as P. rewrite Z.rem_opp_l' in P. lia. }
  assert (- 2 ^ 31 <= Z.quot m 12 * 12 < 2 ^ 31 /\ - 2 ^ 31 <= Z.quot m 12 < 2 ^ 31 /\ - 2 ^ 31 <= Z.rem m 12 < 2 ^ 31) by lia.
  rewrite (wrap32_id (Z.quot m 12)) by lia. rewrite (wrap32_id (Z.quot m 12 * 12)) by lia.
  rewrite (wrap32_id (Z.rem m 12)) by lia. rewrite (wrap32_id d) by lia.
  rewrite wrap32_id by lia. f_equal. lia.
Qed.
