(* C26 — a GetName call that starts after a symbol was handed out never misses. *)
From Coq Require Import ZArith List Bool Arith Lia ZifyBool ZifyNat.
Import ListNotations.
From Elk Require Import Model.C26_SymTab Proofs.C26_SymTab.
Open Scope Z_scope.

Lemma step_frame : forall fs s t' a s',
  step fs s t' a = Some s' ->
  (forall t, t <> t' -> th s' t = th s t) /\
  exists evs, trace s' = evs ++ trace s /\
    match t_fn (th s t') with
    | None => forall e, In e evs -> exists f n i, e = EvCall t' f n i
    | Some f =>
        (th s' t' = idle \/ (t_fn (th s' t') = Some f /\ a_sym (th s' t') = a_sym (th s t'))) /\
        forall e, In e evs -> exists r, e = EvLin t' f (a_name (th s t')) (a_sym (th s t')) r \/
                                     e = EvRet t' f (a_name (th s t')) (a_sym (th s t')) r
    end.
Proof.
  intros fs s t' a s' H. unfold step in H.
  destruct (t_fn (th s t')) as [f|] eqn:Hfn.
  - destruct a; [discriminate|].
    destruct (nth_error (lookup_fn fs f) (t_pc (th s t'))) as [o|]; [|discriminate].
    assert (L : exists l, add_lin t' f (th s t') o s = l ++ trace s /\
                forall e, In e l -> exists r, e = EvLin t' f (a_name (th s t')) (a_sym (th s t')) r).
    { unfold add_lin. destruct (lin_point f o (th s t') s) as [r|].
      - exists [EvLin t' f (a_name (th s t')) (a_sym (th s t')) r]. split; [reflexivity|].
        intros e [<-|[]]. eauto.
      - exists []. split; [reflexivity|]. intros e []. }
    destruct L as (l & Hl & Hle).
    assert (Fin : forall nt' it' wr' rd' Tn pre,
      (Tn = idle \/ (t_fn Tn = Some f /\ a_sym Tn = a_sym (th s t'))) ->
      (forall e, In e pre -> exists r, e = EvRet t' f (a_name (th s t')) (a_sym (th s t')) r) ->
      Some (mkState nt' it' wr' rd' (upd_th (th s) t' Tn) (pre ++ add_lin t' f (th s t') o s)) = Some s' ->
      (forall t, t <> t' -> th s' t = th s t) /\
      exists evs, trace s' = evs ++ trace s /\
        (th s' t' = idle \/ (t_fn (th s' t') = Some f /\ a_sym (th s' t') = a_sym (th s t'))) /\
        forall e, In e evs -> exists r, e = EvLin t' f (a_name (th s t')) (a_sym (th s t')) r \/
                                     e = EvRet t' f (a_name (th s t')) (a_sym (th s t')) r).
    { intros nt' it' wr' rd' Tn pre HT Hpre E. injection E as <-. cbn [th trace]. split.
      - intros t Hne. apply upd_other. exact Hne.
      - exists (pre ++ l). rewrite Hl, app_assoc. split; [reflexivity|]. rewrite upd_same. split; [exact HT|].
        intros e He. apply in_app_or in He. destruct He as [He|He].
        + destruct (Hpre _ He) as [r ->]. eauto.
        + destruct (Hle _ He) as [r ->]. eauto. }
    assert (N : forall e, In e (@nil event) -> exists r, e = EvRet t' f (a_name (th s t')) (a_sym (th s t')) r)
      by (intros e []).
    destruct o; cbn in H.
    + destruct (wr s); [discriminate|]. destruct (rd s); [|discriminate].
      eapply (Fin _ _ _ _ _ []); [|exact N|exact H]. right. cbn. auto.
    + destruct (wr s); [discriminate|].
      eapply (Fin _ _ _ _ _ []); [|exact N|exact H]. right. cbn. auto.
    + eapply (Fin _ _ _ _ _ []); [|exact N|exact H]. right. cbn. auto.
    + eapply (Fin _ _ _ _ _ []); [|exact N|exact H]. right. cbn. auto.
    + eapply (Fin _ _ _ _ _ []); [|exact N|exact H]. right. cbn. auto.
    + eapply (Fin _ _ _ _ _ []); [|exact N|exact H]. right. cbn. auto.
    + destruct (nt s (a_name (th s t')));
        (eapply (Fin _ _ _ _ _ []); [|exact N|exact H]); right; cbn; auto.
    + eapply (Fin _ _ _ _ _ []); [|exact N|exact H]. right. cbn. auto.
    + destruct ((0 <=? a_sym (th s t')) && (a_sym (th s t') <? zlen (it s))); [|discriminate].
      eapply (Fin _ _ _ _ _ []); [|exact N|exact H]. right. cbn. auto.
    + eapply (Fin _ _ _ _ _ []); [|exact N|exact H]. right. cbn. auto.
    + eapply (Fin _ _ _ _ _ []); [|exact N|exact H]. right. cbn. auto.
    + eapply (Fin _ _ _ _ _ []); [|exact N|exact H]. right. cbn. auto.
    + eapply (Fin _ _ _ _ _ []); [|exact N|exact H]. right. cbn. auto.
    + destruct (release_all (t_defers (th s t')) t' (wr s) (rd s)) as [w' r'].
      eapply (Fin _ _ _ _ _ [EvRet t' f (a_name (th s t')) (a_sym (th s t')) (eval_ret r (th s t'))]);
        [left; reflexivity| |exact H].
      intros e [<-|[]]. eauto.
  - destruct a as [f n i|]; [|discriminate]. injection H as <-. cbn [th trace]. split.
    + intros t Hne. apply upd_other. exact Hne.
    + exists [EvCall t' f n i]. split; [reflexivity|]. intros e [<-|[]]. eauto.
Qed.

Section After.
  Variables (t : nat) (i n : Z) (base : list event).

  Definition Q (s : state) : Prop :=
    exists new, trace s = new ++ base /\
      (forall a r, In (EvRet t FGetName a i r) new -> r = RNameOk n true) /\
      0 <= i /\ nth_error (it s) (Z.to_nat i) = Some n /\
      (t_fn (th s t) = Some FGetName -> a_sym (th s t) = i -> t_pc (th s t) <> 4%nat).

  Lemma step_Q : forall s t' a s',
    ginv s -> Q s -> step ref_functions s t' a = Some s' -> Q s'.
  Proof.
    intros s t' a s' G (new & Htr & Hnew & Hi & Hnth & Hpc) Hstep.
    destruct (step_ginv _ _ _ _ G Hstep) as [_ (_ & E2 & _)].
    destruct (step_frame _ _ _ _ _ Hstep) as (Hoth & evs & Hevs & Hcase).
    assert (Hnth' : nth_error (it s') (Z.to_nat i) = Some n) by (apply E2; exact Hnth).
    destruct (Nat.eq_dec t' t) as [->|Hne].
    2:{ exists (evs ++ new). rewrite Hevs, Htr, app_assoc. split; [reflexivity|].
        split; [|split; [exact Hi|split; [exact Hnth'|rewrite (Hoth t) by congruence; exact Hpc]]].
        intros a0 r He. apply in_app_or in He. destruct He as [He|He]; [|eauto].
        exfalso. destruct (t_fn (th s t')) as [f|].
        - destruct Hcase as [_ Hc]. destruct (Hc _ He) as [r0 [X|X]]; inversion X; congruence.
        - destruct (Hcase _ He) as (f & n0 & i0 & X). discriminate. }
    assert (Easy : (forall a0 r, In (EvRet t FGetName a0 i r) evs -> r = RNameOk n true) ->
                   (t_fn (th s' t) = Some FGetName -> a_sym (th s' t) = i -> t_pc (th s' t) <> 4%nat) ->
                   Q s').
    { intros A B. exists (evs ++ new). rewrite Hevs, Htr, app_assoc. split; [reflexivity|].
      split; [|auto]. intros a0 r He. apply in_app_or in He. destruct He; eauto. }
    destruct (t_fn (th s t)) as [f|] eqn:Hfn.
    2:{ (* Start *)
        apply Easy.
        - intros a0 r He. destruct (Hcase _ He) as (f & n0 & i0 & X). discriminate.
        - unfold step in Hstep. rewrite Hfn in Hstep. destruct a as [f n0 i0|]; [|discriminate].
          injection Hstep as <-. cbn [th]. rewrite upd_same. cbn. discriminate. }
    destruct Hcase as [Hth Hev].
    destruct (fname_eqb f FGetName) eqn:Ef.
    2:{ apply Easy.
        - intros a0 r He. destruct (Hev _ He) as [r0 [X|X]]; inversion X; subst; discriminate.
        - destruct Hth as [->|[X _]]; [discriminate|]. rewrite X. intros Y. inversion Y. subst. discriminate. }
    destruct f; try discriminate. clear Ef.
    destruct (Z.eq_dec (a_sym (th s t)) i) as [Hai|Hai].
    2:{ apply Easy.
        - intros a0 r He. destruct (Hev _ He) as [r0 [X|X]]; inversion X; congruence.
        - destruct Hth as [->|[_ X]]; [discriminate|]. congruence. }
    (* the interesting thread: inside GetName i *)
    destruct G as [Hwr Hrd Hex Htab Hpend Hthr Hlog].
    pose proof (Hthr t) as Ht. specialize (Hpc eq_refl Hai).
    clear Hth Hev Easy Hevs evs Hoth. unfold Q.
    unfold step in Hstep. rewrite Hfn in Hstep. destruct a; [discriminate|].
    remember (th s t) as T eqn:HeqT.
    destruct T as [fn pc an asy lv lo ll ls ln df]. cbn in Hfn, Hai, Hpc, Ht, Hstep. subst asy.
    inversion Hfn; subst fn. cbn in Ht.
    assert (Hlt : (Z.to_nat i < length (it s))%nat) by (eapply nth_error_lt; eauto).
    destruct pc as [|[|[|[|[|[|[|pc]]]]]]]; try tauto; cbn in Hstep.
    - destruct (wr s); [discriminate|]. injection Hstep as <-. cbn [trace th it].
      exists new. rewrite upd_same. cbn. repeat split; auto; try discriminate.
    - injection Hstep as <-. cbn [trace th it].
      exists new. rewrite upd_same. cbn. repeat split; auto; try discriminate.
    - unfold add_lin, lin_point in Hstep. cbn in Hstep.
      replace ((i >=? zlen (it s)) || (i <? 0)) with false in Hstep by (unfold zlen; lia).
      injection Hstep as <-. cbn [trace th it].
      exists new. rewrite upd_same. cbn. repeat split; auto; try discriminate.
    - destruct Ht as [_ Hl]. subst ll.
      replace ((i >=? zlen (it s)) || (i <? 0)) with false in Hstep by (unfold zlen; lia).
      injection Hstep as <-. cbn [trace th it].
      exists new. rewrite upd_same. cbn. repeat split; auto; try discriminate.
    - replace ((0 <=? i) && (i <? zlen (it s))) with true in Hstep by (unfold zlen; lia).
      unfold add_lin, lin_point in Hstep. cbn in Hstep.
      injection Hstep as <-. cbn [trace th it].
      exists (EvLin t FGetName an i (RNameOk (nth (Z.to_nat i) (it s) 0) true) :: new).
      rewrite upd_same. cbn. repeat split; auto; try discriminate.
      + rewrite Htr. reflexivity.
      + intros a0 r [X|X]; [discriminate|eauto].
    - destruct Ht as (-> & _ & Hn). cbn in Hstep. injection Hstep as <-. cbn [trace th it].
      exists (EvRet t FGetName an i (RNameOk ln true) :: new). rewrite upd_same. cbn.
      repeat split; auto; try discriminate.
      + rewrite Htr. reflexivity.
      + intros a0 r [X|X]; [|eauto]. inversion X. subst. f_equal.
        apply nth_error_nth0. exact Hnth.
  Qed.
End After.

Lemma run_Q : forall t i n base sched s,
  ginv s -> Q t i n base s -> Q t i n base (run_sched ref_functions sched s).
Proof.
  intros t i n base. induction sched as [|[t' a] r IH]; intros s G HQ; cbn; [exact HQ|].
  unfold step' at 2. cbn [fst snd].
  destruct (step ref_functions s t' a) as [s'|] eqn:E.
  - apply IH; [eapply step_ginv; eauto|eapply step_Q; eauto].
  - apply IH; assumption.
Qed.

Section AfterC.
  Variable fs : list (fname * list op).
  Hypothesis fs_ok : funs_eqb fs ref_functions = true.

  Lemma getname_of_add : forall sched1 sched2 t t1 n a1 i,
    let s1 := run_sched fs sched1 init in
    let s2 := run_sched fs (sched1 ++ sched2) init in
    In (EvRet t1 FAdd n a1 (RSym i)) (trace s1) -> t_fn (th s1 t) = None ->
    exists new, trace s2 = new ++ trace s1 /\
      forall a r, In (EvRet t FGetName a i r) new -> r = RNameOk n true.
  Proof.
    intros sched1 sched2 t t1 n a1 i s1 s2 Hin Hidle. subst s1 s2.
    rewrite (funs_eqb_eq _ _ fs_ok) in *.
    unfold run_sched at 1. rewrite fold_left_app. fold (run_sched ref_functions sched1 init).
    fold (run_sched ref_functions sched2 (run_sched ref_functions sched1 init)).
    set (s1 := run_sched ref_functions sched1 init) in *.
    pose proof (reach_ginv sched1) as G. fold s1 in G.
    assert (HQ : Q t i n (trace s1) s1).
    { exists []. split; [reflexivity|]. split; [intros a r []|].
      destruct G as [_ _ _ _ _ _ Hlog].
      pose proof (Hlog _ Hin) as X. cbn in X. destruct X as (_ & X1 & X2).
      repeat split; auto. rewrite Hidle. discriminate. }
    destruct (run_Q t i n (trace s1) sched2 s1 G HQ) as (new & Htr & Hnew & _).
    exists new. split; [exact Htr|exact Hnew].
  Qed.
End AfterC.
