(* C19 — proofs: decimal printing of an Int and the Int-literal reader are inverse. *)
From Coq Require Import ZArith List Bool Lia ZifyBool ZifyNat.
From Elk Require Import Base.Utf8 Proofs.Utf8_Encode Model.C19_Inspect Proofs.C19_Inspect.
Import ListNotations.
Open Scope Z_scope.

Definition is_dec (c : Z) : Prop := 48 <= c <= 57.

Lemma hex_val_dec c : is_dec c -> hex_val c = Some (c - 48).
Proof.
  unfold is_dec, hex_val, in_rng. intros H.
  assert (X : ((48 <=? c) && (c <=? 57)) = true) by lia. rewrite X. reflexivity.
Qed.

Lemma to_lower_dec c : is_dec c -> to_lower c = c.
Proof.
  unfold is_dec, to_lower. intros H.
  assert (E : c = 48 \/ c = 49 \/ c = 50 \/ c = 51 \/ c = 52 \/ c = 53 \/ c = 54 \/ c = 55 \/ c = 56 \/ c = 57) by lia.
  repeat (destruct E as [E|E]; [subst c; reflexivity|]). subst c. reflexivity.
Qed.

(* peek of a string of decimal digits is a digit, or 0 at the end *)
Lemma peek_dec t : Forall is_dec t -> 0 <= peek t <= 57.
Proof.
  intros H. destruct t as [|c t]; [cbn; lia|].
  inversion H as [|? ? H0 _]; subst. unfold is_dec in H0. rewrite peek_ascii by lia. lia.
Qed.

(* ---------- reader on a plain string of decimal digits ---------- *)

Lemma consume_dec : forall l fuel,
  Forall is_dec l -> (length l < fuel)%nat -> consume_digits fuel 10 l = (l, []).
Proof.
  induction l as [|a l IH]; intros fuel HF Hf; (destruct fuel as [|f]; [cbn in Hf; lia|]).
  - reflexivity.
  - inversion HF as [|? ? Ha HT]; subst. unfold is_dec in Ha.
    cbn [consume_digits]. rewrite peek_ascii by lia.
    assert (X : (a =? 95) = false) by lia. rewrite X.
    rewrite peek_ascii by lia.
    unfold digit_in_set. rewrite hex_val_dec by exact Ha.
    assert (Y : (a - 48 <? 10) = true) by lia. rewrite Y.
    cbn [tl]. rewrite IH; [reflexivity|exact HT|cbn in Hf; lia].
Qed.

Lemma number_literal_dec l : l <> [] -> Forall is_dec l -> number_literal l = Some l.
Proof.
  destruct l as [|d0 t]; [contradiction|]. intros _ HF.
  inversion HF as [|? ? H0 HT]; subst. unfold is_dec in H0.
  unfold number_literal.
  assert (X : in_rng 48 57 d0 = true) by (unfold in_rng; lia). rewrite X. cbn [negb].
  pose proof (peek_dec t HT) as P.
  assert (E : forall k, 58 <= k -> (peek t =? k) = false) by (intros; lia).
  rewrite !E by lia. cbn [orb].
  replace (if d0 =? 48 then ([], 10, t) else ([], 10, t)) with (@nil Z, 10, t) by (destruct (d0 =? 48); reflexivity).
  rewrite consume_dec; [reflexivity|exact HT|lia].
Qed.

Definition horner10 (l : list Z) (acc : Z) : Z := fold_left (fun a c => a * 10 + (c - 48)) l acc.

Lemma parse_digits_dec l : Forall is_dec l -> forall acc, parse_digits 10 l acc = Some (horner10 l acc).
Proof.
  induction 1 as [|c l Hc _ IH]; intros acc; [reflexivity|].
  unfold is_dec in Hc. cbn [parse_digits horner10 fold_left].
  assert (X : (c =? 95) = false) by lia. rewrite X.
  assert (Y : in_rng 48 57 c = true) by (unfold in_rng; lia). rewrite Y.
  assert (W : (10 <=? c - 48) = false) by lia. rewrite W.
  apply IH.
Qed.

Lemma parse_bigint_dec l : l <> [] -> Forall is_dec l -> parse_bigint l 0 = Some (horner10 l 0).
Proof.
  destruct l as [|c0 t]; [contradiction|]. intros _ HF.
  inversion HF as [|? ? H0 HT]; subst. unfold is_dec in H0.
  unfold parse_bigint.
  assert (X1 : (c0 =? 43) = false) by lia. rewrite X1.
  assert (X2 : (c0 =? 45) = false) by lia. rewrite X2.
  unfold parse_ubigint. change (in_rng 2 36 0) with false. change (0 =? 0) with true. cbv iota.
  set (l1 := to_lower (hd 0 t)).
  assert (L : l1 <= 57).
  { subst l1. destruct t as [|c1 t']; cbn [hd]; [change (to_lower 0) with 32; lia|].
    inversion HT as [|? ? H1 _]; subst. rewrite to_lower_dec by exact H1. unfold is_dec in H1. lia. }
  assert (E : forall k, 58 <= k -> (l1 =? k) = false) by (intros; lia).
  rewrite !E by lia. rewrite !andb_false_r.
  apply parse_digits_dec. exact HF.
Qed.

Lemma eval_literal_dec l : l <> [] -> Forall is_dec l -> eval_int_literal l = Some (horner10 l 0).
Proof.
  intros Hn HF. unfold eval_int_literal. rewrite number_literal_dec by assumption.
  apply parse_bigint_dec; assumption.
Qed.

(* ---------- printer ---------- *)

Fixpoint val_rev (l : list Z) : Z :=
  match l with [] => 0 | c :: t => (c - 48) + 10 * val_rev t end.

Lemma horner_rev l : horner10 (rev l) 0 = val_rev l.
Proof.
  induction l as [|c t IH]; [reflexivity|].
  cbn [rev val_rev]. unfold horner10 in *. rewrite fold_left_app. cbn [fold_left]. rewrite IH. lia.
Qed.

Lemma dec_digits_val : forall fuel n,
  0 <= n < 2 ^ Z.of_nat fuel -> val_rev (dec_digits_rev fuel n) = n.
Proof.
  induction fuel as [|f IH]; intros n Hn.
  - change (2 ^ Z.of_nat 0) with 1 in Hn. cbn. lia.
  - cbn [dec_digits_rev]. destruct (n <? 10) eqn:E; cbn [val_rev]; [lia|].
    rewrite IH.
    + pose proof (Z.div_mod n 10). lia.
    + rewrite Nat2Z.inj_succ, Z.pow_succ_r in Hn by lia.
      pose proof (Z.pow_pos_nonneg 2 (Z.of_nat f)) as P.
      split; [apply Z.div_pos; lia|].
      apply Z.div_lt_upper_bound; lia.
Qed.

Lemma dec_digits_dec : forall fuel n, 0 <= n -> Forall is_dec (dec_digits_rev fuel n).
Proof.
  induction fuel as [|f IH]; intros n Hn; [constructor|].
  cbn [dec_digits_rev]. destruct (n <? 10) eqn:E.
  - constructor; [unfold is_dec; lia|constructor].
  - constructor.
    + unfold is_dec. pose proof (Z.mod_pos_bound n 10). lia.
    + apply IH. apply Z.div_pos; lia.
Qed.

Lemma dec_digits_nonempty f n : dec_digits_rev (S f) n <> [].
Proof. cbn [dec_digits_rev]. destruct (n <? 10); discriminate. Qed.

Lemma print_nat_dec n : 0 <= n -> Forall is_dec (print_nat n) /\ print_nat n <> [].
Proof.
  intros Hn. unfold print_nat. split.
  - apply Forall_rev. apply dec_digits_dec. exact Hn.
  - intros H. apply (f_equal (@rev Z)) in H. rewrite rev_involutive in H. cbn [rev] in H.
    exact (dec_digits_nonempty _ _ H).
Qed.

Lemma print_nat_value n : 0 <= n -> horner10 (print_nat n) 0 = n.
Proof.
  intros Hn. unfold print_nat. rewrite horner_rev. apply dec_digits_val.
  split; [exact Hn|].
  rewrite Nat2Z.inj_succ, Z2Nat.id by apply Z.log2_nonneg.
  destruct (Z.eq_dec n 0) as [->|Nz]; [reflexivity|].
  apply Z.log2_spec. lia.
Qed.

Theorem nat_roundtrip n : 0 <= n -> eval_int_literal (print_nat n) = Some n.
Proof.
  intros Hn. destruct (print_nat_dec n Hn) as [D NE].
  rewrite eval_literal_dec by assumption. rewrite print_nat_value by exact Hn. reflexivity.
Qed.

Theorem int_roundtrip z : eval_int_source (print_int z) = Some z.
Proof.
  unfold print_int. destruct (z <? 0) eqn:E.
  - unfold eval_int_source. change (45 =? 45) with true. cbv iota.
    rewrite nat_roundtrip by lia. cbn [option_map]. f_equal. lia.
  - destruct (print_nat_dec z ltac:(lia)) as [D NE].
    pose proof (nat_roundtrip z ltac:(lia)) as R.
    destruct (print_nat z) as [|c t]; [contradiction|].
    inversion D as [|? ? Hc _]; subst. unfold is_dec in Hc.
    unfold eval_int_source. assert (X : (c =? 45) = false) by lia. rewrite X. exact R.
Qed.

(* what is printed is a canonical decimal numeral: digits only after the optional sign *)
Theorem print_int_shape z :
  exists ds, ds <> [] /\ Forall is_dec ds /\ print_int z = (if z <? 0 then [45] else []) ++ ds.
Proof.
  unfold print_int. destruct (z <? 0) eqn:E.
  - exists (print_nat (- z)). destruct (print_nat_dec (- z) ltac:(lia)) as [D NE]. repeat split; assumption.
  - exists (print_nat z). destruct (print_nat_dec z ltac:(lia)) as [D NE]. repeat split; assumption.
Qed.
