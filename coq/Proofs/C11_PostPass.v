(* C11 — post-passes over the completion-ordered results of the parallel tasks (Model/C11_PostPass.v). *)
From Elk Require Import Model.C11_ParCheck Proofs.C11_ParCheck Model.C11_PostPass.
From Coq Require Import ZArith List Bool Arith Lia Permutation.
Import ListNotations.

(* a post-pass that processes every element of the completion-ordered list on its own *)
Lemma perroot_order_independent {A D} (f : A -> list D) (l l' : list A) :
  Permutation l l' -> Permutation (flat_map f l) (flat_map f l').
Proof. intros H. apply Permutation_flat_map. exact H. Qed.

Theorem postpass_order_independent G fuel roots roots' :
  Permutation roots roots' -> Permutation (postpass G fuel roots) (postpass G fuel roots').
Proof. unfold postpass. apply perroot_order_independent. Qed.

Theorem postpass_perroot_order_independent G fuel roots roots' :
  Permutation roots roots' -> Permutation (postpass_perroot G fuel roots) (postpass_perroot G fuel roots').
Proof. unfold postpass_perroot. apply perroot_order_independent. Qed.

(* composed with the interleaving model: whatever the tasks appended to a synchronised list (diagnostics,
   or the methods pushed to the method cache on completion), a per-element post-pass over that list gives the
   same multiset after any two interleavings *)
Theorem postpass_schedule_independent {D} memo env (f : Z -> list D) tasks ev1 ev2 s0 r1 f1 r2 f2 :
  NoDup (syms s0) ->
  interleaving tasks ev1 -> interleaving tasks ev2 ->
  exec memo env ev1 s0 = (r1, f1) -> exec memo env ev2 s0 = (r2, f2) ->
  Permutation (flat_map f (diags f1)) (flat_map f (diags f2)).
Proof.
  intros ND I1 I2 E1 E2.
  destruct (confluence memo env tasks ev1 ev2 s0 r1 f1 r2 f2 ND I1 I2 E1 E2) as [P _].
  apply perroot_order_independent. exact P.
Qed.

(* ---- state shared across roots: the visited-set shape ----
   methods: 0 = slow, 1 = quick, 2 = helper; constants: 0 = FIRST = slow(), 1 = SECOND = quick();
   slow and quick both call helper, helper reads SECOND *)
Definition vs_graph : cgraph :=
  {| calls := fun m => match m with 0 => [2] | 1 => [2] | _ => [] end;
     reads := fun m => match m with 2 => [1%Z] | _ => [] end;
     used_in := fun m => match m with 0 => [0%Z] | 1 => [1%Z] | _ => [] end |}.

Theorem postpass_shared_refuted :
  exists G fuel roots roots',
    Permutation roots roots' /\
    ~ Permutation (postpass_shared G fuel roots) (postpass_shared G fuel roots') /\
    postpass_shared G fuel roots = [] /\ postpass_shared G fuel roots' = [(2, 1%Z)] /\
    postpass G fuel roots = [(2, 1%Z)] /\ postpass G fuel roots' = [(2, 1%Z)] /\
    postpass_perroot G fuel roots = [(2, 1%Z)] /\ postpass_perroot G fuel roots' = [(2, 1%Z)].
Proof.
  exists vs_graph, 3, [0; 1], [1; 0].
  split; [apply perm_swap|].
  split; [|vm_compute; repeat split; reflexivity].
  intros H. apply Permutation_length in H. vm_compute in H. discriminate.
Qed.

(* ---- tasks that read the shared failure flag ---- *)
Theorem compile_flag_refuted :
  exists tasks order order',
    Permutation order order' /\
    compiled (snd (grun tasks order)) 1 = Some false /\
    compiled (snd (grun tasks order')) 1 = Some true /\
    fst (grun tasks order) = fst (grun tasks order').
Proof.
  exists [[5%Z]; []], [0; 1], [1; 0].
  split; [apply perm_swap|]. vm_compute. repeat split; reflexivity.
Qed.

Lemma grun_step_clean tasks : (forall d, In d tasks -> d = []) ->
  forall t acc, fst acc = [] -> (forall e, In e (snd acc) -> snd e = true) ->
  fst (grun_step tasks acc t) = [] /\ (forall e, In e (snd (grun_step tasks acc t)) -> snd e = true).
Proof.
  intros Hc t acc H1 H2. unfold grun_step.
  destruct (nth_error tasks t) as [d|] eqn:E.
  - apply nth_error_In in E. rewrite (Hc d E), H1. simpl. split; [reflexivity|].
    intros e He. apply in_app_or in He. destruct He as [He|[<-|[]]]; [apply H2; exact He|reflexivity].
  - split; assumption.
Qed.

Lemma grun_clean tasks : (forall d, In d tasks -> d = []) ->
  forall order acc, fst acc = [] -> (forall e, In e (snd acc) -> snd e = true) ->
  fst (fold_left (grun_step tasks) order acc) = [] /\
  (forall e, In e (snd (fold_left (grun_step tasks) order acc)) -> snd e = true).
Proof.
  intros Hc order. induction order as [|t r IH]; intros acc H1 H2; [simpl; auto|].
  simpl. destruct (grun_step_clean tasks Hc t acc H1 H2) as [A B]. apply IH; assumption.
Qed.

(* when no task appends a failure (an error-free program) every task is compiled, in every order *)
Theorem compile_flag_partial tasks order :
  (forall d, In d tasks -> d = []) ->
  fst (grun tasks order) = [] /\ forall e, In e (snd (grun tasks order)) -> snd e = true.
Proof.
  intros Hc. unfold grun. apply grun_clean; [assumption|reflexivity|intros e []].
Qed.
