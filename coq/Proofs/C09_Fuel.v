(* C09 — the reference interpreter S is fuel-monotone: a run that finishes (normally, with an
   Elk error, or stuck) with fuel n gives the same result with any larger fuel.  Hence "the
   observation S assigns to p" does not depend on the fuel chosen, once it is enough. *)
From Elk Require Import Base.GoSem Model.C06_Int Model.C09_Backends.
From Coq Require Import ZArith List String Bool Lia.
Import ListNotations.

Definition finished {A} (r : res A) : Prop := match r with RFuel _ => False | _ => True end.
(* r' extends r: whenever r is finished, r' is the same result *)
Definition ext {A} (r r' : res A) : Prop := finished r -> r' = r.

Lemma ext_refl {A} (r : res A) : ext r r.
Proof. intros _. reflexivity. Qed.

Lemma ext_rbind {A B} (r r' : res A) (f f' : A -> list string -> res B) :
  ext r r' -> (forall a out, ext (f a out) (f' a out)) -> ext (rbind r f) (rbind r' f').
Proof.
  intros Hr Hf Fin. destruct r as [a out|c m out|out|out]; simpl in *.
  - rewrite (Hr I). simpl. apply Hf. exact Fin.
  - rewrite (Hr I). reflexivity.
  - rewrite (Hr I). reflexivity.
  - contradiction.
Qed.

Lemma ext_map_eval ev ev' es :
  (forall out e, ext (ev out e) (ev' out e)) ->
  forall out, ext (map_eval ev es out) (map_eval ev' es out).
Proof.
  intros H. induction es as [|e1 r IH]; intros out; simpl.
  - apply ext_refl.
  - apply ext_rbind; [apply H|]. intros v out1.
    apply ext_rbind; [apply IH|]. intros; apply ext_refl.
Qed.

Lemma ext_iter_list body body' l :
  (forall v env out, ext (body v env out) (body' v env out)) ->
  forall env out, ext (iter_list body l env out) (iter_list body' l env out).
Proof.
  intros H. induction l as [|v r IH]; intros env out; simpl.
  - apply ext_refl.
  - apply ext_rbind; [apply H|]. intros fl out1. destruct fl; [apply IH|apply ext_refl].
Qed.

Lemma mono_step n m :
  (forall p env out e, ext (eval n p env out e) (eval m p env out e)) ->
  (forall p env out ss, ext (exec n p env out ss) (exec m p env out ss)) ->
  (forall p env out e, ext (eval (S n) p env out e) (eval (S m) p env out e)) /\
  (forall p env out ss, ext (exec (S n) p env out ss) (exec (S m) p env out ss)).
Proof.
  intros IHe IHx. split.
  - intros p env out e. destruct e; cbn [eval]; try apply ext_refl.
    + (* EBin *) apply ext_rbind; [apply IHe|]. intros va out1.
      apply ext_rbind; [apply IHe|]. intros; apply ext_refl.
    + apply ext_rbind; [apply IHe|]. intros; apply ext_refl.
    + apply ext_rbind; [apply IHe|]. intros va out1.
      apply ext_rbind; [apply IHe|]. intros; apply ext_refl.
    + apply ext_rbind; [apply IHe|]. intros; apply ext_refl.
    + (* EAnd *) apply ext_rbind; [apply IHe|]. intros va out1.
      destruct va as [z|[|]|s|s|s| |c k|l|ro ra rb]; try apply ext_refl. apply IHe.
    + apply ext_rbind; [apply IHe|]. intros va out1.
      destruct va as [z|[|]|s|s|s| |c k|l|ro ra rb]; try apply ext_refl. apply IHe.
    + apply ext_rbind; [apply IHe|]. intros va out1.
      apply ext_rbind; [apply IHe|]. intros; apply ext_refl.
    + apply ext_rbind; [apply IHe|]. intros; apply ext_refl.
    + (* ECall *) destruct (nth_error (p_meths p) f) as [mt|]; [|apply ext_refl].
      apply ext_rbind; [apply ext_map_eval; intros; apply IHe|]. intros vs out1.
      destruct (negb (Nat.eqb (List.length vs) (m_params mt))); [apply ext_refl|].
      apply ext_rbind; [apply ext_map_eval; intros; apply IHe|]. intros ls out2.
      apply ext_rbind; [apply IHx|]. intros fl out3.
      destruct fl; [apply IHe|apply ext_refl].
    + (* ENew *) destruct (nth_error (p_classes p) c); [|apply ext_refl].
      apply ext_rbind; [apply IHe|]. intros; apply ext_refl.
    + (* ESend *) apply ext_rbind; [apply IHe|]. intros vr out0.
      destruct vr; try apply ext_refl.
      destruct (dispatch (p_classes p) c name) as [mt|]; [|apply ext_refl].
      apply ext_rbind; [apply ext_map_eval; intros; apply IHe|]. intros vs out1.
      destruct (negb (Nat.eqb (List.length vs) (m_params mt))); [apply ext_refl|].
      apply ext_rbind; [apply ext_map_eval; intros; apply IHe|]. intros ls out2.
      apply ext_rbind; [apply IHx|]. intros fl out3.
      destruct fl; [apply IHe|apply ext_refl].
    + (* EList *) apply ext_rbind; [apply ext_map_eval; intros; apply IHe|].
      intros; apply ext_refl.
    + (* ERange *) apply ext_rbind; [apply IHe|]. intros va out1.
      apply ext_rbind; [apply IHe|]. intros; apply ext_refl.
  - intros p env out ss. destruct ss as [|s rest]; cbn [exec]; [apply ext_refl|].
    destruct s.
    + apply ext_rbind; [apply IHe|]. intros; apply IHx.
    + apply ext_rbind; [apply IHe|]. intros v out1. destruct v; try apply ext_refl. apply IHx.
    + apply ext_rbind; [apply IHe|]. intros v out1. destruct v; try apply ext_refl.
      apply ext_rbind; [apply IHx|]. intros fl out2. destruct fl; [apply IHx|apply ext_refl].
    + apply ext_rbind; [apply IHe|]. intros v out1. destruct v as [z|[|]|s0|s0|s0| |c0 k0|l0|ro ra rb]; try apply ext_refl.
      * apply ext_rbind; [apply IHx|]. intros fl out2. destruct fl; [apply IHx|apply ext_refl].
      * apply IHx.
    + apply ext_rbind; [apply IHe|]. intros; apply ext_refl.
    + apply ext_rbind; [apply IHe|]. intros; apply IHx.
    + (* SForIn *) apply ext_rbind; [apply IHe|]. intros v out1. destruct v; try apply ext_refl.
      * apply ext_rbind; [apply ext_iter_list; intros; apply IHx|]. intros fl out2.
        destruct fl; [apply IHx|apply ext_refl].
      * apply ext_rbind; [apply ext_iter_list; intros; apply IHx|]. intros fl out2.
        destruct fl; [apply IHx|apply ext_refl].
Qed.

Lemma mono_add k : forall n,
  (forall p env out e, ext (eval n p env out e) (eval (k + n) p env out e)) /\
  (forall p env out ss, ext (exec n p env out ss) (exec (k + n) p env out ss)).
Proof.
  induction n as [|n [IHe IHx]].
  - split; intros; intros Fin; simpl in Fin; destruct ss || idtac; contradiction.
  - replace (k + S n)%nat with (S (k + n)) by lia. apply mono_step; assumption.
Qed.

Theorem eval_fuel_mono n m p env out e :
  (n <= m)%nat -> finished (eval n p env out e) -> eval m p env out e = eval n p env out e.
Proof.
  intros L F. replace m with ((m - n) + n)%nat by lia. apply (proj1 (mono_add (m - n) n)). exact F.
Qed.

Theorem exec_fuel_mono n m p env out ss :
  (n <= m)%nat -> finished (exec n p env out ss) -> exec m p env out ss = exec n p env out ss.
Proof.
  intros L F. replace m with ((m - n) + n)%nat by lia. apply (proj2 (mono_add (m - n) n)). exact F.
Qed.

(* the whole-program statement *)
Theorem S_fuel_mono n m p r :
  (n <= m)%nat -> Sref n p = r -> r <> SOutOfFuel -> Sref m p = r.
Proof.
  intros L E NF. subst r. unfold Sref in *.
  set (rn := rbind (map_eval (fun o e1 => eval n p [] o e1) (p_locals p) [])
               (fun env out => exec n p env out (p_main p))) in *.
  set (rm := rbind (map_eval (fun o e1 => eval m p [] o e1) (p_locals p) [])
               (fun env out => exec m p env out (p_main p))).
  assert (X : ext rn rm).
  { unfold rn, rm. apply ext_rbind.
    - apply ext_map_eval. intros out e F. apply eval_fuel_mono; assumption.
    - intros env out F. apply exec_fuel_mono; assumption. }
  destruct rn as [a out|c ms out|out|out] eqn:R.
  - rewrite (X I). reflexivity.
  - rewrite (X I). reflexivity.
  - rewrite (X I). reflexivity.
  - exfalso. apply NF. reflexivity.
Qed.
