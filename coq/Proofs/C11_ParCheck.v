(* C11 — confluence of the interleaving model (Model/C11_ParCheck.v): induction over event lists. *)
From Elk Require Import Model.C11_ParCheck.
From Coq Require Import ZArith List Bool Arith Lia Permutation.
Import ListNotations.

(* ---------------------------------------------------------------- index / intern *)
Lemma index_app_l n l m i : index n l = Some i -> index n (l ++ m) = Some i.
Proof.
  revert i. induction l as [|h t IH]; simpl; intros i H; [discriminate|].
  destruct (Z.eqb n h); [assumption|].
  destruct (index n t) as [j|] eqn:E; [|discriminate].
  rewrite (IH j eq_refl). assumption.
Qed.

Lemma index_In n l : In n l -> exists i, index n l = Some i.
Proof.
  induction l as [|h t IH]; simpl; intros H; [contradiction|].
  destruct (Z.eqb n h) eqn:E; [eauto|].
  destruct H as [H|H]; [subst; rewrite Z.eqb_refl in E; discriminate|].
  destruct (IH H) as [i Hi]. rewrite Hi. eauto.
Qed.

Lemma index_Some_In n l i : index n l = Some i -> In n l.
Proof.
  revert i. induction l as [|h t IH]; simpl; intros i H; [discriminate|].
  destruct (Z.eqb n h) eqn:E; [left; symmetry; apply Z.eqb_eq; assumption|].
  destruct (index n t) as [j|] eqn:E2; [|discriminate]. right. eapply IH. reflexivity.
Qed.

Lemma index_None_notin n l : index n l = None -> ~ In n l.
Proof.
  intros H HI. destruct (index_In n l HI) as [i Hi]. congruence.
Qed.

Lemma index_nth n l i : index n l = Some i -> nth_error l i = Some n.
Proof.
  revert i. induction l as [|h t IH]; simpl; intros i H; [discriminate|].
  destruct (Z.eqb n h) eqn:E.
  - injection H as <-. simpl. apply Z.eqb_eq in E. subst. reflexivity.
  - destruct (index n t) as [j|] eqn:E2; [|discriminate]. injection H as <-. simpl. apply IH. reflexivity.
Qed.

Lemma index_app_new n l : index n l = None -> index n (l ++ [n]) = Some (List.length l).
Proof.
  induction l as [|h t IH]; simpl; intros H.
  - rewrite Z.eqb_refl. reflexivity.
  - destruct (Z.eqb n h); [discriminate|].
    destruct (index n t) as [j|] eqn:E; [discriminate|]. rewrite (IH eq_refl). reflexivity.
Qed.

Lemma NoDup_snoc (n : Z) l : NoDup l -> ~ In n l -> NoDup (l ++ [n]).
Proof.
  induction l as [|h t IH]; simpl; intros ND NI.
  - constructor; [intros []|constructor].
  - inversion ND as [|? ? Hh Ht]; subst. constructor.
    + rewrite in_app_iff. simpl. intros [H|[H|[]]]; [contradiction|subst; apply NI; left; reflexivity].
    + apply IH; [assumption|]. intros H. apply NI. right. assumption.
Qed.

Lemma intern_spec n l i l' : intern n l = (i, l') ->
  index n l' = Some i /\ (exists m, l' = l ++ m) /\ (forall x, In x l' <-> In x l \/ x = n) /\ (NoDup l -> NoDup l').
Proof.
  unfold intern. destruct (index n l) as [j|] eqn:E; intros H; injection H as <- <-.
  - split; [assumption|]. split; [exists []; rewrite app_nil_r; reflexivity|]. split; [|auto].
    intros x. split; [auto|]. intros [H|H]; [assumption|]. subst. eapply index_Some_In; eassumption.
  - split; [apply index_app_new; assumption|]. split; [eauto|]. split.
    + intros x. rewrite in_app_iff. simpl. intuition.
    + intros ND. apply NoDup_snoc; [assumption|]. apply index_None_notin. assumption.
Qed.


Lemma cache_put_spec k c : (forall x, In x (cache_put k c) <-> In x c \/ x = k).
Proof.
  intros x. unfold cache_put. destruct (index k c) as [j|] eqn:E.
  - split; [auto|]. intros [H|H]; [assumption|]. subst. eapply index_Some_In; eassumption.
  - rewrite in_app_iff. simpl. intuition.
Qed.

(* ---------------------------------------------------------------- one step *)
Section Sem.
Variables memo env : Z -> Z.

Lemma step_spec s a r s1 : step memo env s a = (r, s1) ->
  (exists m, syms s1 = syms s ++ m) /\
  r = answer memo env (syms s1) a /\
  diags s1 = diags s ++ diag_of a /\
  (forall n, In n (syms s1) <-> In n (syms s) \/ a = AIntern n) /\
  (forall k, In k (cache s1) <-> In k (cache s) \/ a = AMemo k) /\
  (NoDup (syms s) -> NoDup (syms s1)).
Proof.
  destruct a as [d|n|k|k]; simpl.
  - intros H. injection H as <- <-. simpl. repeat split; try tauto.
    + exists []. rewrite app_nil_r. reflexivity.
    + intros [H|H]; [assumption|discriminate].
    + intros [H|H]; [assumption|discriminate].
  - destruct (intern n (syms s)) as [i l] eqn:E. intros H. injection H as <- <-. simpl.
    destruct (intern_spec _ _ _ _ E) as [I1 [I2 [I3 I4]]].
    split; [assumption|]. split; [rewrite I1; reflexivity|]. split; [rewrite app_nil_r; reflexivity|].
    split.
    + intros x. rewrite I3. split; intros [H|H]; auto; [subst; auto|injection H as ->; auto].
    + split; [|assumption]. intros x. split; [auto|]. intros [H|H]; [assumption|discriminate].
  - intros H. injection H as <- <-. simpl. split; [exists []; rewrite app_nil_r; reflexivity|].
    split; [reflexivity|]. split; [rewrite app_nil_r; reflexivity|]. split.
    + intros x. split; [auto|]. intros [H|H]; [assumption|discriminate].
    + split; [|auto]. intros x. rewrite cache_put_spec. split; intros [H|H]; auto; [subst; auto|injection H as ->; auto].
  - intros H. injection H as <- <-. split; [exists []; rewrite app_nil_r; reflexivity|].
    split; [reflexivity|]. split; [simpl; rewrite app_nil_r; reflexivity|]. split.
    + intros x. split; [auto|]. intros [H|H]; [assumption|discriminate].
    + split; [|auto]. intros x. split; [auto|]. intros [H|H]; [assumption|discriminate].
Qed.

Lemma answer_stable S m a : (forall n, a = AIntern n -> In n S) -> answer memo env (S ++ m) a = answer memo env S a.
Proof.
  destruct a as [d|n|k|k]; simpl; try reflexivity. intros H.
  destruct (index_In n S (H n eq_refl)) as [i Hi]. rewrite Hi, (index_app_l _ _ m _ Hi). reflexivity.
Qed.

(* ---------------------------------------------------------------- whole executions *)
Lemma exec_spec ev : forall s rs s', exec memo env ev s = (rs, s') ->
  (exists m, syms s' = syms s ++ m) /\
  rs = map (fun e => (fst e, answer memo env (syms s') (snd e))) ev /\
  diags s' = diags s ++ flat_map diag_of (map snd ev) /\
  (forall n, In n (syms s') <-> In n (syms s) \/ In (AIntern n) (map snd ev)) /\
  (forall k, In k (cache s') <-> In k (cache s) \/ In (AMemo k) (map snd ev)) /\
  (NoDup (syms s) -> NoDup (syms s')).
Proof.
  induction ev as [|[t a] r IH]; simpl; intros s rs s' H.
  - injection H as <- <-. split; [exists []; rewrite app_nil_r; reflexivity|].
    split; [reflexivity|]. split; [rewrite app_nil_r; reflexivity|]. repeat split; try tauto.
  - destruct (step memo env s a) as [x s1] eqn:E1. destruct (exec memo env r s1) as [xs s2] eqn:E2.
    injection H as <- <-.
    destruct (step_spec _ _ _ _ E1) as [[m1 M1] [A1 [D1 [S1 [C1 N1]]]]].
    destruct (IH _ _ _ E2) as [[m2 M2] [A2 [D2 [S2 [C2 N2]]]]].
    split; [exists (m1 ++ m2); rewrite M2, M1, app_assoc; reflexivity|].
    split.
    { f_equal; [|assumption]. f_equal. rewrite A1, M2. symmetry. apply answer_stable.
      intros n ->. apply S1. right. reflexivity. }
    split; [rewrite D2, D1, app_assoc; reflexivity|].
    split.
    { intros n. rewrite S2, S1. simpl. tauto. }
    split.
    { intros k. rewrite C2, C1. simpl. tauto. }
    intros ND. auto.
Qed.
End Sem.

(* ---------------------------------------------------------------- interleavings are permutations *)
Lemma filter_lt0 {A} (ev : list (nat * A)) : filter (fun e => fst e <? 0) ev = [].
Proof. induction ev as [|e r IH]; simpl; [reflexivity|]. assumption. Qed.

Lemma filter_split_lt {A} (ev : list (nat * A)) n :
  Permutation (filter (fun e => fst e <? S n) ev)
              (filter (fun e => fst e <? n) ev ++ filter (fun e => fst e =? n) ev).
Proof.
  induction ev as [|e r IH]; simpl; [constructor|].
  destruct (Nat.ltb_spec (fst e) (S n)), (Nat.ltb_spec (fst e) n), (Nat.eqb_spec (fst e) n); try lia.
  - simpl. constructor. assumption.
  - apply Permutation_cons_app. assumption.
  - assumption.
Qed.

Lemma perm_parts {A} (ev : list (nat * A)) n :
  Permutation (filter (fun e => fst e <? n) ev)
              (concat (map (fun t => filter (fun e => fst e =? t) ev) (seq 0 n))).
Proof.
  induction n as [|n IH].
  - rewrite filter_lt0. constructor.
  - rewrite seq_S, map_app, concat_app. simpl. rewrite app_nil_r.
    eapply Permutation_trans; [apply filter_split_lt|]. apply Permutation_app_tail. assumption.
Qed.

Lemma filter_all {A} (ev : list (nat * A)) n : (forall e, In e ev -> fst e < n) -> filter (fun e => fst e <? n) ev = ev.
Proof.
  induction ev as [|e r IH]; simpl; intros H; [reflexivity|].
  assert (L : fst e <? n = true) by (apply Nat.ltb_lt; apply H; left; reflexivity).
  rewrite L. f_equal. apply IH. intros; apply H; right; assumption.
Qed.

Lemma filter_task {A} (ev : list (nat * A)) t :
  filter (fun e => fst e =? t) ev = map (pair t) (events_of t ev).
Proof.
  unfold events_of. induction ev as [|[u a] r IH]; simpl; [reflexivity|].
  destruct (u =? t) eqn:E; simpl; [|assumption]. apply Nat.eqb_eq in E. subst. f_equal. assumption.
Qed.

Theorem interleavings_permutation tasks ev1 ev2 :
  interleaving tasks ev1 -> interleaving tasks ev2 -> Permutation ev1 ev2.
Proof.
  intros [B1 T1] [B2 T2]. set (N := List.length tasks) in *.
  rewrite <- (filter_all ev1 N B1), <- (filter_all ev2 N B2).
  eapply Permutation_trans; [apply perm_parts|].
  eapply Permutation_trans; [|apply Permutation_sym, perm_parts].
  assert (E : map (fun t => filter (fun e => fst e =? t) ev1) (seq 0 N)
            = map (fun t => filter (fun e => fst e =? t) ev2) (seq 0 N)).
  { apply map_ext_in. intros t Ht. apply in_seq in Ht. rewrite !filter_task, T1, T2 by lia. reflexivity. }
  rewrite E. apply Permutation_refl.
Qed.

Lemma events_of_map {A B} (g : A -> B) t (ev : list (nat * A)) :
  events_of t (map (fun e => (fst e, g (snd e))) ev) = map g (events_of t ev).
Proof.
  unfold events_of. induction ev as [|[u a] r IH]; simpl; [reflexivity|].
  destruct (u =? t); simpl; [f_equal|]; assumption.
Qed.

Lemma events_of_In {A} t (ev : list (nat * A)) a : In a (events_of t ev) -> In a (map snd ev).
Proof.
  unfold events_of. rewrite !in_map_iff. intros [e [E H]]. apply filter_In in H. exists e. tauto.
Qed.

(* ---------------------------------------------------------------- confluence *)
Section Confluence.
Variables memo env : Z -> Z.

Lemma ren_answer S1 S2 a :
  (forall n, a = AIntern n -> In n S1 /\ In n S2) ->
  ren S1 S2 (answer memo env S1 a) = answer memo env S2 a.
Proof.
  destruct a as [d|n|k|k]; simpl; try reflexivity. intros H. destruct (H n eq_refl) as [H1 H2].
  destruct (index_In _ _ H1) as [i Hi]. destruct (index_In _ _ H2) as [j Hj].
  rewrite Hi, Hj. simpl. rewrite (index_nth _ _ _ Hi), Hj. reflexivity.
Qed.

Theorem confluence tasks ev1 ev2 s0 r1 f1 r2 f2 :
  NoDup (syms s0) ->
  interleaving tasks ev1 -> interleaving tasks ev2 ->
  exec memo env ev1 s0 = (r1, f1) -> exec memo env ev2 s0 = (r2, f2) ->
  Permutation (diags f1) (diags f2) /\
  (forall n, In n (syms f1) <-> In n (syms f2)) /\ NoDup (syms f1) /\ NoDup (syms f2) /\
  (forall k, In k (cache f1) <-> In k (cache f2)) /\
  (forall t, t < List.length tasks ->
     map (ren (syms f1) (syms f2)) (events_of t r1) = events_of t r2).
Proof.
  intros ND I1 I2 E1 E2.
  pose proof (interleavings_permutation _ _ _ I1 I2) as P.
  destruct (exec_spec memo env _ _ _ _ E1) as [_ [A1 [D1 [S1 [C1 N1]]]]].
  destruct (exec_spec memo env _ _ _ _ E2) as [_ [A2 [D2 [S2 [C2 N2]]]]].
  assert (PS : Permutation (map snd ev1) (map snd ev2)) by (apply Permutation_map; assumption).
  assert (SY : forall n, In n (syms f1) <-> In n (syms f2)).
  { intros n. rewrite S1, S2. split; intros [H|H]; auto; right.
    - eapply Permutation_in; eassumption.
    - eapply Permutation_in; [apply Permutation_sym|]; eassumption. }
  split.
  { rewrite D1, D2. apply Permutation_app_head. apply Permutation_flat_map. assumption. }
  split; [assumption|]. split; [auto|]. split; [auto|]. split.
  { intros k. rewrite C1, C2. split; intros [H|H]; auto; right.
    - eapply Permutation_in; eassumption.
    - eapply Permutation_in; [apply Permutation_sym|]; eassumption. }
  intros t Lt. rewrite A1, A2, !events_of_map, map_map.
  destruct I1 as [_ T1]. destruct I2 as [_ T2]. rewrite (T2 t Lt), <- (T1 t Lt).
  apply map_ext_in. intros a Ha. apply ren_answer. intros n ->.
  assert (X : In n (syms f1)) by (apply S1; right; eapply events_of_In; eassumption).
  split; [assumption|]. apply SY. assumption.
Qed.

End Confluence.

(* the sequential run is one of the interleavings *)
Lemma events_of_app {A} t (x y : list (nat * A)) : events_of t (x ++ y) = events_of t x ++ events_of t y.
Proof. unfold events_of. rewrite filter_app, map_app. reflexivity. Qed.

Lemma events_of_pair {A} t k (a : list A) : events_of t (map (pair k) a) = if k =? t then a else [].
Proof.
  unfold events_of. induction a as [|x xs IH]; simpl; [destruct (k =? t); reflexivity|].
  destruct (k =? t) eqn:E; simpl; [f_equal|]; assumption.
Qed.

Lemma events_of_seq_from tasks : forall k t,
  events_of t (seq_from k tasks) = if t <? k then [] else nth (t - k) tasks [].
Proof.
  induction tasks as [|a r IH]; intros k t; simpl.
  - destruct (t <? k); [reflexivity|]. destruct (t - k); reflexivity.
  - rewrite events_of_app, events_of_pair, IH.
    destruct (Nat.eqb_spec k t) as [->|NE].
    + rewrite (proj2 (Nat.ltb_lt t (S t))) by lia. rewrite (proj2 (Nat.ltb_ge t t)) by lia.
      rewrite Nat.sub_diag, app_nil_r. reflexivity.
    + destruct (Nat.ltb_spec t k) as [L|G].
      * rewrite (proj2 (Nat.ltb_lt t (S k))) by lia. reflexivity.
      * rewrite (proj2 (Nat.ltb_ge t (S k))) by lia. simpl.
        replace (t - k) with (S (t - S k)) by lia. reflexivity.
Qed.

Lemma seq_from_bound tasks : forall k e, In e (seq_from k tasks) -> k <= fst e < k + List.length tasks.
Proof.
  induction tasks as [|a r IH]; intros k e; simpl; [contradiction|].
  rewrite in_app_iff, in_map_iff. intros [[x [<- _]]|H]; simpl; [lia|].
  apply IH in H. lia.
Qed.

Theorem sequential_interleaving tasks : interleaving tasks (sequential tasks).
Proof.
  split.
  - intros e H. apply seq_from_bound in H. lia.
  - intros t Lt. unfold sequential. rewrite events_of_seq_from. simpl. rewrite Nat.sub_0_r. reflexivity.
Qed.

(* per-task results: any function of the responses that is equivariant under renaming *)
Section Results.
Variables memo env : Z -> Z.
Variable R : Type.
Variable result : nat -> list resp -> R.          (* what method checker t computes from what it read *)
Variable rename : (resp -> resp) -> R -> R.       (* action of a symbol-id renaming on results *)
Hypothesis result_equivariant : forall t f rs, result t (map f rs) = rename f (result t rs).

Theorem results_agree tasks ev1 ev2 s0 r1 f1 r2 f2 :
  NoDup (syms s0) ->
  interleaving tasks ev1 -> interleaving tasks ev2 ->
  exec memo env ev1 s0 = (r1, f1) -> exec memo env ev2 s0 = (r2, f2) ->
  forall t, t < List.length tasks ->
    result t (events_of t r2) = rename (ren (syms f1) (syms f2)) (result t (events_of t r1)).
Proof.
  intros ND I1 I2 E1 E2 t Lt.
  destruct (confluence memo env tasks ev1 ev2 s0 r1 f1 r2 f2 ND I1 I2 E1 E2) as [_ [_ [_ [_ [_ H]]]]].
  rewrite <- (H t Lt). apply result_equivariant.
Qed.
End Results.

(* ---------------------------------------------------------------- micro-step machine: split Add *)
Section Micro.
Variables memo env : Z -> Z.

Lemma pend_set_same p t v : pend_set p t v t = v.
Proof. unfold pend_set. rewrite Nat.eqb_refl. reflexivity. Qed.

(* one Add executed as lookup immediately followed by the same task's insert = the atomic AIntern *)
Lemma micro_add_atomic s p t n r :
  mexec memo env ((t, MLook n) :: (t, MIns n) :: r) s p =
  (let rest := mexec memo env r (snd (step memo env s (AIntern n))) (pend_set p t (index n (syms s))) in
   ((t, fst (step memo env s (AIntern n))) :: fst rest, snd rest)).
Proof.
  cbn [mexec mstep fst snd]. rewrite pend_set_same.
  cbn [step]. unfold intern.
  destruct (index n (syms s)) as [i|] eqn:E; cbn [fst snd]; reflexivity.
Qed.

Lemma exec_cons t a r s :
  exec memo env ((t, a) :: r) s =
  ((t, fst (step memo env s a)) :: fst (exec memo env r (snd (step memo env s a))),
   snd (exec memo env r (snd (step memo env s a)))).
Proof.
  cbn [exec]. destruct (step memo env s a) as [x s1]. cbn [fst snd].
  destruct (exec memo env r s1) as [xs s2]. reflexivity.
Qed.

Lemma mexec_expand ev : forall s p, mexec memo env (expand ev) s p = exec memo env ev s.
Proof.
  induction ev as [|[t a] r IH]; intros s p; [reflexivity|].
  rewrite exec_cons.
  destruct a as [d|n|k|k].
  - cbn [expand mexec mstep fst snd]. rewrite IH. reflexivity.
  - cbn [expand]. rewrite micro_add_atomic. cbv zeta. rewrite IH. reflexivity.
  - cbn [expand mexec mstep fst snd]. rewrite IH. reflexivity.
  - cbn [expand mexec mstep fst snd]. rewrite IH. reflexivity.
Qed.

(* an intern_atomic micro schedule is the expansion of its collapse *)
Lemma atomic_expand_len : forall k mev, List.length mev <= k ->
  intern_atomic_b mev = true -> mev = expand (collapse mev).
Proof.
  induction k as [|k IH]; intros mev L A.
  - destruct mev; [reflexivity|simpl in L; lia].
  - destruct mev as [|[t m] r]; [reflexivity|].
    destruct m as [a|n|n].
    + destruct a as [d|n|c|c]; cbn [intern_atomic_b] in A; try discriminate;
        cbn [collapse expand]; f_equal; apply IH; simpl in L; try lia; assumption.
    + cbn [intern_atomic_b] in A. destruct r as [|[t' m'] r']; [discriminate|].
      destruct m' as [a'|n'|n']; try discriminate.
      apply andb_prop in A. destruct A as [A A3]. apply andb_prop in A. destruct A as [A1 A2].
      apply Nat.eqb_eq in A1. apply Z.eqb_eq in A2. subst t' n'.
      cbn [collapse expand]. f_equal. f_equal. apply IH; [simpl in L; lia|assumption].
    + cbn [intern_atomic_b] in A. discriminate.
Qed.

Theorem mexec_atomic mev s p :
  intern_atomic mev -> mexec memo env mev s p = exec memo env (collapse mev) s.
Proof.
  intros A. rewrite (atomic_expand_len (List.length mev) mev (le_n _) A) at 1. apply mexec_expand.
Qed.

Lemma expand_atomic ev : intern_atomic (expand ev).
Proof.
  unfold intern_atomic. induction ev as [|[t a] r IH]; [reflexivity|].
  destruct a as [d|n|k|k]; cbn [expand intern_atomic_b]; try assumption.
  rewrite Nat.eqb_refl, Z.eqb_refl. assumption.
Qed.

Lemma collapse_expand ev : collapse (expand ev) = ev.
Proof.
  induction ev as [|[t a] r IH]; [reflexivity|].
  destruct a as [d|n|k|k]; cbn [expand collapse]; rewrite IH; reflexivity.
Qed.

(* confluence with the atomicity of interning as an explicit hypothesis on the micro schedules *)
Theorem confluence_intern_atomic tasks mev1 mev2 s0 p1 p2 r1 f1 r2 f2 :
  NoDup (syms s0) ->
  intern_atomic mev1 -> intern_atomic mev2 ->
  interleaving tasks (collapse mev1) -> interleaving tasks (collapse mev2) ->
  mexec memo env mev1 s0 p1 = (r1, f1) -> mexec memo env mev2 s0 p2 = (r2, f2) ->
  Permutation (diags f1) (diags f2) /\
  (forall n, In n (syms f1) <-> In n (syms f2)) /\ NoDup (syms f1) /\ NoDup (syms f2) /\
  (forall k, In k (cache f1) <-> In k (cache f2)) /\
  (forall t, t < List.length tasks ->
     map (ren (syms f1) (syms f2)) (events_of t r1) = events_of t r2).
Proof.
  intros ND A1 A2 I1 I2 E1 E2.
  rewrite (mexec_atomic _ _ _ A1) in E1. rewrite (mexec_atomic _ _ _ A2) in E2.
  exact (confluence memo env tasks _ _ s0 r1 f1 r2 f2 ND I1 I2 E1 E2).
Qed.
End Micro.

(* without the hypothesis: a well-formed schedule of the split Add in which the two halves of task 0's
   Add are separated by task 1's lookup.  Both tasks miss, both insert: the name is in the table twice,
   task 0 holds id 0 and task 1 id 1 for the SAME name; when task 1 interns the name again (declares a
   local under the id it got, then looks the local up) it receives id 0 - a different id. *)
Definition split_tasks : list (list action) := [ [AIntern 7%Z]; [AIntern 7%Z; AIntern 7%Z] ].
Definition split_sched : list (nat * maction) :=
  [ (0, MLook 7%Z); (1, MLook 7%Z); (0, MIns 7%Z); (1, MIns 7%Z); (1, MLook 7%Z); (1, MIns 7%Z) ].
Definition shared0 : shared := {| diags := []; syms := []; cache := [] |}.

Lemma NoDup_77 : ~ NoDup [7%Z; 7%Z].
Proof. intros H. inversion H as [|? ? N _]; subst. apply N. left. reflexivity. Qed.

Theorem nonatomic_intern_refuted :
  exists tasks mev,
    split_wf_b [] mev = true /\ interleaving tasks (collapse mev) /\ ~ intern_atomic mev /\
    forall memo env,
      let run := mexec memo env mev shared0 pend0 in
      let seq := exec memo env (sequential tasks) shared0 in
      events_of 0 (fst run) = [RId 0] /\ events_of 1 (fst run) = [RId 1; RId 0] /\
      ~ NoDup (syms (snd run)) /\
      events_of 0 (fst seq) = [RId 0] /\ events_of 1 (fst seq) = [RId 0; RId 0] /\
      NoDup (syms (snd seq)).
Proof.
  exists split_tasks, split_sched.
  split; [vm_compute; reflexivity|]. split.
  { split.
    - intros e H. vm_compute in H. cbn. intuition (subst; cbn; lia).
    - intros t Lt. destruct t as [|[|t]]; [reflexivity|reflexivity|cbn in Lt; lia]. }
  split; [unfold intern_atomic; vm_compute; discriminate|].
  intros memo env. cbv zeta.
  repeat split; try (vm_compute; reflexivity).
  - vm_compute. exact NoDup_77.
  - vm_compute. constructor; [intros []|constructor].
Qed.
